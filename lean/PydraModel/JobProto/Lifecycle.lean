import PydraModel.JobProto.CrashSafe
/-
C35 / C13 machinery: the post-conditions of ONE call of `run` (lifecycle consistency, hook counts, failure
recording), their cheap decidable versions on representative worlds, and the lifting from representatives to
every initial world (`exec_base`).
-/
namespace PydraModel.JobProto

/-! ### From representatives to all worlds -/

theorem exec_base (p : Prog) (env : Env) (f : Fault) (w0 : World) :
    let r := exec p env f w0
    let rb := exec p env f ⟨normC w0.core, []⟩
    r.2 = rb.2 ∧ r.1.evs = rb.1.evs ++ w0.evs ∧ r.1.core.dir = rb.1.core.dir ∧
    r.1.core.result = rb.1.core.result ∧ r.1.core.info = rb.1.core.info ∧ r.1.core.cwd = rb.1.core.cwd ∧
    r.1.core.resVar = rb.1.core.resVar ∧ r.1.core.jobErrored = rb.1.core.jobErrored ∧
    normL r.1.core.jobLock = rb.1.core.jobLock ∧ normL r.1.core.saveLock = rb.1.core.saveLock := by
  obtain ⟨hc, he, h2⟩ := exec_reduce p env f w0
  have e1 := congrArg Core.dir hc
  have e2 := congrArg Core.result hc
  have e3 := congrArg Core.info hc
  have e4 := congrArg Core.cwd hc
  have e5 := congrArg Core.resVar hc
  have e6 := congrArg Core.jobErrored hc
  have e7 := congrArg Core.jobLock hc
  have e8 := congrArg Core.saveLock hc
  exact ⟨h2, he, e1, e2, e3, e4, e5, e6, e7, e8⟩

/-! ### Files recorded in the event log -/

/-- the latest event that decides the state of `_job.pklz`, if any -/
def jobDecided : List Ev → Option FileSt
  | [] => none
  | .jobWrite st :: _ => some st
  | .dirCleared :: _ => some .absent
  | _ :: es => jobDecided es

def errDecided : List Ev → Option FileSt
  | [] => none
  | .errWrite st :: _ => some st
  | .dirCleared :: _ => some .absent
  | _ :: es => errDecided es

theorem jobFileAfter_append (x : FileSt) (a b : List Ev) :
    jobFileAfter x (a ++ b) = (jobDecided a).getD (jobFileAfter x b) := by
  induction a with
  | nil => rfl
  | cons e a ih => cases e <;> simp [jobFileAfter, jobDecided, ih]

theorem errFileAfter_append (x : FileSt) (a b : List Ev) :
    errFileAfter x (a ++ b) = (errDecided a).getD (errFileAfter x b) := by
  induction a with
  | nil => rfl
  | cons e a ih => cases e <;> simp [errFileAfter, errDecided, ih]

/-! ### C35: lifecycle consistency of one call -/

def ResFile.isComplete : ResFile → Bool
  | .complete _ => true
  | _ => false

/-- After the call: the working directory is what it was, this submission's info file is gone, and the job
    directory either was not touched by the call or holds a complete result and a complete job record. -/
def LifecycleOK (w0 : World) (r : World × Ctl) : Prop :=
  r.1.core.cwd = w0.core.cwd ∧ r.1.core.info = false ∧
  ((r.1.core.dir = w0.core.dir ∧ r.1.core.result = w0.core.result ∧
      ∀ x, jobFileAfter x r.1.evs = jobFileAfter x w0.evs ∧ errFileAfter x r.1.evs = errFileAfter x w0.evs) ∨
   (r.1.core.dir = true ∧ r.1.core.result.isComplete = true ∧ ∀ x, jobFileAfter x r.1.evs = .complete))

/-- the same on a representative with empty log (decidable, cheap) -/
def LifecycleBase (c0 : Core) (rb : World × Ctl) : Prop :=
  rb.1.core.cwd = c0.cwd ∧ rb.1.core.info = false ∧
  ((rb.1.core.dir = c0.dir ∧ rb.1.core.result = c0.result ∧ jobDecided rb.1.evs = none ∧ errDecided rb.1.evs = none) ∨
   (rb.1.core.dir = true ∧ rb.1.core.result.isComplete = true ∧ jobDecided rb.1.evs = some .complete))

instance (c0 : Core) (rb : World × Ctl) : Decidable (LifecycleBase c0 rb) := by unfold LifecycleBase; infer_instance

theorem lifecycle_lift (p : Prog) (env : Env) (f : Fault) (w0 : World)
    (h : LifecycleBase (normC w0.core) (exec p env f ⟨normC w0.core, []⟩)) :
    LifecycleOK w0 (exec p env f w0) := by
  obtain ⟨_, he, hd, hr, hi, hc, _, _, _, _⟩ := exec_base p env f w0
  obtain ⟨b1, b2, b3⟩ := h
  refine ⟨hc.trans b1, hi.trans b2, ?_⟩
  rcases b3 with ⟨c1, c2, c3, c4⟩ | ⟨c1, c2, c3⟩
  · left
    refine ⟨hd.trans c1, hr.trans c2, fun x => ?_⟩
    rw [he, jobFileAfter_append, errFileAfter_append, c3, c4]
    exact ⟨rfl, rfl⟩
  · right
    refine ⟨hd.trans c1, by rw [hr]; exact c2, fun x => ?_⟩
    rw [he, jobFileAfter_append, c3]
    rfl

/-- positions inside the `try:` body or the `except` handler of a `try/except/finally` (where the `finally`
    block still runs after an exception) -/
def Prog.guardedPositions : Prog → Nat → List Nat
  | .skip, _ => []
  | .act _, _ => []
  | .seq p q, i => p.guardedPositions i ++ q.guardedPositions (i + p.size)
  | .tryExceptFinally _ b e f, i =>
    List.range' i (b.size + e.size) ++ f.guardedPositions (i + b.size + e.size)
  | .withLock _ b, i => b.guardedPositions (i + 1)
  | .ifNotRerun b, i => b.guardedPositions i
  | .ifAuditProv b, i => b.guardedPositions i

/-- positions of the `try:` body alone -/
def Prog.tryBodyPositions : Prog → Nat → List Nat
  | .skip, _ => []
  | .act _, _ => []
  | .seq p q, i => p.tryBodyPositions i ++ q.tryBodyPositions (i + p.size)
  | .tryExceptFinally _ b e f, i => List.range' i b.size ++ f.tryBodyPositions (i + b.size + e.size)
  | .withLock _ b, i => b.tryBodyPositions (i + 1)
  | .ifNotRerun b, i => b.tryBodyPositions i
  | .ifAuditProv b, i => b.tryBodyPositions i

/-- FINITE CHECK (per skeleton, per position): an exception injected at position `i` (any kind), in any
    representative world, any flags and task behaviour, leaves the lifecycle consistent -/
def LifecycleAt (p : Prog) (ac : Bool) (i : Nat) : Prop :=
  ∀ c0 ∈ baseCores, ∀ env ∈ allEnvs ac, ∀ base ∈ [false, true],
    LifecycleBase c0 (exec p env (.raiseAt i base) ⟨c0, []⟩)

instance (p : Prog) (ac : Bool) (i : Nat) : Decidable (LifecycleAt p ac i) := by unfold LifecycleAt; infer_instance

/-- without injected faults (the body may still raise) -/
def LifecycleNoFault (p : Prog) (ac : Bool) : Prop :=
  ∀ c0 ∈ baseCores, ∀ env ∈ allEnvs ac, LifecycleBase c0 (exec p env .none ⟨c0, []⟩)

instance (p : Prog) (ac : Bool) : Decidable (LifecycleNoFault p ac) := by unfold LifecycleNoFault; infer_instance

theorem lifecycle_of_check (p : Prog) (ac : Bool) (f : Fault)
    (hchk : ∀ c0 ∈ baseCores, ∀ env ∈ allEnvs ac, LifecycleBase c0 (exec p env f ⟨c0, []⟩))
    (w0 : World) (h0 : w0.core.Initial) (env : Env) (h1 : env.auditChdir = ac) :
    LifecycleOK w0 (exec p env f w0) :=
  lifecycle_lift p env f w0
    (hchk _ (initial_normC_mem w0.core h0) env (h1 ▸ mem_allEnvs env))

/-- the injection check for one task behaviour and one exception kind, at every position of the `try:` body
    (split so that no single evaluation is long) -/
def LifecycleTryBody (p : Prog) (ac : Bool) (bf : Option Bool) (base : Bool) : Prop :=
  ∀ i ∈ p.tryBodyPositions 0, ∀ c0 ∈ baseCores, ∀ rr ∈ [false, true], ∀ pv ∈ [false, true],
    LifecycleBase c0 (exec p ⟨rr, pv, bf, ac⟩ (.raiseAt i base) ⟨c0, []⟩)

instance (p : Prog) (ac : Bool) (bf : Option Bool) (base : Bool) : Decidable (LifecycleTryBody p ac bf base) := by
  unfold LifecycleTryBody; infer_instance

theorem mem_allEnvs_cases {ac : Bool} {env : Env} (h : env ∈ allEnvs ac) :
    env.rerun ∈ [false, true] ∧ env.prov ∈ [false, true] ∧ env.auditChdir = ac ∧
    (env.bodyFails = none ∨ env.bodyFails = some false ∨ env.bodyFails = some true) := by
  obtain ⟨rr, pv, bf, ac'⟩ := env
  simp only [allEnvs, List.mem_flatMap, List.mem_map] at h
  obtain ⟨rr', hrr, pv', hpv, bf', hbf, heq⟩ := h
  cases heq
  simp only [List.mem_cons, List.not_mem_nil, or_false] at hbf
  exact ⟨hrr, hpv, rfl, hbf⟩

theorem lifecycleAt_of_parts (p : Prog) (ac : Bool)
    (h : ∀ bf ∈ [none, some false, some true], ∀ base ∈ [false, true], LifecycleTryBody p ac bf base) :
    ∀ i ∈ p.tryBodyPositions 0, LifecycleAt p ac i := by
  intro i hi c0 hc0 env henv base hbase
  obtain ⟨hrr, hpv, hac, hbf⟩ := mem_allEnvs_cases henv
  obtain ⟨rr, pv, bf, ac'⟩ := env
  simp only at hrr hpv hac hbf
  subst hac
  have hbf' : bf ∈ [none, some false, some true] := by
    rcases hbf with rfl | rfl | rfl <;> simp
  exact h bf hbf' base hbase i hi c0 hc0 rr hrr pv hpv

/-! ### C35: hooks -/

def countHook (h : Hook) (evs : List Ev) : Nat := evs.count (.hook h)

theorem countHook_append (h : Hook) (a b : List Ev) : countHook h (a ++ b) = countHook h a + countHook h b := by
  simp [countHook, List.count_append]

/-- in one fault-free call: `pre_run_task` and `post_run_task` are each called exactly as often as the task body
    is entered (0 or 1 times; 0 exactly on a cache hit: no rerun and a complete good result present), `pre_run`
    once, `post_run` at most once; after the call the next submission again finds an initial shape -/
def HooksBase (env : Env) (c0 : Core) (rb : World × Ctl) : Prop :=
  countHook .preRunTask rb.1.evs = execsIn rb.1.evs ∧ countHook .postRunTask rb.1.evs = execsIn rb.1.evs ∧
  execsIn rb.1.evs ≤ 1 ∧ countHook .preRun rb.1.evs = 1 ∧ countHook .postRun rb.1.evs ≤ 1 ∧
  (execsIn rb.1.evs = 0 ↔ (env.rerun = false ∧ c0.result.isGood = true ∧ c0.dir = true)) ∧
  (nextJobC rb.1.core).Initial

instance (env : Env) (c0 : Core) (rb : World × Ctl) : Decidable (HooksBase env c0 rb) := by
  unfold HooksBase; infer_instance

def HooksNoFault (p : Prog) (ac : Bool) : Prop :=
  ∀ c0 ∈ baseCores, ∀ env ∈ allEnvs ac, HooksBase env c0 (exec p env .none ⟨c0, []⟩)

instance (p : Prog) (ac : Bool) : Decidable (HooksNoFault p ac) := by unfold HooksNoFault; infer_instance

/-- a history of fault-free submissions from one process (a new `Job` object each time) -/
def runHistory (p : Prog) : List Env → World → World
  | [], w => w
  | env :: envs, w => runHistory p envs (nextJob (exec p env .none w).1)

theorem initial_of_normC (c : Core) (h : (normC c).Initial) (hj : c.jobLock.noLiveHolder = true)
    (hs : c.saveLock.noLiveHolder = true) : c.Initial := by
  obtain ⟨h1, _, _, h4, h5, h6, h7, h8, h9⟩ := h
  exact ⟨h1, hj, hs, h4, h5, h6, h7, h8, h9⟩

theorem normL_noLive (l : LockSt) (h : (normL l).noLiveHolder = true) : l.noLiveHolder = true := by
  cases l <;> simp_all [normL, LockSt.noLiveHolder]

/-- one fault-free call from an initial world: hook counts grow with the executions, and the next submission
    finds an initial world again -/
theorem hooks_step (p : Prog) (ac : Bool) (hH : HooksNoFault p ac) (w0 : World) (h0 : w0.core.Initial) (env : Env)
    (h1 : env.auditChdir = ac) :
    let w1 := nextJob (exec p env .none w0).1
    w1.core.Initial ∧
    countHook .preRunTask w1.evs - countHook .preRunTask w0.evs = w1.execs - w0.execs ∧
    countHook .postRunTask w1.evs - countHook .postRunTask w0.evs = w1.execs - w0.execs ∧
    countHook .preRunTask w0.evs ≤ countHook .preRunTask w1.evs ∧
    countHook .postRunTask w0.evs ≤ countHook .postRunTask w1.evs ∧ w0.execs ≤ w1.execs := by
  obtain ⟨_, he, hd, hr, hi, hc, hv, hje, hjl, hsl⟩ := exec_base p env .none w0
  obtain ⟨b1, b2, _, _, _, _, b7⟩ := hH _ (initial_normC_mem w0.core h0) env (h1 ▸ mem_allEnvs env)
  refine ⟨?_, ?_, ?_, ?_, ?_, ?_⟩
  · -- initial again
    obtain ⟨i1, i2, i3, i4, i5, i6, i7, i8, i9⟩ := b7
    refine ⟨?_, ?_, ?_, ?_, ?_, rfl, rfl, rfl, rfl⟩
    · show (exec p env .none w0).1.core.result.legal = true
      rw [hr]; exact i1
    · show (exec p env .none w0).1.core.jobLock.noLiveHolder = true
      apply normL_noLive; rw [hjl]; exact i2
    · show (exec p env .none w0).1.core.saveLock.noLiveHolder = true
      apply normL_noLive; rw [hsl]; exact i3
    · show (exec p env .none w0).1.core.info = false
      rw [hi]; exact i4
    · show (exec p env .none w0).1.core.cwd = .orig
      rw [hc]; exact i5
  all_goals
    simp only [nextJob, World.execs]
    rw [he]
    simp only [countHook_append, execsIn_append]
    omega

/-- UNBOUNDED in the history length: over any history of fault-free submissions (cached or not, failing or
    not, rerun or not) from an initial world, `pre_run_task` and `post_run_task` have each been called exactly
    once per entered task body -/
theorem hooks_history (p : Prog) (ac : Bool) (hH : HooksNoFault p ac) :
    ∀ (envs : List Env), (∀ env ∈ envs, env.auditChdir = ac) → ∀ (w0 : World), w0.core.Initial →
      let w := runHistory p envs w0
      w.core.Initial ∧
      countHook .preRunTask w.evs - countHook .preRunTask w0.evs = w.execs - w0.execs ∧
      countHook .postRunTask w.evs - countHook .postRunTask w0.evs = w.execs - w0.execs ∧
      countHook .preRunTask w0.evs ≤ countHook .preRunTask w.evs ∧
      countHook .postRunTask w0.evs ≤ countHook .postRunTask w.evs ∧ w0.execs ≤ w.execs := by
  intro envs
  induction envs with
  | nil => intro _ w0 h0; exact ⟨h0, by simp [runHistory], by simp [runHistory], Nat.le_refl _, Nat.le_refl _, Nat.le_refl _⟩
  | cons env envs ih =>
    intro hall w0 h0
    obtain ⟨s1, s2, s3, s4, s5, s6⟩ := hooks_step p ac hH w0 h0 env (hall env List.mem_cons_self)
    obtain ⟨t1, t2, t3, t4, t5, t6⟩ :=
      ih (fun e he => hall e (List.mem_cons_of_mem _ he)) (nextJob (exec p env .none w0).1) s1
    simp only [runHistory]
    exact ⟨t1, by omega, by omega, by omega, by omega, by omega⟩

end PydraModel.JobProto
