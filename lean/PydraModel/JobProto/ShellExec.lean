import PydraModel.Gen.ShellExec
import PydraModel.JobProto.Model
/-
The shell executor (`Native.execute`): outcome as a function of the command's return code `rc : Int`
(`subprocess.run(...).returncode`: the exit status, or `-N` when the command was killed by signal `N`), with the
failure test regenerated from the source (`Gen.ShellExec.nativeRcTest`).
-/
namespace PydraModel.JobProto

inductive ExecOutcome
  | raised                 -- `raise RuntimeError("Error running …")`
  | returned (rc : Int)    -- the dict with return_code, stdout, stderr is returned; the task goes on to collect outputs
deriving DecidableEq, Repr

def shellExecute (t : RcTest) (rc : Int) : ExecOutcome := if t.eval rc then .raised else .returned rc

/-- what the task body of a shell task does in the job protocol: it raises (an `Exception`) iff the executor does -/
def shellBody (t : RcTest) (rc : Int) : Option Bool := if t.eval rc then some false else none

/-- FINITE CHECK on the regenerated test: it satisfies the sufficient syntactic condition -/
theorem nativeRcTest_failsOnNonzero : Gen.ShellExec.nativeRcTest.failsOnNonzero = true := by decide

/-- UNBOUNDED in `rc`: every non-zero return code — positive exit statuses and negative ones (death by
    signal: -11 SIGSEGV, -9 SIGKILL, -6 SIGABRT, …) — makes `Native.execute` raise; it never returns -/
theorem shellExecute_nonzero (rc : Int) (h : rc ≠ 0) : shellExecute Gen.ShellExec.nativeRcTest rc = .raised := by
  simp [shellExecute, RcTest.failsOnNonzero_sound _ nativeRcTest_failsOnNonzero rc h]

theorem shellExecute_zero : shellExecute Gen.ShellExec.nativeRcTest 0 = .returned 0 := by decide

theorem shellBody_nonzero (rc : Int) (h : rc ≠ 0) : shellBody Gen.ShellExec.nativeRcTest rc = some false := by
  simp [shellBody, RcTest.failsOnNonzero_sound _ nativeRcTest_failsOnNonzero rc h]

/-- the mutated comparison `rc > 0` does not satisfy the condition, with the witness SIGSEGV -/
example : (RcTest.gt 0).failsOnNonzero = false := by decide
example : shellExecute (.gt 0) (-11) = .returned (-11) := by decide

end PydraModel.JobProto
