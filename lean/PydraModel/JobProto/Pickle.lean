/-
The abstraction of `pickle` / `cloudpickle` streams named in DESIGN §4: a stream is a sequence of
self-delimiting frames (opcode, length, payload) terminated by the `STOP` opcode; the loader reads frames until
`STOP` and fails (`UnpicklingError` / `EOFError`, here `truncated`) when the data ends first.

`prefix_free`: no strict prefix of an encoded stream decodes — for every frame list of every length
(induction over the frame list).  This is what makes `load_result` treat a result file that is still being
written, or was torn by a crash, as "no result" instead of returning a partial one.
Core Lean only.
-/
namespace PydraModel.JobProto.Pickle

abbrev Byte := Nat

/-- pickle's `STOP` opcode is `.` -/
def STOP : Byte := 46

structure Frame where
  op : Byte
  payload : List Byte
deriving DecidableEq, Repr

inductive DecErr | truncated
deriving DecidableEq, Repr

def encFrame (f : Frame) : List Byte := f.op :: f.payload.length :: f.payload

def encode (fs : List Frame) : List Byte := fs.flatMap encFrame ++ [STOP]

/-- the loader: frames until `STOP` (whatever follows `STOP` is not read) -/
def decode : List Byte → Except DecErr (List Frame)
  | [] => .error .truncated
  | op :: rest =>
    if op = STOP then .ok []
    else match rest with
      | [] => .error .truncated
      | n :: body =>
        if body.length < n then .error .truncated
        else match decode (body.drop n) with
          | .ok fs => .ok (⟨op, body.take n⟩ :: fs)
          | .error e => .error e
termination_by l => l.length
decreasing_by simp; omega

/-- opcodes of data frames differ from `STOP` -/
def WellFormed (fs : List Frame) : Prop := ∀ f ∈ fs, f.op ≠ STOP

theorem encode_cons (f : Frame) (fs : List Frame) :
    encode (f :: fs) = f.op :: f.payload.length :: (f.payload ++ encode fs) := by
  simp [encode, encFrame, List.append_assoc]

theorem decode_frame (op : Byte) (payload rest : List Byte) (h : op ≠ STOP) :
    decode (op :: payload.length :: (payload ++ rest)) =
      match decode rest with
      | .ok fs => .ok (⟨op, payload⟩ :: fs)
      | .error e => .error e := by
  rw [decode]
  simp only [h, if_false, List.length_append, List.drop_left', List.take_left']
  rw [if_neg (by omega)]

theorem roundtrip (fs : List Frame) (h : WellFormed fs) : decode (encode fs) = .ok fs := by
  induction fs with
  | nil => simp [encode, decode]
  | cons f fs ih =>
    rw [encode_cons, decode_frame _ _ _ (h f List.mem_cons_self), ih (fun g hg => h g (List.mem_cons_of_mem _ hg))]

/-- a strict prefix -/
def StrictPrefix (p l : List Byte) : Prop := p <+: l ∧ p ≠ l

theorem prefix_free (fs : List Frame) (h : WellFormed fs) :
    ∀ p, StrictPrefix p (encode fs) → decode p = .error .truncated := by
  induction fs with
  | nil =>
    intro p ⟨hp, hne⟩
    have : encode [] = [STOP] := rfl
    rw [this] at hp hne
    match p, hp, hne with
    | [], _, _ => simp [decode]
    | [x], hp, hne =>
      have := List.IsPrefix.eq_of_length hp rfl
      exact absurd this hne
    | x :: y :: t, hp, _ =>
      have := hp.length_le
      simp at this
  | cons f fs ih =>
    intro p ⟨hp, hne⟩
    have hop : f.op ≠ STOP := h f List.mem_cons_self
    have hfs : WellFormed fs := fun g hg => h g (List.mem_cons_of_mem _ hg)
    rw [encode_cons] at hp hne
    match p, hp, hne with
    | [], _, _ => simp [decode]
    | [x], hp, _ =>
      have hx : x = f.op := by
        obtain ⟨t, ht⟩ := hp
        simpa using (List.cons.inj ht).1
      rw [decode]; simp [hx, hop]
    | x :: n :: q, hp, hne =>
      obtain ⟨t, ht⟩ := hp
      simp only [List.cons_append, List.cons.injEq] at ht
      obtain ⟨hx, hn, hq⟩ := ht
      subst hx hn
      -- q ++ t = payload ++ encode fs
      by_cases hlen : q.length < f.payload.length
      · rw [decode]; simp [hop, hlen]
      · -- q = payload ++ q' with q' a strict prefix of `encode fs`
        have hle : f.payload.length ≤ q.length := Nat.le_of_not_lt hlen
        have hq1 : q.take f.payload.length = f.payload := by
          have := congrArg (List.take f.payload.length) hq
          rw [List.take_append_of_le_length hle, List.take_left'] at this
          · exact this
          · rfl
        have hq2 : q.drop f.payload.length ++ t = encode fs := by
          have := congrArg (List.drop f.payload.length) hq
          rw [List.drop_append_of_le_length hle, List.drop_left'] at this
          · exact this
          · rfl
        have hsp : StrictPrefix (q.drop f.payload.length) (encode fs) := by
          refine ⟨⟨t, hq2⟩, ?_⟩
          intro heq
          apply hne
          have : q = f.payload ++ encode fs := by
            rw [← List.take_append_drop f.payload.length q, hq1, heq]
          rw [this]
        have hq' : q = f.payload ++ q.drop f.payload.length := by
          conv => lhs; rw [← List.take_append_drop f.payload.length q, hq1]
        rw [hq', decode_frame _ _ _ hop, ih hfs _ hsp]

end PydraModel.JobProto.Pickle
