/-
Engine `JobProto`, part `CacheHist` (DESIGN §5.4, property C11): histories of submissions against cache
directories.

Code mirrored (pydra/engine/job.py, result.py, submitter.py, as of the working tree — i.e. after the repairs
D8 "load_result continues after an incomplete directory" and "`self._errored = False` after the cached-result
test"):

* `Job.all_caches = [cache_root] + readonly_caches`                      → `Sub.locs`
* `load_result(checksum, all_caches)`                                     → `lookupWith`
     for each location in order: directory absent → next; directory present with a non-empty loadable
     `_result.pklz` → return it (errored or not); directory present without one (leftover of a killed run,
     empty or torn result file) → next location (`skipIncomplete = true`; the pinned commit returned `None`
     here: `skipIncomplete = false`, kept only for the regression witness)
* `Job.run`: `if not rerun: result = self.result(); if result is not None and not result.errored: return`
                                                                          → `cachedTest`, `hit`
  otherwise `_populate_filesystem` (rmtree + mkdir of `cache_root/checksum`), body, `save(result)` in `finally`
  (an errored result when the body raised)                                → `execute`
* `Submitter.__call__` returns `job.result()` read back after the run     → the `Option Res` output of `step`
* `WorkflowTask._run` → `Submitter.expand_workflow`: node jobs are run one after the other in the same
  `cache_root` / `readonly_caches` with `rerun and self.propagate_rerun`; the first failing node makes the
  workflow job fail                                                       → `runNodes`, `submitWf`

Identities: a checksum starts with the task kind (`python-…`, `workflow-…`), so workflow identities and node
identities are disjoint by construction (`Key`).  The body of a task is a parameter: `World.body n i` is the
outcome of the `i`-th execution (0-based) of task `n`, so flaky tasks are covered; `World.wval n` is the
value a workflow returns once all of its nodes succeeded.

Core Lean only (the driver imports this file).
-/
namespace PydraModel.JobProto.CacheHist

abbrev Loc := Nat

/-- cache identity (checksum) -/
inductive Key | task (n : Nat) | wf (n : Nat)
deriving DecidableEq, Repr

/-- content of a complete `_result.pklz` -/
inductive Res | ok (v : Nat) | err
deriving DecidableEq, Repr

/-- what `location / checksum` looks like -/
inductive Cell | absent | incomplete | complete (r : Res)
deriving DecidableEq, Repr

abbrev Store := Loc → Key → Cell

def Store.empty : Store := fun _ _ => .absent

def Store.set (s : Store) (l : Loc) (k : Key) (c : Cell) : Store :=
  fun l' k' => if l' = l ∧ k' = k then c else s l' k'

/-- `load_result(checksum, locations)` -/
def lookupWith (skipIncomplete : Bool) (s : Store) (k : Key) : List Loc → Option Res
  | [] => none
  | l :: ls =>
    match s l k with
    | .complete r => some r
    | .incomplete => if skipIncomplete then lookupWith skipIncomplete s k ls else none
    | .absent => lookupWith skipIncomplete s k ls

/-- one `Job.run` as seen by the instrumentation: which identity, into which root, with which flag, what the
    cached-result test saw (`none` also when the test is skipped because of `rerun`), did the body run -/
structure Event where
  key : Key
  root : Loc
  rerun : Bool
  found : Option Res
  executed : Bool
deriving DecidableEq, Repr

structure World where
  body : Nat → Nat → Res
  wval : Nat → Nat

/-- configuration of one submission: `Submitter(cache_root, readonly_caches)(task, rerun=…)` -/
structure Sub where
  root : Loc
  ro : List Loc
  rerun : Bool
deriving DecidableEq, Repr

def Sub.locs (sb : Sub) : List Loc := sb.root :: sb.ro

structure St where
  store : Store
  execs : Key → Nat          -- executions so far, per identity (all roots)
  log : List Event           -- newest first

def St.init : St := ⟨Store.empty, fun _ => 0, []⟩

/-- the cached-result test of `Job.run` -/
def cachedTest (skip : Bool) (st : St) (k : Key) (sb : Sub) : Option Res :=
  if sb.rerun then none else lookupWith skip st.store k sb.locs

/-- early `return result`: nothing is written -/
def hit (st : St) (k : Key) (sb : Sub) (v : Nat) : St :=
  { st with log := ⟨k, sb.root, sb.rerun, some (.ok v), false⟩ :: st.log }

/-- the execute branch: the job directory under `cache_root` is replaced by a complete result `r` -/
def execute (st : St) (k : Key) (sb : Sub) (found : Option Res) (r : Res) : St :=
  { store := st.store.set sb.root k (.complete r)
    execs := fun k' => if k' = k then st.execs k + 1 else st.execs k'
    log := ⟨k, sb.root, sb.rerun, found, true⟩ :: st.log }

/-- `Job.run` of a python/shell job; the result is what `run` returns / raises -/
def runTask (W : World) (skip : Bool) (st : St) (n : Nat) (sb : Sub) : St × Res :=
  match cachedTest skip st (.task n) sb with
  | some (.ok v) => (hit st (.task n) sb v, .ok v)
  | found =>
    let r := W.body n (st.execs (.task n))
    (execute st (.task n) sb found r, r)

/-- `expand_workflow`: node jobs in order, stop at the first failure -/
def runNodes (W : World) (skip : Bool) (sb : Sub) : St → List Nat → St × Bool
  | st, [] => (st, true)
  | st, n :: ns =>
    match runTask W skip st n sb with
    | (st1, .ok _) => runNodes W skip sb st1 ns
    | (st1, .err) => (st1, false)

/-- `Job.run` of a workflow job -/
def runWf (W : World) (skip : Bool) (st : St) (n : Nat) (nodes : List Nat) (sb : Sub) (propagate : Bool) :
    St × Res :=
  match cachedTest skip st (.wf n) sb with
  | some (.ok v) => (hit st (.wf n) sb v, .ok v)
  | found =>
    let r := runNodes W skip { sb with rerun := sb.rerun && propagate } st nodes
    let res := if r.2 then Res.ok (W.wval n) else Res.err
    (execute r.1 (.wf n) sb found res, res)

inductive Op
  | submit (n : Nat) (sb : Sub)
  | submitWf (n : Nat) (nodes : List Nat) (sb : Sub) (propagate : Bool)
  /-- a leftover incomplete job directory appears at `l / k` (a run killed after `_populate_filesystem`,
      possibly of another process that owns `l`); whatever was there is gone -/
  | plant (l : Loc) (k : Key)
deriving DecidableEq, Repr

/-- the final `job.result()` of `Submitter.__call__` (the in-memory `_errored` flag has been reset before an
    execution, so this is a plain look-up) -/
def readBack (skip : Bool) (st : St) (k : Key) (sb : Sub) : Option Res := lookupWith skip st.store k sb.locs

def step (W : World) (skip : Bool) (st : St) : Op → St × Option Res
  | .submit n sb => let r := runTask W skip st n sb; (r.1, readBack skip r.1 (.task n) sb)
  | .submitWf n nodes sb p => let r := runWf W skip st n nodes sb p; (r.1, readBack skip r.1 (.wf n) sb)
  | .plant l k => ({ st with store := st.store.set l k .incomplete }, none)

/-- a history: the operations with what each returned, and the final state -/
def trace (W : World) (skip : Bool) : St → List Op → List (Op × Option Res) × St
  | st, [] => ([], st)
  | st, op :: ops =>
    let r := step W skip st op
    let t := trace W skip r.1 ops
    ((op, r.2) :: t.1, t.2)

def run (W : World) (skip : Bool) (st : St) (ops : List Op) : St := (trace W skip st ops).2

/-! ### Reference semantics: an abstract cache `Loc → Key → Option Res` (only complete results exist) -/

abbrev ACache := Loc → Key → Option Res

def ACache.set (A : ACache) (l : Loc) (k : Key) (v : Option Res) : ACache :=
  fun l' k' => if l' = l ∧ k' = k then v else A l' k'

def alookup (A : ACache) (k : Key) : List Loc → Option Res
  | [] => none
  | l :: ls => match A l k with
    | some r => some r
    | none => alookup A k ls

structure ASt where
  cache : ACache
  execs : Key → Nat

def ASt.bump (a : ASt) (k : Key) : Key → Nat := fun k' => if k' = k then a.execs k + 1 else a.execs k'

/-- "if present, complete, not errored and not rerun then return it, else execute, store, return" -/
def specTask (W : World) (a : ASt) (n : Nat) (sb : Sub) : ASt × Res :=
  match (if sb.rerun then none else alookup a.cache (.task n) sb.locs) with
  | some (.ok v) => (a, .ok v)
  | _ =>
    let r := W.body n (a.execs (.task n))
    (⟨a.cache.set sb.root (.task n) (some r), a.bump (.task n)⟩, r)

def specNodes (W : World) (sb : Sub) : ASt → List Nat → ASt × Bool
  | a, [] => (a, true)
  | a, n :: ns =>
    match specTask W a n sb with
    | (a1, .ok _) => specNodes W sb a1 ns
    | (a1, .err) => (a1, false)

def specWf (W : World) (a : ASt) (n : Nat) (nodes : List Nat) (sb : Sub) (propagate : Bool) : ASt × Res :=
  match (if sb.rerun then none else alookup a.cache (.wf n) sb.locs) with
  | some (.ok v) => (a, .ok v)
  | _ =>
    let r := specNodes W { sb with rerun := sb.rerun && propagate } a nodes
    let res := if r.2 then Res.ok (W.wval n) else Res.err
    (⟨r.1.cache.set sb.root (.wf n) (some res), r.1.bump (.wf n)⟩, res)

def specStep (W : World) (a : ASt) : Op → ASt × Option Res
  | .submit n sb => let r := specTask W a n sb; (r.1, some r.2)
  | .submitWf n nodes sb p => let r := specWf W a n nodes sb p; (r.1, some r.2)
  | .plant l k => (⟨a.cache.set l k none, a.execs⟩, none)   -- a killed run loses the entry it was replacing

def specTrace (W : World) : ASt → List Op → List (Op × Option Res) × ASt
  | a, [] => ([], a)
  | a, op :: ops =>
    let r := specStep W a op
    let t := specTrace W r.1 ops
    ((op, r.2) :: t.1, t.2)

/-- abstraction: incomplete directories are invisible -/
def absCell : Cell → Option Res
  | .complete r => some r
  | _ => none

def abs (st : St) : ASt := ⟨fun l k => absCell (st.store l k), st.execs⟩

/-! ### Counting on the event log (for a fixed root `w` and identity `k`) -/

def execsAt (log : List Event) (w : Loc) (k : Key) : Nat :=
  log.countP (fun e => e.key = k ∧ e.root = w ∧ e.executed = true)

def rerunsAt (log : List Event) (w : Loc) (k : Key) : Nat :=
  log.countP (fun e => e.key = k ∧ e.root = w ∧ e.rerun = true)

def foundErrAt (log : List Event) (w : Loc) (k : Key) : Nat :=
  log.countP (fun e => e.key = k ∧ e.root = w ∧ e.found = some .err)

def plantsAt (ops : List Op) (w : Loc) (k : Key) : Nat :=
  ops.countP (fun o => o = .plant w k)

/-- root into which an operation writes (`none` for the environment move `plant`) -/
def Op.root? : Op → Option Loc
  | .submit _ sb => some sb.root
  | .submitWf _ _ sb _ => some sb.root
  | .plant _ _ => none

end PydraModel.JobProto.CacheHist
