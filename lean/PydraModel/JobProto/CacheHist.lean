/-
Engine `JobProto`, part `CacheHist` (DESIGN §5.4, property C11): histories of submissions against cache
directories.

Code mirrored (pydra/engine/job.py, result.py, submitter.py, as of the working tree — i.e. after the repairs
D8 "load_result continues after an incomplete directory" and "`self._errored = False` after the cached-result
test"):

* `Job.all_caches = [cache_root] + readonly_caches`                      → `Sub.locs`
* `load_result(checksum, all_caches)`                                     → `lookupWith`
     for each location in order: directory absent → next; directory present with a non-empty loadable
     `_result.pklz` → return it (errored or not); directory present without one (leftover of a killed run,
     empty or torn result file) → next location (`skipIncomplete = true`; the pinned commit returned `None`
     here: `skipIncomplete = false`, kept only for the regression witness)
* `Job.run`: `if not rerun: result = self.result(); if result is not None and not result.errored: return`
                                                                          → `cachedTest`, `hit`
  otherwise `_populate_filesystem` (rmtree + mkdir of `cache_root/checksum`), body, `save(result)` in `finally`
  (an errored result when the body raised)                                → `execute`
* `Submitter.__call__` returns `job.result()` read back after the run     → the `Option Res` output of `step`
* `WorkflowTask._run` → `Submitter.expand_workflow` (synchronous workers: every node job through
  `self.worker.run(job, rerun=rerun and self.propagate_rerun)`) and `WorkflowTask._run_async` →
  `Submitter.expand_workflow_async` (asynchronous workers: workflow nodes through
  `await self.worker.submit(job, rerun=rerun and self.propagate_rerun)` → `Job.run_async`, all other nodes through
  `self.worker.run(job, rerun=rerun and self.propagate_rerun)`): node jobs run in the same `cache_root` /
  `readonly_caches`; a node that is itself a workflow is a job with its own checksum — looked up, executed and
  expanded recursively, the flag `rerun and propagate_rerun` being handed down at EVERY level; the first failing
  node makes the workflow job fail (nodes form chains)                    → `Nodes`, `runNodes`, `runWf`
  Both expansions hand the same flag to every node, so one function mirrors both.  `nest = false` is a variant in
  which a workflow NODE does not get the flag (what `await self.worker.submit(job)` without `rerun=` would do),
  kept only as documentation (`C11_witness_nested_flag`).

Identities: a checksum starts with the task kind (`python-…`, `workflow-…`), so workflow identities and node
identities are disjoint by construction (`Key`).  The body of a task is a parameter: `World.body n i` is the
outcome of the `i`-th execution (0-based) of task `n`, so flaky tasks are covered; `World.wval n` is the
value a workflow returns once all of its nodes succeeded.

Core Lean only (the driver imports this file).
-/
namespace PydraModel.JobProto.CacheHist

abbrev Loc := Nat

/-- cache identity (checksum) -/
inductive Key | task (n : Nat) | wf (n : Nat)
deriving DecidableEq, Repr

/-- content of a complete `_result.pklz` -/
inductive Res | ok (v : Nat) | err
deriving DecidableEq, Repr

/-- what `location / checksum` looks like -/
inductive Cell | absent | incomplete | complete (r : Res)
deriving DecidableEq, Repr

abbrev Store := Loc → Key → Cell

def Store.empty : Store := fun _ _ => .absent

def Store.set (s : Store) (l : Loc) (k : Key) (c : Cell) : Store :=
  fun l' k' => if l' = l ∧ k' = k then c else s l' k'

/-- `load_result(checksum, locations)` -/
def lookupWith (skipIncomplete : Bool) (s : Store) (k : Key) : List Loc → Option Res
  | [] => none
  | l :: ls =>
    match s l k with
    | .complete r => some r
    | .incomplete => if skipIncomplete then lookupWith skipIncomplete s k ls else none
    | .absent => lookupWith skipIncomplete s k ls

/-- one `Job.run` as seen by the instrumentation: which identity, into which root, with which flag, what the
    cached-result test saw (`none` also when the test is skipped because of `rerun`), did the body run -/
structure Event where
  key : Key
  root : Loc
  rerun : Bool
  found : Option Res
  executed : Bool
deriving DecidableEq, Repr

structure World where
  body : Nat → Nat → Res
  wval : Nat → Nat

/-- configuration of one submission: `Submitter(cache_root, readonly_caches)(task, rerun=…)` -/
structure Sub where
  root : Loc
  ro : List Loc
  rerun : Bool
deriving DecidableEq, Repr

def Sub.locs (sb : Sub) : List Loc := sb.root :: sb.ro

structure St where
  store : Store
  execs : Key → Nat          -- executions so far, per identity (all roots)
  log : List Event           -- newest first

def St.init : St := ⟨Store.empty, fun _ => 0, []⟩

/-- the cached-result test of `Job.run` -/
def cachedTest (skip : Bool) (st : St) (k : Key) (sb : Sub) : Option Res :=
  if sb.rerun then none else lookupWith skip st.store k sb.locs

/-- early `return result`: nothing is written -/
def hit (st : St) (k : Key) (sb : Sub) (v : Nat) : St :=
  { st with log := ⟨k, sb.root, sb.rerun, some (.ok v), false⟩ :: st.log }

/-- the execute branch: the job directory under `cache_root` is replaced by a complete result `r` -/
def execute (st : St) (k : Key) (sb : Sub) (found : Option Res) (r : Res) : St :=
  { store := st.store.set sb.root k (.complete r)
    execs := fun k' => if k' = k then st.execs k + 1 else st.execs k'
    log := ⟨k, sb.root, sb.rerun, found, true⟩ :: st.log }

/-- `Job.run` of a python/shell job; the result is what `run` returns / raises -/
def runTask (W : World) (skip : Bool) (st : St) (n : Nat) (sb : Sub) : St × Res :=
  match cachedTest skip st (.task n) sb with
  | some (.ok v) => (hit st (.task n) sb v, .ok v)
  | found =>
    let r := W.body n (st.execs (.task n))
    (execute st (.task n) sb found r, r)

/-- the node jobs of a workflow, in execution order: a python/shell task, or a workflow with its own nodes
    (first-child / next-sibling form, so nesting of any depth is a plain inductive type) -/
inductive Nodes
  | nil
  | task (n : Nat) (rest : Nodes)
  | wf (n : Nat) (inner : Nodes) (rest : Nodes)
deriving DecidableEq, Repr

/-- outcome of a workflow job whose node jobs all succeeded / did not -/
def wfRes (W : World) (n : Nat) (allOk : Bool) : Res := if allOk then .ok (W.wval n) else .err

/-- the submission with which a workflow NODE job of a level is run: the level's own (`nest = true`, the code) -/
def nodeSub (nest : Bool) (sb : Sub) : Sub := { sb with rerun := if nest then sb.rerun else false }

/-- the submission with which the node jobs one level further down are run: `rerun and propagate_rerun` -/
def innerSub (propagate : Bool) (sb : Sub) : Sub := { sb with rerun := sb.rerun && propagate }

/-- `expand_workflow` / `expand_workflow_async`: the node jobs in order, each run with the submission `sb` of this
    level (`sb.rerun` is already `rerun and propagate_rerun`); stop at the first failure.  A workflow node is run
    like any job (cached-result test, else expand its own nodes one level further down, then save). -/
def runNodes (W : World) (skip nest propagate : Bool) (sb : Sub) : St → Nodes → St × Bool
  | st, .nil => (st, true)
  | st, .task n rest =>
    match runTask W skip st n sb with
    | (st1, .ok _) => runNodes W skip nest propagate sb st1 rest
    | (st1, .err) => (st1, false)
  | st, .wf n inner rest =>
    match cachedTest skip st (.wf n) (nodeSub nest sb) with
    | some (.ok v) => runNodes W skip nest propagate sb (hit st (.wf n) (nodeSub nest sb) v) rest
    | found =>
      let r := runNodes W skip nest propagate (innerSub propagate (nodeSub nest sb)) st inner
      let st2 := execute r.1 (.wf n) (nodeSub nest sb) found (wfRes W n r.2)
      if r.2 then runNodes W skip nest propagate sb st2 rest else (st2, false)

/-- `Job.run` / `Job.run_async` of the submitted (top-level) workflow job -/
def runWf (W : World) (skip nest : Bool) (st : St) (n : Nat) (nodes : Nodes) (sb : Sub) (propagate : Bool) :
    St × Res :=
  match cachedTest skip st (.wf n) sb with
  | some (.ok v) => (hit st (.wf n) sb v, .ok v)
  | found =>
    let r := runNodes W skip nest propagate (innerSub propagate sb) st nodes
    (execute r.1 (.wf n) sb found (wfRes W n r.2), wfRes W n r.2)

inductive Op
  | submit (n : Nat) (sb : Sub)
  | submitWf (n : Nat) (nodes : Nodes) (sb : Sub) (propagate : Bool)
  /-- a leftover incomplete job directory appears at `l / k` (a run killed after `_populate_filesystem`,
      possibly of another process that owns `l`); whatever was there is gone -/
  | plant (l : Loc) (k : Key)
deriving DecidableEq, Repr

/-- the final `job.result()` of `Submitter.__call__` (the in-memory `_errored` flag has been reset before an
    execution, so this is a plain look-up) -/
def readBack (skip : Bool) (st : St) (k : Key) (sb : Sub) : Option Res := lookupWith skip st.store k sb.locs

def step (W : World) (skip nest : Bool) (st : St) : Op → St × Option Res
  | .submit n sb => let r := runTask W skip st n sb; (r.1, readBack skip r.1 (.task n) sb)
  | .submitWf n nodes sb p => let r := runWf W skip nest st n nodes sb p; (r.1, readBack skip r.1 (.wf n) sb)
  | .plant l k => ({ st with store := st.store.set l k .incomplete }, none)

/-- a history: the operations with what each returned, and the final state -/
def trace (W : World) (skip nest : Bool) : St → List Op → List (Op × Option Res) × St
  | st, [] => ([], st)
  | st, op :: ops =>
    let r := step W skip nest st op
    let t := trace W skip nest r.1 ops
    ((op, r.2) :: t.1, t.2)

def run (W : World) (skip nest : Bool) (st : St) (ops : List Op) : St := (trace W skip nest st ops).2

/-! ### Reference semantics: an abstract cache `Loc → Key → Option Res` (only complete results exist) -/

abbrev ACache := Loc → Key → Option Res

def ACache.set (A : ACache) (l : Loc) (k : Key) (v : Option Res) : ACache :=
  fun l' k' => if l' = l ∧ k' = k then v else A l' k'

def alookup (A : ACache) (k : Key) : List Loc → Option Res
  | [] => none
  | l :: ls => match A l k with
    | some r => some r
    | none => alookup A k ls

structure ASt where
  cache : ACache
  execs : Key → Nat

def ASt.bump (a : ASt) (k : Key) : Key → Nat := fun k' => if k' = k then a.execs k + 1 else a.execs k'

/-- "if present, complete, not errored and not rerun then return it, else execute, store, return" -/
def specTask (W : World) (a : ASt) (n : Nat) (sb : Sub) : ASt × Res :=
  match (if sb.rerun then none else alookup a.cache (.task n) sb.locs) with
  | some (.ok v) => (a, .ok v)
  | _ =>
    let r := W.body n (a.execs (.task n))
    (⟨a.cache.set sb.root (.task n) (some r), a.bump (.task n)⟩, r)

/-- the abstract cached-result test -/
def aTest (a : ASt) (k : Key) (sb : Sub) : Option Res := if sb.rerun then none else alookup a.cache k sb.locs

def aStore (a : ASt) (k : Key) (sb : Sub) (r : Res) : ASt := ⟨a.cache.set sb.root k (some r), a.bump k⟩

def specNodes (W : World) (propagate : Bool) (sb : Sub) : ASt → Nodes → ASt × Bool
  | a, .nil => (a, true)
  | a, .task n rest =>
    match specTask W a n sb with
    | (a1, .ok _) => specNodes W propagate sb a1 rest
    | (a1, .err) => (a1, false)
  | a, .wf n inner rest =>
    match aTest a (.wf n) sb with
    | some (.ok _) => specNodes W propagate sb a rest
    | _ =>
      let r := specNodes W propagate (innerSub propagate sb) a inner
      let a2 := aStore r.1 (.wf n) sb (wfRes W n r.2)
      if r.2 then specNodes W propagate sb a2 rest else (a2, false)

def specWf (W : World) (a : ASt) (n : Nat) (nodes : Nodes) (sb : Sub) (propagate : Bool) : ASt × Res :=
  match aTest a (.wf n) sb with
  | some (.ok v) => (a, .ok v)
  | _ =>
    let r := specNodes W propagate (innerSub propagate sb) a nodes
    (aStore r.1 (.wf n) sb (wfRes W n r.2), wfRes W n r.2)

def specStep (W : World) (a : ASt) : Op → ASt × Option Res
  | .submit n sb => let r := specTask W a n sb; (r.1, some r.2)
  | .submitWf n nodes sb p => let r := specWf W a n nodes sb p; (r.1, some r.2)
  | .plant l k => (⟨a.cache.set l k none, a.execs⟩, none)   -- a killed run loses the entry it was replacing

def specTrace (W : World) : ASt → List Op → List (Op × Option Res) × ASt
  | a, [] => ([], a)
  | a, op :: ops =>
    let r := specStep W a op
    let t := specTrace W r.1 ops
    ((op, r.2) :: t.1, t.2)

/-- abstraction: incomplete directories are invisible -/
def absCell : Cell → Option Res
  | .complete r => some r
  | _ => none

def abs (st : St) : ASt := ⟨fun l k => absCell (st.store l k), st.execs⟩

/-! ### Counting on the event log (for a fixed root `w` and identity `k`) -/

def execsAt (log : List Event) (w : Loc) (k : Key) : Nat :=
  log.countP (fun e => e.key = k ∧ e.root = w ∧ e.executed = true)

def rerunsAt (log : List Event) (w : Loc) (k : Key) : Nat :=
  log.countP (fun e => e.key = k ∧ e.root = w ∧ e.rerun = true)

def foundErrAt (log : List Event) (w : Loc) (k : Key) : Nat :=
  log.countP (fun e => e.key = k ∧ e.root = w ∧ e.found = some .err)

def plantsAt (ops : List Op) (w : Loc) (k : Key) : Nat :=
  ops.countP (fun o => o = .plant w k)

/-- workflow identities occurring in a node sequence (at any depth) -/
def Nodes.wfKeys : Nodes → List Nat
  | .nil => []
  | .task _ rest => rest.wfKeys
  | .wf n inner rest => n :: (inner.wfKeys ++ rest.wfKeys)

/-- no workflow contains (at any depth) a workflow of its own identity — a checksum covers the whole
    definition, so a workflow cannot contain itself -/
def Nodes.Acyclic : Nodes → Prop
  | .nil => True
  | .task _ rest => rest.Acyclic
  | .wf n inner rest => n ∉ inner.wfKeys ∧ inner.Acyclic ∧ rest.Acyclic

def Op.Acyclic : Op → Prop
  | .submitWf n nodes _ _ => n ∉ nodes.wfKeys ∧ nodes.Acyclic
  | _ => True

/-- occurrences of task `m` / workflow `k` in a node sequence, at any depth -/
def Nodes.countTask (m : Nat) : Nodes → Nat
  | .nil => 0
  | .task n rest => (if n = m then 1 else 0) + rest.countTask m
  | .wf _ inner rest => inner.countTask m + rest.countTask m

def Nodes.countWf (k : Nat) : Nodes → Nat
  | .nil => 0
  | .task _ rest => rest.countWf k
  | .wf n inner rest => (if n = k then 1 else 0) + inner.countWf k + rest.countWf k

/-- root into which an operation writes (`none` for the environment move `plant`) -/
def Op.root? : Op → Option Loc
  | .submit _ sb => some sb.root
  | .submitWf _ _ sb _ => some sb.root
  | .plant _ _ => none

end PydraModel.JobProto.CacheHist
