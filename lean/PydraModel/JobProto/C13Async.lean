import PydraModel.Gen.JobSkeleton
import PydraModel.JobProto.Failure
/- Finite checks of C13 on the GENERATED skeleton of `Job.run_async` (kernel evaluation; see `Failure.lean`). -/
namespace PydraModel.JobProto.CheckAsync
open PydraModel.JobProto PydraModel.Gen.JobSkeleton
set_option maxRecDepth 100000

theorem failure : FailureNoFault jobRunAsync auditStartChdir := by decide +kernel
theorem success : SuccessReported jobRunAsync auditStartChdir := by decide +kernel

end PydraModel.JobProto.CheckAsync
