import PydraModel.Gen.RerunCallSites
/-
Regenerated tie for C11: the rerun flag at every place where a job is handed on (list extracted from the current
source of pydra/engine/submitter.py and pydra/workers/base.py on every run).  The model `CacheHist.runNodes` gives
`rerun and propagate_rerun` to every node job — task or workflow, synchronous or asynchronous expansion.
-/
namespace PydraModel.JobProto.CacheHist
open PydraModel.Gen.RerunCallSites

/-- Every node-running call of `expand_workflow` (synchronous workers) and of `expand_workflow_async` (asynchronous
    workers: `worker.submit` for workflow nodes, `worker.run` for the others) passes `rerun and self.propagate_rerun`;
    `Submitter.submit` and `Worker.submit` pass the caller's `rerun` on unchanged; no job-running call in these
    functions omits the flag or passes anything else. -/
theorem C11_call_sites :
    callSites.all (fun s => s.2.2 == "plain" || s.2.2 == "propagated") = true
    ∧ (callSites.filter (fun s => s.1 == "Submitter.expand_workflow")).all (fun s => s.2.2 == "propagated") = true
    ∧ (callSites.filter (fun s => s.1 == "Submitter.expand_workflow_async")).all (fun s => s.2.2 == "propagated") = true
    ∧ callSites.contains ("Submitter.expand_workflow", "self.worker.run", "propagated") = true
    ∧ callSites.contains ("Submitter.expand_workflow_async", "self.worker.submit", "propagated") = true
    ∧ callSites.contains ("Submitter.expand_workflow_async", "self.worker.run", "propagated") = true
    ∧ (callSites.filter (fun s => s.1 == "Submitter.submit" || s.1 == "Worker.submit")).all (fun s => s.2.2 == "plain") = true := by
  decide

end PydraModel.JobProto.CacheHist
