import PydraModel.Gen.JobSkeleton
import PydraModel.JobProto.Failure
/- Finite checks of C13 on the GENERATED skeleton of `Job.run` (kernel evaluation; see `Failure.lean`). -/
namespace PydraModel.JobProto.CheckRun
open PydraModel.JobProto PydraModel.Gen.JobSkeleton
set_option maxRecDepth 100000

theorem failure : FailureNoFault jobRun auditStartChdir := by decide +kernel
theorem success : SuccessReported jobRun auditStartChdir := by decide +kernel

end PydraModel.JobProto.CheckRun
