/-
The failure test a shell executor applies to the return code of the command (`Native.execute` in
pydra/environments/native.py: `if output["return_code"]: … raise RuntimeError(msg)`), as a small expression
language over `rc : Int` that the extractor can emit (`Gen/ShellExec.lean`), its evaluation, and a decidable
SUFFICIENT syntactic condition for "every non-zero return code — negative ones, i.e. death by signal, included —
is a failure".  Core Lean only.
-/
namespace PydraModel.JobProto

inductive RcTest
  | truthy                  -- `if rc:`
  | ne (k : Int)            -- `rc != k`
  | eq (k : Int)            -- `rc == k`
  | gt (k : Int)            -- `rc > k`
  | ge (k : Int)
  | lt (k : Int)
  | le (k : Int)
  | not_ (t : RcTest)
  | or_ (a b : RcTest)
  | and_ (a b : RcTest)
deriving DecidableEq, Repr

def RcTest.eval : RcTest → Int → Bool
  | .truthy, rc => rc != 0
  | .ne k, rc => rc != k
  | .eq k, rc => rc == k
  | .gt k, rc => decide (rc > k)
  | .ge k, rc => decide (rc ≥ k)
  | .lt k, rc => decide (rc < k)
  | .le k, rc => decide (rc ≤ k)
  | .not_ t, rc => !t.eval rc
  | .or_ a b, rc => a.eval rc || b.eval rc
  | .and_ a b, rc => a.eval rc && b.eval rc

/-- the test is true on every positive return code -/
def RcTest.coversPos : RcTest → Bool
  | .truthy => true
  | .ne k => decide (k ≤ 0)
  | .gt k => decide (k ≤ 0)
  | .ge k => decide (k ≤ 1)
  | .or_ a b => a.coversPos || b.coversPos
  | .and_ a b => a.coversPos && b.coversPos
  | .not_ (.eq k) => decide (k ≤ 0)
  | .not_ (.le k) => decide (k ≤ 0)
  | .not_ (.lt k) => decide (k ≤ 1)
  | _ => false

/-- the test is true on every negative return code (the command was killed by a signal) -/
def RcTest.coversNeg : RcTest → Bool
  | .truthy => true
  | .ne k => decide (k ≥ 0)
  | .lt k => decide (k ≥ 0)
  | .le k => decide (k ≥ -1)
  | .or_ a b => a.coversNeg || b.coversNeg
  | .and_ a b => a.coversNeg && b.coversNeg
  | .not_ (.eq k) => decide (k ≥ 0)
  | .not_ (.ge k) => decide (k ≥ 0)
  | .not_ (.gt k) => decide (k ≥ -1)
  | _ => false

theorem RcTest.coversPos_sound (t : RcTest) (h : t.coversPos = true) (rc : Int) (hrc : rc > 0) : t.eval rc = true := by
  induction t with
  | truthy => simp [eval]; omega
  | ne k => simp [coversPos] at h; simp [eval]; omega
  | gt k => simp [coversPos] at h; simp [eval]; omega
  | ge k => simp [coversPos] at h; simp [eval]; omega
  | or_ a b iha ihb =>
    simp only [coversPos, Bool.or_eq_true] at h
    simp only [eval, Bool.or_eq_true]
    rcases h with h | h
    · exact .inl (iha h)
    · exact .inr (ihb h)
  | and_ a b iha ihb =>
    simp only [coversPos, Bool.and_eq_true] at h
    simp only [eval, Bool.and_eq_true]
    exact ⟨iha h.1, ihb h.2⟩
  | not_ t _ =>
    cases t with
    | eq k => simp [coversPos] at h; simp [eval]; omega
    | le k => simp [coversPos] at h; simp [eval]; omega
    | lt k => simp [coversPos] at h; simp [eval]; omega
    | _ => simp [coversPos] at h
  | _ => simp [coversPos] at h

theorem RcTest.coversNeg_sound (t : RcTest) (h : t.coversNeg = true) (rc : Int) (hrc : rc < 0) : t.eval rc = true := by
  induction t with
  | truthy => simp [eval]; omega
  | ne k => simp [coversNeg] at h; simp [eval]; omega
  | lt k => simp [coversNeg] at h; simp [eval]; omega
  | le k => simp [coversNeg] at h; simp [eval]; omega
  | or_ a b iha ihb =>
    simp only [coversNeg, Bool.or_eq_true] at h
    simp only [eval, Bool.or_eq_true]
    rcases h with h | h
    · exact .inl (iha h)
    · exact .inr (ihb h)
  | and_ a b iha ihb =>
    simp only [coversNeg, Bool.and_eq_true] at h
    simp only [eval, Bool.and_eq_true]
    exact ⟨iha h.1, ihb h.2⟩
  | not_ t _ =>
    cases t with
    | eq k => simp [coversNeg] at h; simp [eval]; omega
    | ge k => simp [coversNeg] at h; simp [eval]; omega
    | gt k => simp [coversNeg] at h; simp [eval]; omega
    | _ => simp [coversNeg] at h
  | _ => simp [coversNeg] at h

/-- decidable sufficient condition: every non-zero return code is a failure -/
def RcTest.failsOnNonzero (t : RcTest) : Bool := t.coversPos && t.coversNeg

theorem RcTest.failsOnNonzero_sound (t : RcTest) (h : t.failsOnNonzero = true) (rc : Int) (hrc : rc ≠ 0) :
    t.eval rc = true := by
  simp only [failsOnNonzero, Bool.and_eq_true] at h
  rcases Int.lt_or_gt_of_ne hrc with hlt | hgt
  · exact t.coversNeg_sound h.2 rc hlt
  · exact t.coversPos_sound h.1 rc hgt

end PydraModel.JobProto
