import PydraModel.Gen.JobSkeleton
import PydraModel.JobProto.Serial
import PydraModel.JobProto.Discipline
/- Finite checks of C10 on the GENERATED skeletons (kernel evaluation). -/
namespace PydraModel.JobProto.CheckC10
open PydraModel.JobProto PydraModel.Gen.JobSkeleton
set_option maxRecDepth 100000

theorem callGood_run : CallGood jobRun auditStartChdir := by decide +kernel
theorem callGood_async : CallGood jobRunAsync auditStartChdir := by decide +kernel
theorem discipline_run : LockDiscipline jobRun := by decide +kernel
theorem discipline_async : LockDiscipline jobRunAsync := by decide +kernel

end PydraModel.JobProto.CheckC10
