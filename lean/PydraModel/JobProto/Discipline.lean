import PydraModel.JobProto.Mutex
/-
C10 machinery, part 3: LOCK DISCIPLINE.  A decidable syntactic predicate on skeletons, and the theorem that in
every interleaving of disciplined programs every access to the job directory (each write, and the load of the
result that can lead to `return`) is performed by a process that is inside `with <job lock>:` — by `Mutex.lean`
the unique live one.
-/
namespace PydraModel.JobProto

/-- actions that write to the job directory (the task body runs in it and writes its outputs there), and the
    load of the cached result -/
def Act.touchesDir : Act → Bool
  | .body => true
  | .chdirJob => true        -- `os.chdir(cache_dir)`: needs the directory
  | .auditStart => true      -- `Audit.start_audit` does `os.chdir(odir)`
  | .clearDir => true
  | .mkDir => true
  | .ensureDir => true
  | .saveJob => true
  | .saveResult => true
  | .copyOutputs => true
  | .recordError => true
  | .loadResult => true
  | _ => false

/-- what may only happen inside `with <job lock>:`: every access to the job directory, and every use of the
    save lock (`save` is only called with the job lock held) -/
def Act.needsJobLock (a : Act) : Bool :=
  a.touchesDir || a == .lockAcquire .save || a == .lockRelease .save

/-- no access to the job directory (and no use of the save lock) outside `with <job lock>:` -/
def Prog.outsideOK : Prog → Bool
  | .skip => true
  | .act a => !a.needsJobLock
  | .seq p q => p.outsideOK && q.outsideOK
  | .tryExceptFinally _ b e f => b.outsideOK && e.outsideOK && f.outsideOK
  | .withLock .job _ => true
  | .withLock .save _ => false
  | .ifNotRerun b => b.outsideOK
  | .ifAuditProv b => b.outsideOK

/-- `with <job lock>:` is not nested -/
def Prog.jobDepth : Prog → Nat
  | .skip => 0
  | .act _ => 0
  | .seq p q => max p.jobDepth q.jobDepth
  | .tryExceptFinally _ b e f => max b.jobDepth (max e.jobDepth f.jobDepth)
  | .withLock .job b => b.jobDepth + 1
  | .withLock .save b => b.jobDepth
  | .ifNotRerun b => b.jobDepth
  | .ifAuditProv b => b.jobDepth

/-- the cached result is loaded and tested before the directory is cleared -/
def Prog.cachedTestFirst (p : Prog) : Bool :=
  let fl := p.flatten
  fl.idxOf .loadResult < fl.idxOf .returnIfCachedOk && fl.idxOf .returnIfCachedOk < fl.idxOf .clearDir

/-- LOCK DISCIPLINE: lock markers are only touched through `with` blocks; every write to the job directory and
    every load of the result lies inside `with <job lock>:`, which is not nested; the cached test precedes the
    clearing of the directory -/
def LockDiscipline (p : Prog) : Prop :=
  p.noBareLock = true ∧ p.outsideOK = true ∧ p.jobDepth ≤ 1 ∧ p.cachedTestFirst = true

instance (p : Prog) : Decidable (LockDiscipline p) := by unfold LockDiscipline; infer_instance

def Frame.outsideOK : Frame → Bool
  | .seqK q _ => q.outsideOK
  | .tryK _ e f _ _ => e.outsideOK && f.outsideOK
  | .handlerK f _ => f.outsideOK
  | .finK _ => true
  | .lockK .job _ => true
  | .lockK .save _ => false

/-- frames that are not inside a job-lock frame hold disciplined residual programs -/
def stackDisc : List Frame → Bool
  | [] => true
  | fr :: st => (jobFrames st != 0 || fr.outsideOK) && stackDisc st

def Focus.outsideOK : Focus → Bool
  | .prog p _ => p.outsideOK
  | .ctl _ => true

def Cfg.disc (cfg : Cfg) : Bool := (jobFrames cfg.stack != 0 || cfg.focus.outsideOK) && stackDisc cfg.stack

/-- what a step of a disciplined configuration looks like -/
def NextDisc (cfg : Cfg) : Next → Prop
  | .tau c' => c'.disc = true
  | .done _ => True
  | .action _ a k => (∀ c, (k c).disc = true) ∧ (a.needsJobLock = true → cfg.holdsJob = true)

theorem next_disc (rr pv : Bool) (cfg : Cfg) (hd : cfg.disc = true) : NextDisc cfg (cfg.next rr pv) := by
  obtain ⟨focus, stack⟩ := cfg
  simp only [Cfg.disc, Bool.and_eq_true, Bool.or_eq_true, bne_iff_ne, ne_eq] at hd
  obtain ⟨hf, hs⟩ := hd
  cases focus with
  | prog p i =>
    simp only [Focus.outsideOK] at hf
    cases p with
    | skip => simp [Cfg.next, NextDisc, Cfg.disc, Focus.outsideOK, hs]
    | act a =>
      simp only [Cfg.next, NextDisc]
      refine ⟨fun c => by simp [Cfg.disc, Focus.outsideOK, hs], fun ha => ?_⟩
      simp only [Cfg.holdsJob, bne_iff_ne, ne_eq]
      rcases hf with h | h
      · exact h
      · simp [Prog.outsideOK, ha] at h
    | seq p q =>
      simp only [Cfg.next, NextDisc, Cfg.disc, stackDisc, jobFrames, Focus.outsideOK, Frame.outsideOK,
        Bool.and_eq_true, Bool.or_eq_true, bne_iff_ne, ne_eq]
      rcases hf with h | h
      · exact ⟨.inl h, .inl h, hs⟩
      · simp only [Prog.outsideOK, Bool.and_eq_true] at h
        exact ⟨.inr h.1, .inr h.2, hs⟩
    | tryExceptFinally ca b e f =>
      simp only [Cfg.next, NextDisc, Cfg.disc, stackDisc, jobFrames, Focus.outsideOK, Frame.outsideOK,
        Bool.and_eq_true, Bool.or_eq_true, bne_iff_ne, ne_eq]
      rcases hf with h | h
      · exact ⟨.inl h, .inl h, hs⟩
      · simp only [Prog.outsideOK, Bool.and_eq_true] at h
        exact ⟨.inr h.1.1, .inr ⟨h.1.2, h.2⟩, hs⟩
    | withLock l b =>
      simp only [Cfg.next, NextDisc]
      have hin : l = .save → ¬ jobFrames stack = 0 := by
        intro hl
        subst hl
        rcases hf with h | h
        · exact h
        · simp [Prog.outsideOK] at h
      refine ⟨fun c => ?_, fun ha => ?_⟩
      · by_cases hc : c = .normal
        · simp only [hc, if_true, Cfg.disc, stackDisc, Focus.outsideOK, Bool.and_eq_true,
            Bool.or_eq_true, bne_iff_ne, ne_eq]
          cases l with
          | job => exact ⟨.inl (by simp [jobFrames]), .inr rfl, hs⟩
          | save => exact ⟨.inl (by simpa [jobFrames] using hin rfl), .inl (hin rfl), hs⟩
        · simp [hc, Cfg.disc, Focus.outsideOK, hs]
      · cases l with
        | job => simp [Act.needsJobLock, Act.touchesDir] at ha
        | save => simpa [Cfg.holdsJob] using hin rfl
    | ifNotRerun b =>
      simp only [Cfg.next, NextDisc]
      cases rr
      · simp only [Bool.false_eq_true, if_false, Cfg.disc, Focus.outsideOK, Bool.and_eq_true, Bool.or_eq_true,
          bne_iff_ne, ne_eq]
        exact ⟨by simpa [Prog.outsideOK] using hf, hs⟩
      · simp [Cfg.disc, Focus.outsideOK, hs]
    | ifAuditProv b =>
      simp only [Cfg.next, NextDisc]
      cases pv
      · simp [Cfg.disc, Focus.outsideOK, hs]
      · simp only [if_true, Cfg.disc, Focus.outsideOK, Bool.and_eq_true, Bool.or_eq_true, bne_iff_ne, ne_eq]
        exact ⟨by simpa [Prog.outsideOK] using hf, hs⟩
  | ctl c =>
    cases stack with
    | nil => simp [Cfg.next, NextDisc]
    | cons fr st =>
      simp only [stackDisc, Bool.and_eq_true, Bool.or_eq_true, bne_iff_ne, ne_eq] at hs
      obtain ⟨hfr, hst⟩ := hs
      cases fr with
      | seqK q iq =>
        simp only [Cfg.next, NextDisc]
        by_cases hc : c = .normal
        · simp only [hc, if_true, Cfg.disc, Focus.outsideOK, Bool.and_eq_true, Bool.or_eq_true, bne_iff_ne, ne_eq]
          exact ⟨by simpa [Frame.outsideOK] using hfr, hst⟩
        · simp [hc, Cfg.disc, Focus.outsideOK, hst]
      | tryK ca e f ie jf =>
        simp only [Cfg.next, NextDisc]
        have hfr' : ¬ jobFrames st = 0 ∨ (e.outsideOK = true ∧ f.outsideOK = true) := by
          simpa [Frame.outsideOK] using hfr
        cases c.caughtBy ca
        · simp only [Bool.false_eq_true, if_false, Cfg.disc, stackDisc, jobFrames, Focus.outsideOK, Frame.outsideOK,
            Bool.and_eq_true, Bool.or_eq_true, bne_iff_ne, ne_eq, Bool.or_true, true_and]
          rcases hfr' with h | h
          · exact ⟨.inl h, hst⟩
          · exact ⟨.inr h.2, hst⟩
        · simp only [if_true, Cfg.disc, stackDisc, jobFrames, Focus.outsideOK, Frame.outsideOK,
            Bool.and_eq_true, Bool.or_eq_true, bne_iff_ne, ne_eq]
          rcases hfr' with h | h
          · exact ⟨.inl h, .inl h, hst⟩
          · exact ⟨.inr h.1, .inr h.2, hst⟩
      | handlerK f jf =>
        simp only [Cfg.next, NextDisc, Cfg.disc, stackDisc, jobFrames, Focus.outsideOK, Frame.outsideOK,
          Bool.and_eq_true, Bool.or_eq_true, bne_iff_ne, ne_eq, Bool.or_true, true_and]
        exact ⟨by simpa [Frame.outsideOK] using hfr, hst⟩
      | finK pending => simp [Cfg.next, NextDisc, Cfg.disc, Focus.outsideOK, hst]
      | lockK l irel =>
        simp only [Cfg.next, NextDisc]
        refine ⟨fun c' => by simp [Cfg.disc, Focus.outsideOK, hst], fun ha => ?_⟩
        cases l with
        | job => simp [Cfg.holdsJob, jobFrames]
        | save =>
          have : ¬ jobFrames st = 0 := by simpa [Frame.outsideOK] using hfr
          simpa [Cfg.holdsJob, jobFrames] using this

/-- every configuration is disciplined -/
def DiscInv (g : Global) : Prop := ∀ pid, (g.procs pid).cfg.disc = true

theorem discInv_init (p : Prog) (hp : p.outsideOK = true) (envs : Pid → Env) (dir : Bool) (result : ResFile) :
    DiscInv (Global.init p envs dir result) := by
  intro pid
  simp [Global.init, Cfg.disc, Focus.outsideOK, hp, stackDisc]

theorem discInv_step (g : Global) (hI : DiscInv g) (pid : Pid) : DiscInv (gstep g pid) := by
  unfold gstep
  simp only []
  split
  · exact hI
  · have hn := next_disc (g.procs pid).env.rerun (g.procs pid).env.prov (g.procs pid).cfg (hI pid)
    cases hnext : (g.procs pid).cfg.next (g.procs pid).env.rerun (g.procs pid).env.prov with
    | tau cfg' =>
      rw [hnext] at hn
      intro q
      by_cases h : q = pid
      · simp only [setProc, h, if_true]; exact hn
      · simp only [setProc, h, if_false]; exact hI q
    | done c =>
      intro q
      by_cases h : q = pid
      · simp only [setProc, h, if_true]; exact hI pid
      · simp only [setProc, h, if_false]; exact hI q
    | action i a k =>
      rw [hnext] at hn
      simp only []
      split
      · intro q
        by_cases h : q = pid
        · simp only [writeBack, h, if_true]; exact hI pid
        · simp only [writeBack, h, if_false]; exact hI q
      · split
        · exact hI
        · intro q
          by_cases h : q = pid
          · simp only [writeBack, h, if_true]; exact hn.1 _
          · simp only [writeBack, h, if_false]; exact hI q

theorem discInv_run (g : Global) (hI : DiscInv g) (ms : List Move) : DiscInv (grun g ms) := by
  induction ms generalizing g with
  | nil => exact hI
  | cons m ms ih =>
    apply ih
    cases m with
    | step pid => exact discInv_step g hI pid
    | die pid =>
      intro q
      by_cases h : q = pid
      · simp only [gmove, gdie, setProc, h, if_true]; exact hI pid
      · simp only [gmove, gdie, setProc, h, if_false]; exact hI q

/-- the action a process performs next, if any -/
def nextAct (g : Global) (pid : Pid) : Option Act :=
  match (g.procs pid).cfg.next (g.procs pid).env.rerun (g.procs pid).env.prov with
  | .action _ a _ => some a
  | _ => none

/-- In a disciplined reachable state: a process about to access the job directory is inside `with <job lock>:` -/
theorem access_inside_lock (g : Global) (hD : DiscInv g) (pid : Pid) (a : Act) (h : nextAct g pid = some a)
    (ha : a.needsJobLock = true) : (g.procs pid).cfg.holdsJob = true := by
  have hn := next_disc (g.procs pid).env.rerun (g.procs pid).env.prov (g.procs pid).cfg (hD pid)
  unfold nextAct at h
  cases hnext : (g.procs pid).cfg.next (g.procs pid).env.rerun (g.procs pid).env.prov with
  | tau c => rw [hnext] at h; cases h
  | done c => rw [hnext] at h; cases h
  | action i a' k =>
    rw [hnext] at h hn
    cases h
    exact hn.2 ha

end PydraModel.JobProto
