import PydraModel.JobProto.Model
/-
C10 machinery, part 1: interleaving semantics.

Any number of processes run skeletons against ONE cache location.  Each process is a small-step machine
(`Cfg`: focus + frame stack — the same reading of try / except / finally / with-lock / return as `Prog.run`);
one move of the scheduler lets one process perform ONE action (`gstep`) or kills it (`gdie`).  The effect of an
action is `coreStep` of `Model.lean` applied to the process's VIEW of the world (shared directory and result file,
lock markers seen as free / mine / other-live / other-dead, its own local state).  The write of the result file
takes two moves (the file is a strict prefix in between), so other processes can observe a partial file.

Lock contract (DESIGN §4): `acquire` succeeds on a free marker or on the marker of a dead process, never on
the marker of a live process.
-/
namespace PydraModel.JobProto

abbrev Pid := Nat

inductive Frame
  | seqK (q : Prog) (iq : Nat)                          -- then run `q`
  | tryK (ca : Bool) (e f : Prog) (ie jf : Nat)          -- inside a `try:` body
  | handlerK (f : Prog) (jf : Nat)                       -- inside the `except` handler
  | finK (pending : Ctl)                                 -- inside `finally:`, `pending` unwinding
  | lockK (l : LockId) (irel : Nat)                      -- inside `with <lock>:`
deriving DecidableEq, Repr

inductive Focus
  | prog (p : Prog) (i : Nat)    -- about to run `p`
  | ctl (c : Ctl)                -- a block has ended with `c`
deriving DecidableEq, Repr

structure Cfg where
  focus : Focus
  stack : List Frame
deriving DecidableEq, Repr

/-- what a configuration does next -/
inductive Next
  | tau (c : Cfg)                                    -- bookkeeping, no action
  | action (i : Nat) (a : Act) (k : Ctl → Cfg)        -- perform `a` (position `i`); continue according to its outcome
  | done (c : Ctl)                                   -- the call has ended

def Cfg.next (rerun prov : Bool) (cfg : Cfg) : Next :=
  match cfg.focus, cfg.stack with
  | .prog .skip _, st => .tau ⟨.ctl .normal, st⟩
  | .prog (.act a) i, st => .action i a fun c => ⟨.ctl c, st⟩
  | .prog (.seq p q) i, st => .tau ⟨.prog p i, .seqK q (i + p.size) :: st⟩
  | .prog (.tryExceptFinally ca b e f) i, st =>
    .tau ⟨.prog b i, .tryK ca e f (i + b.size) (i + b.size + e.size) :: st⟩
  | .prog (.withLock l b) i, st =>
    .action i (.lockAcquire l) fun c =>
      if c = .normal then ⟨.prog b (i + 1), .lockK l (i + 1 + b.size) :: st⟩ else ⟨.ctl c, st⟩
  | .prog (.ifNotRerun b) i, st => .tau (if rerun then ⟨.ctl .normal, st⟩ else ⟨.prog b i, st⟩)
  | .prog (.ifAuditProv b) i, st => .tau (if prov then ⟨.prog b i, st⟩ else ⟨.ctl .normal, st⟩)
  | .ctl c, [] => .done c
  | .ctl c, .seqK q iq :: st => .tau (if c = .normal then ⟨.prog q iq, st⟩ else ⟨.ctl c, st⟩)
  | .ctl c, .tryK ca e f ie jf :: st =>
    .tau (if c.caughtBy ca then ⟨.prog e ie, .handlerK f jf :: st⟩ else ⟨.prog f jf, .finK c :: st⟩)
  | .ctl c, .handlerK f jf :: st => .tau ⟨.prog f jf, .finK c :: st⟩
  | .ctl c, .finK pending :: st => .tau ⟨.ctl (pending.over c), st⟩
  | .ctl c, .lockK l irel :: st => .action irel (.lockRelease l) fun c' => ⟨.ctl (c.over c'), st⟩

/-- number of `with <job lock>` blocks the configuration is inside of -/
def jobFrames : List Frame → Nat
  | [] => 0
  | .lockK .job _ :: st => jobFrames st + 1
  | _ :: st => jobFrames st

def Cfg.holdsJob (cfg : Cfg) : Bool := jobFrames cfg.stack != 0

/-! ### Global states -/

/-- process-local part of `Core` -/
structure Local where
  info : Bool
  cwd : Cwd
  savedCwd : Option Cwd
  resVar : Option ResVal
  jobErrored : Bool
  lastRaiseBase : Bool
  midWrite : Bool        -- the result file has been opened for writing, the pickle is not complete yet
deriving DecidableEq, Repr

def Local.fresh : Local :=
  { info := false, cwd := .orig, savedCwd := none, resVar := none, jobErrored := false, lastRaiseBase := false,
    midWrite := false }

structure Proc where
  cfg : Cfg
  loc : Local
  env : Env
  alive : Bool
  ended : Option Ctl      -- how the call ended, once it has
deriving Repr

structure Shared where
  dir : Bool
  result : ResFile
  jobLock : Option Pid
  saveLock : Option Pid
  evs : List (Pid × Ev)   -- newest first
deriving Repr

structure Global where
  sh : Shared
  procs : Pid → Proc

/-- a marker as process `pid` sees it -/
def viewLock (alive : Pid → Bool) (pid : Pid) : Option Pid → LockSt
  | none => .free
  | some q => if q = pid then .mine else if alive q then .otherLive else .otherDead

/-- what `pid`'s action left in its view of a marker, written back -/
def unviewLock (pid : Pid) (old : Option Pid) : LockSt → Option Pid
  | .free => none
  | .mine => some pid
  | _ => old

def Global.alive (g : Global) (q : Pid) : Bool := (g.procs q).alive

def viewCore (g : Global) (pid : Pid) : Core :=
  let l := (g.procs pid).loc
  { dir := g.sh.dir, result := g.sh.result, jobLock := viewLock g.alive pid g.sh.jobLock,
    saveLock := viewLock g.alive pid g.sh.saveLock, info := l.info, cwd := l.cwd, savedCwd := l.savedCwd,
    resVar := l.resVar, jobErrored := l.jobErrored, lastRaiseBase := l.lastRaiseBase }

def setProc (g : Global) (pid : Pid) (p : Proc) : Global :=
  { g with procs := fun q => if q = pid then p else g.procs q }

/-- write the outcome of an action of `pid` (new view `c`, events) back -/
def writeBack (g : Global) (pid : Pid) (c : Core) (evs : List Ev) (cfg : Cfg) (mid : Bool) : Global :=
  let p := g.procs pid
  { sh := { dir := c.dir, result := c.result, jobLock := unviewLock pid g.sh.jobLock c.jobLock,
            saveLock := unviewLock pid g.sh.saveLock c.saveLock, evs := evs.map (fun e => (pid, e)) ++ g.sh.evs },
    procs := fun q =>
      if q = pid then
        { p with cfg := cfg,
                 loc := { info := c.info, cwd := c.cwd, savedCwd := c.savedCwd, resVar := c.resVar,
                          jobErrored := c.jobErrored, lastRaiseBase := c.lastRaiseBase, midWrite := mid } }
      else g.procs q }

/-- one move of process `pid` (nothing happens if it is dead, has ended, or waits for a lock) -/
def gstep (g : Global) (pid : Pid) : Global :=
  let p := g.procs pid
  if !p.alive || p.ended.isSome then g else
  match p.cfg.next p.env.rerun p.env.prov with
  | .tau cfg => setProc g pid { p with cfg := cfg }
  | .done c => setProc g pid { p with ended := some c }
  | .action i a k =>
    let v := viewCore g pid
    if a = .saveResult && !p.loc.midWrite && v.dir && v.resVar.isSome then
      -- first half of the write: the file exists and is a strict prefix
      writeBack g pid { v with result := .trunc } [] p.cfg true
    else
      let r := coreStep p.env .none i a v
      if r.2.1 = .blocked then g     -- the lock is held by a live process: try again later
      else writeBack g pid r.1 r.2.2 (k r.2.1) false

/-- the process dies (its markers stay behind) -/
def gdie (g : Global) (pid : Pid) : Global := setProc g pid { g.procs pid with alive := false }

inductive Move | step (pid : Pid) | die (pid : Pid)
deriving DecidableEq, Repr

def gmove (g : Global) : Move → Global
  | .step pid => gstep g pid
  | .die pid => gdie g pid

def grun (g : Global) : List Move → Global
  | [] => g
  | m :: ms => grun (gmove g m) ms

/-- all processes at the start of `p` (each with its own flags), nothing locked -/
def Global.init (p : Prog) (envs : Pid → Env) (dir : Bool) (result : ResFile) : Global :=
  { sh := { dir := dir, result := result, jobLock := none, saveLock := none, evs := [] },
    procs := fun pid => { cfg := ⟨.prog p 0, []⟩, loc := Local.fresh, env := envs pid, alive := true, ended := none } }

end PydraModel.JobProto
