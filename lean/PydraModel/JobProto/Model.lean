import PydraModel.JobProto.Prog
/-
Engine `JobProto` (DESIGN §5.4), hand-written semantics: what the actions of the skeleton do to the
observable world of ONE cache location and ONE checksum, seen from one submitting process.

Mirrors (pydra/engine/job.py, result.py, audit.py, hooks.py; filelock 3.32.6 `SoftFileLock`):
* `_populate_filesystem` (info file, rmtree, mkdir(exist_ok=False), save(job)),
* `Job.result` / `load_result` (an errored job object answers with an errored stub; a result file that is
  absent, empty or a strict prefix of a pickle loads as `None`),
* `save` (non-atomic in-place writes under `<checksum>_save.lock`), `record_error`,
* `Audit.start_audit` (which does `os.chdir(odir)`), `TaskHooks` calls,
* the lock contract of DESIGN §4: acquisition = atomic exclusive create; a marker whose pid is dead on the same
  host is broken by the next contender; a live holder's marker is never broken.

The world is split into `Core` — everything the protocol ever READS (finite) — and an event log `evs` of what
it only writes or what only the observer counts (hook calls, task bodies entered/finished, writes of
`_error.pklz` / `_job.pklz`, removal of the directory).  Actions are functions of `Core` alone
(`coreEffect`), so runs are independent of the log by construction (`Crash.lean: exec_evs`).

Faults: an action may raise (`Exception` or `BaseException`), the process may die right before an action, or die
in the middle of a write leaving a strict prefix of the file (torn write).
-/
namespace PydraModel.JobProto

inductive FileSt | absent | trunc | complete
deriving DecidableEq, Repr

/-- a `Result` object: `errored` flag, and whether `outputs` has been set (else `None`) -/
structure ResVal where
  errored : Bool
  outputs : Bool
deriving DecidableEq, Repr

/-- `_result.pklz`: `trunc` = empty or any strict prefix of the pickle -/
inductive ResFile | absent | trunc | complete (v : ResVal)
deriving DecidableEq, Repr

/-- a lock marker as seen by this process -/
inductive LockSt | free | mine | otherLive | otherDead
deriving DecidableEq, Repr

inductive Cwd | orig | jobDir
deriving DecidableEq, Repr

inductive Hook | preRun | preRunTask | postRunTask | postRun
deriving DecidableEq, Repr

/-- what the protocol reads -/
structure Core where
  -- the job directory `<cache_root>/<checksum>` and its result file
  dir : Bool
  result : ResFile
  -- lock markers `<checksum>.lock`, `<checksum>_save.lock`
  jobLock : LockSt
  saveLock : LockSt
  -- `<uid>_info.json` of this submission
  info : Bool
  -- process / job-object state
  cwd : Cwd
  savedCwd : Option Cwd     -- the local variable `cwd`
  resVar : Option ResVal    -- the local variable `result`
  jobErrored : Bool         -- `self._errored`
  lastRaiseBase : Bool      -- kind of the exception raised last (what a bare `raise` re-raises)
deriving DecidableEq, Repr

/-- observation events (never read back by the protocol) -/
inductive Ev
  | hook (h : Hook)
  | bodyEntered | bodyFinished
  | errWrite (st : FileSt)    -- `_error.pklz` written (`trunc`: torn)
  | jobWrite (st : FileSt)    -- `_job.pklz` written
  | dirCleared                -- `shutil.rmtree(cache_dir)`
deriving DecidableEq, Repr

structure World where
  core : Core
  /-- NEWEST FIRST; may end with the history of earlier submissions -/
  evs : List Ev
deriving DecidableEq, Repr

inductive Fault
  | none
  | raiseAt (i : Nat) (base : Bool)   -- action `i` raises instead of completing
  | dieAt (i : Nat)                   -- the process dies right before action `i`
  | tornAt (i : Nat)                  -- the process dies inside action `i`; a write leaves a strict prefix
deriving DecidableEq, Repr

/-- parameters of one submission -/
structure Env where
  rerun : Bool := false
  prov : Bool := false
  /-- `none`: the task body returns; `some base`: it raises (`base`: a `BaseException` such as `SystemExit`) -/
  bodyFails : Option Bool := none
  /-- does `Audit.start_audit` call `os.chdir(odir)`? (regenerated: `Gen.JobSkeleton.auditStartChdir`) -/
  auditChdir : Bool := true
deriving DecidableEq, Repr

/-- `load_result`: a complete file is unpickled; anything else (no file, empty file, strict prefix) is `None` -/
def loadFile : ResFile → Option ResVal
  | .complete v => some v
  | _ => none

/-- `Job.result()`: an errored job object answers with an errored stub without reading the cache -/
def jobResult (c : Core) : Option ResVal :=
  if c.jobErrored then some ⟨true, false⟩ else if c.dir then loadFile c.result else none

def acquire : LockSt → Option LockSt
  | .free => some .mine
  | .otherDead => some .mine      -- stale marker of a dead pid is broken, then created
  | .otherLive => none            -- wait
  | .mine => none                 -- a second SoftFileLock object on the same path does not re-enter

def setLock (c : Core) (l : LockId) (s : LockSt) : Core :=
  match l with
  | .job => { c with jobLock := s }
  | .save => { c with saveLock := s }

def getLock (c : Core) : LockId → LockSt
  | .job => c.jobLock
  | .save => c.saveLock

def ResVal.isErrored : Option ResVal → Bool
  | some v => v.errored
  | none => false

/-- effect of an action that completes (or raises by itself, e.g. `mkdir` on an existing directory):
    new core, control, events (newest first) -/
def coreEffect (env : Env) (a : Act) (c : Core) : Core × Ctl × List Ev :=
  match a with
  | .hookPreRun => (c, .normal, [.hook .preRun])
  | .hookPreRunTask => (c, .normal, [.hook .preRunTask])
  | .hookPostRunTask => (c, .normal, [.hook .postRunTask])
  | .hookPostRun => (c, .normal, [.hook .postRun])
  | .lockAcquire l =>
    match acquire (getLock c l) with
    | some s => (setLock c l s, .normal, [])
    | none => (c, .blocked, [])
  | .lockRelease l => (setLock c l .free, .normal, [])
  | .loadResult =>
    ({ c with resVar := jobResult c, jobErrored := c.jobErrored || ResVal.isErrored (jobResult c) }, .normal, [])
  | .returnIfCachedOk =>
    match c.resVar with
    | some v => if v.errored then (c, .normal, []) else (c, .returning, [])
    | none => (c, .normal, [])
  | .saveCwd => ({ c with savedCwd := some c.cwd }, .normal, [])
  | .chdirJob => if c.dir then ({ c with cwd := .jobDir }, .normal, []) else (c, .raising false, [])
  | .restoreCwd =>
    match c.savedCwd with
    | some d => ({ c with cwd := d }, .normal, [])
    | none => (c, .raising false, [])
  | .writeInfo => ({ c with info := true }, .normal, [])
  | .unlinkInfo => if c.info then ({ c with info := false }, .normal, []) else (c, .raising false, [])
  | .clearDir => if c.dir then ({ c with dir := false, result := .absent }, .normal, [.dirCleared]) else (c, .normal, [])
  | .mkDir => if c.dir then (c, .raising false, []) else ({ c with dir := true }, .normal, [])
  | .ensureDir => ({ c with dir := true }, .normal, [])
  | .saveJob => if c.dir then (c, .normal, [.jobWrite .complete]) else (c, .raising false, [])
  | .saveResult =>
    match c.resVar with
    | some v => if c.dir then ({ c with result := .complete v }, .normal, []) else (c, .raising false, [])
    | none => (c, .raising false, [])
  | .copyOutputs => (c, .normal, [])
  | .recordError => if c.dir then (c, .normal, [.errWrite .complete]) else (c, .raising false, [])
  | .initResult => ({ c with resVar := some ⟨false, false⟩ }, .normal, [])
  | .markErrored =>
    match c.resVar with
    | some v => ({ c with resVar := some { v with errored := true } }, .normal, [])
    | none => (c, .raising false, [])
  | .markJobErrored => ({ c with jobErrored := true }, .normal, [])
  | .clearJobErrored => ({ c with jobErrored := false }, .normal, [])
  | .auditStart =>
    if env.auditChdir then (if c.dir then ({ c with cwd := .jobDir }, .normal, []) else (c, .raising false, []))
    else (c, .normal, [])
  | .auditTask => (c, .normal, [])
  | .monitor => (c, .normal, [])
  | .auditFinal => (c, .normal, [])
  | .body =>
    match env.bodyFails with
    | none => (c, .normal, [.bodyFinished, .bodyEntered])
    | some base => (c, .raising base, [.bodyEntered])
  | .collectOutputs =>
    match c.resVar with
    | some v => ({ c with resVar := some { v with outputs := true } }, .normal, [])
    | none => (c, .raising false, [])
  | .reraise => (c, .raising c.lastRaiseBase, [])
  | .checkHashes => (c, .normal, [])
  | .ret => (c, .returning, [])
  | .vp _ => (c, .normal, [])

/-- what an action has already done when it raises through fault injection: a hook that raises has been
    called, a body that raises has been entered -/
def startEvents : Act → List Ev
  | .hookPreRun => [.hook .preRun]
  | .hookPreRunTask => [.hook .preRunTask]
  | .hookPostRunTask => [.hook .postRunTask]
  | .hookPostRun => [.hook .postRun]
  | .body => [.bodyEntered]
  | _ => []

/-- the process dies inside the action: `open(…, "wb")` has truncated the file and some strict prefix has
    been written -/
def tornEffect (a : Act) (c : Core) : Core × List Ev :=
  match a with
  | .saveResult => if c.dir then ({ c with result := .trunc }, []) else (c, [])
  | .saveJob => if c.dir then (c, [.jobWrite .trunc]) else (c, [])
  | .recordError => if c.dir then (c, [.errWrite .trunc]) else (c, [])
  | .body => (c, [.bodyEntered])
  | _ => (c, [])

def noteRaise (r : Core × Ctl × List Ev) : Core × Ctl × List Ev :=
  match r.2.1 with
  | .raising b => ({ r.1 with lastRaiseBase := b }, r.2)
  | _ => r

def coreStep (env : Env) (fault : Fault) (i : Nat) (a : Act) (c : Core) : Core × Ctl × List Ev :=
  match fault with
  | .none => noteRaise (coreEffect env a c)
  | .raiseAt j base =>
    if i = j then ({ c with lastRaiseBase := base }, .raising base, startEvents a) else noteRaise (coreEffect env a c)
  | .dieAt j => if i = j then (c, .dead, []) else noteRaise (coreEffect env a c)
  | .tornAt j => if i = j then ((tornEffect a c).1, .dead, (tornEffect a c).2) else noteRaise (coreEffect env a c)

/-- add the events of a core step to the log -/
def liftStep (evs : List Ev) (r : Core × Ctl × List Ev) : World × Ctl := (⟨r.1, r.2.2 ++ evs⟩, r.2.1)

def step (env : Env) (fault : Fault) (i : Nat) (a : Act) (w : World) : World × Ctl :=
  liftStep w.evs (coreStep env fault i a w.core)

def jobSem (env : Env) (fault : Fault) : Sem World where
  act := step env fault
  rerun _ := env.rerun
  prov _ := env.prov

/-- one call of `Job.run` / `Job.run_async` (skeleton `p`) in world `w` -/
def exec (p : Prog) (env : Env) (fault : Fault) (w : World) : World × Ctl := p.run (jobSem env fault) 0 w

/-! ### Observations derived from the event log -/

def execsIn (evs : List Ev) : Nat := evs.count .bodyEntered
def finishedIn (evs : List Ev) : Nat := evs.count .bodyFinished
/-- hook calls in chronological order -/
def hooksIn (evs : List Ev) : List Hook := (evs.filterMap fun | .hook h => some h | _ => none).reverse

/-- state of `_error.pklz` / `_job.pklz` after the events (newest first), starting from `init`: the latest
    write or directory removal decides -/
def errFileAfter (init : FileSt) : List Ev → FileSt
  | [] => init
  | .errWrite st :: _ => st
  | .dirCleared :: _ => .absent
  | _ :: es => errFileAfter init es

def jobFileAfter (init : FileSt) : List Ev → FileSt
  | [] => init
  | .jobWrite st :: _ => st
  | .dirCleared :: _ => .absent
  | _ :: es => jobFileAfter init es

def World.execs (w : World) : Nat := execsIn w.evs
def World.finished (w : World) : Nat := finishedIn w.evs
def World.hooks (w : World) : List Hook := hooksIn w.evs
/-- files of a world whose log starts in an empty cache location -/
def World.errFile (w : World) : FileSt := errFileAfter .absent w.evs
def World.jobFile (w : World) : FileSt := jobFileAfter .absent w.evs

/-- what the caller of `run` gets -/
inductive Outcome
  | returned (v : Option ResVal)   -- `return result`
  | fellThrough                    -- end of function without `return` (returns `None`)
  | raised (base : Bool)
  | died
  | blocked
deriving DecidableEq, Repr

def outcome (r : World × Ctl) : Outcome :=
  match r.2 with
  | .normal => .fellThrough
  | .returning => .returned r.1.core.resVar
  | .raising b => .raised b
  | .dead => .died
  | .blocked => .blocked

/-- The world a *new* process finds after this one has died: markers it held now name a dead pid; the dead
    process's own info file is someone else's file; process state is fresh. -/
def staleLock : LockSt → LockSt
  | .mine => .otherDead
  | s => s

def afterDeathC (c : Core) : Core :=
  { c with jobLock := staleLock c.jobLock, saveLock := staleLock c.saveLock, info := false,
           cwd := .orig, savedCwd := none, resVar := none, jobErrored := false, lastRaiseBase := false }

def afterDeath (w : World) : World := ⟨afterDeathC w.core, w.evs⟩

/-- The world as the next submission (a new `Job` object in the same, living process) finds it after `run` has
    returned or raised: `cwd` and the process's own leftovers persist. -/
def nextJobC (c : Core) : Core :=
  { c with savedCwd := none, resVar := none, jobErrored := false, lastRaiseBase := false }

def nextJob (w : World) : World := ⟨nextJobC w.core, w.evs⟩

/-! ### The submission around `run`: `Submitter.__call__` and `Task.__call__` -/

inductive Report
  | outputs (present : Bool)         -- `Task.__call__` returns `result.outputs` (`present = false`: `None`)
  | originalException (base : Bool)  -- the exception of the body/hook propagates (debug worker; no result)
  | failedWithRecordedError          -- RuntimeError("Job … failed @ <time> with the following errors: <recorded>")
  | failedNotRetrieved               -- RuntimeError("… failed @ UNKNOWN-TIME … NOT RETRIEVED")
  | noResult                         -- RuntimeError("Job … has no result …" / "has a lockfile, but no result")
  | died | blocked
deriving DecidableEq, Repr

/-- `Task.__call__` on the `Result` the submitter got (`errFile`: state of `_error.pklz`) -/
def reportOf (c : Core) (errFile : FileSt) : Report :=
  match jobResult c with
  | some v =>
    if v.errored then (if c.dir && errFile = .complete then .failedWithRecordedError else .failedNotRetrieved)
    else .outputs v.outputs
  | none => .noResult

/-- `Task.__call__` → `Submitter.__call__` → worker → `run`.  `raiseErrors`: debug worker (`raise_errors`
    defaults to the worker being "debug").  `inProcess`: `run` is executed on the submitter's own `Job` object
    (debug worker); otherwise a pickled copy runs in a worker process and the submitter's object keeps
    `_errored = False`.  `errInit`: state of `_error.pklz` before the log of `w` starts. -/
def submit (p : Prog) (env : Env) (fault : Fault) (raiseErrors inProcess : Bool) (errInit : FileSt) (w : World) :
    World × Report :=
  let r := exec p env fault w
  let c1 : Core := if inProcess then r.1.core else { r.1.core with jobErrored := false }
  let w1 : World := ⟨c1, r.1.evs⟩
  let ef := errFileAfter errInit r.1.evs
  match r.2 with
  | .dead => (r.1, .died)
  | .blocked => (r.1, .blocked)
  | .raising base =>
    if base then (w1, .originalException true)      -- `except Exception` in Submitter.__call__ does not catch it
    else if raiseErrors || (jobResult c1).isNone then (w1, .originalException false)
    else (w1, reportOf c1 ef)
  | _ => (w1, reportOf c1 ef)

/-! ### Initial shapes -/

def Core.fresh : Core :=
  { dir := false, result := .absent, jobLock := .free, saveLock := .free, info := false, cwd := .orig,
    savedCwd := none, resVar := none, jobErrored := false, lastRaiseBase := false }

def World.fresh : World := ⟨Core.fresh, []⟩

/-- result files that a (possibly crashed) earlier submission can have left: nothing, a strict prefix, a
    complete successful result with outputs, a complete errored result -/
def ResFile.legal : ResFile → Bool
  | .complete ⟨false, false⟩ => false   -- "succeeded" with outputs `None`: never written by a protocol run
  | .complete ⟨true, true⟩ => false
  | _ => true

def LockSt.noLiveHolder : LockSt → Bool
  | .free => true
  | .otherDead => true
  | _ => false

/-- Every shape of the cache location a NEW process can find when nobody else is running the job: directory
    absent or present with any legal result file; each lock marker absent or left behind by a dead process;
    process state fresh.  (`_error.pklz`, `_job.pklz`, earlier history: arbitrary — they are in `evs`.) -/
def Core.Initial (c : Core) : Prop :=
  c.result.legal = true ∧ c.jobLock.noLiveHolder = true ∧ c.saveLock.noLiveHolder = true ∧ c.info = false ∧
  c.cwd = .orig ∧ c.savedCwd = none ∧ c.resVar = none ∧ c.jobErrored = false ∧ c.lastRaiseBase = false

instance (c : Core) : Decidable c.Initial := by unfold Core.Initial; infer_instance

/-- the representatives on which the finite checks run: both locks free -/
def baseCores : List Core :=
  [false, true].flatMap fun d =>
    [ResFile.absent, .trunc, .complete ⟨false, true⟩, .complete ⟨true, false⟩].map fun r =>
      { Core.fresh with dir := d, result := r }

/-- positions of a skeleton -/
def positions (p : Prog) : List Nat := List.range p.size

end PydraModel.JobProto
