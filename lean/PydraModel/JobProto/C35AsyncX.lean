import PydraModel.Gen.JobSkeleton
import PydraModel.JobProto.LifecycleExact
/- Finite checks of `C35_exact` on the GENERATED skeleton of `Job.run_async` (kernel evaluation; see `LifecycleExact.lean`). -/
namespace PydraModel.JobProto.CheckAsyncX
open PydraModel.JobProto PydraModel.Gen.JobSkeleton
set_option maxRecDepth 100000

theorem d20Fails : D20Fails jobRunAsync auditStartChdir := by decide +kernel
theorem extra_ok_exc : LifecycleExtra jobRunAsync auditStartChdir none false := by decide +kernel
theorem extra_ok_base : LifecycleExtra jobRunAsync auditStartChdir none true := by decide +kernel
theorem extra_exc_exc : LifecycleExtra jobRunAsync auditStartChdir (some false) false := by decide +kernel
theorem extra_exc_base : LifecycleExtra jobRunAsync auditStartChdir (some false) true := by decide +kernel
theorem extra_base_exc : LifecycleExtra jobRunAsync auditStartChdir (some true) false := by decide +kernel
theorem extra_base_base : LifecycleExtra jobRunAsync auditStartChdir (some true) true := by decide +kernel

theorem extra : ∀ bf ∈ [none, some false, some true], ∀ base ∈ [false, true],
    LifecycleExtra jobRunAsync auditStartChdir bf base := by
  intro bf hbf base hbase
  simp only [List.mem_cons, List.not_mem_nil, or_false] at hbf hbase
  rcases hbf with rfl | rfl | rfl <;> rcases hbase with rfl | rfl
  · exact extra_ok_exc
  · exact extra_ok_base
  · exact extra_exc_exc
  · exact extra_exc_base
  · exact extra_base_exc
  · exact extra_base_base

end PydraModel.JobProto.CheckAsyncX
