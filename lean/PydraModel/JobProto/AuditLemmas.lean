import PydraModel.JobProto.AuditTrace
/-
Helper lemmas for C36: closed form of the trace when every job has its own Audit object, id ranges,
projections.
-/
namespace PydraModel.JobProto.Audit

/-- number of uuids a job draws before its body -/
def pre (resource : Bool) : Nat := 2 + (if resource then 1 else 0)
/-- … and after it -/
def post (resource : Bool) : Nat := if resource then 1 else 0

theorem used_node (res : Bool) (i : Info) (kids rest : Forest) :
    used res (.node i kids rest) = pre res + used res kids + post res + used res rest := by
  cases res <;> simp [used, pre, post] <;> omega

/-- closed form of one job's messages (own Audit object) -/
def block (res : Bool) (i : Info) (n : Nat) (inner : List Msg) (n3 : Nat) : List Msg :=
  Msg.start n :: (if i.sync then [Msg.task n i.label] else [])
    ++ (if res then [Msg.monStart (n + 2) n] else [])
    ++ inner
    ++ (if res then [Msg.monEnd (n + 2) n, Msg.runtime n3 n, Msg.generation n3 (n + 2)] else [])
    ++ [Msg.end_ n i.errored]

theorem emit_own_next (res : Bool) (f : Forest) (n : Nat) (rg : Reg) :
    (emit false res f n rg).2.1 = n + used res f := by
  induction f generalizing n rg with
  | nil => simp [emit, used]
  | node i kids rest ihk ihr =>
    simp only [emit, Bool.false_eq_true, if_false]
    rw [ihr, ihk]
    cases res <;> simp [used] <;> omega

theorem emit_own_node (res : Bool) (i : Info) (kids rest : Forest) (n : Nat) (rg : Reg) :
    ∃ rgk, (emit false res (.node i kids rest) n rg).1
      = block res i n (emit false res kids (n + pre res) rgk).1 (n + pre res + used res kids)
        ++ (emit false res rest (n + pre res + used res kids + post res) rg).1 := by
  cases res with
  | false =>
    refine ⟨{ rg with aid := n }, ?_⟩
    simp only [emit, block, pre, post, Bool.false_eq_true, if_false, emit_own_next, List.append_nil, Nat.add_zero]
  | true =>
    refine ⟨{ rg with aid := n, mid := n + 2 }, ?_⟩
    simp only [emit, block, pre, post, Bool.false_eq_true, if_false, if_true, emit_own_next]

theorem jobs_node (res : Bool) (i : Info) (kids rest : Forest) (n : Nat) :
    jobs res (.node i kids rest) n
      = (n, i) :: (jobs res kids (n + pre res) ++ jobs res rest (n + pre res + used res kids + post res)) := by
  cases res <;> simp [jobs, pre, post]

/-! ### projections of a block -/

theorem starts_append (a b : List Msg) : starts (a ++ b) = starts a ++ starts b := by
  simp [starts, List.filterMap_append]

theorem ends_append (a b : List Msg) : ends (a ++ b) = ends a ++ ends b := by
  simp [ends, List.filterMap_append]

theorem tasks_append (a b : List Msg) : tasks (a ++ b) = tasks a ++ tasks b := by
  simp [tasks, List.filterMap_append]

theorem monStarts_append (a b : List Msg) : monStarts (a ++ b) = monStarts a ++ monStarts b := by
  simp [monStarts, List.filterMap_append]

theorem monEnds_append (a b : List Msg) : monEnds (a ++ b) = monEnds a ++ monEnds b := by
  simp [monEnds, List.filterMap_append]

theorem starts_block (res : Bool) (i : Info) (n : Nat) (inner : List Msg) (n3 : Nat) :
    starts (block res i n inner n3) = n :: starts inner := by
  cases res <;> cases hs : i.sync <;> simp [block, starts, hs, List.filterMap_append]

theorem ends_block (res : Bool) (i : Info) (n : Nat) (inner : List Msg) (n3 : Nat) :
    ends (block res i n inner n3) = ends inner ++ [(n, i.errored)] := by
  cases res <;> cases hs : i.sync <;> simp [block, ends, hs, List.filterMap_append]

theorem tasks_block (res : Bool) (i : Info) (n : Nat) (inner : List Msg) (n3 : Nat) :
    tasks (block res i n inner n3) = (if i.sync then [(n, i.label)] else []) ++ tasks inner := by
  cases res <;> cases hs : i.sync <;> simp [block, tasks, hs, List.filterMap_append]

theorem monStarts_block (res : Bool) (i : Info) (n : Nat) (inner : List Msg) (n3 : Nat) :
    monStarts (block res i n inner n3) = (if res then [n] else []) ++ monStarts inner := by
  cases res <;> cases hs : i.sync <;> simp [block, monStarts, hs, List.filterMap_append]

theorem monEnds_block (res : Bool) (i : Info) (n : Nat) (inner : List Msg) (n3 : Nat) :
    monEnds (block res i n inner n3) = monEnds inner ++ (if res then [n] else []) := by
  cases res <;> cases hs : i.sync <;> simp [block, monEnds, hs, List.filterMap_append]

/-! ### the ids -/

theorem jobs_range (res : Bool) (f : Forest) (n : Nat) :
    ∀ p ∈ jobs res f n, n ≤ p.1 ∧ p.1 < n + used res f := by
  induction f generalizing n with
  | nil => intro p hp; simp [jobs] at hp
  | node i kids rest ihk ihr =>
    intro p hp
    rw [jobs_node] at hp
    rw [used_node]
    have hpre : 2 ≤ pre res := by cases res <;> simp [pre]
    simp only [List.mem_cons, List.mem_append] at hp
    rcases hp with rfl | hp | hp
    · simp only; omega
    · have := ihk _ p hp; omega
    · have := ihr _ p hp; omega

theorem jobs_length (res : Bool) (f : Forest) (n : Nat) : (jobs res f n).length = f.size := by
  induction f generalizing n with
  | nil => rfl
  | node i kids rest ihk ihr => rw [jobs_node]; simp [Forest.size, ihk, ihr]; omega

theorem jobs_ids_nodup (res : Bool) (f : Forest) (n : Nat) : ((jobs res f n).map (·.1)).Nodup := by
  induction f generalizing n with
  | nil => simp [jobs]
  | node i kids rest ihk ihr =>
    rw [jobs_node]
    have hpre : 2 ≤ pre res := by cases res <;> simp [pre]
    simp only [List.map_cons, List.map_append, List.nodup_cons, List.mem_append, List.mem_map, not_or]
    refine ⟨⟨?_, ?_⟩, ?_⟩
    · rintro ⟨p, hp, he⟩
      have := (jobs_range res kids _ p hp).1
      omega
    · rintro ⟨p, hp, he⟩
      have := (jobs_range res rest _ p hp).1
      omega
    · rw [List.nodup_append]
      refine ⟨ihk _, ihr _, ?_⟩
      intro a ha b hb hab
      obtain ⟨p, hp, rfl⟩ := List.mem_map.mp ha
      obtain ⟨q, hq, rfl⟩ := List.mem_map.mp hb
      have h1 := (jobs_range res kids _ p hp).2
      have h2 := (jobs_range res rest _ q hq).1
      omega

/-! ### all activities (job and monitor): opened / closed ids -/

theorem opened_append (a b : List Msg) : opened (a ++ b) = opened a ++ opened b := by
  simp [opened, List.filterMap_append]

theorem closed_append (a b : List Msg) : closed (a ++ b) = closed a ++ closed b := by
  simp [closed, List.filterMap_append]

theorem opened_block (res : Bool) (i : Info) (n : Nat) (inner : List Msg) (n3 : Nat) :
    opened (block res i n inner n3) = n :: ((if res then [n + 2] else []) ++ opened inner) := by
  cases res <;> cases hs : i.sync <;> simp [block, opened, Msg.opens, hs, List.filterMap_append, List.filterMap_cons]

theorem closed_block (res : Bool) (i : Info) (n : Nat) (inner : List Msg) (n3 : Nat) :
    closed (block res i n inner n3) = closed inner ++ (if res then [n + 2] else []) ++ [n] := by
  cases res <;> cases hs : i.sync <;> simp [block, closed, Msg.closes, hs, List.filterMap_append, List.filterMap_cons]

/-- every activity id opened by a forest comes from the uuids that forest draws -/
theorem opened_range (res : Bool) (f : Forest) (n : Nat) (rg : Reg) :
    ∀ a ∈ opened (emit false res f n rg).1, n ≤ a ∧ a < n + used res f := by
  induction f generalizing n rg with
  | nil => intro a ha; simp [emit, opened] at ha
  | node i kids rest ihk ihr =>
    intro a ha
    obtain ⟨rgk, h⟩ := emit_own_node res i kids rest n rg
    rw [h, opened_append, opened_block] at ha
    rw [used_node]
    have hpre : pre res = 2 + (if res then 1 else 0) := rfl
    simp only [List.mem_cons, List.mem_append] at ha
    rcases ha with (rfl | ha | ha) | ha
    · omega
    · cases res <;> simp at ha
      subst ha; simp [pre]; omega
    · have := ihk _ rgk a ha; omega
    · have := ihr _ rg a ha; omega

theorem opened_nodup (res : Bool) (f : Forest) (n : Nat) (rg : Reg) :
    (opened (emit false res f n rg).1).Nodup := by
  induction f generalizing n rg with
  | nil => simp [emit, opened]
  | node i kids rest ihk ihr =>
    obtain ⟨rgk, h⟩ := emit_own_node res i kids rest n rg
    rw [h, opened_append, opened_block]
    have hk := opened_range res kids (n + pre res) rgk
    have hr := opened_range res rest (n + pre res + used res kids + post res) rg
    have hpre : pre res = 2 + (if res then 1 else 0) := rfl
    -- n :: (mon ++ kids) ++ rest
    rw [List.cons_append, List.nodup_cons]
    refine ⟨?_, ?_⟩
    · simp only [List.mem_append, not_or]
      refine ⟨⟨?_, ?_⟩, ?_⟩
      · cases res <;> simp
      · intro ha; have := (hk n ha).1; omega
      · intro ha; have := (hr n ha).1; omega
    · rw [List.nodup_append]
      refine ⟨?_, ihr _ _, ?_⟩
      · rw [List.nodup_append]
        refine ⟨by cases res <;> simp, ihk _ _, ?_⟩
        intro a ha b hb hab
        subst hab
        cases res with
        | false => simp at ha
        | true =>
          simp at ha
          subst ha
          have := (hk _ hb).1
          simp [pre] at this
      · intro a ha b hb hab
        subst hab
        have h2 := (hr a hb).1
        rcases List.mem_append.mp ha with ha | ha
        · cases res with
          | false => simp at ha
          | true => simp at ha; subst ha; simp [pre] at h2; omega
        · have := (hk a ha).2; omega

theorem closed_perm_opened (res : Bool) (f : Forest) (n : Nat) (rg : Reg) :
    (closed (emit false res f n rg).1).Perm (opened (emit false res f n rg).1) := by
  induction f generalizing n rg with
  | nil => simp [emit, opened, closed]
  | node i kids rest ihk ihr =>
    obtain ⟨rgk, h⟩ := emit_own_node res i kids rest n rg
    rw [h, opened_append, closed_append, opened_block, closed_block]
    refine List.Perm.append ?_ (ihr _ _)
    -- closed kids ++ mon ++ [n]  ~  n :: (mon ++ opened kids)
    have h1 : (closed (emit false res kids (n + pre res) rgk).1 ++ (if res then [n + 2] else []) ++ [n]).Perm
        (n :: (closed (emit false res kids (n + pre res) rgk).1 ++ (if res then [n + 2] else []))) := by
      simpa using (List.perm_append_comm (l₁ := closed (emit false res kids (n + pre res) rgk).1 ++ (if res then [n + 2] else [])) (l₂ := [n]))
    refine h1.trans (List.Perm.cons _ ?_)
    exact List.perm_append_comm.trans (List.Perm.append_left _ (ihk _ _))

end PydraModel.JobProto.Audit
