/-
Engine `JobProto`, part `HashCheck` (DESIGN §5.4, property C19): the input-hash check after the task body.

Code mirrored (pydra/engine/job.py, pydra/compose/base/task.py, pydra/engine/submitter.py):

* `Task._compute_hashes` / `Task._hash` (stores the per-field hashes in `self._hashes`) / `Task._checksum`
                                                         → `computeHashes`, `Task.evalChecksum`
* `Job.checksum` (memoised in `self._checksum` the first time it is read — `self.lockfile` at the top of
  `Job.run`, i.e. before the body)                       → `Job.getChecksum`
* the body may change input values in place              → `mutate` (a function of field name and old value)
* `save(self.cache_dir, result=…)` in `finally` reads `cache_dir = cache_root / self.checksum` again
* `Job._check_for_hash_changes` → `Task._hash_changes` = `[k for k, v in new_hashes.items() if v != self._hashes[k]]`,
  `raise RuntimeError` iff that list is non-empty        → `hashChanges`, `runJob`
* `Submitter.__call__`: `except Exception as exc: if raise_errors or not job.result(): raise exc else logger.error(…)`
  where `job.result()` is looked up under the submitting process's own `job.checksum`         → `report`
* `Job.inputs`: `copy_nested_files(value, dest_dir=cache_dir, mode=fld.copy_mode, …)` for file-set fields; the shell
  task's command line is built from `job.inputs` (staged), `PythonTask._run` calls the function with
  `asdict(self)` (the task's own attribute values, never staged)                               → `stage`, `bodyTarget`

The hash function, the checksum combiner and the value type are parameters (nothing is assumed about them).
`memo = false` is a variant without the `Job._checksum` memo, kept only to show that the memo is what the
identity claim rests on.  Core Lean only.
-/
namespace PydraModel.JobProto.HashCheck

abbrev Name := Nat

structure Task (V H : Type) where
  inputs : List (Name × V)
  hashes : Option (List (Name × H))      -- `_hashes`

structure Job (V H C : Type) where
  task : Task V H
  checksum : Option C                    -- `_checksum`

section
variable {V H C : Type} [DecidableEq H] (hash : V → H) (combine : List (Name × H) → C)

def computeHashes (ins : List (Name × V)) : List (Name × H) := ins.map (fun p => (p.1, hash p.2))

/-- `Task._checksum`: evaluates `_hash`, which stores `_hashes` as a side effect -/
def Task.evalChecksum (t : Task V H) : Task V H × C :=
  let hs := computeHashes hash t.inputs
  ({ t with hashes := some hs }, combine hs)

/-- the `Job.checksum` property -/
def Job.getChecksum (memo : Bool) (j : Job V H C) : Job V H C × C :=
  match (if memo then j.checksum else none) with
  | some c => (j, c)
  | none =>
    let r := j.task.evalChecksum hash combine
    ({ task := r.1, checksum := some r.2 }, r.2)

/-- in-place modification of input values by the body -/
def mutate (f : Name → V → V) (ins : List (Name × V)) : List (Name × V) := ins.map (fun p => (p.1, f p.1 p.2))

/-- `Task._hash_changes` (`none` = `_hashes` was never computed: the code would fail with a TypeError) -/
def hashChanges (t : Task V H) : Option (List Name) :=
  match t.hashes with
  | none => none
  | some old =>
    some ((computeHashes hash t.inputs).filterMap (fun p => if old.lookup p.1 = some p.2 then none else some p.1))

structure Outcome (C : Type) where
  dir : C                     -- the result was saved under `cache_root / dir`
  raised : Bool               -- `_check_for_hash_changes` raised RuntimeError
  changed : List Name         -- the fields it names
deriving DecidableEq, Repr

/-- `Job.run` as far as the recorded inputs are concerned (`check = false`: the call to
    `_check_for_hash_changes` removed — only used to show that the check is what reports the change) -/
def runJob (memo check : Bool) (j : Job V H C) (f : Name → V → V) : Outcome C :=
  let r1 := j.getChecksum hash combine memo                                  -- `self.lockfile`, before the body
  let j2 : Job V H C := { r1.1 with task := { r1.1.task with inputs := mutate f r1.1.task.inputs } }
  let r3 := j2.getChecksum hash combine memo                                 -- `save(self.cache_dir, …)`
  let ch := (hashChanges hash r3.1.task).getD []
  { dir := r3.2, raised := check && !ch.isEmpty, changed := ch }

def Job.fresh (ins : List (Name × V)) : Job V H C := ⟨⟨ins, none⟩, none⟩

/-- A post-run check that re-hashes only the fields with `skip n = false` (NOT the code: `_hash_changes` re-hashes
    every field, `skip = fun _ => false`).  Kept as documentation of why every field must be re-hashed: a variant
    that exempts some class of values — say "hashable, hence immutable" — is `skip` = the fields holding such values. -/
def runJobSkip (skip : Name → Bool) (memo check : Bool) (j : Job V H C) (f : Name → V → V) : Outcome C :=
  let o := runJob hash combine memo check j f
  let ch := o.changed.filter (fun n => !skip n)
  { o with raised := check && !ch.isEmpty, changed := ch }

/-- The job as it arrives in a worker process: `Job.__setstate__(Job.__getstate__(job))` (`cf` and the batch
    workers run a cloudpickled copy).  `__getstate__` copies `__dict__` (so `_checksum` travels) and replaces `task`
    by `cp.dumps(task)` (so `task._hashes` travels inside it); `__setstate__` restores `task` by `cp.loads` and does
    nothing else — `keepRefs = true`, the identity on the modelled attributes (tied to the source by
    `C19_pickle_tie` over `Gen/PickleState.lean`).  `keepRefs = false` is a variant that drops the reference hashes
    while the cached checksum stays, kept only as documentation (`C19_witness_drop_refs`). -/
def pickleRT (keepRefs : Bool) (j : Job V H C) : Job V H C :=
  if keepRefs then j else { j with task := { j.task with hashes := none } }

/-- `Job.run` in a worker process -/
def runJobWorker (keepRefs memo check : Bool) (j : Job V H C) (f : Name → V → V) : Outcome C :=
  runJob hash combine memo check (pickleRT keepRefs j) f

/-- the reference hashes the check will compare against, as they are right after the body (`none`: there are none;
    the code would fail with a TypeError, a variant answering "no changes" passes silently) -/
def refsAtCheck (memo : Bool) (j : Job V H C) (f : Name → V → V) : Option (List (Name × H)) :=
  let r1 := j.getChecksum hash combine memo
  let j2 : Job V H C := { r1.1 with task := { r1.1.task with inputs := mutate f r1.1.task.inputs } }
  (j2.getChecksum hash combine memo).1.task.hashes

/-- what `Submitter.__call__` does with the RuntimeError -/
inductive Report | silent | raised | logged
deriving DecidableEq, Repr

/-- what `Submitter.__call__` does when the failing job is a NODE of the submitted workflow (or a state of a split
    task, which the submitter wraps in a workflow): the workflow job fails and stores an errored result, so the error
    is raised (`raise_errors`, the debug worker's default) or logged -/
def reportNode (raiseErrors : Bool) (o : Outcome C) : Report :=
  if !o.raised then .silent else if raiseErrors then .raised else .logged


/-- `sameJobObject`: debug worker (the submitter's Job object ran, its checksum is memoised);
    otherwise (pool worker) the submitter's own Job object computes its checksum only now, from the values the
    submitting process sees: `visible n` = the body's change to field `n` is visible there (files on disk) -/
def report (raiseErrors sameJobObject : Bool) (visible : Name → Bool) (ins : List (Name × V)) (f : Name → V → V)
    [DecidableEq C] (o : Outcome C) : Report :=
  if !o.raised then .silent else
  let parentCk : C :=
    if sameJobObject then o.dir
    else combine (computeHashes hash (mutate (fun n v => if visible n then f n v else v) ins))
  if raiseErrors || parentCk != o.dir then .raised else .logged

end

/-! ### staging of file inputs -/

inductive CopyMode | copy | link | hardlink | leave
deriving DecidableEq, Repr

/-- files as inode → content -/
abbrev FS := Nat → Nat

/-- `copy_nested_files(value, dest_dir=cache_dir, mode=…)`: `copy` creates an independent file `fresh` in the job
    directory; `link`/`hardlink` create another name for the same inode; `leave` (what `any` resolves to) passes
    the original path.  Returns the file system and the inode behind the staged path. -/
def stage (m : CopyMode) (orig fresh : Nat) (fs : FS) : FS × Nat :=
  match m with
  | .copy => (fun i => if i = fresh then fs orig else fs i, fresh)
  | _ => (fs, orig)

/-- the inode the body writes to: shell tasks get the staged path (`job.inputs`), python tasks get the task's own
    attribute value, i.e. the original path -/
def bodyTarget (usesStaged : Bool) (m : CopyMode) (orig fresh : Nat) (fs : FS) : FS × Nat :=
  if usesStaged then stage m orig fresh fs else (fs, orig)

/-- the body overwrites the file it was given -/
def writeThrough (usesStaged : Bool) (m : CopyMode) (orig fresh : Nat) (fs : FS) (new : Nat) : FS :=
  let r := bodyTarget usesStaged m orig fresh fs
  fun i => if i = r.2 then new else r.1 i

end PydraModel.JobProto.HashCheck
