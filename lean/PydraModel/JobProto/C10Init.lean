import PydraModel.Gen.JobSkeleton
import PydraModel.JobProto.Reduction
/- Finite check of the interleaving theorem on the GENERATED skeletons (kernel evaluation; see `Reduction.lean`). -/
namespace PydraModel.JobProto.CheckC10
open PydraModel.JobProto PydraModel.Gen.JobSkeleton
set_option maxRecDepth 100000

/-- number of moves within which a solo call is required to end -/
def soloFuel : Nat := 400

theorem initGood_run : InitGood jobRun auditStartChdir soloFuel := by decide +kernel
theorem initGood_async : InitGood jobRunAsync auditStartChdir soloFuel := by decide +kernel

end PydraModel.JobProto.CheckC10
