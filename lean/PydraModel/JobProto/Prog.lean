/-
Engine `JobProto` (DESIGN §5.4), shared interface: the action alphabet `Act`, the statement skeleton type
`Prog` (what `harness/extractors/job_skeleton.py` emits into `PydraModel/Gen/JobSkeleton.lean` from the
current source of `Job.run` / `Job.run_async` / `_populate_filesystem` / `save` / `record_error`), its
flattening, and the generic control-flow interpreter `Prog.run`, parametrised by the meaning of the actions
(`Sem σ`), so that several state spaces (crash worlds, cache histories, audit logs) share one reading of
`try / except / finally / with lock / if not rerun / return`.

STABLE INTERFACE (used by the JobProto part-B files): `LockId`, `Act`, `Prog`, `Prog.seqs`, `Prog.size`,
`Prog.flatten`, `Ctl`, `Sem`, `thenIfNormal`/`handledBy`/`thenFinally`, `Prog.run`, `Scenario`, `Prog.trace`, `Prog.vpTrace`.
Core Lean only.
-/
namespace PydraModel.JobProto

/-- The two `SoftFileLock`s of the protocol: `<cache_root>/<checksum>.lock` (held around check-run-save by
    `Job.run` / `PydraFileLock`) and `<cache_root>/<checksum>_save.lock` (held by `save` around its writes). -/
inductive LockId | job | save
deriving DecidableEq, Repr

/-- Action alphabet.  One constructor per recognised statement (see the extractor for the exact source text
    each stands for).  `vp n` is the guarded hook point `vp(<vpNames[n]>)`: a no-op, present so that the
    skeleton's trace can be compared with `events.log` and so that crash/raise points have an index. -/
inductive Act
  | hookPreRun | hookPreRunTask | hookPostRunTask | hookPostRun
  | lockAcquire (l : LockId) | lockRelease (l : LockId)
  | loadResult        -- `result = self.result()`
  | returnIfCachedOk  -- `if result is not None and not result.errored: return result`
  | saveCwd | chdirJob | restoreCwd
  | writeInfo | unlinkInfo
  | clearDir          -- `if not self.can_resume and self.cache_dir.exists(): shutil.rmtree(self.cache_dir)`
  | mkDir             -- `self.cache_dir.mkdir(parents=False, exist_ok=self.can_resume)`
  | ensureDir         -- `task_path.mkdir(parents=True, exist_ok=True)` in `save`
  | saveJob | saveResult
  | copyOutputs       -- `copyfile_workflow` in `save` (workflow results only)
  | recordError
  | initResult        -- `result = Result(outputs=None, runtime=None, errored=False, …)`
  | markErrored       -- `result.errored = True`
  | markJobErrored    -- `self._errored = True`
  | clearJobErrored   -- `self._errored = False`
  | auditStart | auditTask | monitor | auditFinal
  | body | collectOutputs
  | reraise           -- bare `raise` in the handler
  | checkHashes | ret
  | vp (n : Nat)
deriving DecidableEq, Repr

/-- Statement skeleton.  `tryExceptFinally catchAll b e f`: `catchAll = false` is `except Exception:`,
    `true` is `except BaseException:` / bare `except:`. -/
inductive Prog
  | skip
  | act (a : Act)
  | seq (p q : Prog)
  | tryExceptFinally (catchAll : Bool) (b e f : Prog)
  | withLock (l : LockId) (b : Prog)
  | ifNotRerun (b : Prog)
  | ifAuditProv (b : Prog)
deriving DecidableEq, Repr

namespace Prog

/-- right-nested sequence of a statement list (what the generator emits) -/
def seqs : List Prog → Prog
  | [] => .skip
  | [p] => p
  | p :: ps => .seq p (seqs ps)

/-- number of action positions -/
def size : Prog → Nat
  | .skip => 0
  | .act _ => 1
  | .seq p q => p.size + q.size
  | .tryExceptFinally _ b e f => b.size + e.size + f.size
  | .withLock _ b => b.size + 2
  | .ifNotRerun b => b.size
  | .ifAuditProv b => b.size

/-- actions in source order; position `i` of this list is "action `i`" everywhere (fault points, traces) -/
def flatten : Prog → List Act
  | .skip => []
  | .act a => [a]
  | .seq p q => p.flatten ++ q.flatten
  | .tryExceptFinally _ b e f => b.flatten ++ e.flatten ++ f.flatten
  | .withLock l b => .lockAcquire l :: (b.flatten ++ [.lockRelease l])
  | .ifNotRerun b => b.flatten
  | .ifAuditProv b => b.flatten

theorem size_eq_length_flatten (p : Prog) : p.size = p.flatten.length := by
  induction p with
  | skip => rfl
  | act a => rfl
  | seq p q ihp ihq => simp [size, flatten, ihp, ihq]
  | tryExceptFinally c b e f ihb ihe ihf => simp [size, flatten, ihb, ihe, ihf, Nat.add_assoc]
  | withLock l b ih => simp [size, flatten, ih]
  | ifNotRerun b ih => simpa [size, flatten] using ih
  | ifAuditProv b ih => simpa [size, flatten] using ih

end Prog

/-- How a statement ends.  `raising base`: an exception is propagating (`base = true`: a `BaseException`
    that `except Exception` does not catch, e.g. `SystemExit`, `KeyboardInterrupt`).  `returning`: a `return`
    is unwinding through `finally` / `with`.  `dead`: the process is gone (no `finally`, no lock release).
    `blocked`: waiting for a lock held by a live process. -/
inductive Ctl | normal | raising (base : Bool) | returning | dead | blocked
deriving DecidableEq, Repr

/-- no further statement of this process runs (not even `finally` blocks) -/
def Ctl.stops : Ctl → Bool
  | .dead => true
  | .blocked => true
  | _ => false

/-- is an unwinding `c` stopped by `except Exception:` (`catchAll = false`) / `except BaseException:` (`true`)? -/
def Ctl.caughtBy (catchAll : Bool) : Ctl → Bool
  | .raising base => !base || catchAll
  | _ => false

/-- outcome of a `finally` block / lock release `c` run while `pending` was unwinding: a new exception or
    return replaces the pending one, a normal end lets the pending one continue -/
def Ctl.over (pending c : Ctl) : Ctl := if c = .normal then pending else c

/-- Meaning of the actions over a state space `σ`.  `act i a s`: effect of action `a` at position `i` of
    `flatten`; `rerun` / `prov` decide the two guards. -/
structure Sem (σ : Type) where
  act : Nat → Act → σ → σ × Ctl
  rerun : σ → Bool
  prov : σ → Bool

/-! Control-flow combinators on `(state, control)` pairs (kept separate so that general lemmas about `Prog.run`
    are proved once per combinator). -/

/-- sequencing: continue with `k` only after a normal end -/
def thenIfNormal {σ : Type} (r : σ × Ctl) (k : σ → σ × Ctl) : σ × Ctl :=
  if r.2 = .normal then k r.1 else r

/-- `except` clause: the handler `k` runs when the unwinding exception is caught -/
def handledBy {σ : Type} (catchAll : Bool) (r : σ × Ctl) (k : σ → σ × Ctl) : σ × Ctl :=
  if r.2.caughtBy catchAll then k r.1 else r

/-- `finally` block / lock release `k`: runs however the protected block ended, unless the process stopped -/
def thenFinally {σ : Type} (r : σ × Ctl) (k : σ → σ × Ctl) : σ × Ctl :=
  if r.2.stops then r else ((k r.1).1, r.2.over (k r.1).2)

namespace Prog

/-- Big-step control-flow semantics of a skeleton; `i` = position of the first action of `p` in the
    flattening of the whole program. -/
def run {σ : Type} (S : Sem σ) : Prog → Nat → σ → σ × Ctl
  | .skip, _, s => (s, .normal)
  | .act a, i, s => S.act i a s
  | .seq p q, i, s => thenIfNormal (p.run S i s) (q.run S (i + p.size))
  | .tryExceptFinally ca b e f, i, s =>
    thenFinally (handledBy ca (b.run S i s) (e.run S (i + b.size))) (f.run S (i + b.size + e.size))
  | .withLock l b, i, s =>
    thenIfNormal (S.act i (.lockAcquire l) s) fun s1 =>
      thenFinally (b.run S (i + 1) s1) (S.act (i + 1 + b.size) (.lockRelease l))
  | .ifNotRerun b, i, s => if S.rerun s then (s, .normal) else b.run S i s
  | .ifAuditProv b, i, s => if S.prov s then b.run S i s else (s, .normal)

end Prog

/-- A scenario for pure traces: the two guards and what each action does to the control flow. -/
structure Scenario where
  rerun : Bool := false
  prov : Bool := false
  ctl : Nat → Act → Ctl

/-- control effect of the actions whose effect does not depend on the state -/
def Act.defaultCtl : Act → Ctl
  | .ret => .returning
  | .reraise => .raising false
  | _ => .normal

/-- fresh run, nothing cached, nothing fails -/
def Scenario.plain : Scenario := { ctl := fun _ a => a.defaultCtl }

/-- a complete successful result is cached: `returnIfCachedOk` returns -/
def Scenario.cached : Scenario :=
  { ctl := fun _ a => if a = .returnIfCachedOk then .returning else a.defaultCtl }

/-- the task body raises an `Exception` -/
def Scenario.bodyRaises : Scenario :=
  { ctl := fun _ a => if a = .body then .raising false else a.defaultCtl }

def traceSem (sc : Scenario) : Sem (List (Nat × Act)) where
  act i a log := (log ++ [(i, a)], sc.ctl i a)
  rerun _ := sc.rerun
  prov _ := sc.prov

/-- the actions performed (with their positions), in order, and how the program ends -/
def Prog.trace (p : Prog) (sc : Scenario) : List (Nat × Act) × Ctl := p.run (traceSem sc) 0 []

/-- hook points passed, in order (what `events.log` shows for one run) -/
def Prog.vpTrace (p : Prog) (sc : Scenario) : List Nat :=
  (p.trace sc).1.filterMap (fun x => match x.2 with | .vp n => some n | _ => none)

end PydraModel.JobProto
