import PydraModel.JobProto.Lifecycle
/-
C10 machinery, part 4: EXACTLY ONCE for serialized calls.  By `Mutex.lean` / `Discipline.lean` the accesses to the
job directory of concurrent disciplined submitters are serialized: the calls of the processes take effect one
after the other, in some order.  Here: for ANY number of submitters and ANY order, if nobody asks for a rerun,
the body succeeds and nobody crashes, the task body is entered exactly once (not at all if a complete good result
was already there) and every submitter returns the same complete good result.
-/
namespace PydraModel.JobProto

/-- the calls of the submitters one after the other (each submitter a process / `Job` object of its own):
    the world afterwards and what each call returned -/
def serialRun (p : Prog) : List Env → World → World × List Outcome
  | [], w => (w, [])
  | env :: envs, w =>
    let r := exec p env .none w
    let rest := serialRun p envs (nextJob r.1)
    (rest.1, outcome r :: rest.2)

/-- FINITE CHECK (per skeleton): one call without rerun and with a succeeding body, on a representative -/
def CallGood (p : Prog) (ac : Bool) : Prop :=
  ∀ c0 ∈ baseCores, ∀ pv ∈ [false, true],
    let r := exec p ⟨false, pv, none, ac⟩ .none ⟨c0, []⟩
    outcome r = .returned (some good) ∧ r.1.core.result = .complete good ∧ r.1.core.dir = true ∧
    execsIn r.1.evs = (if c0.result.isGood && c0.dir then 0 else 1) ∧ (nextJobC r.1.core).Initial

instance (p : Prog) (ac : Bool) : Decidable (CallGood p ac) := by unfold CallGood; infer_instance

/-- one such call from any initial world -/
theorem call_good (p : Prog) (ac : Bool) (hC : CallGood p ac) (w0 : World) (h0 : w0.core.Initial) (pv : Bool) :
    let r := exec p ⟨false, pv, none, ac⟩ .none w0
    outcome r = .returned (some good) ∧ r.1.core.result = .complete good ∧ r.1.core.dir = true ∧
    r.1.execs = w0.execs + (if w0.core.result.isGood && w0.core.dir then 0 else 1) ∧ (nextJob r.1).core.Initial := by
  obtain ⟨h2, he, hd, hr, hi, hc, hv, _, hjl, hsl⟩ := exec_base p ⟨false, pv, none, ac⟩ .none w0
  obtain ⟨b1, b2, b3, b4, b5⟩ := hC _ (initial_normC_mem w0.core h0) pv (by cases pv <;> simp)
  refine ⟨?_, hr.trans b2, hd.trans b3, ?_, ?_⟩
  · unfold outcome at b1 ⊢
    rw [h2, hv]; exact b1
  · simp only [World.execs]
    rw [he, execsIn_append, b4, Nat.add_comm]
    rfl
  · obtain ⟨i1, i2, i3, i4, i5, _, _, _, _⟩ := b5
    refine ⟨?_, ?_, ?_, ?_, ?_, rfl, rfl, rfl, rfl⟩
    · show (exec p _ .none w0).1.core.result.legal = true
      rw [hr]; exact i1
    · show (exec p _ .none w0).1.core.jobLock.noLiveHolder = true
      apply normL_noLive; rw [hjl]; exact i2
    · show (exec p _ .none w0).1.core.saveLock.noLiveHolder = true
      apply normL_noLive; rw [hsl]; exact i3
    · show (exec p _ .none w0).1.core.info = false
      rw [hi]; exact i4
    · show (exec p _ .none w0).1.core.cwd = .orig
      rw [hc]; exact i5

/-- the flags of a submitter that does not ask for a rerun and whose body succeeds -/
def Env.plain (ac : Bool) (env : Env) : Prop := env.rerun = false ∧ env.bodyFails = none ∧ env.auditChdir = ac

/-- once a complete good result is there, every further submitter returns it without entering the body -/
theorem serial_cached (p : Prog) (ac : Bool) (hC : CallGood p ac) :
    ∀ (envs : List Env), (∀ e ∈ envs, e.plain ac) → ∀ (w : World), w.core.Initial →
      w.core.result = .complete good → w.core.dir = true →
      (serialRun p envs w).1.execs = w.execs ∧ ∀ o ∈ (serialRun p envs w).2, o = .returned (some good) := by
  intro envs
  induction envs with
  | nil => intro _ w _ _ _; exact ⟨rfl, fun o ho => by cases ho⟩
  | cons env envs ih =>
    intro hall w h0 hres hdir
    obtain ⟨rr, pv, bf, ac'⟩ := env
    obtain ⟨e1, e2, e3⟩ := hall _ List.mem_cons_self
    simp only at e1 e2 e3
    subst e1 e2 e3
    obtain ⟨c1, c2, c3, c4, c5⟩ := call_good p ac' hC w h0 pv
    have hg : (w.core.result.isGood && w.core.dir) = true := by
      rw [(ResFile.isGood_iff _).mpr hres, hdir]; rfl
    rw [hg] at c4
    obtain ⟨i1, i2⟩ := ih (fun e he => hall e (List.mem_cons_of_mem _ he)) (nextJob (exec p ⟨false, pv, none, ac'⟩ .none w).1)
      c5 c2 c3
    simp only [serialRun]
    refine ⟨?_, ?_⟩
    · rw [i1]; exact c4
    · intro o ho
      rcases List.mem_cons.mp ho with rfl | ho
      · exact c1
      · exact i2 o ho

/-- EXACTLY ONCE, any number of submitters, any order -/
theorem serial_once (p : Prog) (ac : Bool) (hC : CallGood p ac) (envs : List Env) (hne : envs ≠ [])
    (hall : ∀ e ∈ envs, e.plain ac) (w0 : World) (h0 : w0.core.Initial) :
    (serialRun p envs w0).1.execs = w0.execs + (if w0.core.result.isGood && w0.core.dir then 0 else 1) ∧
    ∀ o ∈ (serialRun p envs w0).2, o = .returned (some good) := by
  cases envs with
  | nil => exact absurd rfl hne
  | cons env envs =>
    obtain ⟨rr, pv, bf, ac'⟩ := env
    obtain ⟨e1, e2, e3⟩ := hall _ List.mem_cons_self
    simp only at e1 e2 e3
    subst e1 e2 e3
    obtain ⟨c1, c2, c3, c4, c5⟩ := call_good p ac' hC w0 h0 pv
    obtain ⟨i1, i2⟩ := serial_cached p ac' hC envs (fun e he => hall e (List.mem_cons_of_mem _ he))
      (nextJob (exec p ⟨false, pv, none, ac'⟩ .none w0).1) c5 c2 c3
    simp only [serialRun]
    refine ⟨?_, ?_⟩
    · rw [i1]; exact c4
    · intro o ho
      rcases List.mem_cons.mp ho with rfl | ho
      · exact c1
      · exact i2 o ho

end PydraModel.JobProto
