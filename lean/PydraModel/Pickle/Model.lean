/-
Engine `Pickle` (DESIGN §5.10, C29): attribute-level model of the `__getstate__`/`__setstate__` pairs of
`Job`, `Submitter`, `Worker` (cf/debug/slurm/sge) and `Result`.

An object is a total map attribute name → value; the methods are lists of per-attribute steps
(regenerated from the source by harness/extractors/pickle_state.py into `Gen/PickleState.lean`).
`pickled v` is the byte string `cp.dumps(v)`; `cp.loads` is its left inverse (the cloudpickle
contract of DESIGN §4, sampled by the correspondence on every run) and fails on anything else.
-/
namespace PydraModel.Pickle

inductive Val
  | absent                 -- no such attribute
  | none                   -- Python `None`
  | atom (n : Nat)         -- any other picklable value
  | ref (i : Nat)          -- reference to another object of the pickled graph (heap index, see Pickle/Deep.lean)
  | pickled (v : Val)      -- `cp.dumps(v)`
  | fresh                  -- a value re-created by `__setstate__` (new event loop, new pool, `{}`)
  | err                    -- the method raised
deriving DecidableEq, Repr

/-- what one statement does to the attribute it names -/
inductive Prim | enc | dec | encNN | decNN | null | drop | fresh
deriving DecidableEq, Repr

def Prim.app : Prim → Val → Val
  | .enc, v => .pickled v
  | .dec, .pickled v => v
  | .dec, _ => .err
  | .encNN, .none => .none
  | .encNN, v => .pickled v
  | .decNN, .none => .none
  | .decNN, .pickled v => v
  | .decNN, _ => .err
  | .null, _ => .none
  | .drop, _ => .absent
  | .fresh, _ => .fresh

/-- one statement of a `__getstate__`/`__setstate__` body -/
inductive Step
  | all                       -- copy every attribute (`__dict__.copy()`, `attrs.asdict`, `__dict__.update`, setattr loop)
  | enc (a : String)          -- state[a] = cp.dumps(state[a])
  | dec (a : String)          -- state[a] = cp.loads(state[a])
  | encNN (a : String)        -- the same, guarded by `is not None`
  | decNN (a : String)
  | null (a : String)         -- state[a] = None / self.a = None
  | drop (a : String)         -- del state[a]
  | fresh (a : String)        -- self.a = <new object> / state[a] = {}
deriving DecidableEq, Repr

def Step.on (s : Step) (a : String) : Option Prim :=
  match s with
  | .all => Option.none
  | .enc b => if a = b then some .enc else Option.none
  | .dec b => if a = b then some .dec else Option.none
  | .encNN b => if a = b then some .encNN else Option.none
  | .decNN b => if a = b then some .decNN else Option.none
  | .null b => if a = b then some .null else Option.none
  | .drop b => if a = b then some .drop else Option.none
  | .fresh b => if a = b then some .fresh else Option.none

def Step.attr : Step → Option String
  | .all => Option.none
  | .enc b | .dec b | .encNN b | .decNN b | .null b | .drop b | .fresh b => some b

abbrev Obj := String → Val

def Step.run (s : Step) (o : Obj) : Obj := fun a =>
  match s.on a with
  | some p => p.app (o a)
  | Option.none => o a

def runSteps (steps : List Step) (o : Obj) : Obj := steps.foldl (fun o s => s.run o) o

structure ClassState where
  name : String
  get : List Step
  set : List Step
deriving Repr

/-- pickling round trip of an object of class `C`: `__setstate__(__getstate__(o))`
    (the pickle stream in between carries the state dictionary unchanged). -/
def roundTrip (C : ClassState) (o : Obj) : Obj := runSteps (C.get ++ C.set) o

/-- primitive effects a step list has on attribute `a`, in order -/
def effOn (steps : List Step) (a : String) : List Prim := steps.filterMap (·.on a)

def denote (ps : List Prim) (v : Val) : Val := ps.foldl (fun v p => p.app v) v

/-- cancel `enc;dec` and `encNN;decNN` pairs (stack machine, one pass) -/
def normAux : List Prim → List Prim → List Prim
  | stack, [] => stack.reverse
  | .enc :: stack, .dec :: rest => normAux stack rest
  | .encNN :: stack, .decNN :: rest => normAux stack rest
  | stack, p :: rest => normAux (p :: stack) rest

def normalize (ps : List Prim) : List Prim := normAux [] ps

def mentioned (steps : List Step) : List String := steps.filterMap (·.attr)

/-- decidable check of one class against its list of transient attributes:
    both methods copy all attributes; every attribute the methods mention is either transient or
    gets the identity effect; every transient attribute ends re-created or explicitly `None`. -/
def checkClass (C : ClassState) (transient : List String) : Bool :=
  C.get.contains .all && C.set.contains .all &&
  (mentioned (C.get ++ C.set)).all (fun a =>
    transient.contains a || normalize (effOn (C.get ++ C.set) a) == []) &&
  transient.all (fun a =>
    match (effOn (C.get ++ C.set) a).getLast? with
    | some .null | some .fresh => true
    | _ => false)

end PydraModel.Pickle
