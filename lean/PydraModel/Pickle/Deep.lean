import PydraModel.Pickle.Lemmas
/-
Deep (object-graph) level of the Pickle engine: a pickled Job is a graph Job → Submitter → Worker, Job → task, …;
`pickle` applies every reachable object's own `__getstate__`/`__setstate__` pair and keeps references
(its memo table preserves sharing).  The graph is a heap `Nat → Option (ClassState × Obj)` whose attribute
values may be `Val.ref i`; an object of a class without custom methods is `(plain, o)` with empty step lists.
-/
namespace PydraModel.Pickle

abbrev Heap := Nat → Option (ClassState × Obj)

/-- pickling round trip of a whole object graph: every object goes through its class's pair -/
def heapRT (h : Heap) : Heap := fun i => (h i).map (fun co => (co.1, roundTrip co.1 co.2))

/-- value found by following an attribute path from object `i` (`.ref i` for the empty path) -/
def follow (h : Heap) : Nat → List String → Val
  | i, [] => .ref i
  | i, a :: p =>
    match h i with
    | Option.none => .absent
    | some (_, o) =>
      match p with
      | [] => o a
      | _ :: _ =>
        match o a with
        | .ref j => follow h j p
        | _ => .absent

/-- a path that never goes through (or ends at) an attribute its owner's class declares transient,
    through objects whose classes pass the check -/
def stable (tr : String → List String) (h : Heap) : Nat → List String → Prop
  | _, [] => True
  | i, a :: p =>
    match h i with
    | Option.none => True
    | some (C, o) =>
      checkClass C (tr C.name) = true ∧ a ∉ tr C.name ∧
      match p with
      | [] => True
      | _ :: _ =>
        match o a with
        | .ref j => stable tr h j p
        | _ => True

theorem roundTrip_of_check (C : ClassState) (tr : List String) (h : checkClass C tr = true)
    (o : Obj) (a : String) (ha : a ∉ tr) : roundTrip C o a = o a := by
  unfold roundTrip
  rw [run_pointwise]
  by_cases hm : a ∈ mentioned (C.get ++ C.set)
  · unfold checkClass at h
    simp only [Bool.and_eq_true, List.all_eq_true, Bool.or_eq_true, List.contains_eq_mem,
      decide_eq_true_eq, beq_iff_eq] at h
    rcases h.1.2 a hm with h1 | h1
    · exact absurd h1 ha
    · rw [← normalize_denote, h1]; rfl
  · rw [effOn_not_mentioned _ a hm]; rfl

/-- DEEP ROUND TRIP: along every stable path, the pickled-and-restored graph holds what the original held
    (a leaf value, or a reference to the same object, whose own stable paths are covered by the same
    statement). -/
theorem follow_heapRT (tr : String → List String) (h : Heap) :
    ∀ (p : List String) (i : Nat), stable tr h i p → follow (heapRT h) i p = follow h i p := by
  intro p
  induction p with
  | nil => intro i _; rfl
  | cons a p ih =>
    intro i hs
    unfold follow
    unfold stable at hs
    cases hh : h i with
    | none => simp [heapRT, hh]
    | some co =>
      obtain ⟨C, o⟩ := co
      rw [hh] at hs
      obtain ⟨hc, ha, hrest⟩ := hs
      have hv : roundTrip C o a = o a := roundTrip_of_check C _ hc o a ha
      simp only [heapRT, hh, Option.map_some]
      cases p with
      | nil => exact hv
      | cons b q =>
        simp only [hv]
        cases hoa : o a with
        | ref j =>
          simp only [hoa] at hrest
          exact ih j hrest
        | _ => rfl

end PydraModel.Pickle
