import PydraModel.Pickle.Model
namespace PydraModel.Pickle

theorem run_pointwise (steps : List Step) : ∀ (o : Obj) (a : String),
    runSteps steps o a = denote (effOn steps a) (o a) := by
  induction steps with
  | nil => intro o a; rfl
  | cons s rest ih =>
    intro o a
    unfold runSteps
    simp only [List.foldl_cons]
    have := ih (s.run o) a
    unfold runSteps at this
    rw [this]
    unfold effOn
    simp only [List.filterMap_cons, Step.run]
    cases h : s.on a with
    | none => simp
    | some p => simp [denote]

theorem denote_append (xs ys : List Prim) (v : Val) : denote (xs ++ ys) v = denote ys (denote xs v) := by
  simp [denote, List.foldl_append]

theorem enc_dec (v : Val) : Prim.app .dec (Prim.app .enc v) = v := rfl

theorem encNN_decNN (v : Val) : Prim.app .decNN (Prim.app .encNN v) = v := by
  cases v <;> rfl

/-- `normAux` preserves the denotation of `stack.reverse ++ rest` -/
theorem normAux_denote : ∀ (rest stack : List Prim) (v : Val),
    denote (normAux stack rest) v = denote (stack.reverse ++ rest) v := by
  intro rest
  induction rest with
  | nil => intro stack v; simp [normAux]
  | cons p rest ih =>
    intro stack v
    have general : denote (normAux (p :: stack) rest) v = denote (stack.reverse ++ p :: rest) v := by
      rw [ih]; simp
    cases stack with
    | nil => simpa [normAux] using general
    | cons q stack =>
      cases q <;> cases p <;> simp only [normAux] <;> try exact general
      · -- enc ; dec
        rw [ih]
        simp only [List.reverse_cons, List.append_assoc, denote_append, List.singleton_append]
        simp [denote, enc_dec]
      · -- encNN ; decNN
        rw [ih]
        simp only [List.reverse_cons, List.append_assoc, denote_append, List.singleton_append]
        simp [denote, encNN_decNN]

theorem normalize_denote (ps : List Prim) (v : Val) : denote (normalize ps) v = denote ps v := by
  unfold normalize; rw [normAux_denote]; simp

theorem effOn_not_mentioned (steps : List Step) (a : String) (h : a ∉ mentioned steps) : effOn steps a = [] := by
  induction steps with
  | nil => rfl
  | cons s rest ih =>
    unfold mentioned at h
    unfold effOn
    simp only [List.filterMap_cons]
    cases hs : s.attr with
    | none =>
      have : s.on a = none := by cases s <;> simp_all [Step.attr, Step.on]
      simp only [this]
      apply ih
      unfold mentioned
      simpa [hs] using h
    | some b =>
      have hab : a ≠ b := by
        intro hab; apply h; simp [hs, hab]
      have : s.on a = none := by
        cases s <;> simp_all [Step.attr, Step.on]
      simp only [this]
      apply ih
      unfold mentioned
      intro hm; apply h; simp [hs]; exact Or.inr (by simpa [mentioned] using hm)

end PydraModel.Pickle
