import PydraModel.Gen.HashLits
/-
What the hand-written model (`Hash/Model.lean`) was written for — a frozen copy of what the extractor produced from
pydra/utils/hash.py and pydra/compose/base/task.py when the model was written: digests of the normalised source of
every modelled function, the serializer registrations, the hashed code attributes, the struct formats.  `sources_ok`
compares it with what the extractor produces NOW (`Gen/HashLits.lean`, regenerated on every run): any change of a
modelled function re-opens this obligation.
-/
namespace PydraModel.Hash.Sources
open PydraModel.Gen

def expected_packFormats : List (String × List String) := [("bytes_repr_int", ["<q"]), ("bytes_repr_float", ["<d"]), ("bytes_repr_complex", ["<dd"])]

def expected_codeAttrs : List String := ["co_argcount", "co_posonlyargcount", "co_kwonlyargcount", "co_nlocals", "co_flags", "co_code", "co_consts", "co_names", "co_varnames", "co_freevars", "co_name", "co_cellvars"]

def expected_registrations : List String := [
  "bytes_repr <- singledispatch",
  "bytes_repr_builtin_repr <- register_serializer(bool)",
  "bytes_repr_builtin_repr <- register_serializer(range)",
  "bytes_repr_builtin_repr <- register_serializer(type(Ellipsis))",
  "bytes_repr_builtin_repr <- register_serializer(type(None))",
  "bytes_repr_bytes <- register_serializer",
  "bytes_repr_code <- register_serializer",
  "bytes_repr_complex <- register_serializer",
  "bytes_repr_dict <- register_serializer",
  "bytes_repr_float <- register_serializer",
  "bytes_repr_function <- register_serializer",
  "bytes_repr_int <- register_serializer",
  "bytes_repr_method <- register_serializer",
  "bytes_repr_numpy <- register_serializer(numpy.generic)",
  "bytes_repr_numpy <- register_serializer(numpy.ndarray)",
  "bytes_repr_partial <- register_serializer",
  "bytes_repr_pathlike <- register_serializer",
  "bytes_repr_seq <- register_serializer(list)",
  "bytes_repr_seq <- register_serializer(tuple)",
  "bytes_repr_set <- register_serializer(frozenset)",
  "bytes_repr_set <- register_serializer(set)",
  "bytes_repr_str <- register_serializer",
  "bytes_repr_type <- register_serializer(ty._GenericAlias)",
  "bytes_repr_type <- register_serializer(ty._SpecialForm)",
  "bytes_repr_type <- register_serializer(type)",
  "bytes_repr_type <- register_serializer(types.GenericAlias)",
  "bytes_repr_type <- register_serializer(types.UnionType)",
  "stmt: register_serializer(types.UnionType)(bytes_repr_type)"
]

def expected_sources : List (String × String) := [
  ("hash.hash_function", "107d79533be54cdfa0146d4e"),
  ("hash.hash_object", "57159e09b4ff720e9d88ae64"),
  ("hash.hash_single", "74c1916bcf32db77787d0f60"),
  ("hash.bytes_repr", "10976dbe8b0a2801e0636dbd"),
  ("hash.bytes_repr_builtin_repr", "0df79b0fa79bca5f33565acb"),
  ("hash.bytes_repr_pathlike", "49e39fd68faa2f958430bbab"),
  ("hash.bytes_repr_bytes", "fad9a8fabf6442d710c5adc4"),
  ("hash.bytes_repr_str", "58ed0f50f4a95028a98c9a10"),
  ("hash.bytes_repr_int", "e40fe1defb89fabf417bf77c"),
  ("hash.bytes_repr_float", "bdedd989a175959db35455c6"),
  ("hash.bytes_repr_complex", "56c97d2137b7ec31f24f5e84"),
  ("hash.bytes_repr_dict", "a3f977422388c1c78bc2996e"),
  ("hash.bytes_repr_type", "9718492fe0f4ccb2b77e2954"),
  ("hash.bytes_repr_seq", "2a12dbfdbdfcbfe2865d7c2a"),
  ("hash.bytes_repr_set", "d4ac405f564d4af41c53ed2c"),
  ("hash.bytes_repr_code", "e03593b5287cabda61ec5b6f"),
  ("hash.bytes_repr_partial", "115f258bf84372e0720b0aa9"),
  ("hash.bytes_repr_method", "6593ae27e9f07a5b131e540c"),
  ("hash.bytes_repr_function", "66e85fc106aee0aad583db1e"),
  ("hash.bytes_repr_mapping_contents", "25f43b26791680c1eb799036"),
  ("hash.bytes_repr_sequence_contents", "ee888d21f3f444fc2421eac9"),
  ("hash.bytes_repr_numpy", "20bcbf13d412dab7514b7f91"),
  ("task._hash", "718091d0f876d5b29a488c40"),
  ("task._checksum", "1a5f3e1478ff1dae6fe0188e"),
  ("task._hash_changes", "43dd2adad9bce2fdf4a88530"),
  ("task._compute_hashes", "60db530e1bd8e118c9017605"),
  ("task.bytes_repr_task", "232adfe96c084d4699ab70a8")
]

/-- REGENERATED TIE: the modelled functions read today as they did when the model was written. -/
theorem sources_ok :
    HashLits.sources = expected_sources ∧ HashLits.registrations = expected_registrations
    ∧ HashLits.codeAttrs = expected_codeAttrs ∧ HashLits.packFormats = expected_packFormats
    ∧ HashLits.digestSize = 16 := by decide

end PydraModel.Hash.Sources
