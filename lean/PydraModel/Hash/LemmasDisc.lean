import PydraModel.Hash.LemmasRel
import PydraModel.Hash.OrderIndep
/-
Preparations for the discrimination theorem (collision-extraction form): the byte strings fed to `H`, inversion of
`pre`, the kind of a value read off its encoding, unique decoding of mapping contents.
-/
namespace PydraModel.Hash
open PydraModel.Gen

variable (H : Bytes → Bytes)

/-! ### what is fed to `H` -/

mutual
/-- every byte string that `H` is applied to while a pre-hash structure is evaluated -/
def Pre.inputs : Pre → List Bytes
  | .lit _ => []
  | .ref _ => []
  | .node _ ps => evalPureList H ps :: Pre.inputsList ps
  | .sorted ps => Pre.inputsList ps
def Pre.inputsList : List Pre → List Bytes
  | [] => []
  | p :: ps => Pre.inputs p ++ Pre.inputsList ps
end

/-- two different inputs of `H` among `S` with the same digest -/
def Collision (S : List Bytes) : Prop := ∃ x ∈ S, ∃ y ∈ S, x ≠ y ∧ H x = H y

theorem Collision.mono {S T : List Bytes} (h : ∀ x ∈ S, x ∈ T) : Collision H S → Collision H T := by
  rintro ⟨x, hx, y, hy, hne, he⟩
  exact ⟨x, h x hx, y, h y hy, hne, he⟩

theorem inputsList_append (ps qs : List Pre) :
    Pre.inputsList H (ps ++ qs) = Pre.inputsList H ps ++ Pre.inputsList H qs := by
  induction ps with
  | nil => simp [Pre.inputsList]
  | cons p ps ih => simp [Pre.inputsList, ih, List.append_assoc]

theorem inputsList_lit (b : Bytes) (ps : List Pre) : Pre.inputsList H (lit b :: ps) = Pre.inputsList H ps := by
  simp [Pre.inputsList, lit, Pre.inputs]

theorem inputsList_mem_of_mem {p : Pre} {ps : List Pre} (hp : p ∈ ps) : ∀ x ∈ Pre.inputs H p, x ∈ Pre.inputsList H ps := by
  induction ps with
  | nil => simp at hp
  | cons q qs ih =>
    intro x hx
    simp only [List.mem_cons] at hp
    simp only [Pre.inputsList, List.mem_append]
    rcases hp with rfl | hp
    · left; exact hx
    · right; exact ih hp x hx

theorem inputsList_mapContents (l : List (Scalar × Pre)) :
    Pre.inputsList H (mapContents l) = Pre.inputsList H (l.map (·.2)) := by
  induction l with
  | nil => rfl
  | cons kp l ih =>
    obtain ⟨k, p⟩ := kp
    simp only [mapContents, inputsList_lit, Pre.inputsList, List.map_cons, ih]
    simp [lit, Pre.inputs]

/-- the inputs of a node `open ++ children ++ close` -/
theorem inputs_wrap (i : Nat) (op cl : Bytes) (ps : List Pre) :
    Pre.inputs H (.node i (lit op :: ps ++ [lit cl])) =
      evalPureList H (lit op :: ps ++ [lit cl]) :: Pre.inputsList H ps := by
  simp only [Pre.inputs, inputsList_lit, inputsList_append]
  simp [Pre.inputsList, lit, Pre.inputs]

/-! ### inversion of `pre` -/

theorem pre_seq_inv {i : Nat} {k : SeqKind} {xs : List PyVal} {p : Pre} (h : pre (.seq i k xs) = .ok p) :
    ∃ ps, preList xs = .ok ps ∧ p = .node i (lit (seqOpenLit k) :: ps ++ [lit (seqCloseLit k)]) := by
  simp only [pre] at h
  cases hps : preList xs with
  | error e => rw [hps] at h; cases h
  | ok ps =>
    rw [hps] at h
    simp only [except_bind_ok, except_pure, Except.ok.injEq] at h
    exact ⟨ps, rfl, h.symm⟩

theorem pre_set_inv {i : Nat} {f : Bool} {xs : List PyVal} {p : Pre} (h : pre (.set i f xs) = .ok p) :
    ∃ ps, preList xs = .ok ps
      ∧ p = .node i [lit (setName f ++ HashLits.setOpen), .sorted ps, lit HashLits.setClose] := by
  simp only [pre] at h
  cases hps : preList xs with
  | error e => rw [hps] at h; cases h
  | ok ps =>
    rw [hps] at h
    simp only [except_bind_ok, except_pure, Except.ok.injEq] at h
    exact ⟨ps, rfl, h.symm⟩

/-- the inputs of a set node -/
theorem inputs_setNode (i : Nat) (op cl : Bytes) (ps : List Pre) :
    Pre.inputs H (.node i [lit op, .sorted ps, lit cl]) =
      evalPureList H [lit op, .sorted ps, lit cl] :: Pre.inputsList H ps := by
  simp [Pre.inputs, Pre.inputsList, lit]

theorem pre_dict_inv {i : Nat} {xs : List (Scalar × PyVal)} {p : Pre} (h : pre (.dict i xs) = .ok p) :
    ∃ ps, preItems xs = .ok ps
      ∧ p = .node i (lit HashLits.dictOpen :: mapContents (sortItems ps) ++ [lit HashLits.dictClose]) := by
  simp only [pre] at h
  cases hps : preItems xs with
  | error e => rw [hps] at h; cases h
  | ok ps =>
    rw [hps] at h
    simp only [except_bind_ok, except_pure, Except.ok.injEq] at h
    exact ⟨ps, rfl, h.symm⟩

theorem pre_obj_inv {i : Nat} {c : Bytes} {xs : List (Scalar × PyVal)} {p : Pre} (h : pre (.obj i c xs) = .ok p) :
    ∃ ps, preItems xs = .ok ps
      ∧ p = .node i (lit (c ++ HashLits.objOpen) :: mapContents (sortItems ps) ++ [lit HashLits.objClose]) := by
  simp only [pre] at h
  cases hps : preItems xs with
  | error e => rw [hps] at h; cases h
  | ok ps =>
    rw [hps] at h
    simp only [except_bind_ok, except_pure, Except.ok.injEq] at h
    exact ⟨ps, rfl, h.symm⟩

theorem pre_func_inv {i : Nat} {b : FuncBody} {code : List PyVal} {c g : List (Scalar × PyVal)} {p : Pre}
    (h : pre (.func i b code c g) = .ok p) :
    ∃ cs, preList code = .ok cs ∧ p = .node i (lit HashLits.funcOpen :: funcBodyParts b cs ++ [lit HashLits.funcClose]) := by
  simp only [pre] at h
  cases hps : preList code with
  | error e => rw [hps] at h; cases h
  | ok ps =>
    rw [hps] at h
    simp only [except_bind_ok, except_pure, Except.ok.injEq] at h
    exact ⟨ps, rfl, h.symm⟩

/-! ### children are nodes: their digests have the length of `H`'s output -/

theorem pre_isNode {v : PyVal} {p : Pre} (hg : inG0 v = true) (h : pre v = .ok p) : ∃ i ps, p = .node i ps := by
  cases v with
  | sc s => simp only [pre, Except.ok.injEq] at h; exact ⟨_, _, h.symm⟩
  | path c f => simp [inG0] at hg
  | ndarray c d s x => simp only [pre, Except.ok.injEq] at h; exact ⟨_, _, h.symm⟩
  | ty t => simp only [pre, Except.ok.injEq] at h; exact ⟨_, _, h.symm⟩
  | seq i k xs => obtain ⟨ps, _, rfl⟩ := pre_seq_inv h; exact ⟨_, _, rfl⟩
  | set i f xs => obtain ⟨ps, _, rfl⟩ := pre_set_inv h; exact ⟨_, _, rfl⟩
  | dict i xs => obtain ⟨ps, _, rfl⟩ := pre_dict_inv h; exact ⟨_, _, rfl⟩
  | obj i c xs => obtain ⟨ps, _, rfl⟩ := pre_obj_inv h; exact ⟨_, _, rfl⟩
  | func i b code c g => obtain ⟨cs, _, rfl⟩ := pre_func_inv h; exact ⟨_, _, rfl⟩
  | tyFields i f o => simp [inG0] at hg
  | task i t f p => simp [inG0] at hg
  | ref i => simp [inG0] at hg

theorem evalPure_node_length (hlen : ∀ x, (H x).length = 16) {p : Pre} (h : ∃ i ps, p = .node i ps) :
    (evalPure H p).length = 16 := by
  obtain ⟨i, ps, rfl⟩ := h
  simp only [evalPure]
  exact hlen _

/-! ### pairs (value, pre-hash) -/

def PreOf (a : PyVal × Pre) : Prop := pre a.1 = .ok a.2

theorem zip_preOf : ∀ {xs : List PyVal} {ps : List Pre}, preList xs = .ok ps →
    (∀ a ∈ xs.zip ps, PreOf a) ∧ (xs.zip ps).map (·.1) = xs ∧ (xs.zip ps).map (·.2) = ps
  | [], ps, h => by simp [preList] at h; subst h; simp
  | x :: xs, ps, h => by
    obtain ⟨p, ps', h1, h2, rfl⟩ := preList_cons_ok h
    obtain ⟨i1, i2, i3⟩ := zip_preOf h2
    refine ⟨?_, by simp [i2], by simp [i3]⟩
    intro a ha
    simp only [List.zip_cons_cons, List.mem_cons] at ha
    rcases ha with rfl | ha
    · exact h1
    · exact i1 a ha

def ItemPreOf (a : Scalar × PyVal) (b : Scalar × Pre) : Prop := a.1 = b.1 ∧ pre a.2 = .ok b.2

theorem preItems_rel : ∀ {xs : List (Scalar × PyVal)} {ps : List (Scalar × Pre)}, preItems xs = .ok ps →
    Rel2 ItemPreOf xs ps
  | [], ps, h => by simp [preItems] at h; subst h; simp [Rel2]
  | (k, v) :: xs, ps, h => by
    obtain ⟨p, ps', h1, h2, rfl⟩ := preItems_cons_ok h
    simp only [Rel2, ItemPreOf]
    exact ⟨⟨trivial, h1⟩, preItems_rel h2⟩

theorem Rel2_mem_left {α β : Type} {R : α → β → Prop} : ∀ {xs : List α} {ys : List β}, Rel2 R xs ys →
    ∀ b ∈ ys, ∃ a ∈ xs, R a b
  | [], [], _, b, hb => by simp at hb
  | [], _ :: _, h, _, _ => by simp [Rel2] at h
  | _ :: _, [], h, _, _ => by simp [Rel2] at h
  | x :: xs, y :: ys, h, b, hb => by
    simp only [Rel2] at h
    simp only [List.mem_cons] at hb
    rcases hb with rfl | hb
    · exact ⟨x, by simp, h.1⟩
    · obtain ⟨a, ha, hr⟩ := Rel2_mem_left h.2 b hb
      exact ⟨a, by simp [ha], hr⟩

/-! ### unique decoding of mapping contents -/

theorem mapBytes_inj : ∀ {l l' : List (Scalar × Bytes)},
    (∀ kd ∈ l, kd.1.WF ∧ kd.2.length = 16) → (∀ kd ∈ l', kd.1.WF ∧ kd.2.length = 16) →
    mapBytes l = mapBytes l' → l = l'
  | [], [], _, _, _ => rfl
  | [], (k, d) :: _, _, _, h => by
    exfalso
    simp only [mapBytes, List.append_assoc] at h
    have := congrArg List.length h
    simp only [List.length_nil, List.length_append] at this
    have hne := encScalar_ne_nil k
    have : (encScalar k).length = 0 := by omega
    exact hne (List.eq_nil_of_length_eq_zero this)
  | (k, d) :: _, [], _, _, h => by
    exfalso
    simp only [mapBytes, List.append_assoc] at h
    have := congrArg List.length h
    simp only [List.length_nil, List.length_append] at this
    have hne := encScalar_ne_nil k
    have : (encScalar k).length = 0 := by omega
    exact hne (List.eq_nil_of_length_eq_zero this)
  | (k, d) :: l, (k', d') :: l', h1, h2, h => by
    simp only [mapBytes, List.append_assoc] at h
    obtain ⟨hk, hd⟩ := h1 (k, d) (by simp)
    obtain ⟨hk', hd'⟩ := h2 (k', d') (by simp)
    obtain ⟨e1, e2⟩ := encScalar_prefix_code hk hk' h
    have e3 := List.append_cancel_left e2
    obtain ⟨e4, e5⟩ := prefix_cancel e3 (by rw [hd, hd'])
    have e6 := List.append_cancel_left e5
    have := mapBytes_inj (fun x hx => h1 x (by simp [hx])) (fun x hx => h2 x (by simp [hx])) e6
    simp only at e1 e4
    rw [e1, e4, this]

end PydraModel.Hash
