/-
Engine `Hash` (DESIGN §5.3) — byte-level helpers: decimal rendering (`str(int)`, `len(...)` inside f-strings),
little-endian packing (`struct.pack("<q"/"<d")`), lowercase hex (`bytes.hex()`).

Bytes are `List Nat` whose elements are < 256 by construction (`Byte := Nat` keeps the arithmetic in `omega`'s
fragment; nothing in the theorems needs the bound except where stated).  All functions are structurally or fuel
recursive so that `decide` can evaluate them in witness theorems.
-/
namespace PydraModel.Hash

abbrev Bytes := List Nat

/-- ASCII bytes of a Lean string literal (only used for CPython-level constants such as `repr(None)`,
    `list.__name__`; every literal that appears in pydra's *source* comes from `Gen/HashLits.lean`). -/
def ascii (s : String) : Bytes := s.toList.map Char.toNat

/-- decimal digits, least significant first; `fuel` bounds the number of digits. -/
def digitsRev : Nat → Nat → List Nat
  | 0, _ => []
  | fuel + 1, n => if n < 10 then [48 + n] else (48 + n % 10) :: digitsRev fuel (n / 10)

/-- `str(n).encode()` for a natural number (`n + 1` is always enough fuel). -/
def dec (n : Nat) : Bytes := (digitsRev (n + 1) n).reverse

/-- `str(z).encode()` for an integer. -/
def decInt (z : Int) : Bytes :=
  if z < 0 then 45 :: dec z.natAbs else dec z.natAbs

/-- `n` as `k` little-endian bytes (value taken modulo `256^k`). -/
def leBytes : Nat → Nat → Bytes
  | 0, _ => []
  | k + 1, n => (n % 256) :: leBytes k (n / 256)

/-- `struct.pack("<q", z)` for `-2^63 ≤ z < 2^63` (two's complement). -/
def packQ (z : Int) : Bytes := leBytes 8 (z % (2 ^ 64 : Int)).toNat

/-- `struct.pack("<d", x)` where `bits` is the IEEE-754 binary64 pattern of `x`. -/
def packD (bits : Nat) : Bytes := leBytes 8 bits

def hexDigit (n : Nat) : Nat := if n < 10 then 48 + n else 87 + n

/-- `bytes.hex().encode()` -/
def hex : Bytes → Bytes
  | [] => []
  | b :: bs => hexDigit (b / 16) :: hexDigit (b % 16) :: hex bs

/-- Lexicographic `<` on byte strings: Python's `bytes.__lt__`, and `str.__lt__` on the UTF-8 encodings
    (UTF-8 preserves code-point order; trusted, see C08's META). -/
def bytesLt : Bytes → Bytes → Bool
  | _, [] => false
  | [], _ :: _ => true
  | a :: as, b :: bs => if a < b then true else if b < a then false else bytesLt as bs

end PydraModel.Hash
