import PydraModel.Hash.LemmasKind
/-
C08 (and the base of C06): discrimination in collision-extraction form.

`discriminates`: if two values of `G₀` get the same hash then they have the same type and content (`≃`), or else two
DIFFERENT byte strings that were fed to `H` while hashing them have the same `H`-image.  `H` is an arbitrary function
with 16-byte output: nothing like injectivity is assumed.
-/
namespace PydraModel.Hash
open PydraModel.Gen

variable (H : Bytes → Bytes)

/-- the statement for one value `x` against every partner `w` -/
def Disc (x : PyVal) : Prop :=
  ∀ (w : PyVal) (p q : Pre), inG0 x = true → inG0 w = true → pre x = .ok p → pre w = .ok q →
    evalPure H p = evalPure H q → Equiv x w ∨ Collision H (Pre.inputs H p ++ Pre.inputs H q)

/-! ### pointwise steps -/

/-- children paired position by position: all equivalent, or a collision below some pair -/
theorem pointwise_disc (hlen : ∀ x, (H x).length = 16) :
    ∀ (as bs : List (PyVal × Pre)), (∀ a ∈ as, PreOf a ∧ inG0 a.1 = true ∧ Disc H a.1) →
      (∀ b ∈ bs, PreOf b ∧ inG0 b.1 = true) →
      as.map (fun a => evalPure H a.2) = bs.map (fun b => evalPure H b.2) →
      Rel2 Equiv (as.map (·.1)) (bs.map (·.1))
        ∨ Collision H (Pre.inputsList H (as.map (·.2)) ++ Pre.inputsList H (bs.map (·.2)))
  | [], [], _, _, _ => by left; simp [Rel2]
  | [], _ :: _, _, _, h => by simp at h
  | _ :: _, [], _, _, h => by simp at h
  | a :: as, b :: bs, ha, hb, h => by
    simp only [List.map_cons, List.cons.injEq] at h
    obtain ⟨pa, ga, da⟩ := ha a (by simp)
    obtain ⟨pb, gb⟩ := hb b (by simp)
    have hrest := pointwise_disc hlen as bs (fun x hx => ha x (by simp [hx])) (fun x hx => hb x (by simp [hx])) h.2
    have hhead := da b.1 a.2 b.2 ga gb pa pb h.1
    simp only [List.map_cons, Pre.inputsList, Rel2]
    rcases hhead with he | hc
    · rcases hrest with hr | hc'
      · left; exact ⟨he, hr⟩
      · right
        refine Collision.mono H ?_ hc'
        intro x hx
        simp only [List.mem_append] at hx ⊢
        rcases hx with hx | hx
        · left; right; exact hx
        · right; right; exact hx
    · right
      refine Collision.mono H ?_ hc
      intro x hx
      simp only [List.mem_append] at hx ⊢
      rcases hx with hx | hx
      · left; left; exact hx
      · right; left; exact hx

/-- items paired position by position (equal keys): all equivalent, or a collision below some pair -/
theorem pointwise_disc_items :
    ∀ (ix iy : List (Scalar × PyVal)) (sx sy : List (Scalar × Pre)),
      Rel2 ItemPreOf ix sx → Rel2 ItemPreOf iy sy →
      (∀ a ∈ ix, inG0 a.2 = true ∧ Disc H a.2) → (∀ b ∈ iy, inG0 b.2 = true) →
      sx.map (digestItem H) = sy.map (digestItem H) →
      Rel2 ItemEquiv ix iy
        ∨ Collision H (Pre.inputsList H (sx.map (·.2)) ++ Pre.inputsList H (sy.map (·.2)))
  | [], iy, sx, sy, h1, h2, _, _, h => by
    cases sx with
    | cons _ _ => simp [Rel2] at h1
    | nil =>
      cases sy with
      | cons _ _ => simp at h
      | nil =>
        cases iy with
        | cons _ _ => simp [Rel2] at h2
        | nil => left; simp [Rel2]
  | a :: ix, iy, sx, sy, h1, h2, ha, hb, h => by
    cases sx with
    | nil => simp [Rel2] at h1
    | cons b sx =>
      cases sy with
      | nil => simp at h
      | cons d sy =>
        cases iy with
        | nil => simp [Rel2] at h2
        | cons c iy =>
          simp only [Rel2] at h1 h2
          simp only [List.map_cons, List.cons.injEq, digestItem, Prod.mk.injEq] at h
          obtain ⟨ga, da⟩ := ha a (by simp)
          have gc := hb c (by simp)
          have hrest := pointwise_disc_items ix iy sx sy h1.2 h2.2 (fun x hx => ha x (by simp [hx]))
            (fun x hx => hb x (by simp [hx])) (by simpa [digestItem] using h.2)
          have hhead := da c.2 b.2 d.2 ga gc h1.1.2 h2.1.2 h.1.2
          simp only [List.map_cons, Pre.inputsList, Rel2]
          rcases hhead with he | hc
          · rcases hrest with hr | hc'
            · left
              refine ⟨⟨?_, he⟩, hr⟩
              rw [h1.1.1, h2.1.1]; exact h.1.1
            · right
              refine Collision.mono H ?_ hc'
              intro x hx
              simp only [List.mem_append] at hx ⊢
              rcases hx with hx | hx
              · left; right; exact hx
              · right; right; exact hx
          · right
            refine Collision.mono H ?_ hc
            intro x hx
            simp only [List.mem_append] at hx ⊢
            rcases hx with hx | hx
            · left; left; exact hx
            · right; left; exact hx

/-! ### helpers -/

theorem inputs_mem_self (i : Nat) (ps : List Pre) : evalPureList H ps ∈ Pre.inputs H (.node i ps) := by
  simp [Pre.inputs]

/-- the two encodings differ: they are themselves a collision -/
theorem collision_of_ne {i j : Nat} {ps qs : List Pre} (hne : evalPureList H ps ≠ evalPureList H qs)
    (he : evalPure H (.node i ps) = evalPure H (.node j qs)) :
    Collision H (Pre.inputs H (.node i ps) ++ Pre.inputs H (.node j qs)) := by
  simp only [evalPure] at he
  exact ⟨_, by simp [Pre.inputs], _, by simp [Pre.inputs], hne, he⟩

theorem children_sub_left {i : Nat} {op cl : Bytes} {ps : List Pre} {q : Pre} :
    ∀ x ∈ Pre.inputsList H ps, x ∈ Pre.inputs H (.node i (lit op :: ps ++ [lit cl])) ++ Pre.inputs H q := by
  intro x hx
  rw [inputs_wrap]
  simp [hx]

theorem digests_eq_of_flatten (hlen : ∀ x, (H x).length = 16) {ps qs : List Pre}
    (hp : ∀ p ∈ ps, ∃ i l, p = Pre.node i l) (hq : ∀ q ∈ qs, ∃ i l, q = Pre.node i l)
    (h : (ps.map (evalPure H)).flatten = (qs.map (evalPure H)).flatten) :
    ps.map (evalPure H) = qs.map (evalPure H) := by
  apply flatten_inj_of_length 16 _ _ (by omega) h
  · intro d hd
    obtain ⟨p, hp', rfl⟩ := List.mem_map.mp hd
    exact evalPure_node_length H hlen (hp p hp')
  · intro d hd
    obtain ⟨q, hq', rfl⟩ := List.mem_map.mp hd
    exact evalPure_node_length H hlen (hq q hq')

theorem preList_nodes : ∀ {xs : List PyVal} {ps : List Pre}, inG0List xs = true → preList xs = .ok ps →
    ∀ p ∈ ps, ∃ i l, p = Pre.node i l
  | [], ps, _, h, p, hp => by simp [preList] at h; subst h; simp at hp
  | x :: xs, ps, hg, h, p, hp => by
    obtain ⟨p0, ps', h1, h2, rfl⟩ := preList_cons_ok h
    simp only [inG0List, Bool.and_eq_true] at hg
    simp only [List.mem_cons] at hp
    rcases hp with rfl | hp
    · exact pre_isNode hg.1 h1
    · exact preList_nodes hg.2 h2 p hp

end PydraModel.Hash
