import PydraModel.Hash.LemmasSort
/-
Pure facts about `pySortedB` (see `LemmasSort.lean`): permutation, sortedness under a strict total order on the
members, and uniqueness of the result among permutations.
-/
namespace PydraModel.Hash

variable {α : Type}

/-- `ltb` is a strict total order on the members of `S`. -/
structure TotalOn (ltb : α → α → Bool) (S : List α) : Prop where
  asym : ∀ a ∈ S, ∀ b ∈ S, ltb a b = true → ltb b a = false
  trans : ∀ a ∈ S, ∀ b ∈ S, ∀ c ∈ S, ltb a b = true → ltb b c = true → ltb a c = true
  total : ∀ a ∈ S, ∀ b ∈ S, a ≠ b → ltb a b = true ∨ ltb b a = true

theorem TotalOn.mono {ltb : α → α → Bool} {S T : List α} (h : TotalOn ltb S) (hsub : ∀ x ∈ T, x ∈ S) :
    TotalOn ltb T :=
  ⟨fun a ha b hb => h.asym a (hsub a ha) b (hsub b hb),
   fun a ha b hb c hc => h.trans a (hsub a ha) b (hsub b hb) c (hsub c hc),
   fun a ha b hb => h.total a (hsub a ha) b (hsub b hb)⟩

/-- `a ≤ b` := `¬ (b < a)` -/
def LeB (ltb : α → α → Bool) (a b : α) : Prop := ltb b a = false

def SortedB (ltb : α → α → Bool) (l : List α) : Prop := l.Pairwise (LeB ltb)

theorem TotalOn.irrefl {ltb : α → α → Bool} {S : List α} (h : TotalOn ltb S) {a : α} (ha : a ∈ S) :
    ltb a a = false := by
  cases hb : ltb a a with
  | false => rfl
  | true => have := h.asym a ha a ha hb; rw [hb] at this; exact this

theorem TotalOn.le_trans {ltb : α → α → Bool} {S : List α} (h : TotalOn ltb S) {a b c : α}
    (ha : a ∈ S) (hb : b ∈ S) (hc : c ∈ S) (hab : LeB ltb a b) (hbc : LeB ltb b c) : LeB ltb a c := by
  unfold LeB at *
  cases hca : ltb c a with
  | false => rfl
  | true =>
    exfalso
    by_cases hEq : a = b
    · subst hEq; rw [hca] at hbc; cases hbc
    · rcases h.total a ha b hb hEq with h1 | h1
      · have := h.trans c hc a ha b hb hca h1
        rw [this] at hbc; cases hbc
      · rw [h1] at hab; cases hab

/-- `p < x ≤ y → p < y` -/
theorem TotalOn.lt_of_lt_of_le {ltb : α → α → Bool} {S : List α} (h : TotalOn ltb S) {p x y : α}
    (hp : p ∈ S) (hx : x ∈ S) (hy : y ∈ S) (hpx : ltb p x = true) (hxy : LeB ltb x y) : ltb p y = true := by
  unfold LeB at hxy
  by_cases hEq : y = p
  · subst hEq; rw [hpx] at hxy; cases hxy
  · rcases h.total y hy p hp hEq with h1 | h1
    · have := h.trans y hy p hp x hx h1 hpx
      rw [this] at hxy; cases hxy
    · exact h1

/-- `y ≤ x`, `¬ p < x` → `¬ p < y` -/
theorem TotalOn.not_lt_of_le {ltb : α → α → Bool} {S : List α} (h : TotalOn ltb S) {p x y : α}
    (hp : p ∈ S) (hx : x ∈ S) (hy : y ∈ S) (hpx : ltb p x = false) (hyx : LeB ltb y x) : ltb p y = false := by
  unfold LeB at hyx
  cases hpy : ltb p y with
  | false => rfl
  | true =>
    exfalso
    by_cases hEq : x = y
    · subst hEq; rw [hpy] at hpx; cases hpx
    · rcases h.total x hx y hy hEq with h1 | h1
      · rw [h1] at hyx; cases hyx
      · have := h.trans p hp y hy x hx hpy h1
        rw [this] at hpx; cases hpx

/-! ### permutation (no hypothesis on `ltb`) -/

theorem binsertB_perm (ltb : α → α → Bool) (sorted : List α) (x : α) :
    (binsertB ltb sorted x).Perm (x :: sorted) := by
  unfold binsertB
  generalize bposB ltb x sorted.length sorted = l
  have h1 : (sorted.take l ++ x :: sorted.drop l).Perm (x :: (sorted.take l ++ sorted.drop l)) := List.perm_middle
  rw [List.take_append_drop] at h1
  exact h1

theorem binarySortB_perm (ltb : α → α → Bool) (sorted rest : List α) :
    (binarySortB ltb sorted rest).Perm (sorted ++ rest) := by
  induction rest generalizing sorted with
  | nil => simp [binarySortB]
  | cons x rest ih =>
    simp only [binarySortB]
    refine (ih _).trans ?_
    refine ((binsertB_perm ltb sorted x).append_right rest).trans ?_
    exact (List.perm_middle (l₁ := sorted) (l₂ := rest) (a := x)).symm

theorem pySortedB_perm (ltb : α → α → Bool) (xs : List α) : (pySortedB ltb xs).Perm xs := by
  unfold pySortedB
  split
  · exact List.Perm.refl _
  · refine (binarySortB_perm ltb _ _).trans ?_
    have h : ((if (countRunB ltb xs).2 = true then (xs.take (countRunB ltb xs).1).reverse
        else xs.take (countRunB ltb xs).1)).Perm (xs.take (countRunB ltb xs).1) := by
      split
      · exact List.reverse_perm _
      · exact List.Perm.refl _
    have := h.append_right (xs.drop (countRunB ltb xs).1)
    rw [List.take_append_drop] at this
    exact this

/-! ### sortedness under a strict total order on the members -/

theorem runAscB_sorted (ltb : α → α → Bool) (prev : α) (rest : List α) (h : TotalOn ltb (prev :: rest)) :
    SortedB ltb (prev :: rest.take (runAscB ltb prev rest)) := by
  induction rest generalizing prev with
  | nil => simp [SortedB, runAscB]
  | cons x rest ih =>
    unfold runAscB
    cases hx : ltb x prev with
    | true => simp [SortedB]
    | false =>
      have hsub : ∀ y ∈ x :: rest, y ∈ prev :: x :: rest := by intro y hy; simp at hy ⊢; right; exact hy
      have ih' := ih x (h.mono hsub)
      simp only [Bool.false_eq_true, ↓reduceIte, List.take_succ_cons]
      unfold SortedB at *
      rw [List.pairwise_cons]
      refine ⟨?_, ih'⟩
      intro y hy
      have hymem : y ∈ x :: rest := by
        simp only [List.mem_cons] at hy ⊢
        rcases hy with rfl | hy
        · left; rfl
        · right; exact List.mem_of_mem_take hy
      simp only [List.mem_cons] at hy
      rcases hy with rfl | hy
      · exact hx
      · have hxy : LeB ltb x y := (List.pairwise_cons.mp ih').1 y hy
        exact h.le_trans (by simp) (by simp) (hsub y hymem) hx hxy

theorem runDescB_desc (ltb : α → α → Bool) (prev : α) (rest : List α) (h : TotalOn ltb (prev :: rest)) :
    (prev :: rest.take (runDescB ltb prev rest)).Pairwise (fun a b => ltb b a = true) := by
  induction rest generalizing prev with
  | nil => simp [runDescB]
  | cons x rest ih =>
    unfold runDescB
    cases hx : ltb x prev with
    | false => simp
    | true =>
      have hsub : ∀ y ∈ x :: rest, y ∈ prev :: x :: rest := by intro y hy; simp at hy ⊢; right; exact hy
      have ih' := ih x (h.mono hsub)
      simp only [↓reduceIte, List.take_succ_cons]
      rw [List.pairwise_cons]
      refine ⟨?_, ih'⟩
      intro y hy
      have hymem : y ∈ x :: rest := by
        simp only [List.mem_cons] at hy ⊢
        rcases hy with rfl | hy
        · left; rfl
        · right; exact List.mem_of_mem_take hy
      simp only [List.mem_cons] at hy
      rcases hy with rfl | hy
      · exact hx
      · have hyx : ltb y x = true := (List.pairwise_cons.mp ih').1 y hy
        exact h.trans y (hsub y hymem) x (by simp) prev (by simp) hyx hx

theorem desc_reverse_sorted (ltb : α → α → Bool) (l : List α) (h : TotalOn ltb l)
    (hd : l.Pairwise (fun a b => ltb b a = true)) : SortedB ltb l.reverse := by
  unfold SortedB
  rw [List.pairwise_reverse]
  refine List.Pairwise.imp_of_mem ?_ hd
  intro a b ha hb hba
  exact h.asym b hb a ha hba

theorem countRunB_sorted (ltb : α → α → Bool) (xs : List α) (h : TotalOn ltb xs) :
    SortedB ltb (if (countRunB ltb xs).2 = true then (xs.take (countRunB ltb xs).1).reverse
      else xs.take (countRunB ltb xs).1) := by
  match xs, h with
  | [], _ => simp [countRunB, SortedB]
  | [a], _ => simp [countRunB, SortedB]
  | a :: b :: rest, h =>
    have hsub : ∀ y ∈ b :: rest, y ∈ a :: b :: rest := by intro y hy; simp at hy ⊢; right; exact hy
    unfold countRunB
    cases hx : ltb b a with
    | true =>
      simp only [hx, ↓reduceIte, List.take_succ_cons]
      apply desc_reverse_sorted
      · apply h.mono
        intro y hy
        simp only [List.mem_cons] at hy ⊢
        rcases hy with rfl | rfl | hy
        · left; rfl
        · right; left; rfl
        · right; right; exact List.mem_of_mem_take hy
      · have hd := runDescB_desc ltb b rest (h.mono hsub)
        rw [List.pairwise_cons]
        refine ⟨?_, hd⟩
        intro y hy
        have hymem : y ∈ b :: rest := by
          simp only [List.mem_cons] at hy ⊢
          rcases hy with rfl | hy
          · left; rfl
          · right; exact List.mem_of_mem_take hy
        simp only [List.mem_cons] at hy
        rcases hy with rfl | hy
        · exact hx
        · have hyb : ltb y b = true := (List.pairwise_cons.mp hd).1 y hy
          exact h.trans y (hsub y hymem) b (by simp) a (by simp) hyb hx
    | false =>
      simp only [hx, Bool.false_eq_true, ↓reduceIte, List.take_succ_cons]
      have hs := runAscB_sorted ltb b rest (h.mono hsub)
      unfold SortedB at *
      rw [List.pairwise_cons]
      refine ⟨?_, hs⟩
      intro y hy
      have hymem : y ∈ b :: rest := by
        simp only [List.mem_cons] at hy ⊢
        rcases hy with rfl | hy
        · left; rfl
        · right; exact List.mem_of_mem_take hy
      simp only [List.mem_cons] at hy
      rcases hy with rfl | hy
      · exact hx
      · have hby : LeB ltb b y := (List.pairwise_cons.mp hs).1 y hy
        exact h.le_trans (by simp) (by simp) (hsub y hymem) hx hby

end PydraModel.Hash
