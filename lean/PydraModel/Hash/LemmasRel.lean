import PydraModel.Hash.LemmasPre
/-
Pointwise relations between lists and their transport along permutations; the grammar `G₀`; the table of words that
precede the first colon of a serialisation (regenerated tie `words_ok`).
-/
namespace PydraModel.Hash
open PydraModel.Gen

/-! ### pointwise relations -/

def Rel2 {α β : Type} (R : α → β → Prop) : List α → List β → Prop
  | [], [] => True
  | a :: as, b :: bs => R a b ∧ Rel2 R as bs
  | _, _ => False

theorem Rel2.perm_right {α β : Type} {R : α → β → Prop} {ys ys' : List β} (hp : ys.Perm ys') :
    ∀ {xs : List α}, Rel2 R xs ys → ∃ xs', xs.Perm xs' ∧ Rel2 R xs' ys' := by
  induction hp with
  | nil => intro xs h; exact ⟨xs, List.Perm.refl _, h⟩
  | cons y _ ih =>
    intro xs h
    cases xs with
    | nil => simp [Rel2] at h
    | cons x xs =>
      simp only [Rel2] at h
      obtain ⟨xs', h1, h2⟩ := ih h.2
      exact ⟨x :: xs', h1.cons x, by simp only [Rel2]; exact ⟨h.1, h2⟩⟩
  | swap y1 y2 l =>
    intro xs h
    match xs, h with
    | [], h => simp [Rel2] at h
    | [_], h => simp [Rel2] at h
    | x1 :: x2 :: xs, h =>
      simp only [Rel2] at h
      exact ⟨x2 :: x1 :: xs, List.Perm.swap _ _ _, by simp only [Rel2]; exact ⟨h.2.1, h.1, h.2.2⟩⟩
  | trans _ _ ih1 ih2 =>
    intro xs h
    obtain ⟨xs1, h1, h2⟩ := ih1 h
    obtain ⟨xs2, h3, h4⟩ := ih2 h2
    exact ⟨xs2, h1.trans h3, h4⟩

theorem Rel2.flip {α β : Type} {R : α → β → Prop} : ∀ {xs : List α} {ys : List β}, Rel2 R xs ys →
    Rel2 (fun b a => R a b) ys xs
  | [], [], _ => by simp [Rel2]
  | [], _ :: _, h => by simp [Rel2] at h
  | _ :: _, [], h => by simp [Rel2] at h
  | _ :: _, _ :: _, h => by
    simp only [Rel2] at h ⊢
    exact ⟨h.1, Rel2.flip h.2⟩

theorem Rel2.perm_left {α β : Type} {R : α → β → Prop} {xs xs' : List α} (hp : xs.Perm xs')
    {ys : List β} (h : Rel2 R xs ys) : ∃ ys', ys.Perm ys' ∧ Rel2 R xs' ys' := by
  obtain ⟨ys', h1, h2⟩ := Rel2.perm_right hp (Rel2.flip h)
  exact ⟨ys', h1, by have := Rel2.flip h2; exact this⟩

theorem Rel2.imp {α β : Type} {R S : α → β → Prop} : ∀ {xs : List α} {ys : List β},
    (∀ a ∈ xs, ∀ b ∈ ys, R a b → S a b) → Rel2 R xs ys → Rel2 S xs ys
  | [], [], _, _ => by simp [Rel2]
  | [], _ :: _, _, h => by simp [Rel2] at h
  | _ :: _, [], _, h => by simp [Rel2] at h
  | a :: as, b :: bs, himp, h => by
    simp only [Rel2] at h ⊢
    exact ⟨himp a (by simp) b (by simp) h.1,
      Rel2.imp (fun a' ha b' hb => himp a' (by simp [ha]) b' (by simp [hb])) h.2⟩

theorem Rel2.length_eq {α β : Type} {R : α → β → Prop} : ∀ {xs : List α} {ys : List β}, Rel2 R xs ys →
    xs.length = ys.length
  | [], [], _ => rfl
  | [], _ :: _, h => by simp [Rel2] at h
  | _ :: _, [], h => by simp [Rel2] at h
  | _ :: _, _ :: _, h => by simp only [Rel2] at h; simp [Rel2.length_eq h.2]

/-- two lists related to lists with equal images are related by the composite -/
theorem Rel2.of_map_eq {α β γ : Type} {f : α → γ} {g : β → γ} : ∀ {xs : List α} {ys : List β},
    xs.map f = ys.map g → Rel2 (fun a b => f a = g b) xs ys
  | [], [], _ => by simp [Rel2]
  | [], _ :: _, h => by simp at h
  | _ :: _, [], h => by simp at h
  | _ :: _, _ :: _, h => by
    simp only [List.map_cons, List.cons.injEq] at h
    simp only [Rel2]
    exact ⟨h.1, Rel2.of_map_eq h.2⟩

theorem Rel2.comp {α β γ : Type} {R : α → β → Prop} {S : β → γ → Prop} : ∀ {xs : List α} {ys : List β} {zs : List γ},
    Rel2 R xs ys → Rel2 S ys zs → Rel2 (fun a c => ∃ b, R a b ∧ S b c) xs zs
  | [], [], [], _, _ => by simp [Rel2]
  | [], [], _ :: _, _, h => by simp [Rel2] at h
  | [], _ :: _, _, h, _ => by simp [Rel2] at h
  | _ :: _, [], _, h, _ => by simp [Rel2] at h
  | _ :: _, _ :: _, [], _, h => by simp [Rel2] at h
  | _ :: _, _ :: _, _ :: _, h1, h2 => by
    simp only [Rel2] at h1 h2 ⊢
    exact ⟨⟨_, h1.1, h2.1⟩, Rel2.comp h1.2 h2.2⟩

theorem EquivList_iff_Rel2 : ∀ (xs ys : List PyVal), EquivList xs ys ↔ Rel2 Equiv xs ys
  | [], [] => by simp [EquivList, Rel2]
  | [], _ :: _ => by simp [EquivList, Rel2]
  | _ :: _, [] => by simp [EquivList, Rel2]
  | x :: xs, y :: ys => by simp [EquivList, Rel2, EquivList_iff_Rel2 xs ys]

def ItemEquiv (a b : Scalar × PyVal) : Prop := a.1 = b.1 ∧ Equiv a.2 b.2

theorem EquivItems_iff_Rel2 : ∀ (xs ys : List (Scalar × PyVal)), EquivItems xs ys ↔ Rel2 ItemEquiv xs ys
  | [], [] => by simp [EquivItems, Rel2]
  | [], _ :: _ => by simp [EquivItems, Rel2]
  | _ :: _, [] => by simp [EquivItems, Rel2]
  | (k, v) :: xs, (k', v') :: ys => by simp [EquivItems, Rel2, ItemEquiv, EquivItems_iff_Rel2 xs ys, and_assoc]

/-! ### words in front of the first colon -/

def wordPart (l : Bytes) : Bytes := l.takeWhile (fun b => b != 58)
def afterWord (l : Bytes) : Bytes := l.dropWhile (fun b => b != 58)

theorem word_split (l : Bytes) : l = wordPart l ++ afterWord l := by
  unfold wordPart afterWord
  exact (List.takeWhile_append_dropWhile).symm

theorem takeWhile_ne_not_mem (c : Nat) : ∀ (l : Bytes), c ∉ l.takeWhile (fun b => b != c)
  | [] => by simp
  | x :: xs => by
    simp only [List.takeWhile_cons]
    by_cases h : x = c
    · simp [h]
    · have : (x != c) = true := by simp [h]
      simp only [this, ↓reduceIte, List.mem_cons, not_or]
      exact ⟨fun e => h e.symm, takeWhile_ne_not_mem c xs⟩

theorem wordPart_no_colon (l : Bytes) : 58 ∉ wordPart l := takeWhile_ne_not_mem 58 l

def fixedWord : Nat → Bytes
  | 0 => HashLits.intTag.dropLast
  | 1 => HashLits.longTag.dropLast
  | 2 => HashLits.floatTag.dropLast
  | 3 => HashLits.complexTag.dropLast
  | 4 => HashLits.strTag.dropLast
  | 5 => HashLits.bytesTag.dropLast
  | 6 => ascii "list"
  | 7 => ascii "tuple"
  | 8 => ascii "set"
  | 9 => ascii "frozenset"
  | 10 => wordPart HashLits.dictOpen
  | 11 => wordPart HashLits.typeOpen
  | _ => wordPart HashLits.funcOpen

def fixedWords : List Bytes := (List.range 13).map fixedWord

/-- REGENERATED TIE: the words that precede the first colon are pairwise different and contain neither a colon
    nor a dot; every tag continues with a colon. -/
theorem words_ok :
    (∀ i, i < 13 → ∀ j, j < 13 → fixedWord i = fixedWord j → i = j)
    ∧ (∀ i, i < 13 → 58 ∉ fixedWord i ∧ 46 ∉ fixedWord i)
    ∧ (∀ i, i < 6 → headOfIdx (i + 3) = fixedWord i ++ [58])
    ∧ (∀ i, i < 3 → 58 ∉ headOfIdx i)
    ∧ HashLits.seqOpen.head? = some 58 ∧ HashLits.setOpen.head? = some 58 ∧ HashLits.objOpen.head? = some 58
    ∧ (afterWord HashLits.dictOpen).head? = some 58 ∧ (afterWord HashLits.typeOpen).head? = some 58
    ∧ (afterWord HashLits.funcOpen).head? = some 58
    ∧ HashLits.npSep1 = [58] ∧ HashLits.npSep2 = [58] ∧ HashLits.npSep3 = [58] := by decide

/-! ### the grammar `G₀` of the discrimination theorem -/

def TyExpr.isArglist : TyExpr → Bool
  | .arglist _ => true
  | _ => false

def clsObjOK (c : Bytes) : Bool := !c.contains 58 && c.contains 46
def clsArrOK (c : Bytes) : Bool := !c.contains 58 && !c.contains 46 && !fixedWords.contains c

mutual
/-- `G₀`: scalars, lists, tuples, sets, frozensets, dicts (keys are scalars by construction of the model, hence
    self-delimiting), objects of the generic fallback, numpy arrays, inline types, functions with source.  No back
    references, no code objects / partials / bound methods (tagged sequences outside the word table), no tasks / classes with fields. -/
def inG0 : PyVal → Bool
  | .sc a => decide a.WF
  | .ndarray c d s _ => clsArrOK c && !d.contains 58 && !s.contains 58
  | .ty t => !t.isArglist    -- a bare argument list is not a type
  | .seq _ k xs => (k == SeqKind.list || k == SeqKind.tuple) && inG0List xs
  | .set _ _ xs => inG0List xs
  | .dict _ items => items.all (fun kv => decide kv.1.WF) && inG0Items items
  | .obj _ c fs => clsObjOK c && fs.all (fun kv => decide kv.1.WF) && inG0Items fs
  | .func _ b code _ _ => b.hasSource && code.isEmpty
  | _ => false
def inG0List : List PyVal → Bool
  | [] => true
  | x :: xs => inG0 x && inG0List xs
def inG0Items : List (Scalar × PyVal) → Bool
  | [] => true
  | (_, v) :: xs => inG0 v && inG0Items xs
end

theorem inG0List_mem : ∀ {xs : List PyVal}, inG0List xs = true → ∀ x ∈ xs, inG0 x = true
  | [], _, x, hx => by simp at hx
  | y :: ys, h, x, hx => by
    simp only [inG0List, Bool.and_eq_true] at h
    simp only [List.mem_cons] at hx
    rcases hx with rfl | hx
    · exact h.1
    · exact inG0List_mem h.2 x hx

theorem inG0Items_mem : ∀ {xs : List (Scalar × PyVal)}, inG0Items xs = true → ∀ kv ∈ xs, inG0 kv.2 = true
  | [], _, x, hx => by simp at hx
  | (k, v) :: ys, h, x, hx => by
    simp only [inG0Items, Bool.and_eq_true] at h
    simp only [List.mem_cons] at hx
    rcases hx with rfl | hx
    · exact h.1
    · exact inG0Items_mem h.2 x hx

end PydraModel.Hash
