import PydraModel.Hash.Discriminate
/-
The discrimination theorem proper (mutual structural recursion over the value).
-/
namespace PydraModel.Hash
open PydraModel.Gen

variable (H : Bytes → Bytes)

theorem mem_zip_fst {α β : Type} {a : α × β} : ∀ {xs : List α} {ys : List β}, a ∈ xs.zip ys → a.1 ∈ xs
  | [], _, h => by simp at h
  | _ :: _, [], h => by simp at h
  | x :: xs, y :: ys, h => by
    simp only [List.zip_cons_cons, List.mem_cons] at h
    rcases h with rfl | h
    · simp
    · simp [mem_zip_fst h]

theorem Rel2.map_self {β γ : Type} (g : β → γ) : ∀ (bs : List β), Rel2 (fun b d => g b = d) bs (bs.map g)
  | [] => by simp [Rel2]
  | b :: bs => by simp only [List.map_cons, Rel2]; exact ⟨trivial, Rel2.map_self g bs⟩

theorem Rel2.to_map_eq {β γ : Type} {g : β → γ} : ∀ {bs : List β} {ds : List γ}, Rel2 (fun b d => g b = d) bs ds →
    bs.map g = ds
  | [], [], _ => rfl
  | [], _ :: _, h => by simp [Rel2] at h
  | _ :: _, [], h => by simp [Rel2] at h
  | b :: bs, d :: ds, h => by
    simp only [Rel2] at h
    simp [h.1, Rel2.to_map_eq h.2]

theorem inputsList_sub_of_mem (H : Bytes → Bytes) : ∀ {ps qs : List Pre}, (∀ p ∈ ps, p ∈ qs) →
    ∀ x ∈ Pre.inputsList H ps, x ∈ Pre.inputsList H qs
  | [], _, _, x, hx => by simp [Pre.inputsList] at hx
  | p :: ps, qs, hsub, x, hx => by
    simp only [Pre.inputsList, List.mem_append] at hx
    rcases hx with hx | hx
    · exact inputsList_mem_of_mem H (hsub p (by simp)) x hx
    · exact inputsList_sub_of_mem H (fun q hq => hsub q (by simp [hq])) x hx

/-- two lists with the same multiset of images can be matched element by element -/
theorem perm_map_lift {α β γ : Type} {f : α → γ} {g : β → γ} {as : List α} {bs : List β}
    (h : (as.map f).Perm (bs.map g)) : ∃ bs' : List β, bs'.Perm bs ∧ as.map f = bs'.map g := by
  obtain ⟨bs', h1, h2⟩ := Rel2.perm_right h.symm (Rel2.map_self g bs)
  exact ⟨bs', h1.symm, (Rel2.to_map_eq h2).symm⟩

/-- dicts and objects: from equal mapping contents to equivalent items or a collision below them -/
theorem disc_mapping (hlen : ∀ x, (H x).length = 16) (xs ys : List (Scalar × PyVal))
    (cps cqs sx sy : List (Scalar × Pre))
    (hpx : preItems xs = .ok cps) (hpy : preItems ys = .ok cqs)
    (hsx : sx = sortItems cps) (hsy : sy = sortItems cqs)
    (wx : ∀ kv ∈ xs, kv.1.WF) (wy : ∀ kv ∈ ys, kv.1.WF)
    (gx : inG0Items xs = true) (gy : inG0Items ys = true)
    (hm : mapBytes (sx.map (digestItem H)) = mapBytes (sy.map (digestItem H)))
    (IH : ∀ kv ∈ xs, Disc H kv.2) {P : Prop} {S : List Bytes}
    (hequiv : (∃ ys', ys'.Perm ys ∧ EquivItems xs ys') → P)
    (hsub : ∀ x ∈ Pre.inputsList H (sx.map (·.2)) ++ Pre.inputsList H (sy.map (·.2)), x ∈ S) :
    P ∨ Collision H S := by
  have hpermx : sx.Perm cps := by rw [hsx]; exact pySortedB_perm _ cps
  have hpermy : sy.Perm cqs := by rw [hsy]; exact pySortedB_perm _ cqs
  obtain ⟨ix, px, rx⟩ := Rel2.perm_right hpermx.symm (preItems_rel hpx)
  obtain ⟨iy, py, ry⟩ := Rel2.perm_right hpermy.symm (preItems_rel hpy)
  have fx : ∀ kd ∈ sx.map (digestItem H), kd.1.WF ∧ kd.2.length = 16 := by
    intro kd hkd
    obtain ⟨b, hb, rfl⟩ := List.mem_map.mp hkd
    obtain ⟨a, ha, hab⟩ := Rel2_mem_left rx b hb
    have hax : a ∈ xs := px.symm.subset ha
    refine ⟨?_, ?_⟩
    · simp only [digestItem]; rw [← hab.1]; exact wx a hax
    · exact evalPure_node_length H hlen (pre_isNode (inG0Items_mem gx a hax) hab.2)
  have fy : ∀ kd ∈ sy.map (digestItem H), kd.1.WF ∧ kd.2.length = 16 := by
    intro kd hkd
    obtain ⟨b, hb, rfl⟩ := List.mem_map.mp hkd
    obtain ⟨a, ha, hab⟩ := Rel2_mem_left ry b hb
    have hay : a ∈ ys := py.symm.subset ha
    refine ⟨?_, ?_⟩
    · simp only [digestItem]; rw [← hab.1]; exact wy a hay
    · exact evalPure_node_length H hlen (pre_isNode (inG0Items_mem gy a hay) hab.2)
  have hd := mapBytes_inj fx fy hm
  have := pointwise_disc_items H ix iy sx sy rx ry
    (fun a ha => ⟨inG0Items_mem gx a (px.symm.subset ha), IH a (px.symm.subset ha)⟩)
    (fun b hb => inG0Items_mem gy b (py.symm.subset hb)) hd
  rcases this with hr | hc
  · left
    apply hequiv
    obtain ⟨ys', q1, q2⟩ := Rel2.perm_left px.symm hr
    exact ⟨ys', q1.symm.trans py.symm, (EquivItems_iff_Rel2 xs ys').mpr q2⟩
  · right
    exact Collision.mono H hsub hc

mutual
theorem disc_val (hlen : ∀ x, (H x).length = 16) : ∀ (v : PyVal), Disc H v
  | .sc a => by
    intro w p q gv gw hp hq he
    obtain ⟨i, ps, j, qs, rfl, rfl, hk⟩ := kind_eq_of_enc_eq H gv gw hp hq
    by_cases henc : evalPureList H ps = evalPureList H qs
    · left
      have hk' := hk henc
      have hlt := scalarIdx_lt a
      cases w with
      | sc b =>
        simp only [pre, Except.ok.injEq, Pre.node.injEq] at hp hq
        obtain ⟨_, rfl⟩ := hp
        obtain ⟨_, rfl⟩ := hq
        simp only [evalPureList, lit, evalPure, List.append_nil] at henc
        have ha : a.WF := by simpa [inG0] using gv
        have hb : b.WF := by simpa [inG0] using gw
        simp only [Equiv]
        exact encScalar_inj ha hb henc
      | seq _ k _ => cases k <;> simp [kindOf] at hk' <;> omega
      | set _ f _ => cases f <;> simp [kindOf] at hk' <;> omega
      | _ => simp [kindOf] at hk' <;> omega
    · right; exact collision_of_ne H henc he
  | .path c f => by
    intro w p q gv
    simp [inG0] at gv
  | .ndarray c d s x => by
    intro w p q gv gw hp hq he
    obtain ⟨i, ps, j, qs, rfl, rfl, hk⟩ := kind_eq_of_enc_eq H gv gw hp hq
    by_cases henc : evalPureList H ps = evalPureList H qs
    · left
      have hk' := hk henc
      cases w with
      | ndarray c' d' s' x' =>
        obtain ⟨_, _, _, _, _, _, _, _, _, _, hnp1, hnp2, hnp3⟩ := words_ok
        simp only [pre, Except.ok.injEq, Pre.node.injEq] at hp hq
        obtain ⟨_, rfl⟩ := hp
        obtain ⟨_, rfl⟩ := hq
        simp only [evalPureList, lit, evalPure, List.append_nil, hnp1, hnp2, hnp3, List.append_assoc,
          List.singleton_append] at henc
        simp only [inG0, clsArrOK, Bool.and_eq_true] at gv gw
        obtain ⟨e1, r1⟩ := append_sep_inj (not_contains_not_mem gv.1.1.1.1) (not_contains_not_mem gw.1.1.1.1) henc
        obtain ⟨e2, r2⟩ := append_sep_inj (not_contains_not_mem gv.1.2) (not_contains_not_mem gw.1.2) r1
        obtain ⟨e3, r3⟩ := append_sep_inj (not_contains_not_mem gv.2) (not_contains_not_mem gw.2) r2
        simp only [Equiv]
        exact ⟨e1, e2, e3, r3⟩
      | sc b => have := scalarIdx_lt b; simp [kindOf] at hk'; omega
      | seq _ k _ => cases k <;> simp [kindOf] at hk'
      | set _ f _ => cases f <;> simp [kindOf] at hk'
      | _ => simp [kindOf] at hk'
    · right; exact collision_of_ne H henc he
  | .ty t => by
    intro w p q gv gw hp hq he
    obtain ⟨i, ps, j, qs, rfl, rfl, hk⟩ := kind_eq_of_enc_eq H gv gw hp hq
    by_cases henc : evalPureList H ps = evalPureList H qs
    · left
      have hk' := hk henc
      cases w with
      | ty t' =>
        simp only [pre, Except.ok.injEq, Pre.node.injEq] at hp hq
        obtain ⟨_, rfl⟩ := hp
        obtain ⟨_, rfl⟩ := hq
        simp only [evalPureList, lit, evalPure, List.append_nil] at henc
        simp only [Equiv]
        exact henc
      | sc b => have := scalarIdx_lt b; simp [kindOf] at hk'; omega
      | seq _ k _ => cases k <;> simp [kindOf] at hk'
      | set _ f _ => cases f <;> simp [kindOf] at hk'
      | _ => simp [kindOf] at hk'
    · right; exact collision_of_ne H henc he
  | .seq i k xs => by
    intro w p q gv gw hp hq he
    obtain ⟨i', ps, j, qs, rfl, rfl, hk⟩ := kind_eq_of_enc_eq H gv gw hp hq
    by_cases henc : evalPureList H ps = evalPureList H qs
    · have hk' := hk henc
      cases w with
      | seq j' k' ys =>
        have hkk : k = k' := by
          simp only [inG0, Bool.and_eq_true, bne_iff_ne, ne_eq] at gv gw
          cases k <;> cases k' <;> first | rfl | exact absurd gv.1 (by decide) | exact absurd gw.1 (by decide) | (simp [kindOf] at hk')
        subst hkk
        obtain ⟨cps, hpx, e1⟩ := pre_seq_inv hp
        obtain ⟨cqs, hpy, e2⟩ := pre_seq_inv hq
        simp only [Pre.node.injEq] at e1 e2
        obtain ⟨_, rfl⟩ := e1
        obtain ⟨_, rfl⟩ := e2
        simp only [inG0, Bool.and_eq_true] at gv gw
        rw [evalPureList_wrap, evalPureList_wrap] at henc
        have h1 := List.append_cancel_left henc
        have h2 := List.append_cancel_right h1
        have h3 := digests_eq_of_flatten H hlen (preList_nodes gv.2 hpx) (preList_nodes gw.2 hpy) h2
        obtain ⟨zx1, zx2, zx3⟩ := zip_preOf hpx
        obtain ⟨zy1, zy2, zy3⟩ := zip_preOf hpy
        have := pointwise_disc H hlen (xs.zip cps) (ys.zip cqs)
          (fun a ha => ⟨zx1 a ha, inG0List_mem gv.2 a.1 (mem_zip_fst ha), disc_list hlen xs a.1 (mem_zip_fst ha)⟩)
          (fun b hb => ⟨zy1 b hb, inG0List_mem gw.2 b.1 (mem_zip_fst hb)⟩)
          (by
            have e1 : (xs.zip cps).map (fun a => evalPure H a.2) = ((xs.zip cps).map (·.2)).map (evalPure H) := by
              simp [List.map_map, Function.comp_def]
            have e2 : (ys.zip cqs).map (fun a => evalPure H a.2) = ((ys.zip cqs).map (·.2)).map (evalPure H) := by
              simp [List.map_map, Function.comp_def]
            rw [e1, e2, zx3, zy3]; exact h3)
        rw [zx2, zy2, zx3, zy3] at this
        rcases this with hr | hc
        · left
          simp only [Equiv]
          exact ⟨trivial, (EquivList_iff_Rel2 xs ys).mpr hr⟩
        · right
          refine Collision.mono H ?_ hc
          intro x hx
          rw [inputs_wrap, inputs_wrap]
          simp only [List.mem_append, List.mem_cons] at hx ⊢
          rcases hx with hx | hx
          · left; right; exact hx
          · right; right; exact hx
      | sc b => have := scalarIdx_lt b; cases k <;> simp [kindOf] at hk' <;> omega
      | set _ f _ => cases f <;> cases k <;> simp [kindOf] at hk'
      | _ => cases k <;> simp [kindOf] at hk'
    · right; exact collision_of_ne H henc he
  | .set i f xs => by
    intro w p q gv gw hp hq he
    obtain ⟨i', ps, j, qs, rfl, rfl, hk⟩ := kind_eq_of_enc_eq H gv gw hp hq
    by_cases henc : evalPureList H ps = evalPureList H qs
    · have hk' := hk henc
      cases w with
      | set j' f' ys =>
        have hff : f = f' := by cases f <;> cases f' <;> simp [kindOf] at hk' <;> rfl
        subst hff
        obtain ⟨cps, hpx, e1⟩ := pre_set_inv hp
        obtain ⟨cqs, hpy, e2⟩ := pre_set_inv hq
        simp only [Pre.node.injEq] at e1 e2
        obtain ⟨_, rfl⟩ := e1
        obtain ⟨_, rfl⟩ := e2
        simp only [inG0] at gv gw
        rw [evalPureList_setNode, evalPureList_setNode] at henc
        have h1 := List.append_cancel_left henc
        have h2 := List.append_cancel_right h1
        have nx := preList_nodes gv hpx
        have ny := preList_nodes gw hpy
        -- the sorted digest lists agree, hence the digest multisets agree
        have len16 : ∀ (ps : List Pre), (∀ p ∈ ps, ∃ i l, p = Pre.node i l) →
            ∀ d ∈ sortDigests (ps.map (evalPure H)), d.length = 16 := by
          intro ps hn d hd
          obtain ⟨p, hp', rfl⟩ := List.mem_map.mp ((sortDigests_perm _).subset hd)
          exact evalPure_node_length H hlen (hn p hp')
        have h3 := flatten_inj_of_length 16 (len16 cps nx) (len16 cqs ny) (by omega) h2
        have hperm : (cps.map (evalPure H)).Perm (cqs.map (evalPure H)) :=
          (sortDigests_perm _).symm.trans (h3 ▸ sortDigests_perm _)
        obtain ⟨zx1, zx2, zx3⟩ := zip_preOf hpx
        obtain ⟨zy1, zy2, zy3⟩ := zip_preOf hpy
        have hperm' : ((xs.zip cps).map (fun a => evalPure H a.2)).Perm ((ys.zip cqs).map (fun a => evalPure H a.2)) := by
          have e1 : (xs.zip cps).map (fun a => evalPure H a.2) = ((xs.zip cps).map (·.2)).map (evalPure H) := by
            simp [List.map_map, Function.comp_def]
          have e2 : (ys.zip cqs).map (fun a => evalPure H a.2) = ((ys.zip cqs).map (·.2)).map (evalPure H) := by
            simp [List.map_map, Function.comp_def]
          rw [e1, e2, zx3, zy3]; exact hperm
        obtain ⟨bs', pb, eb⟩ := perm_map_lift hperm'
        have := pointwise_disc H hlen (xs.zip cps) bs'
          (fun a ha => ⟨zx1 a ha, inG0List_mem gv a.1 (mem_zip_fst ha), disc_list hlen xs a.1 (mem_zip_fst ha)⟩)
          (fun b hb => ⟨zy1 b (pb.subset hb), inG0List_mem gw b.1 (mem_zip_fst (pb.subset hb))⟩) eb
        rw [zx2, zx3] at this
        rcases this with hr | hc
        · left
          simp only [Equiv]
          refine ⟨trivial, bs'.map (·.1), ?_, (EquivList_iff_Rel2 _ _).mpr hr⟩
          have := pb.map (·.1)
          rw [zy2] at this
          exact this
        · right
          refine Collision.mono H ?_ hc
          intro x hx
          rw [inputs_setNode, inputs_setNode]
          simp only [List.mem_append, List.mem_cons] at hx ⊢
          rcases hx with hx | hx
          · left; right; exact hx
          · right; right
            -- inputs below a permutation of the element pre-hashes are inputs below the elements
            refine inputsList_sub_of_mem H ?_ x hx
            intro p hp'
            have := (pb.map (·.2)).subset hp'
            rw [zy3] at this
            exact this
      | sc b => have := scalarIdx_lt b; cases f <;> simp [kindOf] at hk' <;> omega
      | seq _ k _ => cases f <;> cases k <;> simp [kindOf] at hk'
      | _ => cases f <;> simp [kindOf] at hk'
    · right; exact collision_of_ne H henc he
  | .dict i xs => by
    intro w p q gv gw hp hq he
    obtain ⟨i', ps, j, qs, rfl, rfl, hk⟩ := kind_eq_of_enc_eq H gv gw hp hq
    by_cases henc : evalPureList H ps = evalPureList H qs
    · have hk' := hk henc
      cases w with
      | dict j' ys =>
        obtain ⟨cps, hpx, e1⟩ := pre_dict_inv hp
        obtain ⟨cqs, hpy, e2⟩ := pre_dict_inv hq
        simp only [Pre.node.injEq] at e1 e2
        obtain ⟨_, rfl⟩ := e1
        obtain ⟨_, rfl⟩ := e2
        simp only [inG0, Bool.and_eq_true, List.all_eq_true, decide_eq_true_eq] at gv gw
        rw [evalPureList_wrapMap, evalPureList_wrapMap] at henc
        have h1 := List.append_cancel_left henc
        have h2 := List.append_cancel_right h1
        exact disc_mapping H hlen xs ys cps cqs _ _ hpx hpy rfl rfl gv.1 gw.1 gv.2 gw.2 h2
          (disc_items hlen xs) (fun hr => by simp only [Equiv]; exact hr)
          (fun x hx => by
            rw [inputs_wrap, inputs_wrap, inputsList_mapContents, inputsList_mapContents]
            simp only [List.mem_append, List.mem_cons] at hx ⊢
            rcases hx with hx | hx
            · left; right; exact hx
            · right; right; exact hx)
      | sc b => have := scalarIdx_lt b; simp [kindOf] at hk'; omega
      | seq _ k _ => cases k <;> simp [kindOf] at hk'
      | set _ f _ => cases f <;> simp [kindOf] at hk'
      | _ => simp [kindOf] at hk'
    · right; exact collision_of_ne H henc he
  | .obj i c xs => by
    intro w p q gv gw hp hq he
    obtain ⟨i', ps, j, qs, rfl, rfl, hk⟩ := kind_eq_of_enc_eq H gv gw hp hq
    by_cases henc : evalPureList H ps = evalPureList H qs
    · have hk' := hk henc
      cases w with
      | obj j' c' ys =>
        obtain ⟨_, _, _, _, _, _, hobj, _⟩ := words_ok
        obtain ⟨cps, hpx, e1⟩ := pre_obj_inv hp
        obtain ⟨cqs, hpy, e2⟩ := pre_obj_inv hq
        simp only [Pre.node.injEq] at e1 e2
        obtain ⟨_, rfl⟩ := e1
        obtain ⟨_, rfl⟩ := e2
        simp only [inG0, clsObjOK, Bool.and_eq_true, List.all_eq_true, decide_eq_true_eq] at gv gw
        rw [evalPureList_wrapMap, evalPureList_wrapMap] at henc
        have hcons := head_cons_of_head? hobj
        rw [hcons] at henc
        simp only [List.append_assoc, List.cons_append] at henc
        obtain ⟨ec, r1⟩ := append_sep_inj (not_contains_not_mem gv.1.1.1) (not_contains_not_mem gw.1.1.1) henc
        subst ec
        have h1 := List.append_cancel_left r1
        have h2 := List.append_cancel_right h1
        exact disc_mapping H hlen xs ys cps cqs _ _ hpx hpy rfl rfl gv.1.2 gw.1.2 gv.2 gw.2 h2
          (disc_items hlen xs) (fun hr => by simp only [Equiv]; exact ⟨trivial, hr⟩)
          (fun x hx => by
            rw [inputs_wrap, inputs_wrap, inputsList_mapContents, inputsList_mapContents]
            simp only [List.mem_append, List.mem_cons] at hx ⊢
            rcases hx with hx | hx
            · left; right; exact hx
            · right; right; exact hx)
      | sc b => have := scalarIdx_lt b; simp [kindOf] at hk'; omega
      | seq _ k _ => cases k <;> simp [kindOf] at hk'
      | set _ f _ => cases f <;> simp [kindOf] at hk'
      | _ => simp [kindOf] at hk'
    · right; exact collision_of_ne H henc he
  | .func i b code cells globals => by
    intro w p q gv gw hp hq he
    obtain ⟨i', ps, j, qs, rfl, rfl, hk⟩ := kind_eq_of_enc_eq H gv gw hp hq
    by_cases henc : evalPureList H ps = evalPureList H qs
    · left
      have hk' := hk henc
      cases w with
      | func j' b' code' cells' globals' =>
        obtain ⟨cs, hpx, e1⟩ := pre_func_inv hp
        obtain ⟨cs', hpy, e2⟩ := pre_func_inv hq
        simp only [Pre.node.injEq] at e1 e2
        obtain ⟨_, rfl⟩ := e1
        obtain ⟨_, rfl⟩ := e2
        simp only [inG0, Bool.and_eq_true, List.isEmpty_iff] at gv gw
        obtain ⟨gb, rfl⟩ := gv
        obtain ⟨gb', rfl⟩ := gw
        rw [List.cons_append, List.cons_append, evalPureList_lit, evalPureList_lit, evalPureList_append,
          evalPureList_append, evalPureList_funcBody, evalPureList_funcBody, gb, gb'] at henc
        simp only [↓reduceIte] at henc
        have h1 := List.append_cancel_left henc
        have h2 := List.append_cancel_right h1
        simp only [Equiv, EquivList]
        exact ⟨by rw [gb, gb'], h2, trivial⟩
      | sc b => have := scalarIdx_lt b; simp [kindOf] at hk'; omega
      | seq _ k _ => cases k <;> simp [kindOf] at hk'
      | set _ f _ => cases f <;> simp [kindOf] at hk'
      | _ => simp [kindOf] at hk'
    · right; exact collision_of_ne H henc he
  | .tyFields .. => by intro w p q gv; simp [inG0] at gv
  | .task .. => by intro w p q gv; simp [inG0] at gv
  | .ref _ => by intro w p q gv; simp [inG0] at gv
theorem disc_list (hlen : ∀ x, (H x).length = 16) : ∀ (xs : List PyVal), ∀ x ∈ xs, Disc H x
  | [], x, hx => by simp at hx
  | y :: ys, x, hx => by
    by_cases h : x = y
    · rw [h]; exact disc_val hlen y
    · have : x ∈ ys := by
        simp only [List.mem_cons] at hx
        rcases hx with hx | hx
        · exact absurd hx h
        · exact hx
      exact disc_list hlen ys x this
theorem disc_items (hlen : ∀ x, (H x).length = 16) : ∀ (xs : List (Scalar × PyVal)), ∀ kv ∈ xs, Disc H kv.2
  | [], x, hx => by simp at hx
  | (k, v) :: ys, x, hx => by
    by_cases h : x = (k, v)
    · rw [h]; exact disc_val hlen v
    · have : x ∈ ys := by
        simp only [List.mem_cons] at hx
        rcases hx with hx | hx
        · exact absurd hx h
        · exact hx
      exact disc_items hlen ys x this
end

end PydraModel.Hash
