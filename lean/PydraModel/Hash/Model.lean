import PydraModel.Hash.Bytes
import PydraModel.Gen.HashLits
/-
Engine `Hash` (DESIGN §5.3): executable model of `pydra/utils/hash.py` (`hash_function`, `hash_object`,
`hash_single` with its id-keyed memo and the recursion placeholder, the registered `bytes_repr_*` serializers,
`bytes_repr_mapping_contents` / `bytes_repr_sequence_contents`) and of `Task._compute_hashes`, `Task._checksum`,
`bytes_repr_task` (pydra/compose/base/task.py), `Job.checksum`.

The digest function `H : Bytes → Bytes` (BLAKE2b-128 with person "pydra-hash" in the code) is a PARAMETER.  Every
byte literal that occurs in pydra's source comes from `Gen/HashLits.lean` (regenerated from the source on every run).

Structure
  * `Scalar`, `PyVal`     the value grammar.  Set iteration order, dict insertion order and object identity (`id`)
                          are explicit, so that "independent of hash seed / insertion order / context" is a statement
                          quantified over them.
  * `Pre`                 the *pre-hash structure*: what `bytes_repr` yields, with every `hash_single(child)` kept as a
                          `node` (to be replaced by the digest of its own chunks) — `pre : PyVal → Except Err Pre`.
  * `evalPure H`          digest of a `Pre` without memo;  `evalMemo H`  with `hash_single`'s id-keyed memo,
                          placeholder `b"\x00"` while an object is being hashed.
  * `hashFunction H v`    = `hash_object(v)` (memo semantics, what the driver prints); `hashAlone H v` (pure).
  * `TaskDef`, `computeHashes`, `taskChecksum`, `jobChecksum`.
-/
namespace PydraModel.Hash
open PydraModel.Gen

inductive Err where
  | typeError      -- `'<' not supported between instances of …` raised by `sorted`
  | unsupported    -- the model declines (outside the modelled domain); never compared with the implementation
  | malformed      -- ill-formed input to the model (e.g. a task without its four private attributes)
  deriving DecidableEq, Repr

/-- Hashable leaf values (also the admissible dict keys / attribute names of the model). -/
inductive Scalar where
  | none
  | bool (b : Bool)
  | int (z : Int)
  | float (bits : Nat)              -- IEEE-754 binary64 bit pattern (< 2^64)
  | complex (re im : Nat)           -- two bit patterns
  | str (utf8 : Bytes)              -- the UTF-8 encoding of the string (`obj.encode()`)
  | bytes (b : Bytes)
  deriving DecidableEq, Repr

inductive SeqKind where
  | list | tuple | code
  | partialFn -- functools.partial: (func, args, keywords)          (fix d402cc88, D70)
  | boundMethod -- bound method: (__func__, __self__)
  deriving DecidableEq, Repr

/-- What `bytes_repr_function` yields between `function:(` and `)`. -/
inductive FuncBody where
  | stdlib (qual : Bytes)           -- `in_stdlib(obj)`: f"{module}.{name}"
  | ast (chunks : List Bytes)       -- dump of the arguments, then one dump per body statement (annotations stripped)
  | raw (src : Bytes)               -- `ast.parse` raised SyntaxError: the source text
  | code                            -- no source available: `bytes_repr(obj.__code__)` (children = the code items)
  deriving DecidableEq, Repr

/-- Type expressions serialised *inline* by `bytes_repr_type` (no `hash_single` below them). -/
inductive TyExpr where
  | named (loc : Bytes)                             -- `type_location`: stdlib / builtin classes, special forms
  | ellipsis
  | generic (origin : TyExpr) (args : List TyExpr)  -- `ty.get_origin` / `ty.get_args` non-empty
  | arglist (args : List TyExpr)                    -- a list among the args (`Callable[[int], str]`)
  deriving Repr

/-- Python values.  `id` = object identity (`id(obj)`, canonicalised by the harness); scalars, arrays, paths and
    inline types need none: their serialisation never consults the memo, so a memo hit equals a recomputation. -/
inductive PyVal where
  | sc (s : Scalar)
  | path (cls fs : Bytes)                                          -- os.PathLike: qualified class name, os.fspath
  | ndarray (cls dtype shape data : Bytes)  -- numpy.ndarray / numpy.generic, non-object dtype: f"{module}{name}", str(dtype), repr(shape), tobytes()
  | ty (t : TyExpr)
  | seq (id : Nat) (k : SeqKind) (xs : List PyVal)
  | set (id : Nat) (frozen : Bool) (iter : List PyVal)             -- elements in *iteration order*
  | dict (id : Nat) (items : List (Scalar × PyVal))                -- items in *insertion order*
  | obj (id : Nat) (cls : Bytes) (fields : List (Scalar × PyVal))  -- generic fallback: the attributes that are hashed
  | tyFields (id : Nat) (fields : List PyVal) (outputs : List PyVal) -- a class with pydra fields (+ `.Outputs`: 0 or 1)
  | func (id : Nat) (body : FuncBody) (code : List PyVal) (cells globals : List (Scalar × PyVal))
  | task (id : Nat) (ttype : Bytes) (fields : List (Scalar × PyVal)) (priv : List PyVal)
      -- `bytes_repr_task`: all fields in definition order; priv = [_splitter, _combiner, _container_ndim, _xor]
  | ref (id : Nat)                                                  -- back reference to an enclosing object (cycle)

/-! ### generic-object fallback: which attributes are hashed -/

inductive ObjKind where
  | attrs   -- `attrs.has(type(obj))`: attributes with `eq` true
  | slots   -- `__slots__`: every listed slot
  | dict    -- `__dict__`: entries that are neither dunder names nor bound methods
  deriving DecidableEq, Repr

def isDunder (n : Bytes) : Bool :=
  [95, 95].isPrefixOf n && [95, 95].isPrefixOf n.reverse

/-- `flag` is `a.eq` for attrs classes and `not inspect.ismethod(value)` for `__dict__` objects. -/
def keepField (k : ObjKind) (name : Bytes) (flag : Bool) : Bool :=
  match k with
  | .attrs => flag
  | .slots => true
  | .dict => flag && !isDunder name

def keptFields {α : Type} (k : ObjKind) (raw : List (Bytes × Bool × α)) : List (Scalar × α) :=
  (raw.filter (fun f => keepField k f.1 f.2.1)).map (fun f => (Scalar.str f.1, f.2.2))

/-! ### scalars -/

def reprNone : Bytes := ascii "None"
def reprTrue : Bytes := ascii "True"
def reprFalse : Bytes := ascii "False"

/-- `bytes_repr` of a scalar (one or two chunks, concatenated). -/
def encScalar : Scalar → Bytes
  | .none => reprNone
  | .bool true => reprTrue
  | .bool false => reprFalse
  | .int z =>
    if -(2 ^ 63 : Int) ≤ z ∧ z < (2 ^ 63 : Int) then HashLits.intTag ++ packQ z
    else let v := decInt z; HashLits.longTag ++ dec v.length ++ HashLits.longLenSep ++ v
  | .float bits => HashLits.floatTag ++ packD bits
  | .complex re im => HashLits.complexTag ++ (packD re ++ packD im)
  | .str s => HashLits.strTag ++ dec s.length ++ HashLits.strLenSep ++ s
  | .bytes b => HashLits.bytesTag ++ dec b.length ++ HashLits.bytesLenSep ++ b

/-! ### Python's `<` on what `sorted` is applied to -/

/-- sign-magnitude key of a binary64 pattern (−0.0 and +0.0 get the same key; NaN excluded by `isNaN`). -/
def floatKey (bits : Nat) : Int := if bits < 2 ^ 63 then (bits : Int) else -((bits : Int) - 2 ^ 63)
def isNaN (bits : Nat) : Bool := decide (bits % 2 ^ 63 > 0x7FF0000000000000)

def boolInt (b : Bool) : Int := if b then 1 else 0

/-- `a < b` for scalars: numbers with numbers, str with str, bytes with bytes; anything else is a TypeError.
    int/float mixtures and NaN are outside the modelled domain. -/
def scalarLt : Scalar → Scalar → Except Err Bool
  | .int a, .int b => .ok (decide (a < b))
  | .int a, .bool b => .ok (decide (a < boolInt b))
  | .bool a, .int b => .ok (decide (boolInt a < b))
  | .bool a, .bool b => .ok (decide (boolInt a < boolInt b))
  | .float a, .float b => if isNaN a || isNaN b then .error .unsupported else .ok (decide (floatKey a < floatKey b))
  | .float _, .int _ => .error .unsupported
  | .int _, .float _ => .error .unsupported
  | .float _, .bool _ => .error .unsupported
  | .bool _, .float _ => .error .unsupported
  | .str a, .str b => .ok (bytesLt a b)
  | .bytes a, .bytes b => .ok (bytesLt a b)
  | _, _ => .error .typeError

def asScalars : List PyVal → Option (List Scalar)
  | [] => some []
  | .sc s :: xs => (asScalars xs).map (s :: ·)
  | _ :: _ => none

/-- lexicographic `<` of two tuples of scalars: first index where the elements differ decides. -/
def tupleLt : List Scalar → List Scalar → Except Err Bool
  | _, [] => .ok false
  | [], _ :: _ => .ok true
  | a :: as, b :: bs => if a = b then tupleLt as bs else scalarLt a b

/-- `a < b` for the values that `bytes_repr_set` sorts: scalars, tuples of scalars, and sets of scalars
    (`set.__lt__` = proper subset: only a partial order — DESIGN §7 D6). -/
def pyLt : PyVal → PyVal → Except Err Bool
  | .sc a, .sc b => scalarLt a b
  | .seq _ .tuple xs, .seq _ .tuple ys =>
    match asScalars xs, asScalars ys with
    | some a, some b => tupleLt a b
    | _, _ => .error .unsupported
  | .set _ _ xs, .set _ _ ys =>
    match asScalars xs, asScalars ys with
    | some a, some b => .ok (a.all (fun x => b.contains x) && decide (a.length < b.length))
    | _, _ => .error .unsupported
  | .sc _, .seq _ .tuple _ => .error .typeError
  | .seq _ .tuple _, .sc _ => .error .typeError
  | .sc _, .set _ _ _ => .error .typeError
  | .set _ _ _, .sc _ => .error .typeError
  | .seq _ .tuple _, .set _ _ _ => .error .typeError
  | .set _ _ _, .seq _ .tuple _ => .error .typeError
  | _, _ => .error .unsupported

/-! ### `sorted`: CPython's list.sort for fewer than 64 elements (`count_run` + `binarysort`) -/

section Sorting
variable {α : Type} (lt : α → α → Except Err Bool)

/-- length of the initial ascending run (`descending = false`) — elements `prev :: rest`, run continues while
    `¬ (x < prev)`. -/
def runAsc : α → List α → Except Err Nat
  | _, [] => .ok 0
  | prev, x :: rest => do
    if ← lt x prev then pure 0 else pure ((← runAsc x rest) + 1)

/-- length of the initial strictly descending run: continues while `x < prev`. -/
def runDesc : α → List α → Except Err Nat
  | _, [] => .ok 0
  | prev, x :: rest => do
    if ← lt x prev then pure ((← runDesc x rest) + 1) else pure 0

/-- `count_run`: (run length, descending?) for a list with at least two elements. -/
def countRun : List α → Except Err (Nat × Bool)
  | [] => .ok (0, false)
  | [_] => .ok (1, false)
  | a :: b :: rest => do
    if ← lt b a then pure ((← runDesc lt b rest) + 2, true) else pure ((← runAsc lt b rest) + 2, false)

/-- binary search of `binarysort` on the sorted prefix `seg` (`l = 0`, `r = len`): the number of elements that stay in
    front of `pivot`.  `p = l + ((r - l) >> 1)`; `pivot < seg[p]` continues in `seg[l..p)`, otherwise in `seg[p+1..r)`.
    Written on list segments instead of indices (same comparisons in the same order); `fuel ≥ seg.length`. -/
def bpos (pivot : α) : Nat → List α → Except Err Nat
  | 0, _ => .ok 0
  | fuel + 1, seg =>
    match seg.drop (seg.length / 2) with
    | [] => .ok 0
    | x :: right => do
      if ← lt pivot x then bpos pivot fuel (seg.take (seg.length / 2))
      else pure (seg.length / 2 + 1 + (← bpos pivot fuel right))

def binsert (sorted : List α) (pivot : α) : Except Err (List α) := do
  let l ← bpos lt pivot sorted.length sorted
  pure (sorted.take l ++ pivot :: sorted.drop l)

def binarySort (sorted : List α) : List α → Except Err (List α)
  | [] => .ok sorted
  | x :: rest => do binarySort (← binsert lt sorted x) rest

/-- `sorted(xs)` as CPython computes it for `len(xs) < 64`.  (For longer lists CPython merges several runs; the
    result is the same whenever `<` is a strict total order on the elements, which is the hypothesis of every
    theorem that speaks about the result.) -/
def pySorted (xs : List α) : Except Err (List α) :=
  if xs.length < 2 then .ok xs else do
    let (n, desc) ← countRun lt xs
    let run := if desc then (xs.take n).reverse else xs.take n
    binarySort lt run (xs.drop n)

end Sorting

/-! ### the same algorithm with a total Bool comparison (used for sorting digests) -/

section Pure
variable {α : Type} (ltb : α → α → Bool)

def runAscB : α → List α → Nat
  | _, [] => 0
  | prev, x :: rest => if ltb x prev then 0 else runAscB x rest + 1

def runDescB : α → List α → Nat
  | _, [] => 0
  | prev, x :: rest => if ltb x prev then runDescB x rest + 1 else 0

def countRunB : List α → Nat × Bool
  | [] => (0, false)
  | [_] => (1, false)
  | a :: b :: rest => if ltb b a then (runDescB ltb b rest + 2, true) else (runAscB ltb b rest + 2, false)

def bposB (pivot : α) : Nat → List α → Nat
  | 0, _ => 0
  | fuel + 1, seg =>
    match seg.drop (seg.length / 2) with
    | [] => 0
    | x :: right =>
      if ltb pivot x then bposB pivot fuel (seg.take (seg.length / 2))
      else seg.length / 2 + 1 + bposB pivot fuel right

def binsertB (sorted : List α) (pivot : α) : List α :=
  sorted.take (bposB ltb pivot sorted.length sorted) ++ pivot :: sorted.drop (bposB ltb pivot sorted.length sorted)

def binarySortB (sorted : List α) : List α → List α
  | [] => sorted
  | x :: rest => binarySortB (binsertB ltb sorted x) rest

def pySortedB (xs : List α) : List α :=
  if xs.length < 2 then xs else
    let nd := countRunB ltb xs
    let run := if nd.2 then (xs.take nd.1).reverse else xs.take nd.1
    binarySortB ltb run (xs.drop nd.1)

end Pure

/-- `sorted(digests)`: byte strings in lexicographic order (`bytes.__lt__` is a total order, so the result is THE sorted
    permutation whatever algorithm computes it) -/
def sortDigests (ds : List Bytes) : List Bytes := pySortedB bytesLt ds

/-! ### the pre-hash structure -/

inductive Pre where
  | lit (b : Bytes)
  | node (id : Nat) (parts : List Pre)   -- `hash_single(obj)`, `id = 0`: an object without tracked identity
  | ref (id : Nat)                        -- `hash_single` of an object that is being hashed further up
  | sorted (elems : List Pre)             -- `sorted(hash_single(item) for item in obj)`: evaluated in the given
                                          -- (iteration) order, emitted in the order of the resulting byte strings

def Pre.isNode : Pre → Bool
  | .node .. => true
  | _ => false

def lit (b : Bytes) : Pre := .lit b

/-- `bytes_repr_mapping_contents` after sorting: `bytes_repr(key) "=" hash_single(value) ","` per item. -/
def mapContents : List (Scalar × Pre) → List Pre
  | [] => []
  | (k, p) :: rest => lit (encScalar k) :: lit HashLits.mapEq :: p :: lit HashLits.mapSep :: mapContents rest

/-- `bytes_repr_mapping_contents` since fix e8ebe74c: the items are ordered by the byte representation of their keys
    (`sorted(..., key=lambda item: item[0])` on `b"".join(bytes_repr(key))`), a total order on byte strings; before, by
    `sorted(mapping)`, i.e. Python's `<` on the keys themselves (`sortedKeysByValue` below). -/
def sortItems {β : Type} (items : List (Scalar × β)) : List (Scalar × β) :=
  pySortedB (fun a b => bytesLt (encScalar a.1) (encScalar b.1)) items

/-- OLD key order (before fix e8ebe74c), kept as documentation of defect D68 only -/
def sortedKeysByValue (ks : List Scalar) : Except Err (List Scalar) := pySorted scalarLt ks

def seqName : SeqKind → Bytes
  | .list => ascii "list"
  | .tuple => ascii "tuple"
  | .code => []     -- `code:(`, `partial:(`, `method:(` are literals of their serializers
  | .partialFn => []
  | .boundMethod => []

def seqOpenLit : SeqKind → Bytes
  | .code => HashLits.codeOpen
  | .partialFn => HashLits.partialOpen
  | .boundMethod => HashLits.methodOpen
  | k => seqName k ++ HashLits.seqOpen

def seqCloseLit : SeqKind → Bytes
  | .code => HashLits.codeClose
  | .partialFn => HashLits.partialClose
  | .boundMethod => HashLits.methodClose
  | _ => HashLits.seqClose

def setName (frozen : Bool) : Bytes := if frozen then ascii "frozenset" else ascii "set"

mutual
/-- `bytes_repr_type` for inline type expressions. -/
def encTy : TyExpr → Bytes
  | .named loc => HashLits.typeOpen ++ loc ++ HashLits.typeClose
  | .ellipsis => HashLits.typeOpen ++ HashLits.tyEllipsis ++ HashLits.typeClose
  | .generic o args =>
    HashLits.typeOpen ++ HashLits.tyOriginOpen ++ encTy o ++ HashLits.tyArgsOpen ++ encTys args
      ++ HashLits.tyArgsClose ++ HashLits.typeClose
  | .arglist args => HashLits.tyListOpen ++ encTys args ++ HashLits.tyListClose
def encTys : List TyExpr → Bytes
  | [] => []
  | t :: ts => encTy t ++ encTys ts
end

def funcBodyParts : FuncBody → List Pre → List Pre
  | .stdlib q, _ => [lit q]
  | .ast chunks, _ => chunks.map lit
  | .raw src, _ => [lit src]
  | .code, items => lit HashLits.codeOpen :: items ++ [lit HashLits.codeClose]

def taskPrivLits : List Bytes :=
  [HashLits.taskSplitter, HashLits.taskCombiner, HashLits.taskNdim, HashLits.taskXor]

/-- `name= <digest> ,` per field, in definition order (`bytes_repr_task`). -/
def taskFieldParts : List (Scalar × Pre) → Except Err (List Pre)
  | [] => .ok []
  | (.str n, p) :: rest => do
    pure (lit (n ++ HashLits.taskFieldEq) :: p :: lit HashLits.taskSep :: (← taskFieldParts rest))
  | _ :: _ => .error .malformed

def interleave : List Bytes → List Pre → List Pre
  | l :: ls, p :: ps => lit l :: p :: interleave ls ps
  | _, _ => []

def typeOfInline : Pre → Option Bytes
  | .lit b => some b
  | _ => none

mutual
/-- `hash_single(v)` as a pre-hash node. -/
def pre : PyVal → Except Err Pre
  | .sc s => .ok (.node 0 [lit (encScalar s)])
  | .path cls fs => .ok (.node 0 [lit (cls ++ HashLits.pathSep ++ fs)])
  | .ndarray cls dtype shape data =>
    .ok (.node 0 [lit (cls ++ HashLits.npSep1 ++ dtype ++ HashLits.npSep2 ++ shape ++ HashLits.npSep3), lit data])
  | .ty t => .ok (.node 0 [lit (encTy t)])
  | .seq id k xs => do
    let ps ← preList xs
    pure (.node id (lit (seqOpenLit k) :: ps ++ [lit (seqCloseLit k)]))
  | .set id fr xs => do
    -- the elements are hashed in iteration order and their digests are sorted (fix 847ae56e; before: `sorted(obj)`,
    -- see `sortedByValue` below)
    let ps ← preList xs
    pure (.node id [lit (setName fr ++ HashLits.setOpen), .sorted ps, lit HashLits.setClose])
  | .dict id items => do
    let ps ← preItems items
    pure (.node id (lit HashLits.dictOpen :: mapContents (sortItems ps) ++ [lit HashLits.dictClose]))
  | .obj id cls fields => do
    let ps ← preItems fields
    pure (.node id (lit (cls ++ HashLits.objOpen) :: mapContents (sortItems ps) ++ [lit HashLits.objClose]))
  | .tyFields id fields outputs => do
    let fs ← preList fields
    let os ← preList outputs
    -- `bytes_repr_type(klass.Outputs)` is inlined (no hash_single): its parts, not a node
    let inl ← match os with
      | [] => pure []
      | [.node _ parts] => pure (lit HashLits.tyOutputsOpen :: parts ++ [lit HashLits.tyOutputsClose])
      | _ => .error .malformed
    pure (.node id (lit (HashLits.typeOpen ++ HashLits.tyFieldsOpen) :: fs ++ lit HashLits.tyFieldsClose :: inl
            ++ [lit HashLits.typeClose]))
  | .func id body code _ _ => do
    let cs ← preList code
    pure (.node id (lit HashLits.funcOpen :: funcBodyParts body cs ++ [lit HashLits.funcClose]))
  | .task id ttype fields priv => do
    let fs ← preItems fields
    let ps ← preList priv
    if ps.length ≠ 4 then .error .malformed else
    let fparts ← taskFieldParts fs
    -- the literals of the private attributes carry their own leading commas (`,_combiner=` …), and every field
    -- is followed by `,`
    pure (.node id (lit (HashLits.taskOpenA ++ ttype ++ HashLits.taskOpenB) :: fparts
            ++ interleave taskPrivLits ps ++ [lit HashLits.taskClose]))
  | .ref id => .ok (.ref id)
def preList : List PyVal → Except Err (List Pre)
  | [] => .ok []
  | v :: vs => do
    let p ← pre v
    let ps ← preList vs
    pure (p :: ps)
def preItems : List (Scalar × PyVal) → Except Err (List (Scalar × Pre))
  | [] => .ok []
  | (k, v) :: rest => do
    let p ← pre v
    let ps ← preItems rest
    pure ((k, p) :: ps)
end

/-- The OLD set serializer (before fix 847ae56e) ordered the elements with `sorted(obj)`, i.e. with Python's `<` on
    the values themselves.  Kept for the witness theorems that document defect D6 (`C08_witness_partial_order`,
    `C07_witness_xor`, `C07_witness_xor_none`); the live model above no longer uses it. -/
def sortedByValue (xs : List PyVal) : Except Err (List PyVal) := pySorted pyLt xs

/-! ### evaluation of a pre-hash structure -/

section Eval
variable (H : Bytes → Bytes)

mutual
/-- no memo: every node is the digest of the concatenation of its parts. -/
def evalPure : Pre → Bytes
  | .lit b => b
  | .node _ ps => H (evalPureList ps)
  | .ref _ => HashLits.placeholder
  | .sorted ps => (sortDigests (evalPureEach ps)).flatten
def evalPureList : List Pre → Bytes
  | [] => []
  | p :: ps => evalPure p ++ evalPureList ps
def evalPureEach : List Pre → List Bytes
  | [] => []
  | p :: ps => evalPure p :: evalPureEach ps
end

/-- `Cache._hashes`: id → digest, newest binding first. -/
abbrev Memo := List (Nat × Bytes)

def Memo.find (m : Memo) (i : Nat) : Option Bytes := (m.find? (fun e => e.1 == i)).map (·.2)

mutual
/-- `hash_single` with the id-keyed memo: a memo hit returns the stored bytes (the placeholder while the object
    is still being hashed); otherwise the placeholder is stored, the chunks are evaluated left to right threading the
    memo, and the digest replaces the placeholder.  `id = 0` objects are not tracked. -/
def evalMemo : Pre → Memo → Bytes × Memo
  | .lit b, m => (b, m)
  | .ref i, m => ((m.find i).getD HashLits.placeholder, m)
  | .sorted ps, m =>
    let r := evalMemoEach ps m
    ((sortDigests r.1).flatten, r.2)
  | .node i ps, m =>
    if i = 0 then
      let r := evalMemoList ps m
      (H r.1, r.2)
    else match m.find i with
      | some d => (d, m)
      | none =>
        let r := evalMemoList ps ((i, HashLits.placeholder) :: m)
        let d := H r.1
        (d, (i, d) :: r.2)
def evalMemoList : List Pre → Memo → Bytes × Memo
  | [], m => ([], m)
  | p :: ps, m =>
    let r := evalMemo p m
    let rs := evalMemoList ps r.2
    (r.1 ++ rs.1, rs.2)
def evalMemoEach : List Pre → Memo → List Bytes × Memo
  | [], m => ([], m)
  | p :: ps, m =>
    let r := evalMemo p m
    let rs := evalMemoEach ps r.2
    (r.1 :: rs.1, rs.2)
end

/-- `hash_object(v, cache)` continuing with an existing memo. -/
def hashWith (v : PyVal) (m : Memo) : Except Err (Bytes × Memo) := (pre v).map (fun p => evalMemo H p m)

/-- `hash_object(v)` with a fresh `Cache()` — what `hash_function(v)` prints as hex. -/
def hashFunction (v : PyVal) : Except Err Bytes := (hashWith H v []).map (·.1)

/-- the hash of `v` as a function of its content alone (no memo). -/
def hashAlone (v : PyVal) : Except Err Bytes := (pre v).map (evalPure H)

end Eval

/-! ### task checksums -/

/-- Metadata of an input field that reaches the command line / the computation but NOT the checksum
    (`_compute_hashes` hashes field *values* and the `Outputs` class only) — DESIGN §7 D4. -/
structure FieldMeta where
  argstr : Bytes := []
  position : Option Int := none
  sep : Option Bytes := none
  formatter : Option PyVal := none
  deriving Inhabited

structure TaskField where
  name : Bytes
  value : Option PyVal        -- `none` = `attrs.NOTHING`
  isOut : Bool := false
  containerPath : Bool := false
  md : FieldMeta := {}

structure TaskDef where
  ttype : Bytes               -- `_task_type()`: "python" / "shell" / "workflow"
  fields : List TaskField     -- `get_fields(self)`
  outputs : PyVal             -- `self.Outputs`

/-- `inp_dict` of `_compute_hashes` (insertion order). -/
def TaskDef.inpDict (t : TaskDef) : List (Bytes × PyVal) :=
  (t.fields.filterMap (fun f =>
    if f.isOut then none else
    match f.value with
    | none => none
    | some v => if f.containerPath then none else some (f.name, v)))
  ++ [(HashLits.outputsKey, t.outputs)]

/-- `{k: hash_function(v, cache=hash_cache) for k, v in inp_dict.items()}` with ONE shared memo. -/
def fieldHashes (H : Bytes → Bytes) : List (Bytes × PyVal) → Memo → Except Err (List (Bytes × Bytes))
  | [], _ => .ok []
  | (k, v) :: rest, m => do
    let r ← hashWith H v m
    let hs ← fieldHashes H rest r.2
    pure ((k, hex r.1) :: hs)

/-- the value `sorted(field_hashes.items())` that is hashed last: a list of `(name, hexdigest)` tuples. -/
def hashesValue (sorted : List (Bytes × Bytes)) : PyVal :=
  .seq 0 .list (sorted.map (fun kv => .seq 0 .tuple [.sc (.str kv.1), .sc (.str kv.2)]))

/-- `(name, hex) < (name', hex')`: tuple comparison on two strings. -/
def pairLt (a b : Bytes × Bytes) : Except Err Bool :=
  .ok (if a.1 = b.1 then bytesLt a.2 b.2 else bytesLt a.1 b.1)

/-- `Task._compute_hashes()[0]` (hex string). -/
def computeHashes (H : Bytes → Bytes) (t : TaskDef) : Except Err Bytes := do
  let fh ← fieldHashes H t.inpDict []
  let sorted ← pySorted pairLt fh
  let h ← hashFunction H (hashesValue sorted)
  pure (hex h)

/-- `Task._checksum` = f"{task type}-{hash}". -/
def taskChecksum (H : Bytes → Bytes) (t : TaskDef) : Except Err Bytes := do
  pure (t.ttype ++ HashLits.checksumSep ++ (← computeHashes H t))

/-- Everything a submission knows besides the task: none of it reaches `Job.checksum`. -/
structure RunCfg where
  cacheRoot : Bytes
  worker : Bytes
  hashSeed : Nat
  pid : Nat

/-- `Job.checksum` (memoised `self.task._checksum`). -/
def jobChecksum (H : Bytes → Bytes) (_cfg : RunCfg) (t : TaskDef) : Except Err Bytes := taskChecksum H t

/-! ### the source text the model was written for (compared with the regenerated one by `decide`) -/

end PydraModel.Hash
