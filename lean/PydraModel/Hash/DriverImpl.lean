import PydraModel.DriverUtil
import PydraModel.Hash.Model
import PydraModel.Hash.Blake2b
/-
Implementation of the JSON-lines driver of the Hash engine (kept in a library module so that it is compiled once;
`Drivers/Hash.lean` only contains `main`).  No theorem depends on this file.  See `Drivers/Hash.lean` for the protocol.
-/
namespace PydraModel.Hash.DriverImpl
open Lean PydraModel PydraModel.DriverUtil PydraModel.Hash

def hexVal (c : Char) : Except String Nat :=
  if '0' ≤ c ∧ c ≤ '9' then pure (c.toNat - 48)
  else if 'a' ≤ c ∧ c ≤ 'f' then pure (c.toNat - 87)
  else throw s!"bad hex digit {c}"

partial def unhexL : List Char → Except String Bytes
  | [] => pure []
  | [_] => throw "odd hex length"
  | a :: b :: rest => do pure ((16 * (← hexVal a) + (← hexVal b)) :: (← unhexL rest))

def unhex (s : String) : Except String Bytes := unhexL s.toList

def toHexStr (b : Bytes) : String := String.ofList ((Hash.hex b).map Char.ofNat)

def utf8 (s : String) : Bytes := s.toUTF8.toList.map (·.toNat)

def HB : Bytes → Bytes := fun b =>
  let msg : Array UInt8 := (b.map UInt8.ofNat).toArray
  let person : Array UInt8 := (Gen.HashLits.person.map UInt8.ofNat).toArray
  (Blake2b.blake2b Gen.HashLits.digestSize person msg).toList.map (·.toNat)

def getHex (j : Json) (k : String) : Except String Bytes := do unhex (← getStr j k)
def getBytesStr (j : Json) (k : String) : Except String Bytes := do pure (utf8 (← getStr j k))

def getIntStr (j : Json) (k : String) : Except String Int := do
  let s ← getStr j k
  match s.toInt? with
  | some z => pure z
  | none => throw s!"bad int {s}"

def getNatStr (j : Json) (k : String) : Except String Nat := do
  let z ← getIntStr j k
  if z < 0 then throw "negative" else pure z.toNat

def scalarOfJson (j : Json) : Except String Scalar := do
  match (← getStr j "t") with
  | "none" => pure .none
  | "bool" => pure (.bool (← j.getObjValAs? Bool "v"))
  | "int" => pure (.int (← getIntStr j "v"))
  | "float" =>
    let b ← getNatStr j "bits"
    if b < 2 ^ 64 then pure (.float b) else throw "float bits out of range"
  | "complex" =>
    let re ← getNatStr j "re"
    let im ← getNatStr j "im"
    if re < 2 ^ 64 ∧ im < 2 ^ 64 then pure (.complex re im) else throw "complex bits out of range"
  | "str" => pure (.str (← getHex j "hex"))
  | "bytes" => pure (.bytes (← getHex j "hex"))
  | t => throw s!"not a scalar: {t}"

partial def tyOfJson (j : Json) : Except String TyExpr := do
  match (← getStr j "k") with
  | "named" => pure (.named (← getBytesStr j "loc"))
  | "ellipsis" => pure .ellipsis
  | "generic" => pure (.generic (← tyOfJson (← j.getObjVal? "origin")) (← (← getArr j "args").toList.mapM tyOfJson))
  | "arglist" => pure (.arglist (← (← getArr j "args").toList.mapM tyOfJson))
  | k => throw s!"bad type kind {k}"

def objKindOf : String → Except String ObjKind
  | "attrs" => pure .attrs
  | "slots" => pure .slots
  | "dict" => pure .dict
  | k => throw s!"bad object kind {k}"

partial def valOfJson (j : Json) : Except String PyVal := do
  let t ← getStr j "t"
  let items (k : String) : Except String (List (Scalar × PyVal)) := do
    (← getArr j k).toList.mapM (fun e => do
      let a ← e.getArr?
      if a.size != 2 then throw "item" else pure ((← scalarOfJson a[0]!), (← valOfJson a[1]!)))
  let named (k : String) : Except String (List (Scalar × PyVal)) := do
    (← getArr j k).toList.mapM (fun e => do
      let a ← e.getArr?
      if a.size != 2 then throw "named item" else pure (Scalar.str (utf8 (← a[0]!.getStr?)), (← valOfJson a[1]!)))
  let vals (k : String) : Except String (List PyVal) := do (← getArr j k).toList.mapM valOfJson
  match t with
  | "list" => pure (.seq (← getNat j "id") .list (← vals "xs"))
  | "tuple" => pure (.seq (← getNat j "id") .tuple (← vals "xs"))
  | "code" => pure (.seq (← getNat j "id") .code (← vals "xs"))
  | "partial" => pure (.seq (← getNat j "id") .partialFn (← vals "xs"))
  | "method" => pure (.seq (← getNat j "id") .boundMethod (← vals "xs"))
  | "set" => pure (.set (← getNat j "id") false (← vals "xs"))
  | "frozenset" => pure (.set (← getNat j "id") true (← vals "xs"))
  | "dict" => pure (.dict (← getNat j "id") (← items "items"))
  | "obj" =>
    let kind ← objKindOf (← getStr j "kind")
    let raw ← (← getArr j "fields").toList.mapM (fun e => do
      let a ← e.getArr?
      if a.size != 3 then throw "field" else
      pure (utf8 (← a[0]!.getStr?), (← a[1]!.getBool?), (← valOfJson a[2]!)))
    pure (.obj (← getNat j "id") (← getBytesStr j "cls") (keptFields kind raw))
  | "path" => pure (.path (← getBytesStr j "cls") (← getHex j "hex"))
  | "ndarray" =>
    pure (.ndarray (← getBytesStr j "cls") (← getBytesStr j "dtype") (← getBytesStr j "shape") (← getHex j "hex"))
  | "type" => pure (.ty (← tyOfJson (← j.getObjVal? "ty")))
  | "tyfields" => pure (.tyFields (← getNat j "id") (← vals "fields") (← vals "outputs"))
  | "func" =>
    let b ← j.getObjVal? "body"
    let body ← match (← getStr b "k") with
      | "stdlib" => pure (FuncBody.stdlib (← getBytesStr b "q"))
      | "ast" => pure (FuncBody.ast (← (← getArr b "chunks").toList.mapM (fun e => do unhex (← e.getStr?))))
      | "raw" => pure (FuncBody.raw (← getHex b "hex"))
      | "code" => pure FuncBody.code
      | k => throw s!"bad function body kind {k}"
    pure (.func (← getNat j "id") body (← vals "code") (← named "cells") (← named "globals"))
  | "task" => pure (.task (← getNat j "id") (← getBytesStr j "ttype") (← named "fields") (← vals "priv"))
  | "ref" => pure (.ref (← getNat j "id"))
  | _ => pure (.sc (← scalarOfJson j))

def errTag : Err → String
  | .typeError => "TypeError"
  | .unsupported => "unsupported"
  | .malformed => "malformed"

/-- every `ref i` must occur inside an object with id `i`, and tracked ids must be non-zero where needed -/
partial def wellScoped (open_ : List Nat) : PyVal → Bool
  | .ref i => open_.contains i
  | .seq i _ xs => xs.all (wellScoped (i :: open_))
  | .set i _ xs => xs.all (wellScoped (i :: open_))
  | .dict i items => items.all (fun kv => wellScoped (i :: open_) kv.2)
  | .obj i _ fs => fs.all (fun kv => wellScoped (i :: open_) kv.2)
  | .tyFields i fs os => fs.all (wellScoped (i :: open_)) && os.all (wellScoped (i :: open_))
  | .func i _ code _ _ => code.all (wellScoped (i :: open_))
  | .task i _ fs priv => fs.all (fun kv => wellScoped (i :: open_) kv.2) && priv.all (wellScoped (i :: open_))
  | _ => true

def taskOfJson (j : Json) : Except String TaskDef := do
  let fields ← (← getArr j "fields").toList.mapM (fun f => do
    let v ← match f.getObjVal? "value" with
      | .ok Json.null => pure none
      | .ok x => pure (some (← valOfJson x))
      | .error _ => pure none
    pure ({ name := (← getBytesStr f "name"), value := v,
            isOut := (f.getObjValAs? Bool "out").toOption.getD false,
            containerPath := (f.getObjValAs? Bool "container_path").toOption.getD false } : TaskField))
  pure { ttype := (← getBytesStr j "ttype"), fields := fields, outputs := (← valOfJson (← j.getObjVal? "outputs")) }

def handle (j : Json) : Json :=
  let r : Except String Json := do
    match (← getStr j "op") with
    | "blake2b" => pure (Json.mkObj [("hex", Json.str (toHexStr (HB (← getHex j "hex"))))])
    | "hash" =>
      let v ← valOfJson (← j.getObjVal? "v")
      if !wellScoped [] v then throw "ill-scoped ref" else
      let wantAlone := (j.getObjValAs? Bool "alone").toOption.getD false
      match hashFunction HB v with
      | .error e => pure (Json.mkObj [("error", Json.str (errTag e))])
      | .ok h =>
        if wantAlone then
          match hashAlone HB v with
          | .ok a => pure (Json.mkObj [("hex", Json.str (toHexStr h)), ("alone", Json.str (toHexStr a))])
          | .error e => pure (Json.mkObj [("error", Json.str (errTag e))])
        else pure (Json.mkObj [("hex", Json.str (toHexStr h))])
    | "hash_ctx" =>
      let vs ← (← getArr j "vs").toList.mapM valOfJson
      if !(vs.all (wellScoped [])) then throw "ill-scoped ref" else
      let rec go : List PyVal → Memo → Except Err (List String)
        | [], _ => pure []
        | v :: rest, m => do
          let r ← hashWith HB v m
          pure (toHexStr r.1 :: (← go rest r.2))
      match go vs [] with
      | .ok hs => pure (Json.mkObj [("hexes", Json.arr (hs.map Json.str).toArray)])
      | .error e => pure (Json.mkObj [("error", Json.str (errTag e))])
    | "checksum" =>
      let t ← taskOfJson (← j.getObjVal? "task")
      match taskChecksum HB t with
      | .ok c => pure (Json.mkObj [("checksum", Json.str (String.ofList (c.map Char.ofNat)))])
      | .error e => pure (Json.mkObj [("error", Json.str (errTag e))])
    | "sorted" =>
      let vs ← (← getArr j "xs").toList.mapM valOfJson
      match pySorted (fun (a b : PyVal × Nat) => pyLt a.1 b.1) (vs.zip (List.range vs.length)) with
      | .ok s => pure (Json.mkObj [("order", Json.arr (s.map (fun p => Json.num p.2)).toArray)])
      | .error e => pure (Json.mkObj [("error", Json.str (errTag e))])
    | op => throw s!"bad-op {op}"
  match r with
  | .ok v => v
  | .error e => err e


end PydraModel.Hash.DriverImpl
