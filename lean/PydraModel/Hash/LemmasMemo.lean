import PydraModel.Hash.Model
/-
Transparency of `hash_single`'s id-keyed memo (C08, "context-free").

`UniqueIds W p` ("UniqueLiveIds"): `W` maps every tracked id to THE pre-hash structure of the object with that
id, every node of `p` with a tracked id agrees with `W`, and `p` contains no back reference (`ref`), i.e. the value is a
tree or a DAG.  `Sound H W O m`: every memo entry outside the ids `O` that are currently being hashed holds the pure
digest of the object `W` assigns to that id.

`evalMemo_pure`: under these hypotheses `evalMemo` returns `evalPure` and keeps the memo sound.
-/
namespace PydraModel.Hash
open PydraModel.Gen

mutual
def Pre.size : Pre → Nat
  | .lit _ => 1
  | .ref _ => 1
  | .node _ ps => Pre.sizeList ps + 1
  | .sorted ps => Pre.sizeList ps + 1
def Pre.sizeList : List Pre → Nat
  | [] => 0
  | p :: ps => Pre.size p + Pre.sizeList ps
end

mutual
/-- does the tracked id `j` occur in `p` (as the id of a node or as a back reference)? -/
def Pre.occ (j : Nat) : Pre → Bool
  | .lit _ => false
  | .ref i => i == j
  | .node i ps => i == j || Pre.occList j ps
  | .sorted ps => Pre.occList j ps
def Pre.occList (j : Nat) : List Pre → Bool
  | [] => false
  | p :: ps => Pre.occ j p || Pre.occList j ps
end

mutual
/-- every tracked node of `p` is the object `W` knows under that id; no back references -/
def UniqueIds (W : Nat → Option Pre) : Pre → Prop
  | .lit _ => True
  | .ref _ => False
  | .node i ps => (i ≠ 0 → W i = some (.node i ps)) ∧ UniqueIdsList W ps
  | .sorted ps => UniqueIdsList W ps
def UniqueIdsList (W : Nat → Option Pre) : List Pre → Prop
  | [] => True
  | p :: ps => UniqueIds W p ∧ UniqueIdsList W ps
end

/-- the memo is sound except for the ids in `O` (objects whose hashing is in progress hold the placeholder) -/
def Sound (H : Bytes → Bytes) (W : Nat → Option Pre) (O : List Nat) (m : Memo) : Prop :=
  ∀ i d, m.find i = some d → i ∈ O ∨ ∃ q, W i = some q ∧ d = evalPure H q

theorem Memo.find_cons (m : Memo) (i j : Nat) (d : Bytes) :
    Memo.find ((i, d) :: m) j = if i = j then some d else m.find j := by
  unfold Memo.find
  simp only [List.find?_cons]
  by_cases h : i = j
  · simp [h]
  · have : (i == j) = false := by simp [h]
    simp [this, h]

mutual
/-- an occurrence of a tracked id inside a `UniqueIds` structure is a sub-structure known to `W` -/
theorem occ_size (W : Nat → Option Pre) (j : Nat) (hj : j ≠ 0) :
    ∀ (p : Pre), UniqueIds W p → Pre.occ j p = true → ∃ q, W j = some q ∧ Pre.size q ≤ Pre.size p
  | .lit _, _, h => by simp [Pre.occ] at h
  | .ref _, hu, _ => by simp [UniqueIds] at hu
  | .node i ps, hu, h => by
    simp only [UniqueIds] at hu
    simp only [Pre.occ, Bool.or_eq_true, beq_iff_eq] at h
    rcases h with h | h
    · subst h
      exact ⟨_, hu.1 hj, Nat.le_refl _⟩
    · obtain ⟨q, hq, hs⟩ := occList_size W j hj ps hu.2 h
      exact ⟨q, hq, by simp only [Pre.size]; omega⟩
  | .sorted ps, hu, h => by
    simp only [UniqueIds] at hu
    simp only [Pre.occ] at h
    obtain ⟨q, hq, hs⟩ := occList_size W j hj ps hu h
    exact ⟨q, hq, by simp only [Pre.size]; omega⟩
theorem occList_size (W : Nat → Option Pre) (j : Nat) (hj : j ≠ 0) :
    ∀ (ps : List Pre), UniqueIdsList W ps → Pre.occList j ps = true →
      ∃ q, W j = some q ∧ Pre.size q ≤ Pre.sizeList ps
  | [], _, h => by simp [Pre.occList] at h
  | p :: ps, hu, h => by
    simp only [UniqueIdsList] at hu
    simp only [Pre.occList, Bool.or_eq_true] at h
    rcases h with h | h
    · obtain ⟨q, hq, hs⟩ := occ_size W j hj p hu.1 h
      exact ⟨q, hq, by simp only [Pre.sizeList]; omega⟩
    · obtain ⟨q, hq, hs⟩ := occList_size W j hj ps hu.2 h
      exact ⟨q, hq, by simp only [Pre.sizeList]; omega⟩
end

/-- an object does not contain itself (tree / DAG) -/
theorem not_occ_self (W : Nat → Option Pre) (i : Nat) (hi : i ≠ 0) (ps : List Pre)
    (hW : W i = some (.node i ps)) (hu : UniqueIdsList W ps) : Pre.occList i ps = false := by
  cases h : Pre.occList i ps with
  | false => rfl
  | true =>
    exfalso
    obtain ⟨q, hq, hs⟩ := occList_size W i hi ps hu h
    rw [hW] at hq
    cases hq
    simp only [Pre.size] at hs
    omega

mutual
theorem evalMemo_pure (H : Bytes → Bytes) (W : Nat → Option Pre) :
    ∀ (p : Pre) (O : List Nat) (m : Memo), UniqueIds W p → Sound H W O m →
      (∀ j ∈ O, Pre.occ j p = false) → (0 ∉ O) →
      (evalMemo H p m).1 = evalPure H p ∧ Sound H W O (evalMemo H p m).2
  | .lit b, O, m, _, hs, _, _ => by simp [evalMemo, evalPure, hs]
  | .ref _, _, _, hu, _, _, _ => by simp [UniqueIds] at hu
  | .node i ps, O, m, hu, hs, hO, h0 => by
    simp only [UniqueIds] at hu
    have hOps : ∀ j ∈ O, Pre.occList j ps = false := by
      intro j hj
      have := hO j hj
      simp only [Pre.occ, Bool.or_eq_false_iff] at this
      exact this.2
    by_cases hi : i = 0
    · subst hi
      obtain ⟨h1, h2⟩ := evalMemoList_pure H W ps O m hu.2 hs hOps h0
      simp only [evalMemo, ↓reduceIte, evalPure]
      exact ⟨by rw [h1], h2⟩
    · have hW := hu.1 hi
      have hiO : i ∉ O := by
        intro hmem
        have := hO i hmem
        simp [Pre.occ] at this
      simp only [evalMemo, hi, ↓reduceIte]
      cases hf : m.find i with
      | some d =>
        simp only []
        refine ⟨?_, hs⟩
        rcases hs i d hf with hmem | ⟨q, hq, hd⟩
        · exact absurd hmem hiO
        · rw [hW] at hq; cases hq; exact hd
      | none =>
        simp only []
        -- children are evaluated with the placeholder stored under `i`
        have hs' : Sound H W (i :: O) ((i, HashLits.placeholder) :: m) := by
          intro j d hj
          rw [Memo.find_cons] at hj
          by_cases hij : i = j
          · subst hij; left; simp
          · simp only [hij, ↓reduceIte] at hj
            rcases hs j d hj with hmem | hq
            · left; simp [hmem]
            · right; exact hq
        have hO' : ∀ j ∈ i :: O, Pre.occList j ps = false := by
          intro j hj
          simp only [List.mem_cons] at hj
          rcases hj with rfl | hj
          · exact not_occ_self W j hi ps hW hu.2
          · exact hOps j hj
        have h0' : 0 ∉ i :: O := by
          simp only [List.mem_cons, not_or]
          exact ⟨fun h => hi h.symm, h0⟩
        obtain ⟨h1, h2⟩ := evalMemoList_pure H W ps (i :: O) _ hu.2 hs' hO' h0'
        refine ⟨by simp only [evalPure]; rw [h1], ?_⟩
        intro j d hj
        rw [Memo.find_cons] at hj
        by_cases hij : i = j
        · subst hij
          simp only [↓reduceIte, Option.some.injEq] at hj
          right
          refine ⟨_, hW, ?_⟩
          rw [← hj, h1]
          simp only [evalPure]
        · simp only [hij, ↓reduceIte] at hj
          rcases h2 j d hj with hmem | hq
          · simp only [List.mem_cons] at hmem
            rcases hmem with rfl | hmem
            · exact absurd rfl hij
            · left; exact hmem
          · right; exact hq
  | .sorted ps, O, m, hu, hs, hO, h0 => by
    simp only [UniqueIds] at hu
    have hOps : ∀ j ∈ O, Pre.occList j ps = false := by
      intro j hj
      have := hO j hj
      simpa only [Pre.occ] using this
    obtain ⟨h1, h2⟩ := evalMemoEach_pure H W ps O m hu hs hOps h0
    simp only [evalMemo, evalPure]
    exact ⟨by rw [h1], h2⟩
theorem evalMemoEach_pure (H : Bytes → Bytes) (W : Nat → Option Pre) :
    ∀ (ps : List Pre) (O : List Nat) (m : Memo), UniqueIdsList W ps → Sound H W O m →
      (∀ j ∈ O, Pre.occList j ps = false) → (0 ∉ O) →
      (evalMemoEach H ps m).1 = evalPureEach H ps ∧ Sound H W O (evalMemoEach H ps m).2
  | [], _, m, _, hs, _, _ => by simp [evalMemoEach, evalPureEach, hs]
  | p :: ps, O, m, hu, hs, hO, h0 => by
    simp only [UniqueIdsList] at hu
    have hOp : ∀ j ∈ O, Pre.occ j p = false := by
      intro j hj
      have := hO j hj
      simp only [Pre.occList, Bool.or_eq_false_iff] at this
      exact this.1
    have hOps : ∀ j ∈ O, Pre.occList j ps = false := by
      intro j hj
      have := hO j hj
      simp only [Pre.occList, Bool.or_eq_false_iff] at this
      exact this.2
    obtain ⟨h1, h2⟩ := evalMemo_pure H W p O m hu.1 hs hOp h0
    obtain ⟨h3, h4⟩ := evalMemoEach_pure H W ps O _ hu.2 h2 hOps h0
    simp only [evalMemoEach, evalPureEach]
    exact ⟨by rw [h1, h3], h4⟩
theorem evalMemoList_pure (H : Bytes → Bytes) (W : Nat → Option Pre) :
    ∀ (ps : List Pre) (O : List Nat) (m : Memo), UniqueIdsList W ps → Sound H W O m →
      (∀ j ∈ O, Pre.occList j ps = false) → (0 ∉ O) →
      (evalMemoList H ps m).1 = evalPureList H ps ∧ Sound H W O (evalMemoList H ps m).2
  | [], _, m, _, hs, _, _ => by simp [evalMemoList, evalPureList, hs]
  | p :: ps, O, m, hu, hs, hO, h0 => by
    simp only [UniqueIdsList] at hu
    have hOp : ∀ j ∈ O, Pre.occ j p = false := by
      intro j hj
      have := hO j hj
      simp only [Pre.occList, Bool.or_eq_false_iff] at this
      exact this.1
    have hOps : ∀ j ∈ O, Pre.occList j ps = false := by
      intro j hj
      have := hO j hj
      simp only [Pre.occList, Bool.or_eq_false_iff] at this
      exact this.2
    obtain ⟨h1, h2⟩ := evalMemo_pure H W p O m hu.1 hs hOp h0
    obtain ⟨h3, h4⟩ := evalMemoList_pure H W ps O _ hu.2 h2 hOps h0
    simp only [evalMemoList, evalPureList]
    exact ⟨by rw [h1, h3], h4⟩
end

/-! ### values without identity never touch the memo -/

mutual
/-- no tracked identity anywhere: every node has `id = 0` and there is no back reference (scalars, keys, arrays, inline
    types — and any compound value the harness did not give an identity) -/
def Pre.untracked : Pre → Bool
  | .lit _ => true
  | .ref _ => false
  | .node i ps => i == 0 && Pre.untrackedList ps
  | .sorted ps => Pre.untrackedList ps
def Pre.untrackedList : List Pre → Bool
  | [] => true
  | p :: ps => Pre.untracked p && Pre.untrackedList ps
end

mutual
/-- For such a structure `hash_single` neither reads nor writes the memo, WHATEVER the memo contains (no soundness
    assumption): the `Cache` state cannot influence it. -/
theorem evalMemo_untracked (H : Bytes → Bytes) :
    ∀ (p : Pre) (m : Memo), Pre.untracked p = true → evalMemo H p m = (evalPure H p, m)
  | .lit b, m, _ => by simp [evalMemo, evalPure]
  | .ref _, _, h => by simp [Pre.untracked] at h
  | .node i ps, m, h => by
    simp only [Pre.untracked, Bool.and_eq_true, beq_iff_eq] at h
    obtain ⟨rfl, h2⟩ := h
    simp only [evalMemo, ↓reduceIte, evalPure, evalMemoList_untracked H ps m h2]
  | .sorted ps, m, h => by
    simp only [Pre.untracked] at h
    simp only [evalMemo, evalPure, evalMemoEach_untracked H ps m h]
theorem evalMemoList_untracked (H : Bytes → Bytes) :
    ∀ (ps : List Pre) (m : Memo), Pre.untrackedList ps = true → evalMemoList H ps m = (evalPureList H ps, m)
  | [], m, _ => by simp [evalMemoList, evalPureList]
  | p :: ps, m, h => by
    simp only [Pre.untrackedList, Bool.and_eq_true] at h
    simp only [evalMemoList, evalPureList, evalMemo_untracked H p m h.1, evalMemoList_untracked H ps m h.2]
theorem evalMemoEach_untracked (H : Bytes → Bytes) :
    ∀ (ps : List Pre) (m : Memo), Pre.untrackedList ps = true → evalMemoEach H ps m = (evalPureEach H ps, m)
  | [], m, _ => by simp [evalMemoEach, evalPureEach]
  | p :: ps, m, h => by
    simp only [Pre.untrackedList, Bool.and_eq_true] at h
    simp only [evalMemoEach, evalPureEach, evalMemo_untracked H p m h.1, evalMemoEach_untracked H ps m h.2]
end

end PydraModel.Hash
