import PydraModel.Hash.LemmasSort2
/-
Binary insertion keeps a sorted prefix sorted; `pySortedB` sorts; permutations are sorted into the same list.
-/
namespace PydraModel.Hash

variable {α : Type}

/-- Specification of the binary search: everything in front of the position is `≤ pivot`, everything from the
    position on is `> pivot`. -/
theorem bposB_spec (ltb : α → α → Bool) (pivot : α) (fuel : Nat) (seg : List α)
    (hfuel : seg.length ≤ fuel) (hs : SortedB ltb seg) (h : TotalOn ltb (pivot :: seg)) :
    bposB ltb pivot fuel seg ≤ seg.length
    ∧ (∀ y ∈ seg.take (bposB ltb pivot fuel seg), ltb pivot y = false)
    ∧ (∀ y ∈ seg.drop (bposB ltb pivot fuel seg), ltb pivot y = true) := by
  induction fuel generalizing seg with
  | zero =>
    have : seg = [] := List.eq_nil_of_length_eq_zero (by omega)
    subst this
    simp [bposB]
  | succ fuel ih =>
    unfold bposB
    cases hd : seg.drop (seg.length / 2) with
    | nil =>
      have hlen : seg.length ≤ seg.length / 2 := by
        have := congrArg List.length hd
        simp at this
        omega
      have : seg = [] := List.eq_nil_of_length_eq_zero (by omega)
      subst this
      simp
    | cons x right =>
      -- seg = A ++ x :: right with A = take k
      have hsplit : seg = seg.take (seg.length / 2) ++ x :: right := by
        rw [← hd, List.take_append_drop]
      have hklt : seg.length / 2 < seg.length := by
        have := congrArg List.length hd
        simp at this
        omega
      have hAlen : (seg.take (seg.length / 2)).length = seg.length / 2 := by
        rw [List.length_take]; omega
      have hrlen : right.length = seg.length - seg.length / 2 - 1 := by
        have := congrArg List.length hd
        simp at this
        omega
      generalize hA : seg.take (seg.length / 2) = A at hsplit hAlen
      generalize hk : seg.length / 2 = k at *
      subst hsplit
      -- sortedness of the pieces
      unfold SortedB at hs
      rw [List.pairwise_append] at hs
      obtain ⟨hsA, hsxr, hcross⟩ := hs
      rw [List.pairwise_cons] at hsxr
      obtain ⟨hxr, hsr⟩ := hsxr
      have hpm : pivot ∈ pivot :: (A ++ x :: right) := by simp
      have hxm : x ∈ pivot :: (A ++ x :: right) := by simp
      cases hpx : ltb pivot x with
      | true =>
        simp only [hpx, ↓reduceIte]
        have hsub : ∀ y ∈ pivot :: A, y ∈ pivot :: (A ++ x :: right) := by
          intro y hy; simp at hy ⊢; rcases hy with rfl | hy
          · left; rfl
          · right; left; exact hy
        obtain ⟨ih1, ih2, ih3⟩ := ih A (by omega) hsA (h.mono hsub)
        generalize bposB ltb pivot fuel A = p at ih1 ih2 ih3
        refine ⟨by simp; omega, ?_, ?_⟩
        · intro y hy
          rw [List.take_append_of_le_length ih1] at hy
          exact ih2 y hy
        · intro y hy
          rw [List.drop_append_of_le_length ih1] at hy
          simp only [List.mem_append, List.mem_cons] at hy
          rcases hy with hy | rfl | hy
          · exact ih3 y hy
          · exact hpx
          · have hym : y ∈ pivot :: (A ++ x :: right) := by simp [hy]
            exact h.lt_of_lt_of_le hpm hxm hym hpx (hxr y hy)
      | false =>
        simp only [hpx, Bool.false_eq_true, ↓reduceIte]
        have hsub : ∀ y ∈ pivot :: right, y ∈ pivot :: (A ++ x :: right) := by
          intro y hy; simp at hy ⊢; rcases hy with rfl | hy
          · left; rfl
          · right; right; right; exact hy
        obtain ⟨ih1, ih2, ih3⟩ := ih right (by omega) hsr (h.mono hsub)
        generalize bposB ltb pivot fuel right = q at ih1 ih2 ih3
        have hpos : k + 1 + q = (A ++ [x]).length + q := by simp [hAlen]
        have hre : A ++ x :: right = (A ++ [x]) ++ right := by simp
        refine ⟨by simp; omega, ?_, ?_⟩
        · intro y hy
          rw [hpos, hre, List.take_length_add_append] at hy
          simp only [List.mem_append, List.mem_cons, List.not_mem_nil, or_false] at hy
          rcases hy with (hy | rfl) | hy
          · have hym : y ∈ pivot :: (A ++ x :: right) := by simp [hy]
            exact h.not_lt_of_le hpm hxm hym hpx (hcross y hy x (by simp))
          · exact hpx
          · exact ih2 y hy
        · intro y hy
          rw [hpos, hre, List.drop_length_add_append] at hy
          exact ih3 y hy

theorem binsertB_sorted (ltb : α → α → Bool) (sorted : List α) (pivot : α)
    (hs : SortedB ltb sorted) (h : TotalOn ltb (pivot :: sorted)) :
    SortedB ltb (binsertB ltb sorted pivot) := by
  obtain ⟨_, h2, h3⟩ := bposB_spec ltb pivot sorted.length sorted (Nat.le_refl _) hs h
  unfold binsertB
  generalize bposB ltb pivot sorted.length sorted = l at h2 h3
  have hs' : (sorted.take l ++ sorted.drop l).Pairwise (LeB ltb) := by rw [List.take_append_drop]; exact hs
  rw [List.pairwise_append] at hs'
  obtain ⟨hA, hB, hAB⟩ := hs'
  unfold SortedB
  rw [List.pairwise_append]
  refine ⟨hA, ?_, ?_⟩
  · rw [List.pairwise_cons]
    refine ⟨?_, hB⟩
    intro y hy
    have hym : y ∈ pivot :: sorted := by simp [List.mem_of_mem_drop hy]
    exact h.asym pivot (by simp) y hym (h3 y hy)
  · intro a ha b hb
    simp only [List.mem_cons] at hb
    rcases hb with rfl | hb
    · exact h2 a ha
    · exact hAB a ha b hb

theorem binarySortB_sorted (ltb : α → α → Bool) (sorted rest : List α)
    (hs : SortedB ltb sorted) (h : TotalOn ltb (sorted ++ rest)) :
    SortedB ltb (binarySortB ltb sorted rest) := by
  induction rest generalizing sorted with
  | nil => exact hs
  | cons x rest ih =>
    simp only [binarySortB]
    apply ih
    · apply binsertB_sorted ltb sorted x hs
      apply h.mono
      intro y hy; simp at hy ⊢; rcases hy with rfl | hy
      · right; left; rfl
      · left; exact hy
    · apply h.mono
      intro y hy
      simp only [List.mem_append, binsertB_mem] at hy
      simp only [List.mem_append, List.mem_cons]
      rcases hy with (rfl | hy) | hy
      · right; left; rfl
      · left; exact hy
      · right; right; exact hy

theorem pySortedB_sorted (ltb : α → α → Bool) (xs : List α) (h : TotalOn ltb xs) :
    SortedB ltb (pySortedB ltb xs) := by
  unfold pySortedB
  split
  · -- fewer than two elements
    rename_i hlt
    match xs, hlt with
    | [], _ => simp [SortedB]
    | [a], _ => simp [SortedB]
    | _ :: _ :: _, hlt => simp at hlt; omega
  · apply binarySortB_sorted
    · exact countRunB_sorted ltb xs h
    · apply h.mono
      intro y hy
      simp only [List.mem_append] at hy
      rcases hy with hy | hy
      · split at hy
        · exact List.mem_of_mem_take (List.mem_reverse.mp hy)
        · exact List.mem_of_mem_take hy
      · exact List.mem_of_mem_drop hy

/-- Two lists that are permutations of each other are sorted into the same list, when `ltb` is a strict total
    order on their members. -/
theorem pySortedB_perm_eq (ltb : α → α → Bool) (xs ys : List α) (hp : xs.Perm ys) (h : TotalOn ltb xs) :
    pySortedB ltb xs = pySortedB ltb ys := by
  have hy : TotalOn ltb ys := h.mono (fun x hx => hp.symm.subset hx)
  apply List.Perm.eq_of_pairwise (le := LeB ltb)
  · intro a b ha hb hab hba
    have ha' : a ∈ xs := (pySortedB_perm ltb xs).subset ha
    have hb' : b ∈ xs := hp.symm.subset ((pySortedB_perm ltb ys).subset hb)
    by_cases hEq : a = b
    · exact hEq
    · exfalso
      unfold LeB at hab hba
      rcases h.total a ha' b hb' hEq with h1 | h1
      · rw [h1] at hba; cases hba
      · rw [h1] at hab; cases hab
  · exact pySortedB_sorted ltb xs h
  · exact pySortedB_sorted ltb ys hy
  · exact (pySortedB_perm ltb xs).trans (hp.trans (pySortedB_perm ltb ys).symm)

/-- The monadic `sorted` on permutations, when `<` answers and is a strict total order on the members. -/
theorem pySorted_perm_eq (lt : α → α → Except Err Bool) (ltb : α → α → Bool) (xs ys : List α)
    (hp : xs.Perm ys) (ha : AgreeOn lt ltb xs) (h : TotalOn ltb xs) :
    pySorted lt xs = pySorted lt ys ∧ pySorted lt xs = .ok (pySortedB ltb xs) := by
  have ha' : AgreeOn lt ltb ys := ha.mono (fun x hx => hp.symm.subset hx)
  rw [pySorted_eq_B lt ltb xs ha, pySorted_eq_B lt ltb ys ha', pySortedB_perm_eq ltb xs ys hp h]
  exact ⟨rfl, rfl⟩

/-- Whatever `<` does, a successful `sorted` returns a permutation of its input — stated for a `<` that always
    answers (`AgreeOn`); the general statement is `pySorted_perm` below. -/
theorem pySorted_ok_perm_of_agree (lt : α → α → Except Err Bool) (ltb : α → α → Bool) (xs ys : List α)
    (ha : AgreeOn lt ltb xs) (hr : pySorted lt xs = .ok ys) : ys.Perm xs := by
  rw [pySorted_eq_B lt ltb xs ha] at hr
  cases hr
  exact pySortedB_perm ltb xs

/-! ### a successful `sorted` returns a permutation, whatever `<` does -/

@[simp] theorem except_bind_error {ε β γ : Type} (e : ε) (f : β → Except ε γ) :
    (Except.error e >>= f) = Except.error e := rfl

theorem binsert_perm (lt : α → α → Except Err Bool) (sorted : List α) (pivot : α) (r : List α)
    (h : binsert lt sorted pivot = .ok r) : r.Perm (pivot :: sorted) := by
  unfold binsert at h
  cases hb : bpos lt pivot sorted.length sorted with
  | error e => rw [hb] at h; cases h
  | ok l =>
    rw [hb] at h
    simp only [except_bind_ok, except_pure, Except.ok.injEq] at h
    subst h
    have h1 : (sorted.take l ++ pivot :: sorted.drop l).Perm (pivot :: (sorted.take l ++ sorted.drop l)) :=
      List.perm_middle
    rw [List.take_append_drop] at h1
    exact h1

theorem binarySort_perm (lt : α → α → Except Err Bool) (sorted rest r : List α)
    (h : binarySort lt sorted rest = .ok r) : r.Perm (sorted ++ rest) := by
  induction rest generalizing sorted with
  | nil => simp [binarySort] at h; subst h; simp
  | cons x rest ih =>
    unfold binarySort at h
    cases hb : binsert lt sorted x with
    | error e => rw [hb] at h; cases h
    | ok s' =>
      rw [hb] at h
      simp only [except_bind_ok] at h
      refine (ih s' h).trans ?_
      refine ((binsert_perm lt sorted x s' hb).append_right rest).trans ?_
      exact (List.perm_middle (l₁ := sorted) (l₂ := rest) (a := x)).symm

theorem pySorted_perm (lt : α → α → Except Err Bool) (xs r : List α)
    (h : pySorted lt xs = .ok r) : r.Perm xs := by
  unfold pySorted at h
  split at h
  · cases h; exact List.Perm.refl _
  · cases hc : countRun lt xs with
    | error e => rw [hc] at h; cases h
    | ok nd =>
      obtain ⟨n, desc⟩ := nd
      rw [hc] at h
      simp only [except_bind_ok] at h
      refine (binarySort_perm lt _ _ r h).trans ?_
      have h' : ((if desc = true then (xs.take n).reverse else xs.take n)).Perm (xs.take n) := by
        split
        · exact List.reverse_perm _
        · exact List.Perm.refl _
      have := h'.append_right (xs.drop n)
      rw [List.take_append_drop] at this
      exact this

end PydraModel.Hash
