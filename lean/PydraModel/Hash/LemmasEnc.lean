import PydraModel.Hash.Model
import PydraModel.Hash.LemmasBytes
/-
Unique decoding of the serializers' output.

The facts about the *regenerated* literals (`Gen/HashLits.lean`) are closed by `decide` and therefore re-checked
against pydra's source on every run:
  * `heads_prefix_free`   the nine scalar heads (`None`, `True`, `False`, `int:`, `long:`, `float:`, `complex:`, `str:`,
                          `bytes:`) are pairwise prefix-free;
  * `len_seps_ok`         the separators after the decimal length are a colon;
  * `words_ok`            (in `LemmasRel.lean`) the words in front of the first colon of every tagged serializer are
                          pairwise different, contain neither ':' nor '.', and every tag continues with ':'.
From these: `encScalar` is a prefix code (`encScalar_prefix_code`: self-delimiting dict keys), and the kind of a value
can be read off its encoding.
-/
namespace PydraModel.Hash
open PydraModel.Gen

/-! ### prefix-free tables -/

theorem prefix_cancel {x y r r' : Bytes} (h : x ++ r = y ++ r') (hlen : x.length = y.length) : x = y ∧ r = r' :=
  List.append_inj h hlen

/-- two prefixes of the same list are comparable -/
theorem prefix_total {x y r r' : Bytes} (h : x ++ r = y ++ r') : x <+: y ∨ y <+: x := by
  have hx : x <+: x ++ r := List.prefix_append x r
  have hy : y <+: x ++ r := by rw [h]; exact List.prefix_append y r'
  exact List.prefix_or_prefix_of_prefix hx hy

/-! ### scalars -/

def scalarIdx : Scalar → Nat
  | .none => 0
  | .bool true => 1
  | .bool false => 2
  | .int z => if -(2 ^ 63 : Int) ≤ z ∧ z < (2 ^ 63 : Int) then 3 else 4
  | .float _ => 5
  | .complex _ _ => 6
  | .str _ => 7
  | .bytes _ => 8

def headOfIdx : Nat → Bytes
  | 0 => reprNone
  | 1 => reprTrue
  | 2 => reprFalse
  | 3 => HashLits.intTag
  | 4 => HashLits.longTag
  | 5 => HashLits.floatTag
  | 6 => HashLits.complexTag
  | 7 => HashLits.strTag
  | _ => HashLits.bytesTag

def scalarBody : Scalar → Bytes
  | .none => []
  | .bool _ => []
  | .int z =>
    if -(2 ^ 63 : Int) ≤ z ∧ z < (2 ^ 63 : Int) then packQ z
    else dec (decInt z).length ++ HashLits.longLenSep ++ decInt z
  | .float bits => packD bits
  | .complex re im => packD re ++ packD im
  | .str s => dec s.length ++ HashLits.strLenSep ++ s
  | .bytes b => dec b.length ++ HashLits.bytesLenSep ++ b

theorem encScalar_split (a : Scalar) : encScalar a = headOfIdx (scalarIdx a) ++ scalarBody a := by
  cases a with
  | none => simp [encScalar, headOfIdx, scalarIdx, scalarBody]
  | bool b => cases b <;> simp [encScalar, headOfIdx, scalarIdx, scalarBody]
  | int z =>
    simp only [encScalar, scalarIdx, scalarBody]
    split <;> simp [headOfIdx, List.append_assoc]
  | float _ => simp [encScalar, headOfIdx, scalarIdx, scalarBody]
  | complex _ _ => simp [encScalar, headOfIdx, scalarIdx, scalarBody]
  | str _ => simp [encScalar, headOfIdx, scalarIdx, scalarBody, List.append_assoc]
  | bytes _ => simp [encScalar, headOfIdx, scalarIdx, scalarBody, List.append_assoc]

theorem scalarIdx_lt (a : Scalar) : scalarIdx a < 9 := by
  cases a with
  | bool b => cases b <;> simp [scalarIdx]
  | int z => simp only [scalarIdx]; split <;> omega
  | _ => simp [scalarIdx]

/-- REGENERATED TIE: the scalar heads form a prefix-free table. -/
theorem heads_prefix_free :
    ∀ i, i < 9 → ∀ j, j < 9 → (headOfIdx i).isPrefixOf (headOfIdx j) = true → i = j := by decide

/-- REGENERATED TIE: a colon follows every decimal length. -/
theorem len_seps_ok :
    HashLits.longLenSep = [58] ∧ HashLits.strLenSep = [58] ∧ HashLits.bytesLenSep = [58] := by decide

theorem heads_cancel {i j : Nat} (hi : i < 9) (hj : j < 9) {r r' : Bytes}
    (h : headOfIdx i ++ r = headOfIdx j ++ r') : i = j ∧ r = r' := by
  have hij : i = j := by
    rcases prefix_total h with hp | hp
    · exact heads_prefix_free i hi j hj (List.isPrefixOf_iff_prefix.mpr hp)
    · exact (heads_prefix_free j hj i hi (List.isPrefixOf_iff_prefix.mpr hp)).symm
  subst hij
  exact ⟨rfl, List.append_cancel_left h⟩

/-- Scalars whose float patterns are genuine binary64 patterns. -/
def Scalar.WF : Scalar → Prop
  | .float b => b < 2 ^ 64
  | .complex re im => re < 2 ^ 64 ∧ im < 2 ^ 64
  | _ => True

instance (a : Scalar) : Decidable a.WF := by
  cases a <;> simp only [Scalar.WF] <;> infer_instance

/-- `bytes_repr` of a scalar is a prefix code: what follows a key in `bytes_repr_mapping_contents` can never be
    mistaken for a part of the key (self-delimiting dict keys, DESIGN §6 C08 `G₀`). -/
theorem encScalar_prefix_code {a b : Scalar} (ha : a.WF) (hb : b.WF) {r r' : Bytes}
    (h : encScalar a ++ r = encScalar b ++ r') : a = b ∧ r = r' := by
  rw [encScalar_split a, encScalar_split b, List.append_assoc, List.append_assoc] at h
  obtain ⟨hidx, hbody⟩ := heads_cancel (scalarIdx_lt a) (scalarIdx_lt b) h
  obtain ⟨hl, hs, hbt⟩ := len_seps_ok
  cases a with
  | none =>
    cases b with
    | none => exact ⟨rfl, by simpa [scalarBody] using hbody⟩
    | bool b => cases b <;> simp [scalarIdx] at hidx
    | int z => simp only [scalarIdx] at hidx; split at hidx <;> omega
    | _ => simp [scalarIdx] at hidx
  | bool x =>
    cases b with
    | bool y =>
      cases x <;> cases y <;> simp [scalarIdx] at hidx <;> exact ⟨rfl, by simpa [scalarBody] using hbody⟩
    | none => cases x <;> simp [scalarIdx] at hidx
    | int z => cases x <;> simp only [scalarIdx] at hidx <;> split at hidx <;> omega
    | _ => cases x <;> simp [scalarIdx] at hidx
  | int z =>
    cases b with
    | int z' =>
      simp only [scalarIdx] at hidx
      simp only [scalarBody] at hbody
      by_cases hz : -(2 ^ 63 : Int) ≤ z ∧ z < (2 ^ 63 : Int) <;>
        by_cases hz' : -(2 ^ 63 : Int) ≤ z' ∧ z' < (2 ^ 63 : Int)
      · rw [if_pos hz, if_pos hz'] at hbody
        obtain ⟨h1, h2⟩ := prefix_cancel hbody (by rw [packQ_length, packQ_length])
        exact ⟨by rw [packQ_inj hz hz' h1], h2⟩
      · rw [if_pos hz, if_neg hz'] at hidx; cases hidx
      · rw [if_neg hz, if_pos hz'] at hidx; cases hidx
      · rw [if_neg hz, if_neg hz'] at hbody
        rw [hl] at hbody
        simp only [List.append_assoc, List.singleton_append] at hbody
        obtain ⟨h1, h2⟩ := len_prefixed_inj hbody
        exact ⟨by rw [decInt_inj h1], h2⟩
    | none => simp only [scalarIdx] at hidx; split at hidx <;> omega
    | bool y => cases y <;> simp only [scalarIdx] at hidx <;> split at hidx <;> omega
    | _ => simp only [scalarIdx] at hidx; split at hidx <;> omega
  | float x =>
    cases b with
    | float y =>
      simp only [scalarBody] at hbody
      obtain ⟨h1, h2⟩ := prefix_cancel hbody (by rw [packD_length, packD_length])
      exact ⟨by rw [packD_inj ha hb h1], h2⟩
    | bool y => cases y <;> simp [scalarIdx] at hidx
    | int z => simp only [scalarIdx] at hidx; split at hidx <;> omega
    | _ => simp [scalarIdx] at hidx
  | complex re im =>
    cases b with
    | complex re' im' =>
      simp only [scalarBody, List.append_assoc] at hbody
      obtain ⟨h1, h2⟩ := prefix_cancel hbody (by rw [packD_length, packD_length])
      obtain ⟨h3, h4⟩ := prefix_cancel h2 (by rw [packD_length, packD_length])
      exact ⟨by rw [packD_inj ha.1 hb.1 h1, packD_inj ha.2 hb.2 h3], h4⟩
    | bool y => cases y <;> simp [scalarIdx] at hidx
    | int z => simp only [scalarIdx] at hidx; split at hidx <;> omega
    | _ => simp [scalarIdx] at hidx
  | str s =>
    cases b with
    | str t =>
      simp only [scalarBody] at hbody
      rw [hs] at hbody
      simp only [List.append_assoc, List.singleton_append] at hbody
      obtain ⟨h1, h2⟩ := len_prefixed_inj hbody
      exact ⟨by rw [h1], h2⟩
    | bool y => cases y <;> simp [scalarIdx] at hidx
    | int z => simp only [scalarIdx] at hidx; split at hidx <;> omega
    | _ => simp [scalarIdx] at hidx
  | bytes s =>
    cases b with
    | bytes t =>
      simp only [scalarBody] at hbody
      rw [hbt] at hbody
      simp only [List.append_assoc, List.singleton_append] at hbody
      obtain ⟨h1, h2⟩ := len_prefixed_inj hbody
      exact ⟨by rw [h1], h2⟩
    | bool y => cases y <;> simp [scalarIdx] at hidx
    | int z => simp only [scalarIdx] at hidx; split at hidx <;> omega
    | _ => simp [scalarIdx] at hidx

theorem encScalar_inj {a b : Scalar} (ha : a.WF) (hb : b.WF) (h : encScalar a = encScalar b) : a = b := by
  have : encScalar a ++ [] = encScalar b ++ [] := by simpa using h
  exact (encScalar_prefix_code ha hb this).1

theorem encScalar_ne_nil (a : Scalar) : encScalar a ≠ [] := by
  rw [encScalar_split]
  have : headOfIdx (scalarIdx a) ≠ [] := by
    have hlt := scalarIdx_lt a
    generalize scalarIdx a = i at hlt
    revert i
    decide
  intro h
  exact this (List.append_eq_nil_iff.mp h).1

/-! ### fixed-length digests -/

/-- concatenations of blocks of one fixed length determine the blocks -/
theorem flatten_inj_of_length (n : Nat) : ∀ {ds ds' : List Bytes}, (∀ d ∈ ds, d.length = n) → (∀ d ∈ ds', d.length = n) →
    0 < n → ds.flatten = ds'.flatten → ds = ds'
  | [], [], _, _, _, _ => rfl
  | [], d :: ds', _, h2, hn, h => by
    exfalso
    have hd := h2 d (by simp)
    have := congrArg List.length h
    simp only [List.flatten_nil, List.flatten_cons, List.length_nil, List.length_append] at this
    omega
  | d :: ds, [], h1, _, hn, h => by
    exfalso
    have hd := h1 d (by simp)
    have := congrArg List.length h
    simp only [List.flatten_nil, List.flatten_cons, List.length_nil, List.length_append] at this
    omega
  | d :: ds, d' :: ds', h1, h2, hn, h => by
    simp only [List.flatten_cons] at h
    obtain ⟨e1, e2⟩ := prefix_cancel h (by rw [h1 d (by simp), h2 d' (by simp)])
    have := flatten_inj_of_length n (fun x hx => h1 x (by simp [hx])) (fun x hx => h2 x (by simp [hx])) hn e2
    rw [e1, this]

end PydraModel.Hash
