import PydraModel.Hash.LemmasDisc
/-
The kind of a `G₀` value can be read off its encoding: the word in front of the first colon (or the absence of a
colon) determines the serializer that produced it.
-/
namespace PydraModel.Hash
open PydraModel.Gen

variable (H : Bytes → Bytes)

def kindOf : PyVal → Nat
  | .sc a => scalarIdx a
  | .seq _ .list _ => 9
  | .seq _ .tuple _ => 10
  | .seq _ .code _ => 100
  | .seq _ .partialFn _ => 100
  | .seq _ .boundMethod _ => 100
  | .set _ false _ => 11
  | .set _ true _ => 12
  | .dict _ _ => 13
  | .ty _ => 14
  | .func _ _ _ _ _ => 15
  | .obj _ _ _ => 16
  | .ndarray _ _ _ _ => 17
  | _ => 101

/-- the word in front of the first colon of the encoding (`none`: the encoding contains no colon) -/
def valWord : PyVal → Option Bytes
  | .obj _ c _ => some c
  | .ndarray c _ _ _ => some c
  | v => if kindOf v < 3 then none else some (fixedWord (kindOf v - 3))

def WordShape (v : PyVal) (e : Bytes) : Prop :=
  match valWord v with
  | none => 58 ∉ e
  | some w => 58 ∉ w ∧ ∃ r, e = w ++ 58 :: r

theorem head_cons_of_head? {l : Bytes} {c : Nat} (h : l.head? = some c) : l = c :: l.tail := by
  cases l with
  | nil => simp at h
  | cons x xs => simp at h; simp [h]

theorem contains_false_not_mem {l : Bytes} {c : Nat} (h : l.contains c = false) : c ∉ l := by
  intro hm
  have : l.contains c = true := List.contains_iff_mem.mpr hm
  rw [this] at h; cases h

theorem not_contains_not_mem {l : Bytes} {c : Nat} (h : (!l.contains c) = true) : c ∉ l := by
  apply contains_false_not_mem
  simpa using h

theorem encTy_shape (t : TyExpr) (h : t.isArglist = false) :
    ∃ r, encTy t = wordPart HashLits.typeOpen ++ 58 :: r := by
  obtain ⟨_, _, _, _, _, _, _, _, hty, _⟩ := words_ok
  have hsplit := word_split HashLits.typeOpen
  have hcons := head_cons_of_head? hty
  cases t with
  | named loc =>
    refine ⟨(afterWord HashLits.typeOpen).tail ++ loc ++ HashLits.typeClose, ?_⟩
    simp only [encTy]
    conv => lhs; rw [hsplit, hcons]
    simp [List.append_assoc]
  | ellipsis =>
    refine ⟨(afterWord HashLits.typeOpen).tail ++ HashLits.tyEllipsis ++ HashLits.typeClose, ?_⟩
    simp only [encTy]
    conv => lhs; rw [hsplit, hcons]
    simp [List.append_assoc]
  | generic o args =>
    refine ⟨(afterWord HashLits.typeOpen).tail ++ (HashLits.tyOriginOpen ++ encTy o ++ HashLits.tyArgsOpen ++ encTys args
      ++ HashLits.tyArgsClose ++ HashLits.typeClose), ?_⟩
    simp only [encTy]
    conv => lhs; rw [hsplit, hcons]
    simp [List.append_assoc]
  | arglist _ => simp [TyExpr.isArglist] at h

theorem fixedWord_no_colon {i : Nat} (hi : i < 13) : 58 ∉ fixedWord i := (words_ok.2.1 i hi).1

/-- every `G₀` encoding has the shape its kind prescribes -/
theorem enc_word {v : PyVal} {p : Pre} (hg : inG0 v = true) (h : pre v = .ok p) :
    ∃ i ps, p = .node i ps ∧ WordShape v (evalPureList H ps) := by
  obtain ⟨_, _, hheads, hnocolon, hseq, hset, hobj, hdict, hty, hfunc, hnp1, hnp2, hnp3⟩ := words_ok
  cases v with
  | sc a =>
    simp only [pre, Except.ok.injEq] at h
    subst h
    refine ⟨_, _, rfl, ?_⟩
    have henc : evalPureList H [lit (encScalar a)] = encScalar a := by simp [evalPureList, lit, evalPure]
    rw [henc]
    unfold WordShape valWord
    simp only [kindOf]
    have hlt := scalarIdx_lt a
    by_cases h3 : scalarIdx a < 3
    · simp only [h3, ↓reduceIte]
      rw [encScalar_split]
      have hbody : scalarBody a = [] := by
        cases a with
        | none => rfl
        | bool _ => rfl
        | int z => simp only [scalarIdx] at h3; split at h3 <;> omega
        | _ => simp [scalarIdx] at h3
      rw [hbody, List.append_nil]
      exact hnocolon _ h3
    · simp only [h3, ↓reduceIte]
      refine ⟨fixedWord_no_colon (by omega), scalarBody a, ?_⟩
      rw [encScalar_split]
      have := hheads (scalarIdx a - 3) (by omega)
      have he : scalarIdx a - 3 + 3 = scalarIdx a := by omega
      rw [he] at this
      rw [this]
      simp [List.append_assoc]
  | path c f => simp [inG0] at hg
  | ndarray c d s x =>
    simp only [pre, Except.ok.injEq] at h
    subst h
    refine ⟨_, _, rfl, ?_⟩
    simp only [inG0, clsArrOK, Bool.and_eq_true] at hg
    unfold WordShape valWord
    simp only []
    refine ⟨not_contains_not_mem hg.1.1.1.1, d ++ HashLits.npSep2 ++ s ++ HashLits.npSep3 ++ x, ?_⟩
    simp [evalPureList, lit, evalPure, hnp1, List.append_assoc]
  | ty t =>
    simp only [pre, Except.ok.injEq] at h
    subst h
    refine ⟨_, _, rfl, ?_⟩
    have hnot : t.isArglist = false := by simpa [inG0] using hg
    obtain ⟨r, hr⟩ := encTy_shape t hnot
    unfold WordShape valWord
    simp only [kindOf]
    refine ⟨fixedWord_no_colon (by omega), r, ?_⟩
    simp only [evalPureList, lit, evalPure, List.append_nil]
    exact hr
  | seq i k xs =>
    obtain ⟨ps, _, rfl⟩ := pre_seq_inv h
    refine ⟨_, _, rfl, ?_⟩
    simp only [inG0, Bool.and_eq_true, bne_iff_ne, ne_eq] at hg
    have hcons := head_cons_of_head? hseq
    cases k with
    | code => exact absurd hg.1 (by decide)
    | partialFn => exact absurd hg.1 (by decide)
    | boundMethod => exact absurd hg.1 (by decide)
    | list =>
      unfold WordShape valWord
      simp only [kindOf]
      refine ⟨fixedWord_no_colon (by omega), HashLits.seqOpen.tail ++ evalPureList H (ps ++ [lit (seqCloseLit .list)]), ?_⟩
      rw [List.cons_append, evalPureList_lit]
      simp only [seqOpenLit, seqName]
      conv => lhs; rw [hcons]
      simp [fixedWord, List.append_assoc]
    | tuple =>
      unfold WordShape valWord
      simp only [kindOf]
      refine ⟨fixedWord_no_colon (by omega), HashLits.seqOpen.tail ++ evalPureList H (ps ++ [lit (seqCloseLit .tuple)]), ?_⟩
      rw [List.cons_append, evalPureList_lit]
      simp only [seqOpenLit, seqName]
      conv => lhs; rw [hcons]
      simp [fixedWord, List.append_assoc]
  | set i f xs =>
    obtain ⟨ps, _, rfl⟩ := pre_set_inv h
    refine ⟨_, _, rfl, ?_⟩
    have hcons := head_cons_of_head? hset
    cases f with
    | false =>
      unfold WordShape valWord
      simp only [kindOf]
      refine ⟨fixedWord_no_colon (by omega), HashLits.setOpen.tail ++ evalPureList H [.sorted ps, lit HashLits.setClose], ?_⟩
      rw [evalPureList_lit]
      simp only [setName]
      conv => lhs; rw [hcons]
      simp [fixedWord, List.append_assoc]
    | true =>
      unfold WordShape valWord
      simp only [kindOf]
      refine ⟨fixedWord_no_colon (by omega), HashLits.setOpen.tail ++ evalPureList H [.sorted ps, lit HashLits.setClose], ?_⟩
      rw [evalPureList_lit]
      simp only [setName]
      conv => lhs; rw [hcons]
      simp [fixedWord, List.append_assoc]
  | dict i xs =>
    obtain ⟨ps, _, rfl⟩ := pre_dict_inv h
    refine ⟨_, _, rfl, ?_⟩
    unfold WordShape valWord
    simp only [kindOf]
    refine ⟨fixedWord_no_colon (by omega), (afterWord HashLits.dictOpen).tail ++ evalPureList H (mapContents (sortItems ps) ++ [lit HashLits.dictClose]), ?_⟩
    rw [List.cons_append, evalPureList_lit]
    conv => lhs; rw [word_split HashLits.dictOpen, head_cons_of_head? hdict]
    simp [fixedWord, List.append_assoc]
  | obj i c xs =>
    obtain ⟨ps, _, rfl⟩ := pre_obj_inv h
    refine ⟨_, _, rfl, ?_⟩
    simp only [inG0, clsObjOK, Bool.and_eq_true] at hg
    unfold WordShape valWord
    simp only []
    refine ⟨not_contains_not_mem hg.1.1.1, HashLits.objOpen.tail ++ evalPureList H (mapContents (sortItems ps) ++ [lit HashLits.objClose]), ?_⟩
    rw [List.cons_append, evalPureList_lit]
    conv => lhs; rw [head_cons_of_head? hobj]
    simp [List.append_assoc]
  | func i b code c g =>
    obtain ⟨cs, _, rfl⟩ := pre_func_inv h
    refine ⟨_, _, rfl, ?_⟩
    unfold WordShape valWord
    simp only [kindOf]
    refine ⟨fixedWord_no_colon (by omega), (afterWord HashLits.funcOpen).tail ++ evalPureList H (funcBodyParts b cs ++ [lit HashLits.funcClose]), ?_⟩
    rw [List.cons_append, evalPureList_lit]
    conv => lhs; rw [word_split HashLits.funcOpen, head_cons_of_head? hfunc]
    simp [fixedWord, List.append_assoc]
  | tyFields i f o => simp [inG0] at hg
  | task i t f p => simp [inG0] at hg
  | ref i => simp [inG0] at hg

theorem kindOf_range {v : PyVal} (hg : inG0 v = true) : kindOf v ≤ 17 ∧ (∀ c, valWord v = some c →
    (kindOf v = 16 ∧ 46 ∈ c) ∨ (kindOf v = 17 ∧ 46 ∉ c ∧ c ∉ fixedWords)
    ∨ (3 ≤ kindOf v ∧ kindOf v ≤ 15 ∧ c = fixedWord (kindOf v - 3))) ∧ (valWord v = none → kindOf v < 3) := by
  cases v with
  | sc a =>
    have := scalarIdx_lt a
    refine ⟨by simp only [kindOf]; omega, ?_, ?_⟩
    · intro c hc
      simp only [valWord, kindOf] at hc
      by_cases h3 : scalarIdx a < 3
      · simp only [h3, ↓reduceIte] at hc; cases hc
      · simp only [h3, ↓reduceIte, Option.some.injEq] at hc
        right; right
        simp only [kindOf]
        exact ⟨by omega, by omega, hc.symm⟩
    · intro hc
      simp only [valWord, kindOf] at hc
      by_cases h3 : scalarIdx a < 3
      · simp only [kindOf]; exact h3
      · simp only [h3, ↓reduceIte] at hc; cases hc
  | path c f => simp [inG0] at hg
  | ndarray c d s x =>
    simp only [inG0, clsArrOK, Bool.and_eq_true] at hg
    refine ⟨by simp [kindOf], ?_, by simp [valWord]⟩
    intro c' hc
    simp only [valWord, Option.some.injEq] at hc
    subst hc
    right; left
    refine ⟨rfl, not_contains_not_mem hg.1.1.1.2, ?_⟩
    intro hm
    have : fixedWords.contains c = true := List.contains_iff_mem.mpr hm
    have h2 := hg.1.1.2
    rw [this] at h2
    cases h2
  | ty t =>
    refine ⟨by simp [kindOf], ?_, by simp [valWord, kindOf]⟩
    intro c hc
    simp only [valWord, kindOf] at hc
    right; right
    simp only [kindOf]
    simp at hc
    exact ⟨by omega, by omega, hc.symm⟩
  | seq i k xs =>
    simp only [inG0, Bool.and_eq_true, bne_iff_ne, ne_eq] at hg
    cases k with
    | code => exact absurd hg.1 (by decide)
    | partialFn => exact absurd hg.1 (by decide)
    | boundMethod => exact absurd hg.1 (by decide)
    | list =>
      refine ⟨by simp [kindOf], ?_, by simp [valWord, kindOf]⟩
      intro c hc
      simp [valWord, kindOf] at hc
      right; right
      simp only [kindOf]
      exact ⟨by omega, by omega, hc.symm⟩
    | tuple =>
      refine ⟨by simp [kindOf], ?_, by simp [valWord, kindOf]⟩
      intro c hc
      simp [valWord, kindOf] at hc
      right; right
      simp only [kindOf]
      exact ⟨by omega, by omega, hc.symm⟩
  | set i f xs =>
    cases f with
    | false =>
      refine ⟨by simp [kindOf], ?_, by simp [valWord, kindOf]⟩
      intro c hc
      simp [valWord, kindOf] at hc
      right; right
      simp only [kindOf]
      exact ⟨by omega, by omega, hc.symm⟩
    | true =>
      refine ⟨by simp [kindOf], ?_, by simp [valWord, kindOf]⟩
      intro c hc
      simp [valWord, kindOf] at hc
      right; right
      simp only [kindOf]
      exact ⟨by omega, by omega, hc.symm⟩
  | dict i xs =>
    refine ⟨by simp [kindOf], ?_, by simp [valWord, kindOf]⟩
    intro c hc
    simp [valWord, kindOf] at hc
    right; right
    simp only [kindOf]
    exact ⟨by omega, by omega, hc.symm⟩
  | obj i c xs =>
    simp only [inG0, clsObjOK, Bool.and_eq_true] at hg
    refine ⟨by simp [kindOf], ?_, by simp [valWord]⟩
    intro c' hc
    simp only [valWord, Option.some.injEq] at hc
    subst hc
    left
    exact ⟨rfl, List.contains_iff_mem.mp hg.1.1.2⟩
  | func i b code c g =>
    refine ⟨by simp [kindOf], ?_, by simp [valWord, kindOf]⟩
    intro c hc
    simp [valWord, kindOf] at hc
    right; right
    simp only [kindOf]
    exact ⟨by omega, by omega, hc.symm⟩
  | tyFields i f o => simp [inG0] at hg
  | task i t f p => simp [inG0] at hg
  | ref i => simp [inG0] at hg

theorem fixedWord_mem {i : Nat} (hi : i < 13) : fixedWord i ∈ fixedWords := by
  unfold fixedWords
  exact List.mem_map.mpr ⟨i, List.mem_range.mpr hi, rfl⟩

/-- equal encodings come from the same kind of value -/
theorem kind_eq_of_enc_eq {v w : PyVal} {p q : Pre} (hv : inG0 v = true) (hw : inG0 w = true)
    (h1 : pre v = .ok p) (h2 : pre w = .ok q) :
    ∃ i ps j qs, p = .node i ps ∧ q = .node j qs ∧
      (evalPureList H ps = evalPureList H qs → kindOf v = kindOf w) := by
  obtain ⟨i, ps, rfl, sv⟩ := enc_word H hv h1
  obtain ⟨j, qs, rfl, sw⟩ := enc_word H hw h2
  refine ⟨i, ps, j, qs, rfl, rfl, ?_⟩
  intro he
  have gv : inG0 v = true := hv
  have gw : inG0 w = true := hw
  obtain ⟨_, kv, nv⟩ := kindOf_range gv
  obtain ⟨_, kw, nw⟩ := kindOf_range gw
  obtain ⟨hinj, hdots, _⟩ := words_ok
  unfold WordShape at sv sw
  rw [he] at sv
  cases hvw : valWord v with
  | none =>
    rw [hvw] at sv
    cases hww : valWord w with
    | none =>
      -- both are None / True / False: the encodings are the scalar heads themselves
      have k1 := nv hvw
      have k2 := nw hww
      cases v with
      | sc a =>
        cases w with
        | sc b =>
          simp only [pre, Except.ok.injEq, Pre.node.injEq] at h1 h2
          obtain ⟨_, rfl⟩ := h1
          obtain ⟨_, rfl⟩ := h2
          simp only [evalPureList, lit, evalPure, List.append_nil] at he
          have ha : a.WF := by simpa [inG0] using gv
          have hb : b.WF := by simpa [inG0] using gw
          rw [encScalar_inj ha hb he]
        | _ => simp [kindOf] at k2 <;> (try cases ‹SeqKind›) <;> (try cases ‹Bool›) <;> simp [kindOf] at k2
      | _ => simp [kindOf] at k1 <;> (try cases ‹SeqKind›) <;> (try cases ‹Bool›) <;> simp [kindOf] at k1
    | some y =>
      rw [hww] at sw
      obtain ⟨_, r, hr⟩ := sw
      exact absurd (by rw [hr]; simp) sv
  | some x =>
    rw [hvw] at sv
    obtain ⟨hx, r, hr⟩ := sv
    cases hww : valWord w with
    | none =>
      rw [hww] at sw
      exact absurd (by rw [hr]; simp) sw
    | some y =>
      rw [hww] at sw
      obtain ⟨hy, r', hr'⟩ := sw
      rw [hr] at hr'
      obtain ⟨hxy, _⟩ := append_sep_inj hx hy hr'
      subst hxy
      rcases kv x hvw with ⟨k1, d1⟩ | ⟨k1, d1, m1⟩ | ⟨a1, b1, c1⟩ <;>
        rcases kw x hww with ⟨k2, d2⟩ | ⟨k2, d2, m2⟩ | ⟨a2, b2, c2⟩
      · omega
      · exact absurd d1 d2
      · exfalso
        rw [c2] at d1
        exact (hdots _ (by omega)).2 d1
      · exact absurd d2 d1
      · omega
      · exfalso
        rw [c2] at m1
        exact m1 (fixedWord_mem (by omega))
      · exfalso
        rw [c1] at d2
        exact (hdots _ (by omega)).2 d2
      · exfalso
        rw [c1] at m2
        exact m2 (fixedWord_mem (by omega))
      · have := hinj _ (by omega) _ (by omega) (c1.symm.trans c2)
        omega

end PydraModel.Hash
