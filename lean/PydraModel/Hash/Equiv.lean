import PydraModel.Hash.LemmasDigestSort
import PydraModel.Hash.LemmasEnc
/-
Specification side of C07 / C08:

  * `Equiv v w`      same type and content: identities (`id`) ignored, set elements and dict items up to permutation;
  * `sortable v`     (decidable) WELL-FORMEDNESS only: the keys of every dict and the attribute names of every object are
                     pairwise different and carry genuine float patterns — true of every Python value.  Nothing is
                     required about comparability: sets are ordered by the digests of their elements (fix 847ae56e) and
                     mapping keys by their byte representations (fix e8ebe74c);
  * `inG0 v`         (decidable) the grammar of the discrimination theorem.
-/
namespace PydraModel.Hash
open PydraModel.Gen

/-! ### `<` on scalars as a Bool relation -/

def okTrue : Except Err Bool → Bool
  | .ok true => true
  | _ => false

def isOk : Except Err Bool → Bool
  | .ok _ => true
  | .error _ => false

def ltbS (a b : Scalar) : Bool := okTrue (scalarLt a b)

def answersS (a b : Scalar) : Bool := isOk (scalarLt a b)

theorem scalarLt_of_answers {a b : Scalar} (h : answersS a b = true) : scalarLt a b = .ok (ltbS a b) := by
  unfold answersS at h
  unfold ltbS
  cases hs : scalarLt a b with
  | error e => rw [hs] at h; cases h
  | ok r => cases r <;> rfl

/-- order of the keys in `bytes_repr_mapping_contents`: by the bytes of their representation -/
def ltbK (a b : Scalar) : Bool := bytesLt (encScalar a) (encScalar b)

/-- decidable well-formedness of the keys of a dict / the attribute names of an object: pairwise different (they are the
    keys of ONE Python dict) and genuine float patterns.  Nothing is required about their comparability any more (fix e8ebe74c). -/
def keysOK (ks : List Scalar) : Bool := decide ks.Nodup && ks.all (fun k => decide k.WF)

theorem keysOK_spec {ks : List Scalar} (h : keysOK ks = true) : TotalOn ltbK ks ∧ ks.Nodup := by
  unfold keysOK at h
  simp only [Bool.and_eq_true, decide_eq_true_eq, List.all_eq_true] at h
  obtain ⟨hn, hw⟩ := h
  refine ⟨⟨?_, ?_, ?_⟩, hn⟩
  · intro a _ b _ hab; exact bytesLt_asym _ _ hab
  · intro a _ b _ c _ hab hbc; exact bytesLt_trans _ _ _ hab hbc
  · intro a ha b hb hne
    exact bytesLt_total _ _ (fun he => hne (encScalar_inj (hw a ha) (hw b hb) he))

/-! ### same type and content -/

/-- what `bytes_repr_function` makes of a function with source: the serialised body -/
def funcBytes : FuncBody → Bytes
  | .stdlib q => q
  | .ast chunks => chunks.flatten
  | .raw src => src
  | .code => []

def FuncBody.hasSource : FuncBody → Bool
  | .code => false
  | _ => true

mutual
/-- `v ≃ w`: same type and content, up to object identity, set iteration order and dict insertion order.
    (The content of a function is what the serializer derives from its source; closure cells and globals are NOT
    compared here — see `TaskEquiv` in C06.) -/
def Equiv : PyVal → PyVal → Prop
  | .sc a, .sc b => a = b
  | .path c f, .path c' f' => c = c' ∧ f = f'
  | .ndarray c d s x, .ndarray c' d' s' x' => c = c' ∧ d = d' ∧ s = s' ∧ x = x'
  | .ty t, .ty t' => encTy t = encTy t'
  | .seq _ k xs, .seq _ k' ys => k = k' ∧ EquivList xs ys
  | .set _ f xs, .set _ f' ys => f = f' ∧ ∃ ys', ys'.Perm ys ∧ EquivList xs ys'
  | .dict _ xs, .dict _ ys => ∃ ys', ys'.Perm ys ∧ EquivItems xs ys'
  | .obj _ c xs, .obj _ c' ys => c = c' ∧ ∃ ys', ys'.Perm ys ∧ EquivItems xs ys'
  | .func _ b code _ _, .func _ b' code' _ _ =>
      b.hasSource = b'.hasSource ∧ funcBytes b = funcBytes b' ∧ EquivList code code'
  | .tyFields _ fs os, .tyFields _ fs' os' => EquivList fs fs' ∧ EquivList os os'   -- fields in definition order
  | _, _ => False
def EquivList : List PyVal → List PyVal → Prop
  | [], [] => True
  | x :: xs, y :: ys => Equiv x y ∧ EquivList xs ys
  | _, _ => False
def EquivItems : List (Scalar × PyVal) → List (Scalar × PyVal) → Prop
  | [], [] => True
  | (k, v) :: xs, (k', v') :: ys => k = k' ∧ Equiv v v' ∧ EquivItems xs ys
  | _, _ => False
end

notation:50 v " ≃ₚ " w => Equiv v w

mutual
/-- decidable well-formedness hypothesis of the order-independence theorems: dict keys / attribute names are pairwise
    different (no comparability requirement is left) -/
def sortable : PyVal → Bool
  | .sc _ => true
  | .path _ _ => true
  | .ndarray _ _ _ _ => true
  | .ty _ => true
  | .seq _ _ xs => sortableList xs
  | .set _ _ xs => sortableList xs       -- set elements are ordered by their digests: nothing to require (fix 847ae56e)
  | .dict _ items => keysOK (items.map (·.1)) && sortableItems items
  | .obj _ _ fields => keysOK (fields.map (·.1)) && sortableItems fields
  | .func _ _ code _ _ => sortableList code
  | .tyFields _ fs os => sortableList fs && sortableList os && decide (os.length ≤ 1)
  | .task _ _ fs priv => sortableItems fs && sortableList priv
  | .ref _ => true
def sortableList : List PyVal → Bool
  | [] => true
  | x :: xs => sortable x && sortableList xs
def sortableItems : List (Scalar × PyVal) → Bool
  | [] => true
  | (_, v) :: xs => sortable v && sortableItems xs
end

end PydraModel.Hash
