import PydraModel.Hash.LemmasSort3
/-
`sorted` on digests (fix 847ae56e): `bytes.__lt__` is a strict total order on ALL byte strings, so the sorted list of
digests is a function of their multiset — no hypothesis on the elements is needed any more.
-/
namespace PydraModel.Hash

theorem bytesLt_asym : ∀ (a b : Bytes), bytesLt a b = true → bytesLt b a = false
  | _, [], h => by simp [bytesLt] at h
  | [], _ :: _, _ => by simp [bytesLt]
  | a :: as, b :: bs, h => by
    simp only [bytesLt] at h ⊢
    by_cases h1 : a < b
    · have h2 : ¬ b < a := by omega
      simp [h1, h2]
    · by_cases h2 : b < a
      · simp [h1, h2] at h
      · simp only [h1, h2, ↓reduceIte] at h ⊢
        exact bytesLt_asym as bs h

theorem bytesLt_trans : ∀ (a b c : Bytes), bytesLt a b = true → bytesLt b c = true → bytesLt a c = true
  | _, [], _, h, _ => by simp [bytesLt] at h
  | _, _ :: _, [], _, h => by simp [bytesLt] at h
  | [], _ :: _, _ :: _, _, _ => by simp [bytesLt]
  | a :: as, b :: bs, c :: cs, h1, h2 => by
    simp only [bytesLt] at h1 h2 ⊢
    by_cases ab : a < b
    · by_cases bc : b < c
      · have : a < c := by omega
        simp [this]
      · by_cases cb : c < b
        · simp [bc, cb] at h2
        · have : a < c := by omega
          simp [this]
    · by_cases ba : b < a
      · simp [ab, ba] at h1
      · simp only [ab, ba, ↓reduceIte] at h1
        have hab : a = b := by omega
        subst hab
        by_cases bc : a < c
        · simp [bc]
        · by_cases cb : c < a
          · simp [bc, cb] at h2
          · simp only [bc, cb, ↓reduceIte] at h2 ⊢
            exact bytesLt_trans as bs cs h1 h2

theorem bytesLt_total : ∀ (a b : Bytes), a ≠ b → bytesLt a b = true ∨ bytesLt b a = true
  | [], [], h => absurd rfl h
  | [], _ :: _, _ => by simp [bytesLt]
  | _ :: _, [], _ => by simp [bytesLt]
  | a :: as, b :: bs, h => by
    simp only [bytesLt]
    by_cases ab : a < b
    · simp [ab]
    · by_cases ba : b < a
      · simp [ab, ba]
      · have hab : a = b := by omega
        subst hab
        simp only [ab, ↓reduceIte]
        exact bytesLt_total as bs (fun e => h (by rw [e]))

theorem totalOn_bytesLt (S : List Bytes) : TotalOn bytesLt S :=
  ⟨fun a _ b _ => bytesLt_asym a b, fun a _ b _ c _ => bytesLt_trans a b c, fun a _ b _ => bytesLt_total a b⟩

theorem sortDigests_perm (ds : List Bytes) : (sortDigests ds).Perm ds := pySortedB_perm bytesLt ds

/-- the sorted digests are a function of the multiset of digests -/
theorem sortDigests_perm_eq {xs ys : List Bytes} (h : xs.Perm ys) : sortDigests xs = sortDigests ys :=
  pySortedB_perm_eq bytesLt xs ys h (totalOn_bytesLt xs)

end PydraModel.Hash
