import PydraModel.Hash.Bytes
/-
Injectivity of the byte-level renderings used by the scalar serializers: decimal (`dec`), little-endian packing
(`leBytes`, `packQ`, `packD`), lowercase hex; and the "separator" lemma behind every length prefix.
-/
namespace PydraModel.Hash

/-! ### decimal -/

def valRev : List Nat → Nat
  | [] => 0
  | d :: ds => (d - 48) + 10 * valRev ds

theorem valRev_digitsRev (fuel n : Nat) (h : n < fuel) : valRev (digitsRev fuel n) = n := by
  induction fuel generalizing n with
  | zero => omega
  | succ fuel ih =>
    unfold digitsRev
    split
    · simp [valRev]
    · have : n / 10 < fuel := by omega
      simp only [valRev, ih (n / 10) this]
      omega

theorem digitsRev_range (fuel n : Nat) : ∀ d ∈ digitsRev fuel n, 48 ≤ d ∧ d ≤ 57 := by
  induction fuel generalizing n with
  | zero => simp [digitsRev]
  | succ fuel ih =>
    unfold digitsRev
    split
    · intro d hd; simp at hd; omega
    · intro d hd
      simp only [List.mem_cons] at hd
      rcases hd with rfl | hd
      · omega
      · exact ih _ d hd

theorem dec_range (n : Nat) : ∀ d ∈ dec n, 48 ≤ d ∧ d ≤ 57 := by
  intro d hd
  unfold dec at hd
  exact digitsRev_range _ _ d (List.mem_reverse.mp hd)

theorem dec_inj {n m : Nat} (h : dec n = dec m) : n = m := by
  unfold dec at h
  have h' := List.reverse_inj.mp h
  have := congrArg valRev h'
  rw [valRev_digitsRev _ _ (Nat.lt_succ_self n), valRev_digitsRev _ _ (Nat.lt_succ_self m)] at this
  exact this

theorem dec_no_colon (n : Nat) : 58 ∉ dec n := by
  intro h
  have := dec_range n 58 h
  omega

theorem dec_no_minus (n : Nat) : 45 ∉ dec n := by
  intro h
  have := dec_range n 45 h
  omega

theorem decInt_inj {a b : Int} (h : decInt a = decInt b) : a = b := by
  unfold decInt at h
  by_cases ha : a < 0 <;> by_cases hb : b < 0 <;> simp only [ha, hb, ↓reduceIte] at h
  · have := dec_inj (List.cons.inj h).2
    omega
  · exfalso
    have hm : (45 : Nat) ∈ dec b.natAbs := by rw [← h]; simp
    exact dec_no_minus _ hm
  · exfalso
    have hm : (45 : Nat) ∈ dec a.natAbs := by rw [h]; simp
    exact dec_no_minus _ hm
  · have := dec_inj h
    omega

theorem decInt_no_colon (z : Int) : 58 ∉ decInt z := by
  unfold decInt
  split
  · intro h
    simp only [List.mem_cons] at h
    rcases h with h | h
    · omega
    · exact dec_no_colon _ h
  · exact dec_no_colon _

/-! ### separators -/

/-- Two strings `l ++ sep :: r` with a separator that occurs in neither prefix split the same way. -/
theorem append_sep_inj {sep : Nat} : ∀ {l₁ l₂ r₁ r₂ : List Nat}, sep ∉ l₁ → sep ∉ l₂ →
    l₁ ++ sep :: r₁ = l₂ ++ sep :: r₂ → l₁ = l₂ ∧ r₁ = r₂
  | [], [], _, _, _, _, h => by simpa using h
  | [], b :: l₂, _, _, _, h2, h => by
    simp only [List.nil_append, List.cons_append, List.cons.injEq] at h
    exact absurd (by rw [h.1]; simp) h2
  | a :: l₁, [], _, _, h1, _, h => by
    simp only [List.nil_append, List.cons_append, List.cons.injEq] at h
    exact absurd (by rw [← h.1]; simp) h1
  | a :: l₁, b :: l₂, r₁, r₂, h1, h2, h => by
    simp only [List.cons_append, List.cons.injEq] at h
    have := append_sep_inj (l₁ := l₁) (l₂ := l₂) (fun hm => h1 (by simp [hm])) (fun hm => h2 (by simp [hm])) h.2
    exact ⟨by rw [h.1, this.1], this.2⟩

/-- length-prefixed payloads: `dec |s| ++ ":" ++ s ++ rest` determines `s` and `rest`. -/
theorem len_prefixed_inj {s t r₁ r₂ : Bytes}
    (h : dec s.length ++ 58 :: (s ++ r₁) = dec t.length ++ 58 :: (t ++ r₂)) : s = t ∧ r₁ = r₂ := by
  obtain ⟨h1, h2⟩ := append_sep_inj (dec_no_colon _) (dec_no_colon _) h
  have hl : s.length = t.length := dec_inj h1
  exact List.append_inj h2 hl

/-! ### little-endian packing -/

theorem leBytes_length (k n : Nat) : (leBytes k n).length = k := by
  induction k generalizing n with
  | zero => rfl
  | succ k ih => simp [leBytes, ih]

theorem leBytes_inj (k : Nat) : ∀ {n m : Nat}, leBytes k n = leBytes k m → n % 256 ^ k = m % 256 ^ k := by
  induction k with
  | zero => intro n m _; simp [Nat.mod_one]
  | succ k ih =>
    intro n m h
    simp only [leBytes, List.cons.injEq] at h
    have h2 := ih h.2
    have h1 := h.1
    rw [Nat.pow_succ, Nat.mul_comm]
    rw [Nat.mod_mul, Nat.mod_mul, h1, h2]

theorem leBytes_bound (k n : Nat) : ∀ b ∈ leBytes k n, b < 256 := by
  induction k generalizing n with
  | zero => simp [leBytes]
  | succ k ih =>
    intro b hb
    simp only [leBytes, List.mem_cons] at hb
    rcases hb with rfl | hb
    · omega
    · exact ih _ b hb

theorem packD_inj {a b : Nat} (ha : a < 2 ^ 64) (hb : b < 2 ^ 64) (h : packD a = packD b) : a = b := by
  have := leBytes_inj 8 h
  have e : (256 : Nat) ^ 8 = 2 ^ 64 := by decide
  rw [e, Nat.mod_eq_of_lt ha, Nat.mod_eq_of_lt hb] at this
  exact this

theorem packQ_inj {a b : Int} (ha : -(2 ^ 63 : Int) ≤ a ∧ a < (2 ^ 63 : Int)) (hb : -(2 ^ 63 : Int) ≤ b ∧ b < (2 ^ 63 : Int))
    (h : packQ a = packQ b) : a = b := by
  have h' := leBytes_inj 8 h
  have e : (256 : Nat) ^ 8 = 18446744073709551616 := by decide
  have e2 : (2 : Int) ^ 64 = 18446744073709551616 := by decide
  have e3 : (2 : Int) ^ 63 = 9223372036854775808 := by decide
  rw [e] at h'
  rw [e2] at h'
  rw [e3] at ha hb
  omega

theorem packQ_length (z : Int) : (packQ z).length = 8 := leBytes_length _ _
theorem packD_length (n : Nat) : (packD n).length = 8 := leBytes_length _ _

/-! ### hex -/

theorem hexDigit_inj {a b : Nat} (ha : a < 16) (hb : b < 16) (h : hexDigit a = hexDigit b) : a = b := by
  unfold hexDigit at h
  split at h <;> split at h <;> omega

theorem hex_inj : ∀ {a b : Bytes}, (∀ x ∈ a, x < 256) → (∀ x ∈ b, x < 256) → hex a = hex b → a = b
  | [], [], _, _, _ => rfl
  | [], _ :: _, _, _, h => by simp [hex] at h
  | _ :: _, [], _, _, h => by simp [hex] at h
  | x :: xs, y :: ys, ha, hb, h => by
    simp only [hex, List.cons.injEq] at h
    have hx := ha x (by simp)
    have hy := hb y (by simp)
    have h1 := hexDigit_inj (by omega) (by omega) h.1
    have h2 := hexDigit_inj (by omega) (by omega) h.2.1
    have := hex_inj (fun z hz => ha z (by simp [hz])) (fun z hz => hb z (by simp [hz])) h.2.2
    rw [this]
    congr 1
    omega

theorem hex_length (b : Bytes) : (hex b).length = 2 * b.length := by
  induction b with
  | nil => rfl
  | cons x xs ih => simp [hex, ih]; omega

end PydraModel.Hash
