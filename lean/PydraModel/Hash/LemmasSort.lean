import PydraModel.Hash.Model
/-
`sorted` (CPython's count_run + binarysort as modelled by `pySorted`):

  * `pySortedB`            the same algorithm with a total Bool comparison;
  * `pySorted_eq_B`        when `<` answers `ok (ltb a b)` on all pairs of members, `pySorted = ok ∘ pySortedB`;
  * `pySortedB_perm`       the result is a permutation of the input (any `ltb`);
  * `pySortedB_sorted`     when `ltb` is a strict total order on the members, the result is sorted;
  * `pySortedB_perm_eq`    hence two permutations of each other are sorted into the same list.
-/
namespace PydraModel.Hash

-- (`pySortedB` and its parts are defined in `Model.lean`: the set serializer sorts digests with it)

/-! ### the monadic algorithm equals the pure one when every comparison among members succeeds -/

section Agree
variable {α : Type} (lt : α → α → Except Err Bool) (ltb : α → α → Bool)

/-- `lt` answers `ok (ltb a b)` for all members of `S`. -/
def AgreeOn (S : List α) : Prop := ∀ a ∈ S, ∀ b ∈ S, lt a b = .ok (ltb a b)

theorem AgreeOn.mono {lt : α → α → Except Err Bool} {ltb : α → α → Bool} {S T : List α}
    (h : AgreeOn lt ltb S) (hsub : ∀ x ∈ T, x ∈ S) : AgreeOn lt ltb T :=
  fun a ha b hb => h a (hsub a ha) b (hsub b hb)

@[simp] theorem except_bind_ok {ε β γ : Type} (a : β) (f : β → Except ε γ) :
    (Except.ok a >>= f) = f a := rfl

@[simp] theorem except_pure {ε β : Type} (a : β) : (pure a : Except ε β) = Except.ok a := rfl

theorem runAsc_eq (prev : α) (rest : List α) (h : AgreeOn lt ltb (prev :: rest)) :
    runAsc lt prev rest = .ok (runAscB ltb prev rest) := by
  induction rest generalizing prev with
  | nil => rfl
  | cons x rest ih =>
    have hx : lt x prev = .ok (ltb x prev) := h x (by simp) prev (by simp)
    have ih' := ih x (h.mono (by intro y hy; simp at hy ⊢; rcases hy with rfl | hy <;> simp [*]))
    simp only [runAsc, runAscB, hx, except_bind_ok]
    cases ltb x prev <;> simp [ih']

theorem runDesc_eq (prev : α) (rest : List α) (h : AgreeOn lt ltb (prev :: rest)) :
    runDesc lt prev rest = .ok (runDescB ltb prev rest) := by
  induction rest generalizing prev with
  | nil => rfl
  | cons x rest ih =>
    have hx : lt x prev = .ok (ltb x prev) := h x (by simp) prev (by simp)
    have ih' := ih x (h.mono (by intro y hy; simp at hy ⊢; rcases hy with rfl | hy <;> simp [*]))
    simp only [runDesc, runDescB, hx, except_bind_ok]
    cases ltb x prev <;> simp [ih']

theorem countRun_eq (xs : List α) (h : AgreeOn lt ltb xs) :
    countRun lt xs = .ok (countRunB ltb xs) := by
  match xs, h with
  | [], _ => rfl
  | [_], _ => rfl
  | a :: b :: rest, h =>
    have hx : lt b a = .ok (ltb b a) := h b (by simp) a (by simp)
    have hsub : ∀ x ∈ b :: rest, x ∈ a :: b :: rest := by intro x hx; simp at hx ⊢; right; exact hx
    simp only [countRun, countRunB, hx, except_bind_ok]
    cases ltb b a <;> simp [runAsc_eq lt ltb b rest (h.mono hsub), runDesc_eq lt ltb b rest (h.mono hsub)]

theorem bpos_eq (pivot : α) (fuel : Nat) (seg : List α) (h : AgreeOn lt ltb (pivot :: seg)) :
    bpos lt pivot fuel seg = .ok (bposB ltb pivot fuel seg) := by
  induction fuel generalizing seg with
  | zero => rfl
  | succ fuel ih =>
    unfold bpos bposB
    cases hd : seg.drop (seg.length / 2) with
    | nil => rfl
    | cons x right =>
      have hxmem : x ∈ seg := List.mem_of_mem_drop (by rw [hd]; simp)
      have hx : lt pivot x = .ok (ltb pivot x) := h pivot (by simp) x (by simp [hxmem])
      have h1 := ih (seg.take (seg.length / 2)) (h.mono (by
        intro y hy; simp at hy ⊢; rcases hy with rfl | hy
        · left; rfl
        · right; exact List.mem_of_mem_take hy))
      have h2 := ih right (h.mono (by
        intro y hy; simp at hy ⊢; rcases hy with rfl | hy
        · left; rfl
        · right; exact List.mem_of_mem_drop (by rw [hd]; simp [hy])))
      simp only [hx, except_bind_ok]
      cases ltb pivot x <;> simp [h1, h2]

theorem binsert_eq (sorted : List α) (pivot : α) (h : AgreeOn lt ltb (pivot :: sorted)) :
    binsert lt sorted pivot = .ok (binsertB ltb sorted pivot) := by
  simp [binsert, binsertB, bpos_eq lt ltb pivot sorted.length sorted h]

theorem binsertB_mem (sorted : List α) (pivot : α) (y : α) :
    y ∈ binsertB ltb sorted pivot ↔ y = pivot ∨ y ∈ sorted := by
  unfold binsertB
  generalize bposB ltb pivot sorted.length sorted = l
  constructor
  · intro hy
    simp only [List.mem_append, List.mem_cons] at hy
    rcases hy with hy | rfl | hy
    · right; exact List.mem_of_mem_take hy
    · left; rfl
    · right; exact List.mem_of_mem_drop hy
  · intro hy
    rcases hy with rfl | hy
    · simp
    · have : y ∈ sorted.take l ++ sorted.drop l := by rw [List.take_append_drop]; exact hy
      simp only [List.mem_append, List.mem_cons] at this ⊢
      rcases this with h | h
      · left; exact h
      · right; right; exact h

theorem binarySort_eq (sorted rest : List α) (h : AgreeOn lt ltb (sorted ++ rest)) :
    binarySort lt sorted rest = .ok (binarySortB ltb sorted rest) := by
  induction rest generalizing sorted with
  | nil => rfl
  | cons x rest ih =>
    have h1 : AgreeOn lt ltb (x :: sorted) := h.mono (by
      intro y hy; simp at hy ⊢; rcases hy with rfl | hy
      · right; left; rfl
      · left; exact hy)
    have h2 : AgreeOn lt ltb (binsertB ltb sorted x ++ rest) := h.mono (by
      intro y hy
      simp only [List.mem_append, binsertB_mem] at hy
      simp only [List.mem_append, List.mem_cons]
      rcases hy with (rfl | hy) | hy
      · right; left; rfl
      · left; exact hy
      · right; right; exact hy)
    simp only [binarySort, binarySortB, binsert_eq lt ltb sorted x h1, except_bind_ok]
    exact ih _ h2

theorem pySorted_eq_B (xs : List α) (h : AgreeOn lt ltb xs) :
    pySorted lt xs = .ok (pySortedB ltb xs) := by
  unfold pySorted pySortedB
  split
  · rfl
  · simp only [countRun_eq lt ltb xs h, except_bind_ok]
    apply binarySort_eq
    apply h.mono
    intro y hy
    simp only [List.mem_append] at hy
    rcases hy with hy | hy
    · split at hy
      · exact List.mem_of_mem_take (List.mem_reverse.mp hy)
      · exact List.mem_of_mem_take hy
    · exact List.mem_of_mem_drop hy

end Agree

end PydraModel.Hash
