import PydraModel.Hash.LemmasPre
/-
C08 / C07: the hash does not depend on the iteration order of sets or on the insertion order of dicts
(`order_indep`), for values whose sets / dict keys are totally ordered by Python's `<` (`sortable`).
-/
namespace PydraModel.Hash
open PydraModel.Gen

variable (H : Bytes → Bytes)

/-! ### transfer of order facts along an injective map -/

theorem TotalOn.map {α β : Type} {ltb : α → α → Bool} {ltb' : β → β → Bool} {ks : List α} (φ : α → β)
    (hφ : ∀ a b, ltb' (φ a) (φ b) = ltb a b) (h : TotalOn ltb ks) :
    TotalOn ltb' (ks.map φ) := by
  refine ⟨?_, ?_, ?_⟩
  · intro a ha b hb
    obtain ⟨a', ha', rfl⟩ := List.mem_map.mp ha
    obtain ⟨b', hb', rfl⟩ := List.mem_map.mp hb
    rw [hφ, hφ]
    exact h.asym a' ha' b' hb'
  · intro a ha b hb c hc
    obtain ⟨a', ha', rfl⟩ := List.mem_map.mp ha
    obtain ⟨b', hb', rfl⟩ := List.mem_map.mp hb
    obtain ⟨c', hc', rfl⟩ := List.mem_map.mp hc
    rw [hφ, hφ, hφ]
    exact h.trans a' ha' b' hb' c' hc'
  · intro a ha b hb hne
    obtain ⟨a', ha', rfl⟩ := List.mem_map.mp ha
    obtain ⟨b', hb', rfl⟩ := List.mem_map.mp hb
    rw [hφ, hφ]
    exact h.total a' ha' b' hb' (fun heq => hne (by rw [heq]))

theorem AgreeOn.map {α β : Type} {lt : α → α → Except Err Bool} {ltb : α → α → Bool}
    {lt' : β → β → Except Err Bool} {ltb' : β → β → Bool} {ks : List α} (φ : α → β)
    (h1 : ∀ a b, lt' (φ a) (φ b) = lt a b) (h2 : ∀ a b, ltb' (φ a) (φ b) = ltb a b)
    (h : AgreeOn lt ltb ks) : AgreeOn lt' ltb' (ks.map φ) := by
  intro a ha b hb
  obtain ⟨a', ha', rfl⟩ := List.mem_map.mp ha
  obtain ⟨b', hb', rfl⟩ := List.mem_map.mp hb
  rw [h1, h2]
  exact h a' ha' b' hb'

theorem zip_map_self {α β : Type} (f : α → β) (xs : List α) : xs.zip (xs.map f) = xs.map (fun x => (x, f x)) := by
  induction xs with
  | nil => rfl
  | cons x xs ih => simp [ih]

/-! ### dicts and objects -/

/-- Sorting `(key, pre-hash)` items by key representation: if the `(key, digest)` multisets agree, the sorted
    `(key, digest)` lists agree. -/
theorem sorted_items_eq (ps qs : List (Scalar × Pre)) (hk : keysOK (ps.map (·.1)) = true)
    (hperm : (ps.map (digestItem H)).Perm (qs.map (digestItem H))) :
    (sortItems ps).map (digestItem H) = (sortItems qs).map (digestItem H) := by
  have hkeys : ∀ (l : List (Scalar × Pre)), (l.map (digestItem H)).map (·.1) = l.map (·.1) := by
    intro l; simp [digestItem, List.map_map, Function.comp_def]
  have hkperm : (ps.map (·.1)).Perm (qs.map (·.1)) := by
    have := hperm.map (·.1)
    rw [hkeys, hkeys] at this
    exact this
  have hk' : keysOK (qs.map (·.1)) = true := keysOK_perm hkperm hk
  have hT := pairs_total (β := Pre) hk
  have hT' := pairs_total (β := Pre) hk'
  let ltbP : Scalar × Pre → Scalar × Pre → Bool := fun a b => ltbK a.1 b.1
  let ltbD : Scalar × Bytes → Scalar × Bytes → Bool := fun a b => ltbK a.1 b.1
  rw [sortItems_eq, sortItems_eq]
  have hkD : keysOK ((ps.map (digestItem H)).map (·.1)) = true := by rw [hkeys]; exact hk
  have hTD := pairs_total (β := Bytes) hkD
  have hs1 : ((pySortedB ltbP ps).map (digestItem H)).Pairwise (LeB ltbD) := by
    rw [List.pairwise_map]
    exact pySortedB_sorted ltbP ps hT
  have hs2 : ((pySortedB ltbP qs).map (digestItem H)).Pairwise (LeB ltbD) := by
    rw [List.pairwise_map]
    exact pySortedB_sorted ltbP qs hT'
  have hp1 : ((pySortedB ltbP ps).map (digestItem H)).Perm (ps.map (digestItem H)) :=
    (pySortedB_perm ltbP ps).map _
  have hp2 : ((pySortedB ltbP qs).map (digestItem H)).Perm (qs.map (digestItem H)) :=
    (pySortedB_perm ltbP qs).map _
  apply List.Perm.eq_of_pairwise (le := LeB ltbD) _ hs1 hs2 (hp1.trans (hperm.trans hp2.symm))
  intro a b ha hb hab hba
  have ha' : a ∈ ps.map (digestItem H) := hp1.subset ha
  have hb' : b ∈ ps.map (digestItem H) := hperm.symm.subset (hp2.subset hb)
  by_cases hEq : a = b
  · exact hEq
  · exfalso
    unfold LeB at hab hba
    have hab' : ltbK b.1 a.1 = false := hab
    have hba' : ltbK a.1 b.1 = false := hba
    rcases hTD.total a ha' b hb' hEq with h1 | h1
    · rw [h1] at hba'; cases hba'
    · rw [h1] at hab'; cases hab'

/-- the node built by `bytes_repr_dict` / the generic fallback from sorted items -/
theorem evalPure_mapNode (id : Nat) (op cl : Bytes) (s : List (Scalar × Pre)) :
    evalPure H (.node id (lit op :: mapContents s ++ [lit cl])) = H (op ++ mapBytes (s.map (digestItem H)) ++ cl) := by
  simp only [evalPure, evalPureList_lit, evalPureList_append, evalPureList_mapContents]
  simp [evalPureList, lit, evalPure, List.append_assoc]

theorem evalPure_seqNode (id : Nat) (op cl : Bytes) (ps : List Pre) :
    evalPure H (.node id (lit op :: ps ++ [lit cl])) = H (op ++ (ps.map (evalPure H)).flatten ++ cl) := by
  simp only [evalPure, evalPureList_lit, evalPureList_append, evalPureList_eq_flatten]
  simp [lit, evalPure, List.append_assoc]

theorem evalPureList_lits (chunks : List Bytes) : evalPureList H (chunks.map lit) = chunks.flatten := by
  induction chunks with
  | nil => rfl
  | cons c cs ih => simp [evalPureList, lit, evalPure, ih]

theorem evalPureList_funcBody (b : FuncBody) (cs : List Pre) :
    evalPureList H (funcBodyParts b cs) =
      if b.hasSource then funcBytes b
      else HashLits.codeOpen ++ (cs.map (evalPure H)).flatten ++ HashLits.codeClose := by
  cases b with
  | stdlib q => simp [funcBodyParts, FuncBody.hasSource, funcBytes, evalPureList, lit, evalPure]
  | ast chunks => simp [funcBodyParts, FuncBody.hasSource, funcBytes, evalPureList_lits]
  | raw src => simp [funcBodyParts, FuncBody.hasSource, funcBytes, evalPureList, lit, evalPure]
  | code =>
    simp only [funcBodyParts, FuncBody.hasSource, Bool.false_eq_true, ↓reduceIte, evalPureList_lit,
      evalPureList_append, evalPureList_eq_flatten]
    simp [lit, evalPure, List.append_assoc]

theorem map_digestItem_of_perm {xs ys : List (Scalar × Pre)} (h : xs.Perm ys) :
    (xs.map (digestItem H)).Perm (ys.map (digestItem H)) := h.map _

/-! ### the theorem -/

/-- the two pre-hash structures are nodes over the same bytes -/
def EncEq (p q : Pre) : Prop := ∃ i ps j qs, p = .node i ps ∧ q = .node j qs ∧ evalPureList H ps = evalPureList H qs

theorem EncEq.evalPure_eq {p q : Pre} (h : EncEq H p q) : evalPure H p = evalPure H q := by
  obtain ⟨i, ps, j, qs, rfl, rfl, he⟩ := h
  simp only [evalPure, he]

theorem EncEq.of_parts {i j : Nat} {ps qs : List Pre} (h : evalPureList H ps = evalPureList H qs) :
    EncEq H (.node i ps) (.node j qs) := ⟨i, ps, j, qs, rfl, rfl, h⟩

mutual
theorem order_indep_val : ∀ (v w : PyVal), Equiv v w → sortable v = true →
    ∃ p q, pre v = .ok p ∧ pre w = .ok q ∧ EncEq H p q
  | .sc a, w, he, _ => by
    cases w <;> simp only [Equiv] at he
    subst he
    exact ⟨_, _, rfl, rfl, EncEq.of_parts H rfl⟩
  | .path c f, w, he, _ => by
    cases w <;> simp only [Equiv] at he
    obtain ⟨rfl, rfl⟩ := he
    exact ⟨_, _, rfl, rfl, EncEq.of_parts H rfl⟩
  | .ndarray c d s x, w, he, _ => by
    cases w <;> simp only [Equiv] at he
    obtain ⟨rfl, rfl, rfl, rfl⟩ := he
    exact ⟨_, _, rfl, rfl, EncEq.of_parts H rfl⟩
  | .ty t, w, he, _ => by
    cases w <;> simp only [Equiv] at he
    refine ⟨_, _, rfl, rfl, EncEq.of_parts H ?_⟩
    simp only [evalPureList, lit, evalPure, he]
  | .seq i k xs, w, he, hs => by
    cases w <;> simp only [Equiv] at he
    rename_i j k' ys
    obtain ⟨rfl, hl⟩ := he
    simp only [sortable] at hs
    obtain ⟨ps, qs, h1, h2, h3⟩ := order_indep_list xs ys hl hs
    refine ⟨_, _, by simp only [pre, h1, except_bind_ok, except_pure]; rfl,
      by simp only [pre, h2, except_bind_ok, except_pure]; rfl, EncEq.of_parts H ?_⟩
    rw [evalPureList_wrap, evalPureList_wrap, h3]
  | .set i f xs, w, he, hs => by
    cases w <;> simp only [Equiv] at he
    rename_i j f' ys
    obtain ⟨rfl, ys', hperm, hl⟩ := he
    simp only [sortable] at hs
    obtain ⟨ps, qs', h1, h2, h3⟩ := order_indep_list xs ys' hl hs
    obtain ⟨qs, h4, h5⟩ := preList_perm hperm h2
    refine ⟨_, _, by simp only [pre, h1, except_bind_ok, except_pure]; rfl,
      by simp only [pre, h4, except_bind_ok, except_pure]; rfl, EncEq.of_parts H ?_⟩
    rw [evalPureList_setNode, evalPureList_setNode, h3, sortDigests_perm_eq (h5.map (evalPure H))]
  | .dict i xs, w, he, hs => by
    cases w <;> simp only [Equiv] at he
    rename_i j ys
    obtain ⟨ys', hperm, hl⟩ := he
    simp only [sortable, Bool.and_eq_true] at hs
    obtain ⟨hk, hsi⟩ := hs
    obtain ⟨ps, qs', h1, h2, h3⟩ := order_indep_items xs ys' hl hsi
    obtain ⟨qs, h4, h5⟩ := preItems_perm hperm h2
    have hk' : keysOK (ps.map (·.1)) = true := by rw [preItems_keys h1]; exact hk
    have hpm : (ps.map (digestItem H)).Perm (qs.map (digestItem H)) := by
      rw [h3]; exact h5.map _
    have e3 := sorted_items_eq H ps qs hk' hpm
    refine ⟨_, _, by simp only [pre, h1, except_bind_ok, except_pure]; rfl,
      by simp only [pre, h4, except_bind_ok, except_pure]; rfl, EncEq.of_parts H ?_⟩
    rw [evalPureList_wrapMap, evalPureList_wrapMap, e3]
  | .obj i c xs, w, he, hs => by
    cases w <;> simp only [Equiv] at he
    rename_i j c' ys
    obtain ⟨rfl, ys', hperm, hl⟩ := he
    simp only [sortable, Bool.and_eq_true] at hs
    obtain ⟨hk, hsi⟩ := hs
    obtain ⟨ps, qs', h1, h2, h3⟩ := order_indep_items xs ys' hl hsi
    obtain ⟨qs, h4, h5⟩ := preItems_perm hperm h2
    have hk' : keysOK (ps.map (·.1)) = true := by rw [preItems_keys h1]; exact hk
    have hpm : (ps.map (digestItem H)).Perm (qs.map (digestItem H)) := by
      rw [h3]; exact h5.map _
    have e3 := sorted_items_eq H ps qs hk' hpm
    refine ⟨_, _, by simp only [pre, h1, except_bind_ok, except_pure]; rfl,
      by simp only [pre, h4, except_bind_ok, except_pure]; rfl, EncEq.of_parts H ?_⟩
    rw [evalPureList_wrapMap, evalPureList_wrapMap, e3]
  | .func i b code cells globals, w, he, hs => by
    cases w <;> simp only [Equiv] at he
    rename_i j b' code' cells' globals'
    obtain ⟨hsrc, hb, hl⟩ := he
    simp only [sortable] at hs
    obtain ⟨ps, qs, h1, h2, h3⟩ := order_indep_list code code' hl hs
    refine ⟨_, _, by simp only [pre, h1, except_bind_ok, except_pure]; rfl,
      by simp only [pre, h2, except_bind_ok, except_pure]; rfl, EncEq.of_parts H ?_⟩
    simp only [List.cons_append, evalPureList_lit, evalPureList_append, evalPureList_funcBody, hsrc, hb, h3]
  | .tyFields i fs os, w, he, hs => by
    cases w <;> simp only [Equiv] at he
    rename_i j fs' os'
    obtain ⟨hf, ho⟩ := he
    simp only [sortable, Bool.and_eq_true, decide_eq_true_eq] at hs
    obtain ⟨⟨hsf, hso⟩, hlen⟩ := hs
    obtain ⟨ps, qs, h1, h2, h3⟩ := order_indep_list fs fs' hf hsf
    have hps : evalPureList H ps = evalPureList H qs := by
      rw [evalPureList_eq_flatten, evalPureList_eq_flatten, h3]
    -- the optional `.Outputs` class: none on both sides, or one on both sides with equal inline bytes
    match os, os', ho, hso, hlen with
    | [], [], _, _, _ =>
      refine ⟨_, _, by simp only [pre, h1, preList, except_bind_ok, except_pure]; rfl,
        by simp only [pre, h2, preList, except_bind_ok, except_pure]; rfl, EncEq.of_parts H ?_⟩
      simp only [List.cons_append, List.nil_append, evalPureList_lit, evalPureList_append, hps]
    | [], _ :: _, ho, _, _ => simp [EquivList] at ho
    | _ :: _, [], ho, _, _ => simp [EquivList] at ho
    | [o], [o'], ho, hso, _ =>
      simp only [EquivList, and_true] at ho
      simp only [sortableList, Bool.and_true] at hso
      obtain ⟨p, q, g1, g2, i', ps', j', qs', rfl, rfl, g3⟩ := order_indep_val o o' ho hso
      refine ⟨_, _, by simp only [pre, h1, preList, g1, except_bind_ok, except_pure]; rfl,
        by simp only [pre, h2, preList, g2, except_bind_ok, except_pure]; rfl, EncEq.of_parts H ?_⟩
      simp only [List.cons_append, List.nil_append, evalPureList_lit, evalPureList_append, hps, g3]
    | _ :: _ :: _, _, _, _, hlen => simp at hlen
  | .task .., w, he, _ => by cases w <;> simp only [Equiv] at he
  | .ref _, w, he, _ => by cases w <;> simp only [Equiv] at he
theorem order_indep_list : ∀ (xs ys : List PyVal), EquivList xs ys → sortableList xs = true →
    ∃ ps qs, preList xs = .ok ps ∧ preList ys = .ok qs ∧ ps.map (evalPure H) = qs.map (evalPure H)
  | [], [], _, _ => ⟨[], [], rfl, rfl, rfl⟩
  | [], _ :: _, he, _ => by simp [EquivList] at he
  | _ :: _, [], he, _ => by simp [EquivList] at he
  | x :: xs, y :: ys, he, hs => by
    simp only [EquivList] at he
    simp only [sortableList, Bool.and_eq_true] at hs
    obtain ⟨p, q, h1, h2, h3⟩ := order_indep_val x y he.1 hs.1
    obtain ⟨ps, qs, h4, h5, h6⟩ := order_indep_list xs ys he.2 hs.2
    exact ⟨p :: ps, q :: qs, preList_cons_of h1 h4, preList_cons_of h2 h5, by simp [h3.evalPure_eq, h6]⟩
theorem order_indep_items : ∀ (xs ys : List (Scalar × PyVal)), EquivItems xs ys → sortableItems xs = true →
    ∃ ps qs, preItems xs = .ok ps ∧ preItems ys = .ok qs ∧ ps.map (digestItem H) = qs.map (digestItem H)
  | [], [], _, _ => ⟨[], [], rfl, rfl, rfl⟩
  | [], _ :: _, he, _ => by simp [EquivItems] at he
  | _ :: _, [], he, _ => by simp [EquivItems] at he
  | (k, v) :: xs, (k', v') :: ys, he, hs => by
    simp only [EquivItems] at he
    simp only [sortableItems, Bool.and_eq_true] at hs
    obtain ⟨rfl, hv, hr⟩ := he
    obtain ⟨p, q, h1, h2, h3⟩ := order_indep_val v v' hv hs.1
    obtain ⟨ps, qs, h4, h5, h6⟩ := order_indep_items xs ys hr hs.2
    exact ⟨(k, p) :: ps, (k, q) :: qs, preItems_cons_of h1 h4, preItems_cons_of h2 h5,
      by simp [digestItem, h3.evalPure_eq, h6]⟩
end

end PydraModel.Hash
