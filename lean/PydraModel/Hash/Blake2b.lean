/-
BLAKE2b (RFC 7693), sequential mode, no key, optional personalisation — used ONLY by the driver
(`Drivers/Hash.lean`) to instantiate the digest parameter `H` of the Hash engine so that hex digests can be
compared with `pydra.utils.hash.hash_function`.  No theorem depends on this file.  It is validated against
`hashlib.blake2b` on random inputs in every run of C06/C07/C08 (harness/engines/hashing.py).
-/
namespace PydraModel.Hash.Blake2b

def iv : Array UInt64 := #[
  0x6a09e667f3bcc908, 0xbb67ae8584caa73b, 0x3c6ef372fe94f82b, 0xa54ff53a5f1d36f1,
  0x510e527fade682d1, 0x9b05688c2b3e6c1f, 0x1f83d9abfb41bd6b, 0x5be0cd19137e2179]

def sigma : Array (Array Nat) := #[
  #[0, 1, 2, 3, 4, 5, 6, 7, 8, 9, 10, 11, 12, 13, 14, 15],
  #[14, 10, 4, 8, 9, 15, 13, 6, 1, 12, 0, 2, 11, 7, 5, 3],
  #[11, 8, 12, 0, 5, 2, 15, 13, 10, 14, 3, 6, 7, 1, 9, 4],
  #[7, 9, 3, 1, 13, 12, 11, 14, 2, 6, 5, 10, 4, 0, 15, 8],
  #[9, 0, 5, 7, 2, 4, 10, 15, 14, 1, 11, 12, 6, 8, 3, 13],
  #[2, 12, 6, 10, 0, 11, 8, 3, 4, 13, 7, 5, 15, 14, 1, 9],
  #[12, 5, 1, 15, 14, 13, 4, 10, 0, 7, 6, 3, 9, 2, 8, 11],
  #[13, 11, 7, 14, 12, 1, 3, 9, 5, 0, 15, 4, 8, 6, 2, 10],
  #[6, 15, 14, 9, 11, 3, 0, 8, 12, 2, 13, 7, 1, 4, 10, 5],
  #[10, 2, 8, 4, 7, 6, 1, 5, 15, 11, 9, 14, 3, 12, 13, 0],
  #[0, 1, 2, 3, 4, 5, 6, 7, 8, 9, 10, 11, 12, 13, 14, 15],
  #[14, 10, 4, 8, 9, 15, 13, 6, 1, 12, 0, 2, 11, 7, 5, 3]]

@[inline] def rotr (x : UInt64) (n : UInt64) : UInt64 := (x >>> n) ||| (x <<< (64 - n))

@[inline] def g (v : Array UInt64) (a b c d : Nat) (x y : UInt64) : Array UInt64 :=
  let va := v[a]! + v[b]! + x
  let vd := rotr (v[d]! ^^^ va) 32
  let vc := v[c]! + vd
  let vb := rotr (v[b]! ^^^ vc) 24
  let va := va + vb + y
  let vd := rotr (vd ^^^ va) 16
  let vc := vc + vd
  let vb := rotr (vb ^^^ vc) 63
  (((v.set! a va).set! b vb).set! c vc).set! d vd

/-- Compression function F.  `m` = 16 message words, `t` = byte offset counter, `last` = final block. -/
def compress (h : Array UInt64) (m : Array UInt64) (t : Nat) (last : Bool) : Array UInt64 := Id.run do
  let mut v : Array UInt64 := h ++ iv
  v := v.set! 12 (v[12]! ^^^ UInt64.ofNat (t % 2^64))
  v := v.set! 13 (v[13]! ^^^ UInt64.ofNat (t / 2^64))
  if last then v := v.set! 14 (v[14]! ^^^ 0xFFFFFFFFFFFFFFFF)
  for r in [0:12] do
    let s := sigma[r]!
    v := g v 0 4 8 12 m[s[0]!]! m[s[1]!]!
    v := g v 1 5 9 13 m[s[2]!]! m[s[3]!]!
    v := g v 2 6 10 14 m[s[4]!]! m[s[5]!]!
    v := g v 3 7 11 15 m[s[6]!]! m[s[7]!]!
    v := g v 0 5 10 15 m[s[8]!]! m[s[9]!]!
    v := g v 1 6 11 12 m[s[10]!]! m[s[11]!]!
    v := g v 2 7 8 13 m[s[12]!]! m[s[13]!]!
    v := g v 3 4 9 14 m[s[14]!]! m[s[15]!]!
  let mut out := h
  for i in [0:8] do
    out := out.set! i (h[i]! ^^^ v[i]! ^^^ v[i+8]!)
  return out

/-- little-endian 64-bit word from 8 bytes starting at `off` (missing bytes are zero). -/
def wordAt (b : Array UInt8) (off : Nat) : UInt64 := Id.run do
  let mut w : UInt64 := 0
  for i in [0:8] do
    let x : UInt64 := if off + i < b.size then (b[off + i]!).toUInt64 else 0
    w := w ||| (x <<< (UInt64.ofNat (8 * i)))
  return w

def blockWords (b : Array UInt8) (off : Nat) : Array UInt64 :=
  (Array.range 16).map (fun i => wordAt b (off + 8 * i))

/-- BLAKE2b with digest length `outlen` (1..64), no key, no salt, personalisation `person` (≤ 16 bytes). -/
def blake2b (outlen : Nat) (person : Array UInt8) (msg : Array UInt8) : Array UInt8 := Id.run do
  let mut h := iv
  h := h.set! 0 (h[0]! ^^^ (0x01010000 ||| UInt64.ofNat outlen))
  h := h.set! 6 (h[6]! ^^^ wordAt person 0)
  h := h.set! 7 (h[7]! ^^^ wordAt person 8)
  let n := msg.size
  -- all blocks but the last
  let nblocks := if n == 0 then 1 else (n + 127) / 128
  for i in [0:nblocks - 1] do
    h := compress h (blockWords msg (128 * i)) (128 * (i + 1)) false
  h := compress h (blockWords msg (128 * (nblocks - 1))) n true
  let mut out : Array UInt8 := #[]
  for i in [0:outlen] do
    out := out.push ((h[i / 8]! >>> (UInt64.ofNat (8 * (i % 8)))).toUInt8)
  return out

def hexDigit (n : Nat) : Char := if n < 10 then Char.ofNat (48 + n) else Char.ofNat (87 + n)
def toHex (b : Array UInt8) : String :=
  String.ofList (b.toList.flatMap (fun x => [hexDigit (x.toNat / 16), hexDigit (x.toNat % 16)]))

end PydraModel.Hash.Blake2b
