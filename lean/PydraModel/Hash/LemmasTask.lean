import PydraModel.Props.C07
/-
Lemmas about `Task._compute_hashes` / `Task._checksum` used by C06: the value that is hashed last
(`sorted(field_hashes.items())`), and how equal checksums propagate down to the field values.
-/
namespace PydraModel.Hash
open PydraModel.Gen

variable (H : Bytes → Bytes)

/-- what is assumed about the digest function: 16 bytes (digest_size) of 8 bits -/
def HOK (H : Bytes → Bytes) : Prop := (∀ x, (H x).length = 16) ∧ (∀ x, ∀ b ∈ H x, b < 256)

/-! ### the value hashed last -/

def strNode (b : Bytes) : Pre := .node 0 [lit (encScalar (.str b))]

def tupNode (kv : Bytes × Bytes) : Pre :=
  .node 0 (lit (seqOpenLit .tuple) :: [strNode kv.1, strNode kv.2] ++ [lit (seqCloseLit .tuple)])

theorem preList_hashes : ∀ (s : List (Bytes × Bytes)),
    preList (s.map (fun kv => PyVal.seq 0 .tuple [.sc (.str kv.1), .sc (.str kv.2)])) = .ok (s.map tupNode)
  | [] => rfl
  | kv :: s => by
    simp only [List.map_cons]
    exact preList_cons_of (by simp [pre, preList, tupNode, strNode]) (preList_hashes s)

theorem pre_hashesValue (s : List (Bytes × Bytes)) :
    pre (hashesValue s) = .ok (.node 0 (lit (seqOpenLit .list) :: s.map tupNode ++ [lit (seqCloseLit .list)])) := by
  simp only [hashesValue, pre, preList_hashes, except_bind_ok, except_pure]

theorem uniqueIds_hashes (W : Nat → Option Pre) : ∀ (s : List (Bytes × Bytes)), UniqueIdsList W (s.map tupNode)
  | [] => by simp [UniqueIdsList]
  | kv :: s => by
    simp only [List.map_cons, UniqueIdsList]
    exact ⟨by simp [tupNode, strNode, UniqueIds, UniqueIdsList, lit], uniqueIds_hashes W s⟩

theorem uniqueIdsList_append (W : Nat → Option Pre) : ∀ (ps qs : List Pre),
    UniqueIdsList W ps → UniqueIdsList W qs → UniqueIdsList W (ps ++ qs)
  | [], _, _, h => h
  | p :: ps, qs, h1, h2 => by
    simp only [List.cons_append, UniqueIdsList] at h1 ⊢
    exact ⟨h1.1, uniqueIdsList_append W ps qs h1.2 h2⟩

/-- the last hash uses a fresh `Cache`, but nothing in it has an identity: memo semantics = pure semantics -/
theorem hashFunction_hashesValue (s : List (Bytes × Bytes)) :
    hashFunction H (hashesValue s) = hashAlone H (hashesValue s) := by
  apply C08_hashFunction_pure H (fun _ => none) _ _ (pre_hashesValue s)
  simp only [UniqueIds, ne_eq, not_true_eq_false, false_implies, true_and, List.cons_append, UniqueIdsList, lit]
  exact uniqueIdsList_append _ _ _ (uniqueIds_hashes _ s) (by simp [UniqueIdsList, UniqueIds])

theorem inG0_hashesList : ∀ (s : List (Bytes × Bytes)),
    inG0List (s.map (fun kv => PyVal.seq 0 .tuple [.sc (.str kv.1), .sc (.str kv.2)])) = true
  | [] => rfl
  | kv :: s => by
    simp only [List.map_cons, inG0List, inG0, Bool.and_eq_true, inG0_hashesList s, and_true, decide_eq_true_eq]
    simp [Scalar.WF]

theorem inG0_hashesValue (s : List (Bytes × Bytes)) : inG0 (hashesValue s) = true := by
  simp [hashesValue, inG0, inG0_hashesList]

theorem equiv_hashesList : ∀ (s s' : List (Bytes × Bytes)),
    EquivList (s.map (fun kv => PyVal.seq 0 .tuple [.sc (.str kv.1), .sc (.str kv.2)]))
      (s'.map (fun kv => PyVal.seq 0 .tuple [.sc (.str kv.1), .sc (.str kv.2)])) → s = s'
  | [], [], _ => rfl
  | [], _ :: _, h => by simp [EquivList] at h
  | _ :: _, [], h => by simp [EquivList] at h
  | (k, x) :: s, (k', x') :: s', h => by
    simp only [List.map_cons, EquivList, Equiv, Scalar.str.injEq, and_true, true_and] at h
    obtain ⟨⟨rfl, rfl⟩, hr⟩ := h
    rw [equiv_hashesList s s' hr]

theorem equiv_hashesValue {s s' : List (Bytes × Bytes)} (h : Equiv (hashesValue s) (hashesValue s')) : s = s' := by
  simp only [hashesValue, Equiv, true_and] at h
  exact equiv_hashesList s s' h

/-! ### field hashes -/

/-- `fh` is the list of `(name, hexdigest)` of the entries of `l`, every value hashed alone -/
def FieldRel (a : Bytes × PyVal) (b : Bytes × Bytes) : Prop :=
  b.1 = a.1 ∧ ∃ d, hashAlone H a.2 = .ok d ∧ b.2 = hex d

theorem fieldAlone_rel : ∀ {l : List (Bytes × PyVal)} {fh : List (Bytes × Bytes)},
    fieldAlone H l = .ok fh → Rel2 (FieldRel H) l fh
  | [], fh, h => by simp [fieldAlone] at h; subst h; simp [Rel2]
  | (k, v) :: rest, fh, h => by
    simp only [fieldAlone] at h
    cases hv : hashAlone H v with
    | error e => rw [hv] at h; cases h
    | ok d =>
      rw [hv] at h
      simp only [except_bind_ok] at h
      cases hr : fieldAlone H rest with
      | error e => rw [hr] at h; cases h
      | ok hs =>
        rw [hr] at h
        simp only [except_bind_ok, except_pure, Except.ok.injEq] at h
        subst h
        simp only [Rel2, FieldRel]
        exact ⟨⟨trivial, d, hv, rfl⟩, fieldAlone_rel hr⟩

end PydraModel.Hash
