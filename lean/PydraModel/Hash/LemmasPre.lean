import PydraModel.Hash.Equiv
/-
Helper lemmas about `pre`, `preList`, `preItems`, `mapContents` and `evalPure` used by the order-independence and
discrimination theorems.
-/
namespace PydraModel.Hash
open PydraModel.Gen

variable (H : Bytes → Bytes)

/-! ### evalPure on lists -/

theorem evalPureList_append (ps qs : List Pre) :
    evalPureList H (ps ++ qs) = evalPureList H ps ++ evalPureList H qs := by
  induction ps with
  | nil => simp [evalPureList]
  | cons p ps ih => simp [evalPureList, ih, List.append_assoc]

theorem evalPureList_lit (b : Bytes) (ps : List Pre) :
    evalPureList H (lit b :: ps) = b ++ evalPureList H ps := by
  simp [evalPureList, lit, evalPure]

theorem evalPureList_eq_flatten (ps : List Pre) :
    evalPureList H ps = (ps.map (evalPure H)).flatten := by
  induction ps with
  | nil => rfl
  | cons p ps ih => simp [evalPureList, ih]

theorem evalPureEach_eq_map (ps : List Pre) : evalPureEach H ps = ps.map (evalPure H) := by
  induction ps with
  | nil => rfl
  | cons p ps ih => simp [evalPureEach, ih]

/-- the node built by `bytes_repr_set`: tag, digests of the elements in byte order, closing brace -/
theorem evalPureList_setNode (op cl : Bytes) (ps : List Pre) :
    evalPureList H [lit op, .sorted ps, lit cl] = op ++ ((sortDigests (ps.map (evalPure H))).flatten ++ cl) := by
  simp [evalPureList, lit, evalPure, evalPureEach_eq_map]

theorem evalPureList_wrap (op cl : Bytes) (ps : List Pre) :
    evalPureList H (lit op :: ps ++ [lit cl]) = op ++ ((ps.map (evalPure H)).flatten ++ cl) := by
  rw [List.cons_append, evalPureList_lit, evalPureList_append, evalPureList_eq_flatten]
  simp [evalPureList, lit, evalPure]

/-- bytes of `bytes_repr_mapping_contents` given the digests of the values -/
def mapBytes : List (Scalar × Bytes) → Bytes
  | [] => []
  | (k, d) :: rest => encScalar k ++ HashLits.mapEq ++ d ++ HashLits.mapSep ++ mapBytes rest

def digestItem (kp : Scalar × Pre) : Scalar × Bytes := (kp.1, evalPure H kp.2)

theorem evalPureList_mapContents (l : List (Scalar × Pre)) :
    evalPureList H (mapContents l) = mapBytes (l.map (digestItem H)) := by
  induction l with
  | nil => rfl
  | cons kp l ih =>
    obtain ⟨k, p⟩ := kp
    simp only [mapContents, evalPureList, lit, evalPure, List.map_cons, mapBytes, digestItem, ih,
      List.append_assoc]

theorem evalPureList_wrapMap (op cl : Bytes) (s : List (Scalar × Pre)) :
    evalPureList H (lit op :: mapContents s ++ [lit cl]) = op ++ (mapBytes (s.map (digestItem H)) ++ cl) := by
  rw [List.cons_append, evalPureList_lit, evalPureList_append, evalPureList_mapContents]
  simp [evalPureList, lit, evalPure]

/-! ### preList / preItems as traversals -/

theorem preList_cons_ok {v : PyVal} {vs : List PyVal} {r : List Pre} (h : preList (v :: vs) = .ok r) :
    ∃ p ps, pre v = .ok p ∧ preList vs = .ok ps ∧ r = p :: ps := by
  simp only [preList] at h
  cases hp : pre v with
  | error e => rw [hp] at h; cases h
  | ok p =>
    rw [hp] at h
    simp only [except_bind_ok] at h
    cases hps : preList vs with
    | error e => rw [hps] at h; cases h
    | ok ps =>
      rw [hps] at h
      simp only [except_bind_ok, except_pure, Except.ok.injEq] at h
      exact ⟨p, ps, rfl, rfl, h.symm⟩

theorem preList_cons_of {v : PyVal} {vs : List PyVal} {p : Pre} {ps : List Pre}
    (h1 : pre v = .ok p) (h2 : preList vs = .ok ps) : preList (v :: vs) = .ok (p :: ps) := by
  simp only [preList, h1, h2, except_bind_ok, except_pure]

theorem preItems_cons_ok {k : Scalar} {v : PyVal} {rest : List (Scalar × PyVal)} {r : List (Scalar × Pre)}
    (h : preItems ((k, v) :: rest) = .ok r) :
    ∃ p ps, pre v = .ok p ∧ preItems rest = .ok ps ∧ r = (k, p) :: ps := by
  simp only [preItems] at h
  cases hp : pre v with
  | error e => rw [hp] at h; cases h
  | ok p =>
    rw [hp] at h
    simp only [except_bind_ok] at h
    cases hps : preItems rest with
    | error e => rw [hps] at h; cases h
    | ok ps =>
      rw [hps] at h
      simp only [except_bind_ok, except_pure, Except.ok.injEq] at h
      exact ⟨p, ps, rfl, rfl, h.symm⟩

theorem preItems_cons_of {k : Scalar} {v : PyVal} {rest : List (Scalar × PyVal)} {p : Pre}
    {ps : List (Scalar × Pre)} (h1 : pre v = .ok p) (h2 : preItems rest = .ok ps) :
    preItems ((k, v) :: rest) = .ok ((k, p) :: ps) := by
  simp only [preItems, h1, h2, except_bind_ok, except_pure]

theorem preItems_keys : ∀ {items : List (Scalar × PyVal)} {ps : List (Scalar × Pre)},
    preItems items = .ok ps → ps.map (·.1) = items.map (·.1)
  | [], ps, h => by simp [preItems] at h; subst h; rfl
  | (k, v) :: rest, ps, h => by
    obtain ⟨p, ps', _, h2, rfl⟩ := preItems_cons_ok h
    simp [preItems_keys h2]

/-- `preList` commutes with permutations -/
theorem preList_perm {xs xs' : List PyVal} (hp : xs.Perm xs') :
    ∀ {ps : List Pre}, preList xs = .ok ps → ∃ ps', preList xs' = .ok ps' ∧ ps.Perm ps' := by
  induction hp with
  | nil => intro ps h; exact ⟨ps, h, List.Perm.refl _⟩
  | cons x _ ih =>
    intro ps h
    obtain ⟨p, ps1, h1, h2, rfl⟩ := preList_cons_ok h
    obtain ⟨ps2, h3, h4⟩ := ih h2
    exact ⟨p :: ps2, preList_cons_of h1 h3, h4.cons _⟩
  | swap x y l =>
    intro ps h
    obtain ⟨py, ps1, h1, h2, rfl⟩ := preList_cons_ok h
    obtain ⟨px, ps2, h3, h4, rfl⟩ := preList_cons_ok h2
    exact ⟨px :: py :: ps2, preList_cons_of h3 (preList_cons_of h1 h4), List.Perm.swap _ _ _⟩
  | trans _ _ ih1 ih2 =>
    intro ps h
    obtain ⟨ps1, h1, h2⟩ := ih1 h
    obtain ⟨ps2, h3, h4⟩ := ih2 h1
    exact ⟨ps2, h3, h2.trans h4⟩

/-- `preItems` commutes with permutations -/
theorem preItems_perm {items items' : List (Scalar × PyVal)} (hp : items.Perm items') :
    ∀ {ps : List (Scalar × Pre)}, preItems items = .ok ps →
      ∃ ps', preItems items' = .ok ps' ∧ ps.Perm ps' := by
  induction hp with
  | nil => intro ps h; exact ⟨ps, h, List.Perm.refl _⟩
  | cons x _ ih =>
    intro ps h
    obtain ⟨k, v⟩ := x
    obtain ⟨p, ps1, h1, h2, rfl⟩ := preItems_cons_ok h
    obtain ⟨ps2, h3, h4⟩ := ih h2
    exact ⟨(k, p) :: ps2, preItems_cons_of h1 h3, h4.cons _⟩
  | swap x y l =>
    intro ps h
    obtain ⟨kx, vx⟩ := x
    obtain ⟨ky, vy⟩ := y
    obtain ⟨py, ps1, h1, h2, rfl⟩ := preItems_cons_ok h
    obtain ⟨px, ps2, h3, h4, rfl⟩ := preItems_cons_ok h2
    exact ⟨(kx, px) :: (ky, py) :: ps2, preItems_cons_of h3 (preItems_cons_of h1 h4), List.Perm.swap _ _ _⟩
  | trans _ _ ih1 ih2 =>
    intro ps h
    obtain ⟨ps1, h1, h2⟩ := ih1 h
    obtain ⟨ps2, h3, h4⟩ := ih2 h1
    exact ⟨ps2, h3, h2.trans h4⟩

/-! ### sets of scalars -/

def scNode : PyVal → Pre
  | .sc s => .node 0 [lit (encScalar s)]
  | _ => .lit []

theorem preList_scalars : ∀ {xs : List PyVal} {ks : List Scalar}, asScalars xs = some ks →
    preList xs = .ok (xs.map scNode)
  | [], _, _ => rfl
  | .sc s :: xs, ks, h => by
    simp only [asScalars, Option.map_eq_some_iff] at h
    obtain ⟨ks', h', _⟩ := h
    have := preList_scalars h'
    exact preList_cons_of (by simp [pre, scNode]) this
  | .path _ _ :: _, _, h => by simp [asScalars] at h
  | .ndarray _ _ _ _ :: _, _, h => by simp [asScalars] at h
  | .ty _ :: _, _, h => by simp [asScalars] at h
  | .seq _ _ _ :: _, _, h => by simp [asScalars] at h
  | .set _ _ _ :: _, _, h => by simp [asScalars] at h
  | .dict _ _ :: _, _, h => by simp [asScalars] at h
  | .obj _ _ _ :: _, _, h => by simp [asScalars] at h
  | .tyFields _ _ _ :: _, _, h => by simp [asScalars] at h
  | .func _ _ _ _ _ :: _, _, h => by simp [asScalars] at h
  | .task _ _ _ _ :: _, _, h => by simp [asScalars] at h
  | .ref _ :: _, _, h => by simp [asScalars] at h

theorem asScalars_eq_map : ∀ {xs : List PyVal} {ks : List Scalar}, asScalars xs = some ks → xs = ks.map PyVal.sc
  | [], ks, h => by simp [asScalars] at h; subst h; rfl
  | .sc s :: xs, ks, h => by
    simp only [asScalars, Option.map_eq_some_iff] at h
    obtain ⟨ks', h', rfl⟩ := h
    simp [asScalars_eq_map h']
  | .path _ _ :: _, _, h => by simp [asScalars] at h
  | .ndarray _ _ _ _ :: _, _, h => by simp [asScalars] at h
  | .ty _ :: _, _, h => by simp [asScalars] at h
  | .seq _ _ _ :: _, _, h => by simp [asScalars] at h
  | .set _ _ _ :: _, _, h => by simp [asScalars] at h
  | .dict _ _ :: _, _, h => by simp [asScalars] at h
  | .obj _ _ _ :: _, _, h => by simp [asScalars] at h
  | .tyFields _ _ _ :: _, _, h => by simp [asScalars] at h
  | .func _ _ _ _ _ :: _, _, h => by simp [asScalars] at h
  | .task _ _ _ _ :: _, _, h => by simp [asScalars] at h
  | .ref _ :: _, _, h => by simp [asScalars] at h

theorem asScalars_map_sc (ks : List Scalar) : asScalars (ks.map PyVal.sc) = some ks := by
  induction ks with
  | nil => rfl
  | cons k ks ih => simp [asScalars, ih]

/-- a list that is pointwise `≃` to a list of scalars is that list -/
theorem EquivList_scalars : ∀ (ks : List Scalar) (ys : List PyVal), EquivList (ks.map PyVal.sc) ys → ys = ks.map PyVal.sc
  | [], [], _ => rfl
  | [], _ :: _, h => by simp [EquivList] at h
  | _ :: _, [], h => by simp [EquivList] at h
  | k :: ks, y :: ys, h => by
    simp only [List.map_cons, EquivList] at h
    obtain ⟨h1, h2⟩ := h
    have := EquivList_scalars ks ys h2
    cases y <;> simp only [Equiv] at h1
    subst h1
    simp [this]

/-! ### nodup keys -/

theorem eq_of_nodup_map {α β : Type} (f : α → β) : ∀ {l : List α}, (l.map f).Nodup → ∀ {a b : α}, a ∈ l → b ∈ l →
    f a = f b → a = b
  | [], _, _, _, ha, _, _ => by simp at ha
  | x :: l, hn, a, b, ha, hb, hf => by
    simp only [List.map_cons, List.nodup_cons, List.mem_map, not_exists, not_and] at hn
    simp only [List.mem_cons] at ha hb
    rcases ha with rfl | ha <;> rcases hb with rfl | hb
    · rfl
    · exact absurd hf.symm (hn.1 b hb)
    · exact absurd hf (hn.1 a ha)
    · exact eq_of_nodup_map f hn.2 ha hb hf

/-- from `keysOK` on the keys: the order of the items (by key representation) is a strict total order on the pairs -/
theorem pairs_total {β : Type} {l : List (Scalar × β)} (h : keysOK (l.map (·.1)) = true) :
    TotalOn (fun a b : Scalar × β => ltbK a.1 b.1) l := by
  obtain ⟨ht, hn⟩ := keysOK_spec h
  have hm : ∀ a ∈ l, a.1 ∈ l.map (·.1) := fun a ha => List.mem_map.mpr ⟨a, ha, rfl⟩
  refine ⟨?_, ?_, ?_⟩
  · intro a ha' b hb' hab
    exact ht.asym a.1 (hm a ha') b.1 (hm b hb') hab
  · intro a ha' b hb' c hc' hab hbc
    exact ht.trans a.1 (hm a ha') b.1 (hm b hb') c.1 (hm c hc') hab hbc
  · intro a ha' b hb' hne
    have : a.1 ≠ b.1 := fun heq => hne (eq_of_nodup_map (·.1) hn ha' hb' heq)
    exact ht.total a.1 (hm a ha') b.1 (hm b hb') this

theorem keysOK_perm {ks ks' : List Scalar} (hp : ks.Perm ks') (h : keysOK ks = true) : keysOK ks' = true := by
  unfold keysOK at *
  simp only [Bool.and_eq_true, decide_eq_true_eq, List.all_eq_true] at h ⊢
  exact ⟨hp.nodup_iff.mp h.1, fun k hk => h.2 k (hp.symm.subset hk)⟩

theorem sortItems_eq {β : Type} (l : List (Scalar × β)) :
    sortItems l = pySortedB (fun a b : Scalar × β => ltbK a.1 b.1) l := rfl

end PydraModel.Hash
