import PydraModel.JobProto.CacheHistLemmas
/-
C11 — At-most-once execution per identity; rerun and read-only caches as documented.

Property theorems only.  Model: `JobProto/CacheHist.lean` (`Job.run`'s cached-result test, `Job.result` /
`load_result(checksum, [cache_root] + readonly_caches)` as repaired for D8, the execute branch that replaces
`cache_root/checksum`, `Submitter.expand_workflow` running node jobs with `rerun and propagate_rerun`).
A history is ANY list of operations `submit` / `submitWf` / `plant` (a killed run leaves an incomplete job
directory anywhere); no bound on its length, on the number of cache locations, on the length of read-only
lists or on the number of workflow nodes.  Task bodies are arbitrary (`World.body n i` = outcome of the i-th
execution of task `n`), so flaky tasks are covered.  `skip = true` is the current `load_result`.
-/
namespace PydraModel.JobProto.CacheHist

/-- C11 (refinement, FULL): every history, from every state, behaves exactly like the abstract cache
    `Loc → Key → Option Res` in which only complete results exist ("if present in a listed location, complete,
    not errored and not rerun then return it, else execute, store under the root, return"): same return value
    of every submission, same abstract cache and same execution counters afterwards.  Leftover incomplete
    directories are invisible. -/
theorem C11_refines (W : World) (ops : List Op) (st : St) :
    (trace W true true st ops).1 = (specTrace W (abs st) ops).1
    ∧ abs (trace W true true st ops).2 = (specTrace W (abs st) ops).2 := refine_trace W ops st

/-- C11 (at most once, FULL): in any history from the empty caches, for every root `w` and identity `k`, the
    number of executions into `w` is at most 1 + (submissions into `w` with rerun) + (submissions into `w`
    whose cached-result test saw an errored result) + (runs of `k` in `w` that were killed). -/
theorem C11_at_most_once (W : World) (ops : List Op) (hac : ∀ op ∈ ops, op.Acyclic) (w : Loc) (k : Key) :
    let log := (run W true true St.init ops).log
    execsAt log w k ≤ 1 + rerunsAt log w k + foundErrAt log w k + plantsAt ops w k := by
  have h0 : Inv w k St.init 0 := by
    simp [Inv, St.init, execsAt, rerunsAt, foundErrAt, Store.empty, Cell.isComplete]
  have h := inv_run W true true w k ops hac St.init 0 h0
  unfold Inv at h
  simp only
  omega

/-- the same from an arbitrary starting state (any directories already present) -/
theorem C11_at_most_once_from (W : World) (ops : List Op) (hac : ∀ op ∈ ops, op.Acyclic) (st : St) (w : Loc) (k : Key)
    (hlog : st.log = []) :
    let log := (run W true true st ops).log
    execsAt log w k ≤ 1 + rerunsAt log w k + foundErrAt log w k + plantsAt ops w k := by
  have h0 : Inv w k st 0 := by
    unfold Inv
    rw [hlog]
    simp only [execsAt, rerunsAt, foundErrAt, List.countP_nil]
    split <;> omega
  have h := inv_run W true true w k ops hac st 0 h0
  unfold Inv at h
  simp only
  omega

/-- C11, the headline case: a task that deterministically succeeds, submitted any number of times into root
    `w` (with any read-only lists, interleaved with anything else) without rerun — neither directly nor
    through a rerun workflow that propagates — and with no killed run of it in `w`, executes at most once
    there. -/
theorem C11_once (W : World) (ops : List Op) (hac : ∀ op ∈ ops, op.Acyclic) (w : Loc) (n v0 : Nat)
    (hok : W.body n 0 = .ok v0) (hdet : ∀ i, W.body n i = W.body n 0)
    (hnorerun : rerunsAt (run W true true St.init ops).log w (.task n) = 0)
    (hnoplant : plantsAt ops w (.task n) = 0) :
    execsAt (run W true true St.init ops).log w (.task n) ≤ 1 := by
  have h := C11_at_most_once W ops hac w (.task n)
  have hg : Good W n St.init := by intro l r hc; simp [St.init, Store.empty] at hc
  have hz := foundErrAt_zero n _ w (noerr_run W true true n v0 hok hdet ops St.init hg (by intro e he; simp [St.init] at he))
  simp only at h
  omega

/-- C11 (deterministic tasks): whatever the history (reruns, plants, read-only lists, other roots), every
    submission of a deterministic task returns the value of a fresh execution. -/
theorem C11_returns_fresh (W : World) (n : Nat) (hdet : ∀ i, W.body n i = W.body n 0) (ops : List Op) (st : St)
    (hg : Good W n st) :
    ∀ sb out, (Op.submit n sb, out) ∈ (trace W true true st ops).1 → out = some (W.body n 0) := by
  induction ops generalizing st with
  | nil => intro sb out h; simp [trace] at h
  | cons op ops ih =>
    intro sb out h
    simp only [trace, List.mem_cons] at h
    rcases h with h | h
    · injection h with h1 h2
      subst h1
      rw [h2]
      simp only [step, readBack_task]
      exact congrArg some (runTask_value W true n hdet st sb hg)
    · exact ih _ (good_step W true true n hdet st op hg) sb out h

/-- C11 (rerun): a rerun submission always executes the body, and writes the new result under its root. -/
theorem C11_rerun_executes (W : World) (st : St) (n : Nat) (sb : Sub) (h : sb.rerun = true) :
    (runTask W true st n sb).1.execs (.task n) = st.execs (.task n) + 1
    ∧ (runTask W true st n sb).1.store sb.root (.task n) = .complete (W.body n (st.execs (.task n))) := by
  rw [runTask_rerun W true st n sb h]
  simp [execute]

/-- C11 (propagation on, ANY nesting depth): a rerun workflow whose jobs all succeed re-executes every task inside
    it and every workflow nested in it, at every depth, once per occurrence (and itself). -/
theorem C11_propagate_rerun (W : World) (st : St) (n : Nat) (nodes : Nodes) (sb : Sub) (h : sb.rerun = true)
    (v : Nat) (hres : (runWf W true true st n nodes sb true).2 = .ok v) :
    (∀ m, (runWf W true true st n nodes sb true).1.execs (.task m) = st.execs (.task m) + nodes.countTask m)
    ∧ (∀ k, (runWf W true true st n nodes sb true).1.execs (.wf k)
          = st.execs (.wf k) + nodes.countWf k + (if k = n then 1 else 0)) := by
  have hc : cachedTest true st (.wf n) sb = none := by simp [cachedTest, h]
  have his : (innerSub true sb).rerun = true := by simp [innerSub, h]
  unfold runWf at hres ⊢
  rw [hc] at hres ⊢
  simp only at hres ⊢
  cases hr : runNodes W true true true (innerSub true sb) st nodes with
  | mk st' ok =>
    rw [hr] at hres
    cases ok with
    | false => simp [wfRes] at hres
    | true =>
      obtain ⟨h1, h2⟩ := runNodes_rerun_execs W true nodes (innerSub true sb) st st' his hr
      refine ⟨fun m => ?_, fun k => ?_⟩
      · rw [execute_execs, h1 m]; simp
      · rw [execute_execs, h2 k]
        simp only [Key.wf.injEq]

/-- C11 (propagation off): the workflow job itself re-executes, its node jobs — at every depth — are ordinary
    (non-rerun) submissions into the same root with the same read-only list. -/
theorem C11_no_propagate (W : World) (st : St) (n : Nat) (nodes : Nodes) (sb : Sub) (h : sb.rerun = true) :
    runWf W true true st n nodes sb false =
      (let r := runNodes W true true false { sb with rerun := false } st nodes
       (execute r.1 (.wf n) sb none (wfRes W n r.2), wfRes W n r.2))
    ∧ (innerSub false { sb with rerun := false } : Sub) = { sb with rerun := false } := by
  constructor
  · simp [runWf, cachedTest, h, innerSub]
  · simp [innerSub]

/-- C11 (reuse): without rerun, a complete successful result in ANY listed location (root or read-only, in
    whatever position, behind whatever leftover directories) is returned without executing and without
    writing, provided no listed location holds an errored result of the same identity. -/
theorem C11_reuse (W : World) (st : St) (n : Nat) (sb : Sub) (hr : sb.rerun = false) (l : Loc) (v : Nat)
    (hl : l ∈ sb.locs) (hc : st.store l (.task n) = .complete (.ok v))
    (hnoerr : ∀ l' ∈ sb.locs, st.store l' (.task n) ≠ .complete .err) :
    ∃ v', runTask W true st n sb = (hit st (.task n) sb v', .ok v') := by
  obtain ⟨r', hr'⟩ := lookup_finds st.store (.task n) sb.locs l _ hl hc
  obtain ⟨l', hl', hc'⟩ := lookup_some_mem true st.store _ _ _ hr'
  cases r' with
  | err => exact absurd hc' (hnoerr l' hl')
  | ok v' => exact ⟨v', by simp [runTask, cachedTest, hr, hr']⟩

/-- C11 (read-only caches are never modified; new results only under the cache root): an operation changes
    no cell of any location other than its own root (a `plant` — the environment — only its own cell). -/
theorem C11_readonly_untouched (W : World) (st : St) (op : Op) (l : Loc)
    (hroot : op.root? ≠ some l) (hplant : ∀ k, op ≠ .plant l k) (k : Key) :
    (step W true true st op).1.store l k = st.store l k := step_frame W true true st op l hroot hplant k

theorem C11_readonly_untouched_history (W : World) (l : Loc) (ops : List Op) (st : St)
    (h : ∀ op ∈ ops, op.root? ≠ some l ∧ ∀ k, op ≠ .plant l k) (k : Key) :
    (run W true true st ops).store l k = st.store l k := by
  induction ops generalizing st with
  | nil => rfl
  | cons op ops ih =>
    have h1 := (h op (by simp))
    have := ih (step W true true st op).1 (fun o ho => h o (by simp [ho]))
    simp only [run, trace] at this ⊢
    rw [this]
    exact step_frame W true true st op l h1.1 h1.2 k

/-! ### Regression witness for the repaired defect D8 -/

/-- the world of the witness: task 0 always returns 7 -/
def w7 : World := ⟨fun _ _ => .ok 7, fun _ => 0⟩

/-- complete result in R = 1, leftover directory in W = 0, then submit into W with read-only list [R] -/
def shadowHistory : List Op :=
  [.submit 0 ⟨1, [], false⟩, .plant 0 (.task 0), .submit 0 ⟨0, [1], false⟩]

/-- with the current `load_result` the history behaves as the abstract cache says: one execution, the second
    submission returns the cached value -/
theorem C11_shadow_regression :
    (run w7 true true St.init shadowHistory).execs (.task 0) = 1
    ∧ ((trace w7 true true St.init shadowHistory).1.map (·.2)) = [some (.ok 7), none, some (.ok 7)] := by
  decide

/-- documentation of D8: with the `load_result` of the pinned commit (return `None` at the first existing
    directory) the same history executes the body twice where the abstract cache executes it once — the
    refinement theorem is false for that variant -/
theorem C11_shadow_old_witness :
    (run w7 false true St.init shadowHistory).execs (.task 0) = 2
    ∧ (specTrace w7 (abs St.init) shadowHistory).2.execs (.task 0) = 1
    ∧ abs (run w7 false true St.init shadowHistory) ≠ (specTrace w7 (abs St.init) shadowHistory).2 := by
  refine ⟨by decide, by decide, ?_⟩
  intro h
  have := congrArg (fun a => a.execs (.task 0)) h
  revert this
  decide

/-! ### Nested workflows: the flag must reach workflow NODES too -/

/-- workflow 1 = [ workflow 0 = [task 0, task 1], task 2 ]  (depth 2) -/
def nested2 : Nodes := .wf 0 (.task 0 (.task 1 .nil)) (.task 2 .nil)

/-- submit, then rerun in place with propagation on -/
def nestedHistory : List Op :=
  [.submitWf 1 nested2 ⟨0, [], false⟩ true, .submitWf 1 nested2 ⟨0, [], true⟩ true]

/-- the code (`nest = true`): the rerun re-executes the nested workflow and the tasks inside it -/
theorem C11_nested_rerun_regression :
    (run w7 true true St.init nestedHistory).execs (.task 0) = 2
    ∧ (run w7 true true St.init nestedHistory).execs (.wf 0) = 2
    ∧ (run w7 true true St.init nestedHistory).execs (.task 2) = 2 := by decide

/-- documentation: a variant in which a workflow NODE is submitted without the flag (`nest = false`, what
    `await self.worker.submit(job)` without `rerun=` does in `expand_workflow_async`) serves the nested workflow
    from the cache — the tasks inside it are not re-executed although rerun was requested with propagation, while
    leaf nodes of the outer workflow still are; `C11_propagate_rerun` and `C11_refines` are false for it. -/
theorem C11_witness_nested_flag :
    (run w7 true false St.init nestedHistory).execs (.task 0) = 1
    ∧ (run w7 true false St.init nestedHistory).execs (.wf 0) = 1
    ∧ (run w7 true false St.init nestedHistory).execs (.task 2) = 2
    ∧ (specTrace w7 (abs St.init) nestedHistory).2.execs (.task 0) = 2 := by decide

/-! ### Non-vacuity -/

/-- the hypotheses of `C11_once` hold for a concrete history with three submissions, two roots, a read-only
    list and a leftover directory -/
example : w7.body 0 0 = .ok 7 ∧ (∀ i, w7.body 0 i = w7.body 0 0)
    ∧ rerunsAt (run w7 true true St.init shadowHistory).log 0 (.task 0) = 0
    ∧ plantsAt [Op.submit 0 ⟨1, [], false⟩, .submit 0 ⟨0, [1], false⟩] 0 (.task 0) = 0 := by
  refine ⟨rfl, fun _ => rfl, by decide, by decide⟩

/-- `C11_reuse`'s hypotheses: result in the read-only location 1, leftover directory in the root 0 -/
example : (run w7 true true St.init [.submit 0 ⟨1, [], false⟩, .plant 0 (.task 0)]).store 1 (.task 0) = .complete (.ok 7)
    ∧ (run w7 true true St.init [.submit 0 ⟨1, [], false⟩, .plant 0 (.task 0)]).store 0 (.task 0) = .incomplete := by
  decide

/-- a flaky task (fails first, then succeeds): the second submission sees the errored result, executes again
    and is counted by `foundErrAt`; the bound of `C11_at_most_once` is tight -/
example :
    let W : World := ⟨fun _ i => if i = 0 then .err else .ok 1, fun _ => 0⟩
    let ops := [Op.submit 0 ⟨0, [], false⟩, .submit 0 ⟨0, [], false⟩, .submit 0 ⟨0, [], false⟩]
    execsAt (run W true true St.init ops).log 0 (.task 0) = 2
    ∧ foundErrAt (run W true true St.init ops).log 0 (.task 0) = 1 := by
  decide

/-- a rerun workflow with propagation re-executes both node jobs (hypotheses of `C11_propagate_rerun`) -/
example : (runWf w7 true true (run w7 true true St.init [.submitWf 1 nested2 ⟨0, [], false⟩ true]) 1 nested2
    ⟨0, [], true⟩ true).2 = .ok 0 := by decide

example : ∀ op ∈ nestedHistory, op.Acyclic := by
  intro op h
  simp only [nestedHistory, List.mem_cons, List.not_mem_nil, or_false] at h
  rcases h with rfl | rfl <;> simp [Op.Acyclic, nested2, Nodes.wfKeys, Nodes.Acyclic]

end PydraModel.JobProto.CacheHist
