import PydraModel.Graph.OpLemmas
/-
C37 — Graph operations keep a valid topological order.

Property theorems only.  Model: `Graph/Model.lean` (`DiGraph.sorting/_sorting/add_nodes/add_edges/
remove_nodes/remove_nodes_connections/remove_previous_connections/remove_successors_nodes/sorted_nodes` of
pydra/engine/graph.py, after the repairs
"remove_nodes on a never-sorted graph" (D27) and "raise on a cycle instead of looping" (D12)).
A *history* is any list of calls none of which raised, starting from the empty graph; there is no
bound on its length, on the number of nodes or on the number of connections.
-/
namespace PydraModel.Graph

/-- INVARIANT, every reachable graph: whenever a sorted list is stored, it contains each remaining node
    exactly once and places every node after all of its (remaining) predecessors. -/
theorem C37_stored_order_valid (ops : List Op) (g : G) (h : runOk ops G.empty = some g)
    (l : List Id) (hl : g.sorted = some l) :
    l.Perm g.nodes ∧ l.Nodup ∧
    ∀ l1 x l2, l = l1 ++ x :: l2 → ∀ a, (a, x) ∈ g.edges → a ∈ l1 ∨ a ∈ g.wip := by
  have hi := inv_runOk ops _ _ inv_empty h
  obtain ⟨hp, ht⟩ := hi.valid l hl
  exact ⟨hp, hp.nodup_iff.mpr hi.nodup, fun l1 x l2 hs a ha => ht l1 x l2 hs (a, x) ha rfl⟩

/-- C37, full statement: for ANY history that leaves an acyclic graph, reading `sorted_nodes` succeeds
    and yields each remaining node exactly once with every node after all of its predecessors. -/
theorem C37_sorted_nodes (ops : List Op) (g : G) (h : runOk ops G.empty = some g) (hac : Acyclic g) :
    ∃ l g', readSorted g = (.ok l, g') ∧ l.Perm g.nodes ∧ l.Nodup ∧
      ∀ l1 x l2, l = l1 ++ x :: l2 → ∀ a, (a, x) ∈ g.edges → a ∈ l1 ∨ a ∈ g.wip := by
  have hi := inv_runOk ops _ _ inv_empty h
  cases hs : g.sorted with
  | some s =>
    obtain ⟨hp, hn, ht⟩ := C37_stored_order_valid ops g h s hs
    exact ⟨s, g, by simp [readSorted, hs], hp, hn, ht⟩
  | none =>
    obtain ⟨l, hl⟩ := sortFrom_progress g [] hac (by
      intro e he h2; rcases hi.closed e he (by simpa using h2) with h1 | h1
      · exact Or.inr (by simpa using h1)
      · exact Or.inl h1)
    obtain ⟨ht, hp⟩ := sortFrom_spec g [] l hl
    have hp' : l.Perm g.nodes := by simpa using hp
    exact ⟨l, { g with sorted := some l }, by simp [readSorted, hs, hl], hp',
      hp'.nodup_iff.mpr hi.nodup, fun l1 x l2 hsp a ha => ht l1 x l2 hsp (a, x) ha rfl⟩

/-- With no node pending removal every predecessor is strictly earlier in the list. -/
theorem C37_no_wip (ops : List Op) (g : G) (h : runOk ops G.empty = some g) (hw : g.wip = [])
    (l : List Id) (hl : g.sorted = some l) :
    ∀ l1 x l2, l = l1 ++ x :: l2 → ∀ a, (a, x) ∈ g.edges → a ∈ l1 := by
  intro l1 x l2 hs a ha
  rcases (C37_stored_order_valid ops g h l hl).2.2 l1 x l2 hs a ha with h1 | h1
  · exact h1
  · rw [hw] at h1; simp at h1

/-- SAFETY of one `sorting` call needs no hypothesis at all (not even acyclicity). -/
theorem C37_sorting_safe (g : G) (pre l : List Id) (h : sortFrom g pre = some l) :
    Topo g l ∧ l.Perm (if pre = [] then g.nodes else pre) := sortFrom_spec g pre l h

/-- PROGRESS (also used by C18): `sorting` of an acyclic graph always returns. -/
theorem C37_sorting_progress (g : G) (pre : List Id) (hac : Acyclic g)
    (hclosed : ∀ e ∈ g.edges, e.2 ∈ (if pre = [] then g.nodes else pre) →
      e.1 ∈ g.wip ∨ e.1 ∈ (if pre = [] then g.nodes else pre)) :
    ∃ l, sortFrom g pre = some l := sortFrom_progress g pre hac hclosed

/-- Regression witness for D27 (repaired): removing a node from a graph that was never sorted is a
    valid history; the later read gives the remaining node. -/
theorem C37_remove_before_sort :
    runOk [.addNodes [0, 1], .removeNodes [0], .removeConnections [0], .read] G.empty
      = some ⟨[1], [], [], some [1]⟩ := by decide

/-- A cyclic graph makes `sorting` raise (`none`) instead of looping (D12 repaired). -/
theorem C37_cycle_raises :
    stepOk ⟨[0, 1], [(0, 1), (1, 0)], [], none⟩ .read = none := by decide

/-- Regression witness for D71 (repaired): `remove_successors_nodes` on a root whose successors come in
    another order in the sorted list than in the depth-first listing is a valid history … -/
theorem C37_remove_successors_regression :
    runOk [.addNodes [0, 1, 3, 2], .addEdges [(0, 1), (1, 2), (1, 3)], .read, .removeNodes [0],
           .removeSuccessors 0, .read] G.empty = some ⟨[], [], [], some []⟩ := by decide

/-- … whereas the pre-repair order of operations made the re-sort inside it fail (`ValueError`, an endless
    loop before the cycle check existed) on this ACYCLIC graph. -/
theorem C37_old_remove_successors_fails :
    (match (removeSuccessorsOld ⟨[1, 3, 2], [(0, 1), (1, 2), (1, 3)], [0], some [1, 3, 2]⟩ 0).1 with
     | .error e => decide (e = Err.cycle) | .ok _ => false) = true := by decide

/-- `remove_successors_nodes` leaves exactly the nodes that are not successors, still validly sorted. -/
example : runOk [.addNodes [0, 1, 2, 3, 4], .addEdges [(0, 1), (1, 2), (3, 4), (3, 2)], .read, .removeNodes [0],
      .removeSuccessors 0] G.empty = some ⟨[3, 4], [(3, 4)], [], some [3, 4]⟩ := by decide

/-- Non-vacuity: a diamond built in an awkward order, with a removal in the middle, is a history
    that satisfies the hypotheses of the theorems above. -/
example : ∃ g, runOk [.addNodes [3, 1], .read, .addNodes [2, 0], .addEdges [(0, 1), (0, 2)],
      .addEdges [(1, 3), (2, 3)], .removeNodes [0], .removeConnections [0]] G.empty = some g
    ∧ g.sorted = some [1, 2, 3] ∧ Acyclic g := by
  refine ⟨⟨[3, 1, 2], [(1, 3), (2, 3)], [], some [1, 2, 3]⟩, by decide, rfl, ⟨fun n => n, ?_⟩⟩
  intro e he _
  simp at he
  rcases he with rfl | rfl <;> simp

end PydraModel.Graph
