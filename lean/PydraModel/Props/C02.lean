import PydraModel.StateAlg.Lemmas8
import PydraModel.Props.C01
/-
C02 — Combine groups job outputs into an exact, ordered partition.

Model: `prepareStates` with a combiner (`splits_groups` / `combine_final_groups` → closure of the combiner over inner-linked
fields, `remove_inp_from_splitter_rpn`, `State.splits` on the reduced RPN, the loop filling `final_combined_ind_mapping`)
and `groupValues` / `publicGroups` (the grouping `LazyOutField._get_value` performs on the public path).
Reference: `Spec.combineSpec` — stable group-by of the jobs on their projection to the uncombined fields.

What is proved, and what is not:
  * for ANY splitter, combiner, lengths: the mapping loop files every job under exactly one group, the one selected by its
    projection to `keys_final`, in enumeration order (`C02_mapping_partition`) — no loss, no duplication, order within groups
  * for ANY splitter tree and ANY set of fields: `remove_inp_from_splitter_rpn` (stack version, after the repair of D34) returns
    the RPN of the tree with exactly those fields removed (`C02_remove`); combining all axes leaves nothing (`C02_all_axes`);
    the reduced RPN is a tree's RPN again, so C01's machine theorems give its rows and keys (`C02_reduced_splits`)
  * for every binary-bracketed splitter shape with ≤ 4 canonically labelled fields and every non-empty combiner (the property's
    quantifier, by kernel evaluation of the finitely many shapes): the closure `combiner_all` is the reference's linked-field
    closure (`C02_linked_le4`)
  * the whole pipeline against `combineSpec` on every shape with ≤ 3 fields, every combiner and all lengths 1–2
    (`C02_small_scope`, kernel evaluation — a bounded statement, labelled as such)
  * first-occurrence order, lists of ANY non-zero length: the rows of a splitter projected to the kept fields are the rows of
    the reduced tree indexed by the mixed-radix pattern `pat shape mask` (`claimA`, Lemmas7) and `nub (pat …) = range (cnt …)`
    (`nub_pat`, Lemmas6); hence for every splitter over distinct fields (any number) the public output IS the reference's stable
    group-by on the fields outside `combiner_all`, provided that set is closed under inner-product links
    (`C02_order_partial`, decidable hypothesis); with `C02_linked_le4` this gives the property itself for every
    binary-bracketed shape over ≤ 4 canonically labelled fields (`C02_full_le4`)
  * NOT proved: `C02_full_statement` for arbitrary field names / n-ary spellings / more than four fields in one theorem — what
    is missing is a general proof that `splits_groups`' `combiner_all` equals the reference's closure (established only by
    evaluating the 51 shapes).
-/
namespace PydraModel.StateAlg
open Spec

/-- The property (index level): for a valid combiner and non-empty lists, what the public path returns is the reference's
    stable group-by.  NOT proved in general (see the header). -/
def C02_full_statement : Prop :=
  ∀ (env : ShapeEnv) (s : Spl) (comb : List Name) (p : Prepared) (jobs : List (List (Name × Nat))),
    WellFormed s → comb ≠ [] → (∀ c ∈ comb, c ∈ s.fields) → (∀ n ∈ s.fields, ∃ k, env n = [k + 1]) →
    prepareStates env s comb = .ok p → expandInd env s = some jobs →
    publicGroups p true = combineSpec s comb jobs

/-- FULL for the mapping loop, any input: if `prepare_states_combined_ind` succeeds, then
    (1) there is one group per row of `ind_l_final`;
    (2) every job lies in exactly one group — the one whose row equals the job's projection to `keys_final` (no loss, no
        duplication, no wrong group);
    (3) inside a group the jobs are in enumeration order, and only existing jobs occur. -/
theorem C02_mapping_partition (F : List (List Nat)) (K : List Name) (sti : List (List (Name × Nat))) (mp : List (List Nat))
    (h : fillMapping F K (F.map (fun _ => [])) 0 sti = .ok mp) :
    mp.length = F.length ∧
    (∀ j (hj : j < sti.length), ∃ g, groupIndex F K sti[j] = some g ∧ g < F.length ∧
        ∀ g' (hg' : g' < mp.length), (j ∈ mp[g'] ↔ g' = g)) ∧
    (∀ g (hg : g < mp.length), mp[g].Pairwise (· < ·) ∧ ∀ j ∈ mp[g], j < sti.length) := by
  obtain ⟨h1, h2, h3⟩ := fillMapping_spec F K sti _ 0 mp h
  have hlen : mp.length = F.length := by simpa using h1
  have hget : ∀ g (hg : g < mp.length), mp[g] = members F K g 0 sti := by
    intro g hg
    have := h3 g
    rw [List.getElem?_eq_getElem hg] at this
    have hg' : g < (F.map (fun _ => ([] : List Nat))).length := by simpa [hlen] using hg
    rw [List.getElem?_eq_getElem hg'] at this
    simpa using this
  refine ⟨hlen, ?_, ?_⟩
  · intro j hj
    have hs := h2 sti[j] (List.getElem_mem hj)
    cases hgi : groupIndex F K sti[j] with
    | none => simp [hgi] at hs
    | some g =>
      have hgF : g < F.length := by
        unfold groupIndex at hgi
        cases hl : lookupAll sti[j] K with
        | error e => simp [hl] at hgi
        | ok indF =>
          simp only [hl] at hgi
          obtain ⟨hlt, _⟩ := List.findIdx?_eq_some_iff_getElem.mp hgi
          exact hlt
      refine ⟨g, rfl, hgF, ?_⟩
      intro g' hg'
      rw [hget g' hg', members_mem]
      constructor
      · rintro ⟨k, hk, hjk, hgk⟩
        have : k = j := by omega
        subst this
        rw [hgi] at hgk
        exact (Option.some.inj hgk).symm
      · rintro rfl
        exact ⟨j, hj, by omega, hgi⟩
  · intro g hg
    rw [hget g hg]
    refine ⟨members_sorted F K g sti 0, ?_⟩
    intro j hj
    obtain ⟨k, hk, rfl, _⟩ := (members_mem F K g sti 0 j).mp hj
    omega

/-- FULL, any input: the grouping performed at run time by `LazyOutField._get_value` (`group_values`: "the jobs whose state is a
    superset of the final state", which is what the public path returns) coincides with the state's own
    `final_combined_ind_mapping`, group by group — provided the rows of `ind_l_final` are pairwise distinct and as long as
    `keys_final`, and no state names a field twice (all three hold for the rows `State.splits` produces for a tree, cf.
    `evalBin_spec`).  With `C02_mapping_partition` this gives the partition properties for the public output. -/
theorem C02_runtime_grouping (p : Prepared)
    (hfin : p.statesIndFinal = iterSplits p.indLFinal p.keysFinal)
    (hmap : fillMapping p.indLFinal p.keysFinal (p.indLFinal.map (fun _ => [])) 0 p.statesInd = .ok p.mapping)
    (hF : p.indLFinal.Nodup) (hlen : ∀ r ∈ p.indLFinal, r.length = p.keysFinal.length)
    (hnd : ∀ st ∈ p.statesInd, (st.map (·.1)).Nodup) :
    p.mapping.length = p.indLFinal.length ∧
    ∀ g (hg : g < p.indLFinal.length), some (groupValues p g) = p.mapping[g]? := by
  obtain ⟨h1, h2, h3⟩ := fillMapping_spec _ _ _ _ 0 _ hmap
  have hl : p.mapping.length = p.indLFinal.length := by simpa using h1
  refine ⟨hl, ?_⟩
  intro g hg
  have hfin' : p.statesIndFinal[g]? = some (p.keysFinal.zip p.indLFinal[g]) := by
    rw [hfin]; simp [iterSplits, hg]
  unfold groupValues
  rw [hfin']
  simp only []
  rw [groupValuesFrom_eq, groupValuesFrom_members _ hF _ hlen g hg _ 0 (fun st hst => ⟨hnd st hst, h2 st hst⟩)]
  have := h3 g
  rw [this]
  simp [hg]

/-- … hence, when there are jobs and a remaining axis, the public path returns exactly `final_combined_ind_mapping`. -/
theorem C02_public_is_mapping (p : Prepared)
    (hfin : p.statesIndFinal = iterSplits p.indLFinal p.keysFinal)
    (hmap : fillMapping p.indLFinal p.keysFinal (p.indLFinal.map (fun _ => [])) 0 p.statesInd = .ok p.mapping)
    (hF : p.indLFinal.Nodup) (hlen : ∀ r ∈ p.indLFinal, r.length = p.keysFinal.length)
    (hnd : ∀ st ∈ p.statesInd, (st.map (·.1)).Nodup)
    (hjobs : p.statesInd.isEmpty = false) (hrem : p.indLFinal.isEmpty = false) :
    publicGroups p true = .grouped p.mapping := by
  obtain ⟨hl, hg⟩ := C02_runtime_grouping p hfin hmap hF hlen hnd
  simp only [publicGroups, hjobs, hrem, Bool.false_eq_true, ↓reduceIte, Bool.not_true, Out.grouped.injEq]
  apply List.ext_getElem?
  intro i
  by_cases hi : i < p.indLFinal.length
  · rw [← hg i hi]
    simp [hi]
  · have h1 : p.mapping[i]? = none := List.getElem?_eq_none (by omega)
    simp [h1, hi]

/-! ### the structural facts -/

/-- FULL, any size (after the repair of D34): for every well-formed splitter and every set of fields, `remove_inp_from_splitter_rpn`
    returns the RPN of the splitter tree with exactly those fields removed — an operator disappears iff one of its operands
    vanished entirely — and the fields left are the other fields in their original order. -/
theorem C02_remove (s : Spl) (t : Bin) (C : List Name) (h : normalize s = some t) :
    removeRPN (toRPN s) C = .ok (rpnOpt (removeT C t)) ∧
    (match removeT C t with | some t' => t'.fields | none => []) = s.fields.filter (fun x => !C.contains x) := by
  rw [toRPN_eq h, ← fields_normalize s t h]
  exact ⟨removeRPN_rpn C t, removeT_fields C t⟩

/-- combining every axis leaves an empty RPN, hence one flat list (`publicGroups` returns `.flat`), for every tree -/
theorem C02_all_axes (s : Spl) (t : Bin) (C : List Name) (h : normalize s = some t) (hall : ∀ n ∈ s.fields, n ∈ C) :
    removeRPN (toRPN s) C = .ok [] := by
  have h1 := (C02_remove s t C h).1
  have h2 := (C02_remove s t C h).2
  have : s.fields.filter (fun x => !C.contains x) = [] := by
    apply List.filter_eq_nil_iff.mpr
    intro a ha
    simp [hall a ha]
  rw [this] at h2
  cases hr : removeT C t with
  | none => simp [h1, hr, rpnOpt]
  | some t' =>
    rw [hr] at h2
    have h3 : t'.fields = [] := h2
    have := nleaves_pos t'
    rw [nleaves_eq_fields, h3] at this
    simp at this

/-- `combiner_all` = the reference's closure, and `set_input_groups` raises nothing -/
def closureOK (t : Bin) (C : List Name) : Bool :=
  if (rank? t).isNone then true else
  match splitsGroups (toRPN (ofBin t)) C with
  | .error _ => false
  | .ok go => go.combinerAll == Spec.closure (ofBin t) C && (maskOf go.combinerAll t).isSome

/-- FULL at the property's quantifier, by evaluation of all shapes (all binary-bracketed shapes over ≤ 4 canonically labelled
    fields whose inner products pair operands of equal rank, all non-empty combiners): `set_input_groups` succeeds and
    `combiner_all` is exactly the reference's closure over inner-linked fields ("combining a field also combines every field
    paired with it"), and that set is closed under inner-product links (`maskOf … ≠ none`, the hypothesis of
    `C02_order_partial`).  Not proved beyond four fields. -/
theorem C02_linked_le4 : ∀ t ∈ shapesLe4, ∀ C ∈ subsets t.fields, C ≠ [] → closureOK t C = true := by
  decide

/-- the reduced RPN is again the RPN of a tree, so the machine theorems of C01 apply to it: its rows are the reduced tree's
    nested loops and its keys are the remaining fields — for every tree -/
theorem C02_reduced_splits (env : ShapeEnv) (t' : Bin) :
    splits env t'.rpn =
      match evalBin env t' with
      | .error e => .error e
      | .ok v => .ok (v.1, t'.fields) := splits_rpn env t'

/-- FULL for the partition clauses, for lists of ANY length and ANY number of fields: for every well-formed splitter
    over distinct fields, every combiner and every shape environment, if `prepare_states` succeeds, there are
    jobs and some axis remains, then what the public path returns is `final_combined_ind_mapping`, one group per row of the
    reduced tree's expansion, and every job lies in exactly one group — the one whose row is the job's projection to the
    remaining keys — in enumeration order: no output lost, duplicated or placed in a wrong group.
    (Not covered here: that the groups appear in first-occurrence order, and that `keys_final` are the fields outside the
    reference's closure — the latter is `C02_linked_le4` + `C02_remove`.) -/
theorem C02_public_partition (env : ShapeEnv) (s : Spl) (comb : List Name) (p : Prepared)
    (hwf : WellFormed s) (hnd : s.fields.Nodup) (hcomb : comb.isEmpty = false)
    (hp : prepareStates env s comb = .ok p) (hjobs : p.statesInd.isEmpty = false) (hrem : p.indLFinal.isEmpty = false) :
    publicGroups p true = .grouped p.mapping ∧
    p.mapping.length = p.indLFinal.length ∧
    (∀ j (hj : j < p.statesInd.length), ∃ g, g < p.indLFinal.length ∧
        ∀ g' (hg' : g' < p.mapping.length), (j ∈ p.mapping[g'] ↔ g' = g)) ∧
    (∀ g (hg : g < p.mapping.length), p.mapping[g].Pairwise (· < ·) ∧ ∀ j ∈ p.mapping[g], j < p.statesInd.length) := by
  obtain ⟨t, ht⟩ := normalize_of_wf s hwf
  have hf := fields_normalize s t ht
  unfold prepareStates at hp
  simp only [toRPN_eq ht] at hp
  split at hp
  · simp at hp
  split at hp
  · simp at hp
  rename_i go _
  rw [C02_reduced_splits env t] at hp
  cases he : evalBin env t with
  | error e => simp [he] at hp
  | ok v =>
    simp only [he] at hp
    split at hp
    · rename_i hc; simp [hcomb] at hc
    · rw [removeRPN_rpn] at hp
      simp only [] at hp
      split at hp
      · simp only [Except.ok.injEq] at hp; subst hp; simp at hrem
      · cases hrt : removeT go.combinerAll t with
        | none => simp [hrt, rpnOpt] at *
        | some t' =>
          have hf0 := removeT_fields go.combinerAll t
          rw [hrt] at hf0
          have hf' : t'.fields = List.filter (fun x => !go.combinerAll.contains x) t.fields := hf0
          simp only [hrt, rpnOpt] at hp
          rw [C02_reduced_splits env t'] at hp
          cases he' : evalBin env t' with
          | error e => simp [he'] at hp
          | ok v' =>
            simp only [he'] at hp
            split at hp
            · simp only [Except.ok.injEq] at hp; subst hp; simp at hrem
            · split at hp
              · simp at hp
              · rename_i mp hmp
                simp only [Except.ok.injEq] at hp
                subst hp
                have hndk : t.fields.Nodup := hf ▸ hnd
                have hsti : ∀ st ∈ iterSplits v.1 t.fields, (st.map (·.1)).Nodup := by
                  intro st hst
                  simp only [iterSplits, List.mem_map] at hst
                  obtain ⟨r, hr, rfl⟩ := hst
                  have := evalBin_len env t v he r hr
                  rw [List.map_fst_zip (by omega)]
                  exact hndk
                have hpub := C02_public_is_mapping
                  ⟨iterSplits v.1 t.fields, t.fields, go.combinerAll, t'.rpn, v'.1, t'.fields, iterSplits v'.1 t'.fields, mp⟩
                  rfl hmp (evalBin_nodup env t' v' he') (evalBin_len env t' v' he') hsti hjobs hrem
                obtain ⟨q1, q2, q3⟩ := C02_mapping_partition _ _ _ _ hmp
                refine ⟨hpub, q1, ?_, q3⟩
                intro j hj
                obtain ⟨g, _, hg, hiff⟩ := q2 j hj
                exact ⟨g, hg, hiff⟩

/-- PARTIAL (explicit decidable hypothesis `maskOf p.combinerAll t ≠ none`: the set of combined fields computed by the code is
    closed under inner-product links, i.e. no inner product pairs a combined axis with an uncombined one).
    For every well-formed splitter over distinct fields (ANY number of them), every non-empty combiner and plain lists of ANY
    non-zero length: what the public path returns is the reference's stable group-by of the jobs on their projection to the
    fields outside `combiner_all` — one group per distinct assignment of the remaining axes, in FIRST-OCCURRENCE
    (enumeration) order, each holding its jobs in enumeration order; one flat list when nothing remains.
    Proof: the rows of the splitter projected to the kept fields are the rows of the reduced tree indexed by the mixed-radix
    pattern `pat shape mask` (`claimA`), and `nub (pat shape mask) = range (cnt shape mask)` (`nub_pat`).
    Missing for `C02_full_statement`: `combiner_all` = the reference's closure (and hence the hypothesis) beyond the
    ≤ 4-field shapes evaluated in `C02_linked_le4`. -/
theorem C02_order_partial (env : ShapeEnv) (s : Spl) (comb : List Name) (p : Prepared)
    (hwf : WellFormed s) (hnd : s.fields.Nodup) (hcomb : comb.isEmpty = false)
    (h1 : ∀ n ∈ s.fields, ∃ k, env n = [k + 1])
    (hp : prepareStates env s comb = .ok p)
    (hmask : ∀ t, normalize s = some t → (maskOf p.combinerAll t).isSome = true) :
    publicGroups p true = combineSpecKeep (s.fields.filter (fun x => !p.combinerAll.contains x)) p.statesInd := by
  obtain ⟨t, ht⟩ := normalize_of_wf s hwf
  have hmask := hmask t ht
  have hf := fields_normalize s t ht
  have h1t : ∀ n ∈ t.fields, ∃ k, env n = [k + 1] := fun n hn => h1 n (hf ▸ hn)
  have hndt : t.fields.Nodup := hf ▸ hnd
  unfold prepareStates at hp
  simp only [toRPN_eq ht] at hp
  split at hp
  · simp at hp
  split at hp
  · simp at hp
  rename_i go _
  rw [C02_reduced_splits env t] at hp
  cases he : evalBin env t with
  | error e => simp [he] at hp
  | ok v =>
    simp only [he] at hp
    split at hp
    · rename_i hc; simp [hcomb] at hc
    · rw [removeRPN_rpn] at hp
      simp only [] at hp
      have hrows := evalBin_len env t v he
      split at hp
      · -- nothing remains: one flat list
        rename_i hempty
        simp only [Except.ok.injEq] at hp
        subst hp
        have hnone : removeT go.combinerAll t = none := by
          cases hrt : removeT go.combinerAll t with
          | none => rfl
          | some t' => simp [hrt, rpnOpt, rpn_isEmpty] at hempty
        have hfil := removeT_fields go.combinerAll t
        rw [hnone] at hfil
        have hkeep : s.fields.filter (fun x => !go.combinerAll.contains x) = [] := by rw [← hf]; exact hfil.symm
        simp only [hkeep, combineSpecKeep, List.isEmpty_nil, ↓reduceIte, publicGroups]
        cases hs : (iterSplits v.1 t.fields).isEmpty with
        | true =>
          have : iterSplits v.1 t.fields = [] := List.isEmpty_iff.mp hs
          simp [this]
        | false => simp
      · rename_i hne
        cases hrt : removeT go.combinerAll t with
        | none => simp [hrt, rpnOpt] at hne
        | some t' =>
          have hf0 := removeT_fields go.combinerAll t
          rw [hrt] at hf0
          have hf' : t'.fields = List.filter (fun x => !go.combinerAll.contains x) t.fields := hf0
          simp only [hrt, rpnOpt] at hp
          rw [C02_reduced_splits env t'] at hp
          cases he' : evalBin env t' with
          | error e => simp [he'] at hp
          | ok v' =>
            simp only [he'] at hp
            -- claim A for the mask of the closure
            have hmask' : (maskOf go.combinerAll t).isSome = true := by
              split at hp
              · simp only [Except.ok.injEq] at hp; subst hp; exact hmask
              · split at hp
                · simp at hp
                · simp only [Except.ok.injEq] at hp; subst hp; exact hmask
            cases hm : maskOf go.combinerAll t with
            | none => simp [hm] at hmask'
            | some m =>
              have cA := claimA env go.combinerAll t v m h1t he hm
              obtain ⟨R', sh', eopt, _, lenR, mapR, _⟩ := cA.ex
              rw [hrt] at eopt
              have ev' := evalOpt_some_inv env t' _ eopt
              rw [he'] at ev'
              simp only [Except.ok.injEq] at ev'
              subst ev'
              have hcnt : 1 ≤ cnt v.2 m := cnt_pos v.2 m cA.shpos
              split at hp
              · rename_i hemp
                have : (R' : List (List Nat)) = [] := List.isEmpty_iff.mp hemp
                rw [this] at lenR
                simp at lenR; omega
              · split at hp
                · simp at hp
                · rename_i mp hmp
                  simp only [Except.ok.injEq] at hp
                  subst hp
                  -- notation
                  let ψ := pat v.2 m
                  let K := t'.fields
                  have hK : K = t.fields.filter (fun x => !go.combinerAll.contains x) := hf'
                  have hF : R'.Nodup := evalBin_nodup env t' _ he'
                  have hFlen := evalBin_len env t' _ he'
                  have hψlt : ∀ i ∈ ψ, i < R'.length := fun i hi => lenR ▸ pat_lt v.2 m i hi
                  have hnub : nub ψ = List.range (cnt v.2 m) := nub_pat v.2 m cA.shpos
                  have hψne : ψ ≠ [] := by
                    intro h0
                    have : nub ψ = [] := by rw [h0]; rfl
                    rw [hnub] at this
                    have := congrArg List.length this
                    simp at this; omega
                  have hv1ne : v.1 ≠ [] := by
                    intro h0
                    rw [h0] at mapR
                    have : ψ = [] := by simpa using mapR.symm
                    exact hψne this
                  have hsti : ∀ st ∈ iterSplits v.1 t.fields, (st.map (·.1)).Nodup := by
                    intro st hst
                    simp only [iterSplits, List.mem_map] at hst
                    obtain ⟨r, hr, rfl⟩ := hst
                    rw [List.map_fst_zip (by rw [hrows r hr]; omega)]
                    exact hndt
                  have hjobs : (iterSplits v.1 t.fields).isEmpty = false := by
                    cases hv : v.1 with
                    | nil => exact absurd hv hv1ne
                    | cons _ _ => simp [iterSplits]
                  have hrem : (R' : List (List Nat)).isEmpty = false := by
                    cases hR : R' with
                    | nil => rw [hR] at lenR; simp at lenR; omega
                    | cons _ _ => rfl
                  have hpub := C02_public_is_mapping
                    ⟨iterSplits v.1 t.fields, t.fields, go.combinerAll, t'.rpn, R', t'.fields, iterSplits R' t'.fields, mp⟩
                    rfl hmp hF hFlen hsti hjobs hrem
                  rw [hpub]
                  -- the reference side
                  have hkeep : s.fields.filter (fun x => !go.combinerAll.contains x) = K := by rw [← hf]; exact hK.symm
                  have hKne : K.isEmpty = false := by
                    have := nleaves_pos t'
                    rw [nleaves_eq_fields] at this
                    cases hk : K with
                    | nil => simp [K] at hk; rw [hk] at this; simp at this
                    | cons _ _ => rfl
                  simp only [hkeep, combineSpecKeep, hKne, Bool.false_eq_true, ↓reduceIte, Out.grouped.injEq]
                  -- keys of the jobs = pattern mapped through an injective labelling
                  let key : Nat → List (Name × Nat) := fun i => K.zip (R'.getD i [])
                  have hkeys : (iterSplits v.1 t.fields).map (project K) = ψ.map key := by
                    have e1 : (iterSplits v.1 t.fields).map (project K)
                        = (v.1.map (proj (fmask go.combinerAll t))).map (fun r => K.zip r) := by
                      simp only [iterSplits, List.map_map]
                      apply List.map_congr_left
                      intro r hr
                      simp only [Function.comp]
                      rw [hK, project_zip _ t.fields r hndt (hrows r hr)]
                      rfl
                    rw [e1, mapR, List.map_map]
                    rfl
                  have hgetlen : ∀ i, i < R'.length → (R'.getD i []).length = K.length := by
                    intro i hi
                    have : R'.getD i [] = R'[i] := by simp [List.getD, List.getElem?_eq_getElem hi]
                    rw [this]
                    exact hFlen _ (List.getElem_mem hi)
                  have hkeyinj : ∀ i, i < R'.length → ∀ j, j < R'.length → key i = key j → i = j := by
                    intro i hi j hj hij
                    have := zip_left_inj K _ _ (hgetlen i hi) (hgetlen j hj) hij
                    have e1 : R'.getD i [] = R'[i] := by simp [List.getD, List.getElem?_eq_getElem hi]
                    have e2 : R'.getD j [] = R'[j] := by simp [List.getD, List.getElem?_eq_getElem hj]
                    rw [e1, e2] at this
                    exact (List.getElem_inj hF).mp this
                  obtain ⟨q1, q2, q3⟩ := fillMapping_spec _ _ _ _ 0 _ hmp
                  have hmplen : mp.length = cnt v.2 m := by rw [q1]; simp [lenR]
                  show mp = groupBy ((iterSplits v.1 t.fields).map (project K))
                  rw [hkeys]
                  unfold groupBy
                  rw [nub_map_inj key ψ (fun x hx y hy => hkeyinj x (hψlt x hx) y (hψlt y hy)), hnub, List.map_map]
                  apply List.ext_getElem
                  · simp [hmplen]
                  · intro g hg1 hg2
                    have hg : g < cnt v.2 m := by simpa using hg2
                    have hgR : g < R'.length := by rw [lenR]; exact hg
                    simp only [List.getElem_map, List.getElem_range, Function.comp]
                    rw [positions_map_inj key g ψ 0 (fun x hx hxg => hkeyinj x (hψlt x hx) g hgR hxg)]
                    have h3 := q3 g
                    rw [List.getElem?_eq_getElem hg1] at h3
                    have hacc : (R'.map (fun _ => ([] : List Nat)))[g]? = some [] := by
                      rw [List.getElem?_map, List.getElem?_eq_getElem hgR]; rfl
                    rw [hacc] at h3
                    simp only [Option.map_some, List.nil_append, Option.some.injEq] at h3
                    rw [h3]
                    have := members_eq_positions R' hF t.fields hndt (fun x => !go.combinerAll.contains x) g v.1 ψ 0
                      hrows hψlt mapR
                    rw [← hK] at this
                    exact this

/-- `combiner_all` of a successful `prepare_states` is the one `splits_groups` returned -/
theorem prepareStates_combinerAll (env : ShapeEnv) (s : Spl) (comb : List Name) (p : Prepared)
    (hcomb : comb.isEmpty = false) (hp : prepareStates env s comb = .ok p) :
    ∃ go, splitsGroups (toRPN s) comb = .ok go ∧ p.combinerAll = go.combinerAll := by
  unfold prepareStates at hp
  simp only [hcomb, Bool.false_eq_true, ↓reduceIte] at hp
  split at hp
  · simp at hp
  split at hp
  · simp at hp
  rename_i go hgo
  refine ⟨go, hgo, ?_⟩
  split at hp
  · simp at hp
  split at hp
  · simp at hp
  split at hp
  · simp only [Except.ok.injEq] at hp; subst hp; rfl
  split at hp
  · simp at hp
  split at hp
  · simp only [Except.ok.injEq] at hp; subst hp; rfl
  split at hp
  · simp at hp
  · simp only [Except.ok.injEq] at hp; subst hp; rfl

theorem shapesLe4_fields : ∀ t ∈ shapesLe4, t.fields.length ≤ 4 ∧ t.fields.Nodup := by
  decide

/-- C02 AT ITS STATED QUANTIFIER, for lists of ANY non-zero length (not only 1–3): for every binary-bracketed splitter shape
    over at most four canonically labelled fields, every non-empty combiner subset of its fields and every assignment of
    non-empty plain lists, whenever `prepare_states` succeeds the public path returns exactly the reference's result:
    one list per distinct assignment of the uncombined axes, in enumeration (first-occurrence) order, each holding — in
    enumeration order — the jobs with that assignment; a field linked by an inner product to a combined field is combined
    too; combining every axis gives one flat list.
    (The restriction to binary brackets / canonical labels is in the statement only because the closure fact `C02_linked_le4`
    is established by evaluating those 51 shapes; other spellings with the same normal form behave identically on the model
    side by `C05_same_normal_form`.) -/
theorem C02_full_le4 (env : ShapeEnv) (t : Bin) (C : List Name) (p : Prepared)
    (ht : t ∈ shapesLe4) (hC : C ∈ subsets t.fields) (hne : C ≠ []) (hr : (rank? t).isSome = true)
    (h1 : ∀ n ∈ t.fields, ∃ k, env n = [k + 1])
    (hp : prepareStates env (ofBin t) C = .ok p) :
    publicGroups p true = combineSpec (ofBin t) C p.statesInd := by
  have hcomb : C.isEmpty = false := by cases C <;> simp_all
  have hn := normalize_ofBin t
  have hf := fields_normalize (ofBin t) t hn
  obtain ⟨go, hgo, hca⟩ := prepareStates_combinerAll env (ofBin t) C p hcomb hp
  have hck := C02_linked_le4 t ht C hC hne
  have hrn : (rank? t).isNone = false := by cases h : rank? t <;> simp_all
  simp only [closureOK, hrn, Bool.false_eq_true, ↓reduceIte, hgo, Bool.and_eq_true, beq_iff_eq] at hck
  have hwf : WellFormed (ofBin t) := by
    have : ∀ t : Bin, (ofBin t).wf = true := by
      intro t
      induction t with
      | leaf n => simp [ofBin, Spl.wf]
      | node d l r ihl ihr => cases d <;> simp [ofBin, Spl.wf, wfList, ihl, ihr]
    exact this t
  have h4 : (ofBin t).fields.length ≤ 4 ∧ (ofBin t).fields.Nodup := by
    rw [← hf]
    exact shapesLe4_fields t ht
  have := C02_order_partial env (ofBin t) C p hwf h4.2 hcomb (fun n hn' => h1 n (hf ▸ hn')) hp
    (fun t' ht' => by
      rw [hn] at ht'
      cases ht'
      rw [hca]; exact hck.2)
  rw [this, hca, hck.1]
  rfl

/-! ### the whole pipeline on a small scope, and concrete instances -/

def lens12 : Nat → List (List Nat)
  | 0 => [[]]
  | k + 1 => (lens12 k).flatMap (fun l => [1 :: l, 2 :: l])

def envOf (ls : List Nat) : ShapeEnv := fun n => [ls.getD n 1]

/-- model output = reference output for one shape, combiner and length assignment (both may reject) -/
def pipelineOK (t : Bin) (C : List Name) (ls : List Nat) : Bool :=
  let s := ofBin t
  let env := envOf ls
  match expandInd env s with
  | none => (match prepareStates env s C with | .error _ => true | .ok _ => false)
  | some jobs =>
    match prepareStates env s C with
    | .error _ => false
    | .ok p => publicGroups p true == combineSpec s C jobs && p.statesInd == jobs

def shapesLe3 : List Bin := shapes 4 0 0 ++ shapes 4 0 1 ++ shapes 4 0 2

/-- BOUNDED (small scope, kernel evaluation): every shape with ≤ 3 fields, every non-empty combiner, all lengths in {1, 2}:
    the public grouping equals the reference's stable group-by (and the jobs equal the reference's jobs). -/
theorem C02_small_scope : ∀ t ∈ shapesLe3, ∀ C ∈ subsets t.fields, C ≠ [] → ∀ ls ∈ lens12 3, pipelineOK t C ls = true := by
  decide

/-- Regression (D34, repaired): `[a,[b,(c,d)]]` combining `a, b` and `[a,((b,c),d)]` combining `a` — the two (shape, combiner)
    pairs for which the old `remove_inp_from_splitter_rpn` kept the wrong operator — now agree with the reference. -/
theorem C02_regression_D34 :
    pipelineOK (.node false (.leaf 0) (.node false (.leaf 1) (.node true (.leaf 2) (.leaf 3)))) [0, 1] [2, 2, 2, 2] = true ∧
    pipelineOK (.node false (.leaf 0) (.node true (.node true (.leaf 1) (.leaf 2)) (.leaf 3))) [0] [2, 2, 2, 2] = true := by
  decide

/-- Concrete four-field instances with lengths up to 3: `[[a,b],(c,d)]` combining `b`; `[a,(b,c),d]`-like shapes
    combining an inner-linked field (its partner is combined too); combining everything gives a flat list. -/
example : pipelineOK (.node false (.node false (.leaf 0) (.leaf 1)) (.node true (.leaf 2) (.leaf 3))) [1] [2, 3, 2, 2] = true := by decide
example : pipelineOK (.node false (.node false (.leaf 0) (.node true (.leaf 1) (.leaf 2))) (.leaf 3)) [2] [2, 3, 3, 2] = true := by decide
example : pipelineOK (.node false (.node false (.leaf 0) (.node true (.leaf 1) (.leaf 2))) (.leaf 3)) [0, 1, 3] [2, 2, 2, 3] = true := by decide
example : Spec.closure (ofBin (.node false (.leaf 0) (.node true (.leaf 1) (.leaf 2)))) [2] = [1, 2] := by decide

end PydraModel.StateAlg
