import PydraModel.Argv.AssemblyLemmas
import PydraModel.Argv.ParseLemmas
import PydraModel.Argv.LowerLemmas
/-
C22 — Shell argument vector follows the documented field semantics.

Model: `runDef` = `shell.define`'s slot filling (`definePositions`) followed by `ShellTask._command_args`
(`commandArgs`: per-field string building + `split_cmd`, `position_sort`).  Reference: `Spec.commandArgs`
(executable, the set fields' documented arguments in documented order, appended arguments).
Property theorems only; lemmas are in `Argv/*Lemmas.lean`.

FULL statement (kept visible; NOT provable on the pinned tree: D26, D41, D42 — see the witnesses):
  `C22_full_statement` below, i.e. `C22_commandArgs_partial` without its three excluding hypotheses.
-/
namespace PydraModel.Argv
open List

/-- harmless definition and values for one field, without the D41/D42 exclusions -/
structure SafeFieldBase (env : Env) (f : Field) (a : Argstr) (v : Value) : Prop where
  wf : a.raw.contains '{' = a.templated
  sep : ArgStr f.sep
  vals : match v with
    | .unset => True
    | .one x => SafeScalar x ∧ SafeSegs (env.set f.name x.render) a.segs
    | .many vs => (∀ x ∈ vs, SafeScalar x ∧ SafeSegs (env.set f.name x.render) a.segs)
                  ∧ (f.isMulti = true ∨ vs ≠ [])
                  ∧ SafeSegs (env.set f.name (joinWith f.sep (vs.map Scalar.render))) a.segs

def C22_full_statement : Prop :=
  ∀ (exe app : List Str) (fs : List Field) (vs : List Value) (filled : List Int),
    definePositions (fs.map (·.position)) = .ok filled → vs.length = fs.length →
    (∀ t ∈ (triples fs filled vs).filter Triple.live,
        ∃ a, t.1.argstr = some a ∧ SafeFieldBase (Spec.envOfDef fs vs) t.1 a t.2.2) →
    runDef exe fs vs app = .ok (Spec.commandArgs exe fs vs app)

/-- PARTIAL (missing: D26 = implicit slot below an explicit position; D41 = falsy value under a plain
    argstr; D42 = `...` with a non-blank separator — the last two are inside `SafeField`).
    For every definition (any number of fields of any kind, any positions) accepted by `shell.define`
    and every assignment of harmless values (any list and string lengths):
    the argument vector is the executable, then the documented arguments of the set fields in the
    documented order, then the appended arguments — and no error is raised on the way. -/
theorem C22_commandArgs_partial (exe app : List Str) (fs : List Field) (vs : List Value) (filled : List Int)
    (hdef : definePositions (fs.map (·.position)) = .ok filled) (hlen : vs.length = fs.length)
    (hsafe : ∀ t ∈ (triples fs filled vs).filter Triple.live,
        ∃ a, t.1.argstr = some a ∧ SafeField (Spec.envOfDef fs vs) t.1 a t.2.2)
    (h26 : NoImplicitBelowExplicit (triples fs filled vs)) :
    runDef exe fs vs app = .ok (Spec.commandArgs exe fs vs app) :=
  runDef_eq_spec exe app fs vs filled hdef hlen hsafe h26

/-! ### the argstr TEXT: `parseArgstr` ties what users write to the segment lists of the theorems -/

/-- ROUND TRIP (FULL, every text the parser accepts): the parsed argstr keeps the raw text, `dots` is
    `endswith("...")`, and the segments render back to the text with its `...` removed
    (`argstr.replace("...", "")`, the string `_format_arg` works on). -/
theorem C22_parse_roundtrip {raw : Str} {a : Argstr} (h : parseArgstr raw = .ok a) :
    a.raw = raw ∧ a.dots = endsWithDots raw ∧ unparse a.segs = removeDots raw := parseArgstr_unparse h

/-- FULL: "templated" on the segments is `"{" in argstr` on the text (so `SafeField.wf` always holds for parsed text) -/
theorem C22_parse_wf {raw : Str} {a : Argstr} (h : parseArgstr raw = .ok a) :
    a.raw.contains '{' = a.templated := parseArgstr_wf h

/-- FULL: literal pieces are non-empty, brace-free pieces of the text; reference keys non-empty, brace-free -/
theorem C22_parse_pieces {raw : Str} {a : Argstr} (h : parseArgstr raw = .ok a) :
    (∀ l, Seg.lit l ∈ a.segs → l ≠ [] ∧ '{' ∉ l ∧ '}' ∉ l ∧ ∀ c ∈ l, c ∈ raw)
    ∧ (∀ n, Seg.ref n ∈ a.segs → n ≠ [] ∧ '{' ∉ n ∧ '}' ∉ n) := parseArgstr_pieces h

/-- FULL: brace-free text is accepted and is one literal piece -/
theorem C22_parse_plain (raw : Str) (h1 : '{' ∉ raw) (h2 : '}' ∉ raw) :
    parseArgstr raw = .ok ⟨raw, endsWithDots raw, if (removeDots raw).isEmpty then [] else [.lit (removeDots raw)]⟩ :=
  parseArgstr_plain raw h1 h2

/-- `C22_commandArgs_partial` stated on the argstr text users write: every set field's argstr is the
    parse of a harmless text (`SafeFieldText`: plain characters, spaces and `{key}` references that resolve
    to harmless values) — no assumption about segment lists is left. -/
theorem C22_commandArgs_text_partial (exe app : List Str) (fs : List Field) (vs : List Value) (filled : List Int)
    (hdef : definePositions (fs.map (·.position)) = .ok filled) (hlen : vs.length = fs.length)
    (hsafe : ∀ t ∈ (triples fs filled vs).filter Triple.live,
        ∃ raw a, t.1.argstr = some a ∧ SafeFieldText (Spec.envOfDef fs vs) t.1 raw a t.2.2)
    (h26 : NoImplicitBelowExplicit (triples fs filled vs)) :
    runDef exe fs vs app = .ok (Spec.commandArgs exe fs vs app) :=
  runDef_eq_spec exe app fs vs filled hdef hlen
    (fun t ht => by obtain ⟨raw, a, ha, hs⟩ := hsafe t ht; exact ⟨a, ha, hs.toSafeField⟩) h26

/-- Order refinement alone (any payloads): slot filling followed by `position_sort` gives the documented
    order whenever no unpositioned field got a slot below an explicitly positioned one. -/
theorem C22_order_partial {β : Type} (xs : List (Item β)) (hok : OrderOK xs) :
    positionSort (filledEntries xs) = Spec.ordered (userEntries xs) :=
  positionSort_filled_eq_ordered xs hok

/-- what `shell.define` guarantees about the positions it assigns (any number of fields): pairwise
    different, none equal to the executable's 0, taken from an increasing stack of free slots -/
theorem C22_define_positions (ps : List (Option Int)) (filled : List Int) (h : definePositions ps = .ok filled) :
    filled.Nodup ∧ (0 : Int) ∉ filled ∧ filled.length = ps.length := by
  obtain ⟨stack, hfill, _, _, hnd, h0⟩ := define_spec ps filled h
  exact ⟨hnd, h0, fill_length ps stack filled hfill⟩

/-! ### `position_sort` is a sorted, stable permutation (FULL, for every input) -/

theorem C22_positionSort_shape {α : Type} (l : List (Option Int × α)) :
    positionSort l = (isortL (nonnegOf l)).map (·.2) ++ noneOf l ++ (isortL (negOf l)).map (·.2) :=
  positionSort_eq l

theorem C22_positionSort_sorted {α : Type} (l : List (Int × α)) : (isortL l).Pairwise (fun a b => a.1 ≤ b.1) :=
  isortL_sorted l

theorem C22_positionSort_perm {α : Type} (l : List (Int × α)) : Perm (isortL l) l := isortL_perm l

theorem C22_positionSort_stable {α : Type} (l : List (Int × α)) (k : Int) :
    (isortL l).filter (fun x => x.1 == k) = l.filter (fun x => x.1 == k) := isortL_stable l k

/-- `position_sort` IS the documented order when the explicit positions are pairwise different
    (which `shell.define` and `_command_pos_args` both enforce). -/
theorem C22_order {α : Type} (l : List (Option Int × α)) (hn : (l.filterMap (·.1)).Nodup) :
    positionSort l = Spec.ordered l := by
  rw [positionSort_eq, isortL_eq_sortAsc _ (hn.sublist (nonneg_keys_sublist l)),
    isortL_eq_sortAsc _ (hn.sublist (neg_keys_sublist l))]
  unfold Spec.ordered
  rw [nonnegOf_eq_sel]
  rfl

/-! ### omission, flags, lists (corollaries at field level) -/

/-- an unset (None) field and an empty multi-input do not take part in the command at all -/
theorem C22_omit_unset (f : Field) (p : Option Int) : (Bound.mk f p .unset).live = false := by
  simp [Bound.live]

theorem C22_omit_empty_multi (f : Field) (p : Option Int) (h : f.isMulti = true) :
    (Bound.mk f p (.many [])).live = false := by
  simp [Bound.live, h]

theorem C22_omit_no_argstr (f : Field) (p : Option Int) (v : Value) (h : f.argstr = none) :
    (Bound.mk f p v).live = false := by
  simp [Bound.live, h]

/-- a field that does not take part adds nothing to the loop of `_command_args` -/
theorem C22_omit_skipped (env : Env) (prov : List Int) (b : Bound) (bs : List Bound) (h : b.live = false) :
    buildEntries env prov (b :: bs) = buildEntries env prov bs := by
  simp only [buildEntries, h]
  cases b.fld.argstr <;> rfl

/-- a False flag contributes nothing, a True flag contributes exactly its argstr -/
theorem C22_flag (env : Env) (f : Field) (a : Argstr) (hb : f.isBool = true) (hp : a.raw.contains '{' = false) :
    fieldArgs env f a (.one (.bool false)) = .ok [] ∧ fieldArgs env f a (.one (.bool true)) = .ok [a.raw] := by
  unfold fieldArgs
  rw [hp]
  simp [hb]

/-- the test that selects the flag branch, `tp is bool`, looks at the type with `| None` unwrapped … -/
theorem C22_tp_unwrap (f : Field) : f.tpIsBool = f.isBool := tpIsBool_eq f

/-- … so an OPTIONAL flag (`bool | None`) is a flag: False (and None, see `C22_omit_unset`) give nothing, True
    gives exactly the argstr — although the declared type itself is not `bool` (`typeIsBool = false`: testing
    `fld.type is bool` without the unwrapping would send it to `_format_arg` and print `-q True`). -/
theorem C22_flag_optional (env : Env) (f : Field) (a : Argstr) (ho : f.optional = true) (hb : f.isBool = true)
    (hp : a.raw.contains '{' = false) :
    f.typeIsBool = false ∧ f.tpIsBool = true
    ∧ fieldArgs env f a (.one (.bool false)) = .ok [] ∧ fieldArgs env f a (.one (.bool true)) = .ok [a.raw] := by
  refine ⟨by simp [Field.typeIsBool, ho], by rw [tpIsBool_eq]; exact hb, ?_⟩
  exact C22_flag env f a hb hp

/-- the class form differs from the `inputs=[…]` form only by visiting the fields in name order -/
theorem C22_classForm_sorted (F : FormatterFn) (xenv : Env) (cd : Str) (exe app : List Str)
    (fxs : List FieldX) (vs : List ValueX) (hl : vs.length = fxs.length)
    (h1 : (zipX fxs vs).filter (fun p => !p.1.x.out) ++ (zipX fxs vs).filter (fun p => p.1.x.out) = zipX fxs vs)
    (h2 : ((zipX fxs vs).filter (fun p => !p.1.x.out)).Pairwise (fun p q => strLE p.1.base.name q.1.base.name = true))
    (h3 : ((zipX fxs vs).filter (fun p => p.1.x.out)).Pairwise (fun p q => strLE p.1.base.name q.1.base.name = true)) :
    runDefForm true F xenv cd exe fxs vs app = runDefForm false F xenv cd exe fxs vs app := by
  have hz : ∀ (fs : List FieldX) (ws : List ValueX), ws.length = fs.length →
      (zipX fs ws).map (·.1) = fs ∧ (zipX fs ws).map (·.2) = ws := by
    intro fs
    induction fs with
    | nil => intro ws h; cases ws <;> simp_all [zipX]
    | cons f fs ih =>
      intro ws h
      cases ws with
      | nil => simp at h
      | cons w ws => have := ih ws (by simpa using h); simp [zipX, this.1, this.2]
  simp only [runDefForm, if_true, Bool.false_eq_true, if_false, classOrder_id _ h1 h2 h3, (hz fxs vs hl).1, (hz fxs vs hl).2]

/-- `...`: the argstr is repeated for every element -/
theorem C22_list_repeated (env : Env) (f : Field) (a : Argstr) (vs : List Scalar)
    (h : SafeField env f a (.many vs)) (hb : f.isBool = false) (hd : a.dots = true) :
    fieldArgs env f a (.many vs) = .ok (vs.flatMap (Spec.scalarArgs env f.name a)) := by
  rw [fieldArgs_spec env f a _ h]
  simp [Spec.fieldArgs, Spec.manyArgs, hb, hd]

/-- no `...`: one value, the elements joined with the separator -/
theorem C22_list_joined (env : Env) (f : Field) (a : Argstr) (vs : List Scalar)
    (h : SafeField env f a (.many vs)) (hb : f.isBool = false) (hd : a.dots = false) (hm : f.isMulti = false)
    (ht : a.templated = false) :
    fieldArgs env f a (.many vs) =
      .ok (words (litText a.segs) ++ words (joinWith f.sep (vs.map Scalar.render))) := by
  rw [fieldArgs_spec env f a _ h]
  simp [Spec.fieldArgs, Spec.manyArgs, hb, hd, hm, ht]

/-- a set scalar under a plain argstr: the argstr's words, then the value as one argument -/
theorem C22_scalar_plain (env : Env) (f : Field) (a : Argstr) (x : Scalar)
    (h : SafeField env f a (.one x)) (hb : f.isBool = false) (ht : a.templated = false) :
    fieldArgs env f a (.one x) = .ok (words (litText a.segs) ++ [x.render]) := by
  rw [fieldArgs_spec env f a _ h]
  simp [Spec.fieldArgs, Spec.scalarArgs, hb, ht]

/-! ### the extended model (`Argv/ModelX.lean`): formatter=, allowed_values, readonly, bool on a File-union,
conversions / format specs, outargs with a path_template, values with braces -/

/-- PARTIAL (same three exclusions as `C22_commandArgs_partial`, on the lowered definition): once
    `shell.define` accepts the definition, the values pass `allowed_values` / template resolution / the
    mandatory rule (`prepare`) and every field is lowered (`lowerField`: formatter called with its documented
    arguments, bool on a File-union dropped, NOTHING on a readonly field, resolved output path, value
    re-parsed as format text), the argument vector is executable ++ documented arguments of the lowered
    fields in documented order ++ append_args, for any formatter functions `F` and any `format()` results `xenv`. -/
theorem C22_extended_partial (F : FormatterFn) (xenv : Env) (cd : Str) (exe app : List Str)
    (fxs : List FieldX) (vs : List ValueX) (filled : List Int)
    (pairs : List (FieldX × ValueX)) (low : List (Field × Value))
    (hdef : definePositions (fxs.map (·.base.position)) = .ok filled)
    (hprep : prepare cd fxs vs = .ok pairs)
    (hlow : mapE (fun p => lowerField F (inputsOf pairs) p.1 p.2) pairs = .ok low)
    (hpos : (low.map (·.1)).map (·.position) = fxs.map (·.base.position))
    (hsafe : ∀ t ∈ (triples (low.map (·.1)) filled (low.map (·.2))).filter Triple.live,
        ∃ a, t.1.argstr = some a ∧ SafeField (envX (inputsOf pairs) xenv) t.1 a t.2.2)
    (h26 : NoImplicitBelowExplicit (triples (low.map (·.1)) filled (low.map (·.2)))) :
    runDefX F xenv cd exe fxs vs app
      = .ok (Spec.commandArgsWith (envX (inputsOf pairs) xenv) exe (low.map (·.1)) (low.map (·.2)) app) :=
  runDefX_eq_spec F xenv cd exe app fxs vs filled pairs low hdef hprep hlow hpos hsafe h26

/-- FULL: lowering never touches a position (so `hpos` above only needs the lengths to agree) -/
theorem C22_lower_position (F : FormatterFn) (inputs : List (Str × ValueX)) (fx : FieldX) (v : ValueX)
    (r : Field × Value) (h : lowerField F inputs fx v = .ok r) : r.1.position = fx.base.position :=
  lowerField_position F inputs fx v r h

/-- FULL (C22's omission clause): a `bool` on a File-union field contributes nothing -/
theorem C22_omit_fileunion_bool (F : FormatterFn) (inputs : List (Str × ValueX)) (fx : FieldX) (b : Bool)
    (h : fx.x.fileUnion = true) : lowerField F inputs fx (.v (.one (.bool b))) = .ok (fx.base, .unset) :=
  lower_fileUnion_bool F inputs fx b h

/-- FULL: what is passed to a `formatter`: per parameter name, the field / the values dict / that input's
    value (an error when it is not a set input) -/
theorem C22_formatter_args (fx : FieldX) (inputs : List (Str × ValueX)) (names : List Str) (args : List FArg)
    (h : formatterArgs fx inputs names = .ok args) :
    args.length = names.length ∧ ∀ i (hi : i < names.length) (hi' : i < args.length),
      (names[i] = "field".toList → args[i] = .field fx)
      ∧ (names[i] ≠ "field".toList → names[i] = "inputs".toList → args[i] = .inputs inputs)
      ∧ (names[i] ≠ "field".toList → names[i] ≠ "inputs".toList →
          ∃ v, lookupX inputs names[i] = some v ∧ args[i] = .val v) :=
  formatterArgs_spec fx inputs names args h

/-- FULL: … and where its result lands: stripped, double blanks squeezed, re-tokenised by `split_cmd` as
    the field's whole contribution at the field's position (nothing when empty), for ANY function `F` -/
theorem C22_formatter_lands (F : FormatterFn) (env : Env) (inputs : List (Str × ValueX)) (fx : FieldX) (v : ValueX)
    (names : List Str) (args : List FArg) (hf : fx.x.formatter = some names)
    (hd : droppedX fx v = false) (hro : fx.x.readonly = false) (ha : formatterArgs fx inputs names = .ok args) :
    ∃ lf a, lowerField F inputs fx v = .ok (lf, .one (.str (squeeze (F fx.base.name args))))
      ∧ lf.argstr = some a ∧ lf.position = fx.base.position
      ∧ fieldArgs env lf a (.one (.str (squeeze (F fx.base.name args))))
          = (if (squeeze (F fx.base.name args)).isEmpty then .ok [] else splitCmd (squeeze (F fx.base.name args))) :=
  ⟨_, _, lower_formatter F inputs fx v names args hf hd hro ha, rfl, rfl, formatter_lands env fx.base _⟩

/-- FULL: a value given to a `readonly` field is refused; left unset it takes part with `str(attrs.NOTHING)` (falsy) -/
theorem C22_readonly (F : FormatterFn) (inputs : List (Str × ValueX)) (fx : FieldX) (s : Str)
    (hro : fx.x.readonly = true) (hfo : fx.x.formatter = none) (ha : fx.base.argstr.isSome = true) :
    lowerField F inputs fx (.v (.one (.str s))) = .error .readonlyGiven
    ∧ lowerField F inputs fx .nothing = .ok (fx.base, .one nothingScalar) :=
  ⟨lower_readonly_given F inputs fx s hro ha, lower_readonly_nothing F inputs fx hfo ha⟩

/-- FULL: an outarg left at `True` holds the path `PathTemplate.resolve` computes for its `path_template` -/
theorem C22_outarg_template (cd : Str) (all : List (Str × PathTemplate.Val)) (fx : FieldX) (t : TemplateX) (p : Str)
    (ht : fx.x.template = some t)
    (hr : PathTemplate.resolve cd ⟨t.tmpl, all, t.keep, false⟩ .template = .ok (.one p)) :
    resolveOne cd all fx (.v (.one (.bool true))) = .ok (.v (.one (.path p))) :=
  resolveOne_template cd all fx t p ht hr

/-- CONSERVATIVITY (field level): a base field with brace-free value text is lowered to itself -/
theorem C22_lower_base (F : FormatterFn) (inputs : List (Str × ValueX)) (f : Field) (v : Value)
    (hb : match v with
      | .unset => True
      | .one x => hasBrace x.render = false
      | .many xs => (∀ x ∈ xs, hasBrace x.render = false) ∧ hasBrace (joinWith f.sep (xs.map Scalar.render)) = false) :
    lowerField F inputs ⟨f, {}⟩ (.v v) = .ok (f, if (Bound.mk f none v).live then v else .unset) :=
  lower_base F inputs f v hb

/-! ### witnesses -/

def mkPlain (raw : String) : Argstr := ⟨raw.toList, false, [.lit raw.toList]⟩
def fldA : Field := ⟨"a".toList, false, false, some (mkPlain "-a"), none, [' '], false⟩
def fldB : Field := ⟨"b".toList, false, false, some (mkPlain "-b"), some 2, [' '], false⟩
def sv (s : String) : Value := .one (.str s.toList)

/-- D26: `a` (no position) defined before `b` (position 2) is emitted before it; documented: after it. -/
theorem C22_witness_D26 :
    runDef ["exe".toList] [fldA, fldB] [sv "A", sv "B"] []
      = .ok ["exe".toList, "-a".toList, "A".toList, "-b".toList, "B".toList]
    ∧ Spec.commandArgs ["exe".toList] [fldA, fldB] [sv "A", sv "B"] []
      = ["exe".toList, "-b".toList, "B".toList, "-a".toList, "A".toList]
    ∧ definePositions [none, some 2] = .ok [1, 2]
    ∧ ¬ NoImplicitBelowExplicit (triples [fldA, fldB] [1, 2] [sv "A", sv "B"]) := by
  refine ⟨by decide, by decide, by decide, by decide⟩

def fldN : Field := ⟨"n".toList, false, false, some (mkPlain "-n"), none, [' '], false⟩
/-- D41: the value 0 (here 0.0) under a plain argstr vanishes together with its flag -/
theorem C22_witness_D41 :
    runDef ["exe".toList] [fldN] [.one (.float "0.0".toList true)] [] = .ok ["exe".toList]
    ∧ Spec.commandArgs ["exe".toList] [fldN] [.one (.float "0.0".toList true)] []
      = ["exe".toList, "-n".toList, "0.0".toList] := by
  refine ⟨by decide, by decide⟩

/-- … and so does the integer 0 -/
theorem C22_witness_D41_int :
    runDef ["exe".toList] [fldN] [.one (.int 0)] [] = .ok ["exe".toList]
    ∧ Spec.commandArgs ["exe".toList] [fldN] [.one (.int 0)] [] = ["exe".toList, "-n".toList, "0".toList] := by
  refine ⟨by decide, by decide⟩

def fldG : Field := ⟨"g".toList, false, false, some ⟨"-g...".toList, true, [.lit "-g".toList]⟩, none, [','], false⟩
/-- D42: `...` with separator ",": the separator is glued to the elements -/
theorem C22_witness_D42 :
    runDef ["exe".toList] [fldG] [.many [.str "a".toList, .str "b".toList]] []
      = .ok ["exe".toList, "-g".toList, "a,".toList, "-g".toList, "b".toList]
    ∧ Spec.commandArgs ["exe".toList] [fldG] [.many [.str "a".toList, .str "b".toList]] []
      = ["exe".toList, "-g".toList, "a".toList, "-g".toList, "b".toList] := by
  refine ⟨by decide, by decide⟩

def fxZ : FieldX := ⟨⟨"zz".toList, false, false, some (mkPlain "-z"), none, [' '], false⟩, {}⟩
def fxA : FieldX := ⟨⟨"aa".toList, false, false, some (mkPlain "-a"), none, [' '], false⟩, {}⟩
/-- D45: written as a class, `zz` before `aa`, the fields are visited in name order and `aa` comes first -/
theorem C22_witness_D45 :
    runDefForm true (fun _ _ => []) (fun _ => none) [] ["exe".toList] [fxZ, fxA] [.v (sv "Z"), .v (sv "A")] []
      = .ok (["exe", "-a", "A", "-z", "Z"].map String.toList)
    ∧ runDefForm false (fun _ _ => []) (fun _ => none) [] ["exe".toList] [fxZ, fxA] [.v (sv "Z"), .v (sv "A")] []
      = .ok (["exe", "-z", "Z", "-a", "A"].map String.toList) := by
  refine ⟨by decide, by decide⟩

def fldQ : Field := { name := "q".toList, isBool := true, isMulti := false, argstr := some (mkPlain "-q"), position := none, sep := [' '], optional := true }
/-- an optional flag set to True prints its flag, not `-q True` -/
example : runDef ["tool".toList] [fldQ] [.one (.bool true)] [] = .ok ["tool".toList, "-q".toList] := by decide
example : runDef ["tool".toList] [fldQ] [.one (.bool false)] [] = .ok ["tool".toList]
    ∧ runDef ["tool".toList] [fldQ] [.unset] [] = .ok ["tool".toList] := by refine ⟨by decide, by decide⟩

/-- hence the full statement fails (by the D26 witness, which satisfies all its hypotheses) -/
theorem C22_witness_not_full : ¬ C22_full_statement := by
  intro h
  have := h ["exe".toList] [] [fldA, fldB] [sv "A", sv "B"] [1, 2] (by decide) rfl (by
    intro t ht
    have ht' : t = (fldA, 1, sv "A") ∨ t = (fldB, 2, sv "B") := by
      revert ht; simp [triples, Triple.live, Triple.toBound, Bound.live, fldA, fldB, sv]
    rcases ht' with rfl | rfl
    · refine ⟨mkPlain "-a", rfl, ⟨by decide, by decide, ?_⟩⟩
      show SafeScalar _ ∧ SafeSegs _ _
      exact ⟨by decide, by decide⟩
    · refine ⟨mkPlain "-b", rfl, ⟨by decide, by decide, ?_⟩⟩
      show SafeScalar _ ∧ SafeSegs _ _
      exact ⟨by decide, by decide⟩)
  rw [C22_witness_D26.1] at this
  have h2 := C22_witness_D26.2.1
  rw [h2] at this
  revert this; decide

/-! ### non-vacuity: a definition with explicit, implicit and negative positions that meets every hypothesis -/

def fldC : Field := ⟨"c".toList, false, false, some ⟨"--c={c}".toList, false, [.lit "--c=".toList, .ref "c".toList]⟩, some (-1), [' '], false⟩
def fldL : Field := ⟨"l".toList, false, false, some ⟨"-l...".toList, true, [.lit "-l".toList]⟩, none, [' '], false⟩
def fldP : Field := ⟨"p".toList, false, false, some (mkPlain "-p"), some 1, [' '], false⟩

example : definePositions ([fldP, fldL, fldC].map (·.position)) = .ok [1, 2, -1] := by decide
example : NoImplicitBelowExplicit (triples [fldP, fldL, fldC] [1, 2, -1]
    [sv "P", .many [.str "x".toList, .int 7], sv "C"]) := by decide
example : runDef ["exe".toList] [fldP, fldL, fldC] [sv "P", .many [.str "x".toList, .str "y".toList], sv "C"] ["tail".toList]
    = .ok (["exe", "-p", "P", "-l", "x", "-l", "y", "--c=C", "tail"].map String.toList) := by decide
example : SafeField (Spec.envOfDef [fldC] [sv "C"]) fldC ⟨"--c={c}".toList, false, [.lit "--c=".toList, .ref "c".toList]⟩ (sv "C") :=
  ⟨by decide, by decide, by show SafeScalar _ ∧ SafeSegs _ _; exact ⟨by decide, by decide⟩,
   fun _ => by show Scalar.truthy _ = true; decide, by decide⟩

/-- all hypotheses of `C22_commandArgs_partial` hold for this definition and assignment -/
example : runDef ["exe".toList] [fldP, fldL, fldC] [sv "P", .many [.str "x".toList, .int 7], sv "C"] ["tail".toList]
    = .ok (Spec.commandArgs ["exe".toList] [fldP, fldL, fldC] [sv "P", .many [.str "x".toList, .int 7], sv "C"] ["tail".toList]) := by
  refine C22_commandArgs_partial _ _ _ _ [1, 2, -1] (by decide) rfl ?_ (by decide)
  intro t ht
  have ht' : t = (fldP, 1, sv "P") ∨ t = (fldL, 2, .many [.str "x".toList, .int 7]) ∨ t = (fldC, -1, sv "C") := by
    revert ht; simp [triples, Triple.live, Triple.toBound, Bound.live, fldP, fldL, fldC, sv, mkPlain]
  rcases ht' with rfl | rfl | rfl
  · exact ⟨_, rfl, by decide, by decide, by show SafeScalar _ ∧ SafeSegs _ _; exact ⟨by decide, by decide⟩,
      fun _ => by show Scalar.truthy _ = true; decide, by decide⟩
  · refine ⟨_, rfl, by decide, by decide, ?_, fun _ => ?_, by decide⟩
    · show (∀ x ∈ [Scalar.str "x".toList, Scalar.int 7], SafeScalar x ∧ SafeSegs _ _) ∧ _ ∧ SafeSegs _ _
      refine ⟨?_, by decide, by decide⟩
      intro x hx
      simp only [List.mem_cons, List.not_mem_nil, or_false] at hx
      rcases hx with rfl | rfl <;> exact ⟨by decide, by decide⟩
    · show fldL.isMulti = true → _
      intro h; exact absurd h (by decide)
  · exact ⟨_, rfl, by decide, by decide, by show SafeScalar _ ∧ SafeSegs _ _; exact ⟨by decide, by decide⟩,
      fun h => absurd h (by decide), by decide⟩

/-- parsing concrete argstr texts (also with a format spec and a conversion) -/
example : parseArgstr "--c={c}".toList = .ok ⟨"--c={c}".toList, false, [.lit "--c=".toList, .ref "c".toList]⟩ := by decide
example : parseArgstr "-g {x:.2f} {y!r}...".toList
    = .ok ⟨"-g {x:.2f} {y!r}...".toList, true, [.lit "-g ".toList, .ref "x:.2f".toList, .lit " ".toList, .ref "y!r".toList]⟩ := by
  decide
example : TextOK "--c={c} -x".toList := by decide

/-- the extended model on a definition with a formatter (uninterpreted: here a concrete one), a File-union
    bool, a readonly aggregate and an outarg whose template refers to an input -/
def fxS : FieldX := ⟨⟨"s".toList, false, false, none, none, [' '], false⟩, { formatter := some ["field".toList, "s".toList] }⟩
def fxU : FieldX := ⟨⟨"u".toList, false, false, some (mkPlain "-u"), none, [' '], false⟩, { fileUnion := true }⟩
def fxR : FieldX := ⟨⟨"r".toList, false, false, some ⟨"--r={s}".toList, false, [.lit "--r=".toList, .ref "s".toList]⟩, some (-1), [' '], false⟩, { readonly := true }⟩
def fxO : FieldX := ⟨⟨"o".toList, false, false, some (mkPlain "-o"), none, [' '], false⟩, { fileUnion := true, template := some ⟨"{s}_out.txt".toList, true⟩ }⟩
def demoF : FormatterFn := fun name args =>
  "  --F ".toList ++ name ++ "  ".toList ++ (match args[1]? with | some (FArg.val v) => renderX v | _ => [])
example : runDefX demoF (fun _ => none) "/job".toList ["exe".toList] [fxS, fxU, fxR, fxO]
      [.v (sv "S"), .v (.one (.bool true)), .nothing, .v (.one (.bool true))] []
    = .ok (["exe", "--F", "s", "S", "-o", "/job/S_out.txt", "--r=S"].map String.toList) := by decide
example : runDefX demoF (fun _ => none) "/job".toList ["exe".toList] [fxR] [.v (sv "given")] [] = .error .readonlyGiven := by decide

/-- the docstring example of `position_sort`, and a list with pairwise different positions (hypothesis of `C22_order`) -/
example : positionSort [(none, 'd'), (some (-3), 'e'), (some 2, 'b'), (some (-2), 'f'), (some 5, 'c'), (some 1, 'a')]
    = ['a', 'b', 'c', 'd', 'e', 'f'] := by decide
example : ([((none : Option Int), 'd'), (some (-3), 'e'), (some 2, 'b'), (some (-2), 'f')].filterMap (·.1)).Nodup := by decide

end PydraModel.Argv
