import PydraModel.Argv.AssemblyLemmas
import PydraModel.Argv.ParseLemmas
/-
C22 — Shell argument vector follows the documented field semantics.

Model: `runDef` = `shell.define`'s slot filling (`definePositions`) followed by `ShellTask._command_args`
(`commandArgs`: per-field string building + `split_cmd`, `position_sort`).  Reference: `Spec.commandArgs`
(executable, the set fields' documented arguments in documented order, appended arguments).
Property theorems only; lemmas are in `Argv/*Lemmas.lean`.

FULL statement (kept visible; NOT provable on the pinned tree: D26, D41, D42 — see the witnesses):
  `C22_full_statement` below, i.e. `C22_commandArgs_partial` without its three excluding hypotheses.
-/
namespace PydraModel.Argv
open List

/-- harmless definition and values for one field, without the D41/D42 exclusions -/
structure SafeFieldBase (env : Env) (f : Field) (a : Argstr) (v : Value) : Prop where
  wf : a.raw.contains '{' = a.templated
  sep : ArgStr f.sep
  vals : match v with
    | .unset => True
    | .one x => SafeScalar x ∧ SafeSegs (env.set f.name x.render) a.segs
    | .many vs => (∀ x ∈ vs, SafeScalar x ∧ SafeSegs (env.set f.name x.render) a.segs)
                  ∧ (f.isMulti = true ∨ vs ≠ [])
                  ∧ SafeSegs (env.set f.name (joinWith f.sep (vs.map Scalar.render))) a.segs

def C22_full_statement : Prop :=
  ∀ (exe app : List Str) (fs : List Field) (vs : List Value) (filled : List Int),
    definePositions (fs.map (·.position)) = .ok filled → vs.length = fs.length →
    (∀ t ∈ (triples fs filled vs).filter Triple.live,
        ∃ a, t.1.argstr = some a ∧ SafeFieldBase (Spec.envOfDef fs vs) t.1 a t.2.2) →
    runDef exe fs vs app = .ok (Spec.commandArgs exe fs vs app)

/-- PARTIAL (missing: D26 = implicit slot below an explicit position; D41 = falsy value under a plain
    argstr; D42 = `...` with a non-blank separator — the last two are inside `SafeField`).
    For every definition (any number of fields of any kind, any positions) accepted by `shell.define`
    and every assignment of harmless values (any list and string lengths):
    the argument vector is the executable, then the documented arguments of the set fields in the
    documented order, then the appended arguments — and no error is raised on the way. -/
theorem C22_commandArgs_partial (exe app : List Str) (fs : List Field) (vs : List Value) (filled : List Int)
    (hdef : definePositions (fs.map (·.position)) = .ok filled) (hlen : vs.length = fs.length)
    (hsafe : ∀ t ∈ (triples fs filled vs).filter Triple.live,
        ∃ a, t.1.argstr = some a ∧ SafeField (Spec.envOfDef fs vs) t.1 a t.2.2)
    (h26 : NoImplicitBelowExplicit (triples fs filled vs)) :
    runDef exe fs vs app = .ok (Spec.commandArgs exe fs vs app) :=
  runDef_eq_spec exe app fs vs filled hdef hlen hsafe h26

/-! ### the argstr TEXT: `parseArgstr` ties what users write to the segment lists of the theorems -/

/-- ROUND TRIP (FULL, every text the parser accepts): the parsed argstr keeps the raw text, `dots` is
    `endswith("...")`, and the segments render back to the text with its `...` removed
    (`argstr.replace("...", "")`, the string `_format_arg` works on). -/
theorem C22_parse_roundtrip {raw : Str} {a : Argstr} (h : parseArgstr raw = .ok a) :
    a.raw = raw ∧ a.dots = endsWithDots raw ∧ unparse a.segs = removeDots raw := parseArgstr_unparse h

/-- FULL: "templated" on the segments is `"{" in argstr` on the text (so `SafeField.wf` always holds for parsed text) -/
theorem C22_parse_wf {raw : Str} {a : Argstr} (h : parseArgstr raw = .ok a) :
    a.raw.contains '{' = a.templated := parseArgstr_wf h

/-- FULL: literal pieces are non-empty, brace-free pieces of the text; reference keys non-empty, brace-free -/
theorem C22_parse_pieces {raw : Str} {a : Argstr} (h : parseArgstr raw = .ok a) :
    (∀ l, Seg.lit l ∈ a.segs → l ≠ [] ∧ '{' ∉ l ∧ '}' ∉ l ∧ ∀ c ∈ l, c ∈ raw)
    ∧ (∀ n, Seg.ref n ∈ a.segs → n ≠ [] ∧ '{' ∉ n ∧ '}' ∉ n) := parseArgstr_pieces h

/-- FULL: brace-free text is accepted and is one literal piece -/
theorem C22_parse_plain (raw : Str) (h1 : '{' ∉ raw) (h2 : '}' ∉ raw) :
    parseArgstr raw = .ok ⟨raw, endsWithDots raw, if (removeDots raw).isEmpty then [] else [.lit (removeDots raw)]⟩ :=
  parseArgstr_plain raw h1 h2

/-- `C22_commandArgs_partial` stated on the argstr text users write: every set field's argstr is the
    parse of a harmless text (`SafeFieldText`: plain characters, spaces and `{key}` references that resolve
    to harmless values) — no assumption about segment lists is left. -/
theorem C22_commandArgs_text_partial (exe app : List Str) (fs : List Field) (vs : List Value) (filled : List Int)
    (hdef : definePositions (fs.map (·.position)) = .ok filled) (hlen : vs.length = fs.length)
    (hsafe : ∀ t ∈ (triples fs filled vs).filter Triple.live,
        ∃ raw a, t.1.argstr = some a ∧ SafeFieldText (Spec.envOfDef fs vs) t.1 raw a t.2.2)
    (h26 : NoImplicitBelowExplicit (triples fs filled vs)) :
    runDef exe fs vs app = .ok (Spec.commandArgs exe fs vs app) :=
  runDef_eq_spec exe app fs vs filled hdef hlen
    (fun t ht => by obtain ⟨raw, a, ha, hs⟩ := hsafe t ht; exact ⟨a, ha, hs.toSafeField⟩) h26

/-- Order refinement alone (any payloads): slot filling followed by `position_sort` gives the documented
    order whenever no unpositioned field got a slot below an explicitly positioned one. -/
theorem C22_order_partial {β : Type} (xs : List (Item β)) (hok : OrderOK xs) :
    positionSort (filledEntries xs) = Spec.ordered (userEntries xs) :=
  positionSort_filled_eq_ordered xs hok

/-- what `shell.define` guarantees about the positions it assigns (any number of fields): pairwise
    different, none equal to the executable's 0, taken from an increasing stack of free slots -/
theorem C22_define_positions (ps : List (Option Int)) (filled : List Int) (h : definePositions ps = .ok filled) :
    filled.Nodup ∧ (0 : Int) ∉ filled ∧ filled.length = ps.length := by
  obtain ⟨stack, hfill, _, _, hnd, h0⟩ := define_spec ps filled h
  exact ⟨hnd, h0, fill_length ps stack filled hfill⟩

/-! ### `position_sort` is a sorted, stable permutation (FULL, for every input) -/

theorem C22_positionSort_shape {α : Type} (l : List (Option Int × α)) :
    positionSort l = (isortL (nonnegOf l)).map (·.2) ++ noneOf l ++ (isortL (negOf l)).map (·.2) :=
  positionSort_eq l

theorem C22_positionSort_sorted {α : Type} (l : List (Int × α)) : (isortL l).Pairwise (fun a b => a.1 ≤ b.1) :=
  isortL_sorted l

theorem C22_positionSort_perm {α : Type} (l : List (Int × α)) : Perm (isortL l) l := isortL_perm l

theorem C22_positionSort_stable {α : Type} (l : List (Int × α)) (k : Int) :
    (isortL l).filter (fun x => x.1 == k) = l.filter (fun x => x.1 == k) := isortL_stable l k

/-- `position_sort` IS the documented order when the explicit positions are pairwise different
    (which `shell.define` and `_command_pos_args` both enforce). -/
theorem C22_order {α : Type} (l : List (Option Int × α)) (hn : (l.filterMap (·.1)).Nodup) :
    positionSort l = Spec.ordered l := by
  rw [positionSort_eq, isortL_eq_sortAsc _ (hn.sublist (nonneg_keys_sublist l)),
    isortL_eq_sortAsc _ (hn.sublist (neg_keys_sublist l))]
  unfold Spec.ordered
  rw [nonnegOf_eq_sel]
  rfl

/-! ### omission, flags, lists (corollaries at field level) -/

/-- an unset (None) field and an empty multi-input do not take part in the command at all -/
theorem C22_omit_unset (f : Field) (p : Option Int) : (Bound.mk f p .unset).live = false := by
  simp [Bound.live]

theorem C22_omit_empty_multi (f : Field) (p : Option Int) (h : f.isMulti = true) :
    (Bound.mk f p (.many [])).live = false := by
  simp [Bound.live, h]

theorem C22_omit_no_argstr (f : Field) (p : Option Int) (v : Value) (h : f.argstr = none) :
    (Bound.mk f p v).live = false := by
  simp [Bound.live, h]

/-- a field that does not take part adds nothing to the loop of `_command_args` -/
theorem C22_omit_skipped (env : Env) (prov : List Int) (b : Bound) (bs : List Bound) (h : b.live = false) :
    buildEntries env prov (b :: bs) = buildEntries env prov bs := by
  simp only [buildEntries, h]
  cases b.fld.argstr <;> rfl

/-- a False flag contributes nothing, a True flag contributes exactly its argstr -/
theorem C22_flag (env : Env) (f : Field) (a : Argstr) (hb : f.isBool = true) (hp : a.raw.contains '{' = false) :
    fieldArgs env f a (.one (.bool false)) = .ok [] ∧ fieldArgs env f a (.one (.bool true)) = .ok [a.raw] := by
  unfold fieldArgs
  rw [hp]
  simp [hb]

/-- `...`: the argstr is repeated for every element -/
theorem C22_list_repeated (env : Env) (f : Field) (a : Argstr) (vs : List Scalar)
    (h : SafeField env f a (.many vs)) (hb : f.isBool = false) (hd : a.dots = true) :
    fieldArgs env f a (.many vs) = .ok (vs.flatMap (Spec.scalarArgs env f.name a)) := by
  rw [fieldArgs_spec env f a _ h]
  simp [Spec.fieldArgs, Spec.manyArgs, hb, hd]

/-- no `...`: one value, the elements joined with the separator -/
theorem C22_list_joined (env : Env) (f : Field) (a : Argstr) (vs : List Scalar)
    (h : SafeField env f a (.many vs)) (hb : f.isBool = false) (hd : a.dots = false) (hm : f.isMulti = false)
    (ht : a.templated = false) :
    fieldArgs env f a (.many vs) =
      .ok (words (litText a.segs) ++ words (joinWith f.sep (vs.map Scalar.render))) := by
  rw [fieldArgs_spec env f a _ h]
  simp [Spec.fieldArgs, Spec.manyArgs, hb, hd, hm, ht]

/-- a set scalar under a plain argstr: the argstr's words, then the value as one argument -/
theorem C22_scalar_plain (env : Env) (f : Field) (a : Argstr) (x : Scalar)
    (h : SafeField env f a (.one x)) (hb : f.isBool = false) (ht : a.templated = false) :
    fieldArgs env f a (.one x) = .ok (words (litText a.segs) ++ [x.render]) := by
  rw [fieldArgs_spec env f a _ h]
  simp [Spec.fieldArgs, Spec.scalarArgs, hb, ht]

/-! ### witnesses -/

def mkPlain (raw : String) : Argstr := ⟨raw.toList, false, [.lit raw.toList]⟩
def fldA : Field := ⟨"a".toList, false, false, some (mkPlain "-a"), none, [' ']⟩
def fldB : Field := ⟨"b".toList, false, false, some (mkPlain "-b"), some 2, [' ']⟩
def sv (s : String) : Value := .one (.str s.toList)

/-- D26: `a` (no position) defined before `b` (position 2) is emitted before it; documented: after it. -/
theorem C22_witness_D26 :
    runDef ["exe".toList] [fldA, fldB] [sv "A", sv "B"] []
      = .ok ["exe".toList, "-a".toList, "A".toList, "-b".toList, "B".toList]
    ∧ Spec.commandArgs ["exe".toList] [fldA, fldB] [sv "A", sv "B"] []
      = ["exe".toList, "-b".toList, "B".toList, "-a".toList, "A".toList]
    ∧ definePositions [none, some 2] = .ok [1, 2]
    ∧ ¬ NoImplicitBelowExplicit (triples [fldA, fldB] [1, 2] [sv "A", sv "B"]) := by
  refine ⟨by decide, by decide, by decide, by decide⟩

def fldN : Field := ⟨"n".toList, false, false, some (mkPlain "-n"), none, [' ']⟩
/-- D41: the value 0 (here 0.0) under a plain argstr vanishes together with its flag -/
theorem C22_witness_D41 :
    runDef ["exe".toList] [fldN] [.one (.float "0.0".toList true)] [] = .ok ["exe".toList]
    ∧ Spec.commandArgs ["exe".toList] [fldN] [.one (.float "0.0".toList true)] []
      = ["exe".toList, "-n".toList, "0.0".toList] := by
  refine ⟨by decide, by decide⟩

/-- … and so does the integer 0 -/
theorem C22_witness_D41_int :
    runDef ["exe".toList] [fldN] [.one (.int 0)] [] = .ok ["exe".toList]
    ∧ Spec.commandArgs ["exe".toList] [fldN] [.one (.int 0)] [] = ["exe".toList, "-n".toList, "0".toList] := by
  refine ⟨by decide, by decide⟩

def fldG : Field := ⟨"g".toList, false, false, some ⟨"-g...".toList, true, [.lit "-g".toList]⟩, none, [',']⟩
/-- D42: `...` with separator ",": the separator is glued to the elements -/
theorem C22_witness_D42 :
    runDef ["exe".toList] [fldG] [.many [.str "a".toList, .str "b".toList]] []
      = .ok ["exe".toList, "-g".toList, "a,".toList, "-g".toList, "b".toList]
    ∧ Spec.commandArgs ["exe".toList] [fldG] [.many [.str "a".toList, .str "b".toList]] []
      = ["exe".toList, "-g".toList, "a".toList, "-g".toList, "b".toList] := by
  refine ⟨by decide, by decide⟩

/-- hence the full statement fails (by the D26 witness, which satisfies all its hypotheses) -/
theorem C22_witness_not_full : ¬ C22_full_statement := by
  intro h
  have := h ["exe".toList] [] [fldA, fldB] [sv "A", sv "B"] [1, 2] (by decide) rfl (by
    intro t ht
    have ht' : t = (fldA, 1, sv "A") ∨ t = (fldB, 2, sv "B") := by
      revert ht; simp [triples, Triple.live, Triple.toBound, Bound.live, fldA, fldB, sv]
    rcases ht' with rfl | rfl
    · refine ⟨mkPlain "-a", rfl, ⟨by decide, by decide, ?_⟩⟩
      show SafeScalar _ ∧ SafeSegs _ _
      exact ⟨by decide, by decide⟩
    · refine ⟨mkPlain "-b", rfl, ⟨by decide, by decide, ?_⟩⟩
      show SafeScalar _ ∧ SafeSegs _ _
      exact ⟨by decide, by decide⟩)
  rw [C22_witness_D26.1] at this
  have h2 := C22_witness_D26.2.1
  rw [h2] at this
  revert this; decide

/-! ### non-vacuity: a definition with explicit, implicit and negative positions that meets every hypothesis -/

def fldC : Field := ⟨"c".toList, false, false, some ⟨"--c={c}".toList, false, [.lit "--c=".toList, .ref "c".toList]⟩, some (-1), [' ']⟩
def fldL : Field := ⟨"l".toList, false, false, some ⟨"-l...".toList, true, [.lit "-l".toList]⟩, none, [' ']⟩
def fldP : Field := ⟨"p".toList, false, false, some (mkPlain "-p"), some 1, [' ']⟩

example : definePositions ([fldP, fldL, fldC].map (·.position)) = .ok [1, 2, -1] := by decide
example : NoImplicitBelowExplicit (triples [fldP, fldL, fldC] [1, 2, -1]
    [sv "P", .many [.str "x".toList, .int 7], sv "C"]) := by decide
example : runDef ["exe".toList] [fldP, fldL, fldC] [sv "P", .many [.str "x".toList, .str "y".toList], sv "C"] ["tail".toList]
    = .ok (["exe", "-p", "P", "-l", "x", "-l", "y", "--c=C", "tail"].map String.toList) := by decide
example : SafeField (Spec.envOfDef [fldC] [sv "C"]) fldC ⟨"--c={c}".toList, false, [.lit "--c=".toList, .ref "c".toList]⟩ (sv "C") :=
  ⟨by decide, by decide, by show SafeScalar _ ∧ SafeSegs _ _; exact ⟨by decide, by decide⟩,
   fun _ => by show Scalar.truthy _ = true; decide, by decide⟩

/-- all hypotheses of `C22_commandArgs_partial` hold for this definition and assignment -/
example : runDef ["exe".toList] [fldP, fldL, fldC] [sv "P", .many [.str "x".toList, .int 7], sv "C"] ["tail".toList]
    = .ok (Spec.commandArgs ["exe".toList] [fldP, fldL, fldC] [sv "P", .many [.str "x".toList, .int 7], sv "C"] ["tail".toList]) := by
  refine C22_commandArgs_partial _ _ _ _ [1, 2, -1] (by decide) rfl ?_ (by decide)
  intro t ht
  have ht' : t = (fldP, 1, sv "P") ∨ t = (fldL, 2, .many [.str "x".toList, .int 7]) ∨ t = (fldC, -1, sv "C") := by
    revert ht; simp [triples, Triple.live, Triple.toBound, Bound.live, fldP, fldL, fldC, sv, mkPlain]
  rcases ht' with rfl | rfl | rfl
  · exact ⟨_, rfl, by decide, by decide, by show SafeScalar _ ∧ SafeSegs _ _; exact ⟨by decide, by decide⟩,
      fun _ => by show Scalar.truthy _ = true; decide, by decide⟩
  · refine ⟨_, rfl, by decide, by decide, ?_, fun _ => ?_, by decide⟩
    · show (∀ x ∈ [Scalar.str "x".toList, Scalar.int 7], SafeScalar x ∧ SafeSegs _ _) ∧ _ ∧ SafeSegs _ _
      refine ⟨?_, by decide, by decide⟩
      intro x hx
      simp only [List.mem_cons, List.not_mem_nil, or_false] at hx
      rcases hx with rfl | rfl <;> exact ⟨by decide, by decide⟩
    · show fldL.isMulti = true → _
      intro h; exact absurd h (by decide)
  · exact ⟨_, rfl, by decide, by decide, by show SafeScalar _ ∧ SafeSegs _ _; exact ⟨by decide, by decide⟩,
      fun h => absurd h (by decide), by decide⟩

/-- parsing concrete argstr texts (also with a format spec and a conversion) -/
example : parseArgstr "--c={c}".toList = .ok ⟨"--c={c}".toList, false, [.lit "--c=".toList, .ref "c".toList]⟩ := by decide
example : parseArgstr "-g {x:.2f} {y!r}...".toList
    = .ok ⟨"-g {x:.2f} {y!r}...".toList, true, [.lit "-g ".toList, .ref "x:.2f".toList, .lit " ".toList, .ref "y!r".toList]⟩ := by
  decide
example : TextOK "--c={c} -x".toList := by decide

/-- the docstring example of `position_sort`, and a list with pairwise different positions (hypothesis of `C22_order`) -/
example : positionSort [(none, 'd'), (some (-3), 'e'), (some 2, 'b'), (some (-2), 'f'), (some 5, 'c'), (some 1, 'a')]
    = ['a', 'b', 'c', 'd', 'e', 'f'] := by decide
example : ([((none : Option Int), 'd'), (some (-3), 'e'), (some 2, 'b'), (some (-2), 'f')].filterMap (·.1)).Nodup := by decide

end PydraModel.Argv
