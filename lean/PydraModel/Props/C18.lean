import PydraModel.Sched.Cost
import PydraModel.Props.C17
/-
C18 — Every submission terminates.

Property theorems only.  Models: `Graph/Model.lean` (`DiGraph.sorting` with the no-progress check of the D12 repair)
and `Sched/Model.lean`.

What is proved, and what is not:
* `DiGraph.sorting` is a total function that returns a list exactly on acyclic graphs; a workflow whose connections
  form a cycle is reported (`ValueError`) before the loop starts (FULL, all graphs).
* Every iteration of the asynchronous loop that awaits something completes at least one future; the number of such
  iterations of any run is bounded by the number of jobs dispatched (FULL, all schedules — the measure).
* The stall detector ends the submission with an error after 11 polls whenever nothing is pending, no task is
  runnable and further polls change nothing (FULL); witness: a job that is lost after it was seen running.
* NOT provable, because false for the current code (D24): with a worker that reports a job complete although no result
  was written and the job was never seen running, the loop neither awaits, nor dispatches, nor reaches the stall
  detector — it spins forever (`C18_lost_result_livelock`).  The termination statements are therefore `_partial`:
  they assume fault-free schedules (no `vanish` move).
* In a fault-free run the environment can always complete a pending future (`C18_environment_can_complete`), i.e. the
  loop is never blocked for good in `asyncio.wait`; an iteration that awaits nothing ends the submission, dispatches
  a job or starts a node (`C18_idle_round_progress`); hence every fault-free run of an acyclic workflow performs at most
  `2 * (jobs dispatched) + (nodes) + 2` iterations and a longer schedule finds the submission ended
  (`C18_fault_free_bound`, `C18_fault_free_terminates`) — each ending with outputs or an error (`C18_partial`).
-/
namespace PydraModel.Sched
open PydraModel.Graph

/-! ### sorting -/

/-- C18 (sorting), FULL: on the graph of a workflow `sorting` returns a list iff the graph is acyclic; being a
    structurally recursive function with `ns.length` passes it always terminates -/
theorem C18_sorting_iff {g : G} (hc : ClosedGraph g) : (∃ l, sortFrom g [] = some l) ↔ Acyclic g :=
  ⟨fun ⟨_, h⟩ => acyclic_of_sorted hc h, sorted_of_acyclic hc⟩

/-- C18 (cycles are reported), FULL: a workflow whose connections form a cycle ends with the ValueError of
    `DiGraph.sorting` — for every limit and whatever the environment would do -/
theorem C18_cycle_is_reported {wf : Wf} (hc : ClosedGraph wf.g) (hcyc : ¬ Acyclic wf.g) (k : Option Nat)
    (sched : List (List Ev)) : submitAsync wf k sched = .cycleError := by
  unfold submitAsync
  cases h : sortFrom wf.g [] with
  | none => rfl
  | some l => exact absurd (acyclic_of_sorted hc h) hcyc

/-- ... and an acyclic workflow gets into the loop with a topological order of all its nodes -/
theorem C18_acyclic_is_run {wf : Wf} (hc : ClosedGraph wf.g) (hac : Acyclic wf.g) (k : Option Nat)
    (sched : List (List Ev)) :
    ∃ sorted, WellFormed wf sorted ∧ submitAsync wf k sched = .ran (runAsync wf k sorted sched) := by
  obtain ⟨l, hl⟩ := sorted_of_acyclic hc hac
  refine ⟨l, ⟨hc.wip, hc.nodup, hl⟩, ?_⟩
  unfold submitAsync; rw [hl]

/-- regression of D12 (repaired): the two-node cycle a → b → a -/
theorem C18_witness_cycle (k : Option Nat) (sched : List (List Ev)) :
    submitAsync ⟨⟨[0, 1], [(0, 1), (1, 0)], [], none⟩, fun n _ => [n], fun c => c⟩ k sched = .cycleError := by
  unfold submitAsync
  have : sortFrom (⟨[0, 1], [(0, 1), (1, 0)], [], none⟩ : G) [] = none := by decide
  simp only [this]

/-! ### the measure -/

/-- C18 (measure), all schedules: an iteration of the loop that awaits at least one future ends with strictly
    more completed futures -/
theorem C18_round_completes {wf : Wf} {k : Option Nat} {sorted : List NodeId} (hw : WellFormed wf sorted)
    (sched : List (List Ev)) {st : St} (h : runAsync wf k sorted sched = .cont st) (hne : st.futures ≠ [])
    (moves : List Ev) {st' : St} (hr : (round wf k sorted st moves).state? = some st') :
    completed st < completed st' :=
  round_completes hw.topo (sinv_runAsync hw.topo sched (by rw [h]; rfl)) hne moves hr

/-- C18 (bound), all schedules: the number of iterations that await something is at most the number of futures
    completed, hence at most the number of jobs dispatched (each job at most once, C15) -/
theorem C18_busy_rounds_bounded {wf : Wf} {k : Option Nat} {sorted : List NodeId} (hw : WellFormed wf sorted)
    (sched : List (List Ev)) {st' : St} (h : (runAsync wf k sorted sched).state? = some st') :
    busyRounds wf k sorted (start wf k sorted (fun _ => .idle)) sched ≤ st'.futured.length := by
  cases hs : start wf k sorted (fun _ => .idle) with
  | bad =>
    unfold runAsync at h; rw [hs] at h
    cases sched <;> simp [runFrom, Step.state?] at h
  | cont st0 =>
    have h0 : (start wf k sorted (fun _ => .idle)).state? = some st0 := by rw [hs]; rfl
    have := busyRounds_le hw.topo sched (start wf k sorted (fun _ => .idle))
      (fun st hst => sinv_start hw.topo hst) st0 st' h0 h
    rw [hs] at this
    unfold completed at this
    omega
  | done o st0 =>
    have : busyRounds wf k sorted (.done o st0) sched = 0 := by cases sched <;> rfl
    rw [this]; exact Nat.zero_le _

/-! ### the stall detector -/

/-- C18 (stall detector), FULL: let `S` be a set of states in which no task is runnable, some node is not done,
    and which is closed under "re-evaluate `done`, poll again" (nothing changes any more).  Then the detector gives
    up after its 11 polls -/
theorem C18_stall_detector_gives_up {wf : Wf} {k : Option Nat} {sorted : List NodeId} (S : St → Prop)
    (hS : ∀ st, S st → st.tasks = [] ∧ (anyNotDone st.w st.ns wf.g.nodes).1 = true ∧
      S (doPoll wf k sorted { st with ns := (anyNotDone st.w st.ns wf.g.nodes).2 })) :
    ∀ (fuel : Nat) (st : St), S st → stallLoop wf k sorted (fuel + 1) st = none := by
  intro fuel
  induction fuel with
  | zero =>
    intro s hs
    obtain ⟨h1, h2, _⟩ := hS s hs
    simp [stallLoop, h1, h2]
  | succ fuel ih =>
    intro s hs
    obtain ⟨h1, h2, h3⟩ := hS s hs
    simp only [stallLoop, h1, List.isEmpty_nil, Bool.not_true, Bool.false_eq_true, if_false, h2]
    simp only [Nat.add_eq_zero_iff, Nat.succ_ne_zero, and_false, if_false]
    exact ih _ h3

/-- ... and the submission then ends with an error (the collected job errors if there are any, else the
    detector's own RuntimeError): it does not hang -/
theorem C18_stall_is_reported {wf : Wf} {k : Option Nat} {sorted : List NodeId} (S : St → Prop)
    (hS : ∀ st, S st → st.tasks = [] ∧ (anyNotDone st.w st.ns wf.g.nodes).1 = true ∧
      S (doPoll wf k sorted { st with ns := (anyNotDone st.w st.ns wf.g.nodes).2 }))
    {st : St} (ht : st.tasks = []) (hf : st.futures = []) (ha : (anyNotDone st.w st.ns wf.g.nodes).1 = true)
    (h : S { st with ns := (anyNotDone st.w st.ns wf.g.nodes).2 }) :
    afterPoll wf k sorted st =
      .done (if !st.errors.isEmpty then .failed st.errors else .stall)
        { st with ns := (anyNotDone st.w st.ns wf.g.nodes).2 } := by
  unfold afterPoll
  have hc : (!st.tasks.isEmpty || !st.futures.isEmpty) = false := by simp [ht, hf]
  simp only [hc, Bool.false_eq_true, if_false, ha, Bool.not_true]
  rw [C18_stall_detector_gives_up S hS 10 _ h]

/-! ### a lost job -/

/-- nodes a = 0, x = 1, b = 2 (← a).  Job `a` is seen running (the poll after `x` completes finds its lock), then its
    future completes without a result: the detector ends the submission with its error -/
theorem C18_lost_after_seen_running :
    (match runAsync ⟨⟨[0, 1, 2], [(0, 2)], [], none⟩, fun n _ => [n], fun c => c⟩ none [0, 1, 2]
        [[.acquire 0, .acquire 1, .finishOk 1, .complete 1], [.vanish 0]] with
     | .done o _ => some o
     | _ => none) = some Outcome.stall := by decide

def wfAB : Wf := ⟨⟨[0, 1], [(0, 1)], [], none⟩, fun n _ => [n], fun c => c⟩

/-- the state of the loop after "the future of job 0 completes, nothing on disk has changed, the job was never
    seen running": job 0 is still `queued`, already `futured`, nothing is pending -/
def stLost : St :=
  ⟨⟨fun n => if n = 0 then ⟨some [], [0], [], [], [], false, [0]⟩ else NS.init⟩, [0], [], [], [(0, 0)], fun _ => .idle⟩

/-- nodes that are not part of the graph are never touched -/
theorem outside_untouched {wf : Wf} {k : Option Nat} {sorted : List NodeId} (hw : WellFormed wf sorted)
    (sched : List (List Ev)) {st : St} (h : (runAsync wf k sorted sched).state? = some st) (n : NodeId)
    (h1 : n ∉ sorted) (h2 : n ∉ wf.g.nodes) (h3 : ∀ m, m ∈ sorted → n ∉ wf.preds m) : st.ns.get n = NS.init := by
  have li : LoopInv wf k sorted (fun _ => True) (fun st => st.ns.get n = NS.init) := by
    constructor
    · intro st e st' _ hp _ he
      have : st'.ns = st.ns := by
        cases e <;> simp only [applyEv] at he <;> split at he <;> first | (cases he; rfl) | exact absurd he (by simp)
      rw [this]; exact hp
    · intro st _ hp
      show (scan wf st.w sorted st.ns [] []).1.get n = NS.init
      rw [scan_frame wf st.w sorted st.ns [] [] h1 h3]; exact hp
    · intro st l _ hp
      show ((anyNotDone st.w st.ns l).2).get n = NS.init
      -- `any(not n.done ...)` re-evaluates nodes one by one; a state equal to `init` is not changed by it
      have : ∀ (l : List NodeId) (ns : NSMap), ns.get n = NS.init → ((anyNotDone st.w ns l).2).get n = NS.init := by
        intro l
        induction l with
        | nil => intro ns h; exact h
        | cons m l ih =>
          intro ns h
          have hu : (upd st.w ns m).get n = NS.init := by
            by_cases hm : n = m
            · subst hm; rw [upd_get_same, h]; exact updateStatus_of_empty st.w rfl rfl
            · rw [upd_get_ne _ _ hm]; exact h
          show ((if (nodeDone st.w ns m).1 = true then anyNotDone st.w (nodeDone st.w ns m).2 l
            else (true, (nodeDone st.w ns m).2)).2).get n = NS.init
          by_cases hd : (nodeDone st.w ns m).1 = true
          · rw [if_pos hd]; exact ih _ hu
          · rw [if_neg hd]; exact hu
      exact this l st.ns hp
    · intro st j _ _ hp
      rw [dispatchStep_ns]; exact hp
  exact li_runAsync li hw.topo rfl sched (fun _ _ _ _ => trivial) h

/-- the schedule "dispatch job 0; its future completes at once, nothing written" leads exactly to `stLost` -/
theorem C18_lost_result_reached : runAsync wfAB none [0, 1] [[.vanish 0]] = .cont stLost := by
  have hw : WellFormed wfAB [0, 1] := ⟨rfl, by decide, by decide⟩
  have key : (match runAsync wfAB none [0, 1] [[.vanish 0]] with
      | .cont s => some (s.futured, s.futures, s.errors, s.tasks)
      | _ => none) = some ([0], [], [], [(0, 0)]) := by decide
  have key' : (match runAsync wfAB none [0, 1] [[.vanish 0]] with
      | .cont s => some (s.ns.get 0, s.ns.get 1, s.w 0)
      | _ => none) = some ((⟨some [], [0], [], [], [], false, [0]⟩ : NS), NS.init, Truth.idle) := by decide
  cases hr : runAsync wfAB none [0, 1] [[.vanish 0]] with
  | bad => rw [hr] at key; simp at key
  | done o st => rw [hr] at key; simp at key
  | cont st =>
    congr 1
    have hstate : (runAsync wfAB none [0, 1] [[.vanish 0]]).state? = some st := by rw [hr]; rfl
    rw [hr] at key key'
    simp only [Option.some.injEq, Prod.mk.injEq] at key key'
    obtain ⟨k1, k2, k3, k4⟩ := key
    obtain ⟨k5, k6, k7⟩ := key'
    have hns : st.ns = stLost.ns := by
      apply NSMap.ext'
      intro n
      by_cases h0 : n = 0
      · subst h0; rw [k5]; rfl
      · by_cases h1 : n = 1
        · subst h1; rw [k6]; rfl
        · rw [outside_untouched hw _ hstate n (by simp [h0, h1]) (by simp [wfAB, h0, h1]) (by
            intro m hm; simp at hm; rcases hm with rfl | rfl <;> simp [Wf.preds, wfAB, h0])]
          simp [stLost, h0]
    have hwd : st.w = stLost.w := by
      -- no environment move of this schedule writes anything
      have : ∀ c, st.w c = Truth.idle := by
        intro c
        have hs := sinv_runAsync hw.topo _ hstate
        by_cases hc : st.w c = .idle
        · exact hc
        · have hmem := hs.touched c hc
          rw [k1] at hmem
          simp at hmem; subst hmem
          exact k7
      funext c; rw [this c]; rfl
    cases st
    simp only at k1 k2 k3 k4 hns hwd
    subst k1 k2 k3 k4 hns hwd
    rfl

/-- one more iteration of the loop without any environment move reproduces the state exactly -/
theorem C18_lost_result_fixpoint : round wfAB none [0, 1] stLost [] = .cont stLost := by
  have hget : ∀ n, (doPoll wfAB none [0, 1] stLost).ns.get n = stLost.ns.get n := by
    intro n
    by_cases h0 : n = 0
    · subst h0; rfl
    · by_cases h1 : n = 1
      · subst h1; rfl
      · show (scan wfAB stLost.w [0, 1] stLost.ns [] []).1.get n = _
        apply scan_frame
        · simp [h0, h1]
        · intro m hm
          simp at hm
          rcases hm with rfl | rfl
          · simp [Wf.preds, wfAB]
          · simp [Wf.preds, wfAB, h0]
  have hp : doPoll wfAB none [0, 1] stLost = stLost := by
    have h1 : (doPoll wfAB none [0, 1] stLost).ns = stLost.ns := NSMap.ext' hget
    have h2 : (doPoll wfAB none [0, 1] stLost).tasks = stLost.tasks := by decide
    show ({ stLost with ns := (doPoll wfAB none [0, 1] stLost).ns,
                        tasks := (doPoll wfAB none [0, 1] stLost).tasks } : St) = stLost
    rw [h1, h2]
  unfold round
  simp only [applyEvs, List.isEmpty_nil, Bool.not_true, Bool.and_false, Bool.false_eq_true, if_false]
  rw [hp]
  rfl

/-- WITNESS (D24): after a lost result on a job that was never seen running the loop spins forever: for every
    number of further iterations it has not ended, awaits nothing (`futures = []`), dispatches nothing and has not
    entered the stall detector (which only runs when `tasks` is empty) -/
theorem C18_lost_result_livelock (n : Nat) :
    runAsync wfAB none [0, 1] ([.vanish 0] :: List.replicate n []) = .cont stLost ∧
    stLost.futures = [] ∧ stLost.tasks ≠ [] := by
  refine ⟨?_, rfl, by simp [stLost]⟩
  have h0 : runFrom wfAB none [0, 1] (start wfAB none [0, 1] (fun _ => .idle)) [[.vanish 0]] = .cont stLost :=
    C18_lost_result_reached
  have hsplit : ∀ (s : Step) (a b : List (List Ev)),
      runFrom wfAB none [0, 1] s (a ++ b) = runFrom wfAB none [0, 1] (runFrom wfAB none [0, 1] s a) b := by
    intro s a
    induction a generalizing s with
    | nil => intro b; cases s <;> rfl
    | cons mv a ih =>
      intro b
      cases s with
      | cont st => simp only [List.cons_append, runFrom]; exact ih _ b
      | done o st => cases b <;> rfl
      | bad => cases b <;> rfl
  have hidle : ∀ n, runFrom wfAB none [0, 1] (.cont stLost) (List.replicate n []) = .cont stLost := by
    intro n
    induction n with
    | zero => rfl
    | succ n ih => simp only [List.replicate_succ, runFrom, C18_lost_result_fixpoint]; exact ih
  show runFrom wfAB none [0, 1] _ ([[.vanish 0]] ++ List.replicate n []) = _
  rw [hsplit, h0, hidle]

/-- the hypothesis under which the termination statements hold: the worker never loses a job -/
def FaultFree (sched : List (List Ev)) : Prop := ∀ mv, mv ∈ sched → ∀ e, e ∈ mv → noVanish e

/-- C18, PARTIAL (hypothesis `FaultFree`): a fault-free run that reaches the normal end of the loop returns
    outputs or an error naming the failed jobs; and (all schedules) whenever it has not ended it either awaits a
    future — then the next iteration completes one (`C18_round_completes`) — or awaits nothing. -/
theorem C18_partial {wf : Wf} {k : Option Nat} {sorted : List NodeId} (hw : WellFormed wf sorted)
    (hac : Acyclic wf.g) (sched : List (List Ev)) (hff : FaultFree sched) {o : Outcome} {st : St}
    (hend : NormalEnd wf k sorted sched o st) :
    o = (if st.errors = [] then Outcome.success else Outcome.failed st.errors) ∧
    (∀ c, c ∈ st.errors ↔ st.w c = .err) :=
  ⟨(C14_full hw hac sched hff hend).2.2.2.2, (C14_full hw hac sched hff hend).2.2.2.1⟩

/-- C18 (no deadlock between loop and environment): whenever the loop awaits a future in a fault-free run, the
    environment has moves that complete one — a body that has not started can start, a running body can finish,
    a finished body's future can complete — so the waiting iteration can always be ended (and then
    `C18_round_completes` applies) -/
theorem C18_environment_can_complete {wf : Wf} {k : Option Nat} {sorted : List NodeId} (hw : WellFormed wf sorted)
    (sched : List (List Ev)) (hff : FaultFree sched) {st : St} (h : runAsync wf k sorted sched = .cont st)
    (hne : st.futures ≠ []) :
    ∃ moves, (∀ e, e ∈ moves → noVanish e) ∧ ∃ st', (round wf k sorted st moves).state? = some st' := by
  have hstate : (runAsync wf k sorted sched).state? = some st := by rw [h]; rfl
  have hf := li_runAsync (ff_loopInv wf k sorted) hw.topo ff_init sched hff hstate
  have hs := sinv_runAsync hw.topo sched hstate
  obtain ⟨c, hc⟩ := List.exists_mem_of_ne_nil _ hne
  have hcont : st.futures.contains c = true := by simpa using hc
  have hne' : st.futures.isEmpty = false := by simpa [List.isEmpty_iff] using hne
  -- the moves that bring job `c` to completion from wherever it is
  have hlenE : ∀ (s : St), s.futures = st.futures → (s.futures.erase c).length < st.futures.length := by
    intro s hs'
    rw [hs', List.length_erase_of_mem hc]
    have : 0 < st.futures.length := List.length_pos_of_mem hc
    omega
  -- completing the future of a finished job
  have hcomplete : ∀ (s : St), s.futures = st.futures → (s.w c = .ok ∨ s.w c = .err) →
      ∃ s', applyEv s (.complete c) = some s' ∧ s'.futures.length < st.futures.length := by
    intro s hs' hfin
    have hcs : s.futures.contains c = true := by rw [hs']; exact hcont
    refine ⟨{ s with futures := s.futures.erase c, errors := if s.w c == .err then s.errors ++ [c] else s.errors }, ?_, hlenE s hs'⟩
    simp only [applyEv, hcs, Bool.true_and]
    rcases hfin with h1 | h1 <;> simp [h1]
  have hfinish : ∀ (s : St), s.futures = st.futures → s.w c = .locked →
      ∃ s', applyEv s (.finishOk c) = some s' ∧ s'.futures = st.futures ∧ s'.w c = .ok := by
    intro s hs' hl
    exact ⟨{ s with w := setW s.w c .ok }, by simp [applyEv, hl], hs', by simp [setW_same]⟩
  have key : ∃ moves st1, (∀ e, e ∈ moves → noVanish e) ∧ applyEvs st moves = some st1 ∧
      st1.futures.length < st.futures.length := by
    rcases truth_cases (st.w c) with t | t | t | t | t
    · -- not started yet: start, finish, complete
      have h1 : applyEv st (.acquire c) = some { st with w := setW st.w c .locked } := by
        simp [applyEv, hc, t]
      obtain ⟨s2, h2, f2, w2⟩ := hfinish { st with w := setW st.w c .locked } rfl (by simp [setW_same])
      obtain ⟨s3, h3, l3⟩ := hcomplete s2 f2 (Or.inl w2)
      refine ⟨[.acquire c, .finishOk c, .complete c], s3,
        by intro e he; simp at he; rcases he with rfl | rfl | rfl <;> trivial, ?_, l3⟩
      simp only [applyEvs, h1, h2, h3]
    · obtain ⟨s2, h2, f2, w2⟩ := hfinish st rfl t
      obtain ⟨s3, h3, l3⟩ := hcomplete s2 f2 (Or.inl w2)
      refine ⟨[.finishOk c, .complete c], s3, by intro e he; simp at he; rcases he with rfl | rfl <;> trivial, ?_, l3⟩
      simp only [applyEvs, h2, h3]
    · exact absurd t (hf.noDead c)
    · obtain ⟨s3, h3, l3⟩ := hcomplete st rfl (Or.inl t)
      exact ⟨[.complete c], s3, by intro e he; simp at he; subst he; trivial, by simp only [applyEvs, h3], l3⟩
    · obtain ⟨s3, h3, l3⟩ := hcomplete st rfl (Or.inr t)
      exact ⟨[.complete c], s3, by intro e he; simp at he; subst he; trivial, by simp only [applyEvs, h3], l3⟩
  have hmne : ∀ moves st1, applyEvs st moves = some st1 → st1.futures.length < st.futures.length → moves ≠ [] := by
    intro moves st1 ha hl hm
    subst hm
    simp only [applyEvs, Option.some.injEq] at ha
    subst ha
    omega
  obtain ⟨moves, st1, hm, happ, hlt⟩ := key
  refine ⟨moves, hm, ?_⟩
  unfold round
  simp only [hne', Bool.false_and, Bool.false_eq_true, if_false, happ, Bool.not_false, Bool.true_and]
  have : (st1.futures.length == st.futures.length) = false := by
    simp only [beq_eq_false_iff_ne, ne_eq]; omega
  simp only [this, Bool.false_eq_true, if_false]
  -- the loop head always hands on a state
  cases hap : afterPoll wf k sorted (doPoll wf k sorted st1) with
  | cont s => exact ⟨s, rfl⟩
  | done o s => exact ⟨s, rfl⟩
  | bad =>
    exfalso
    unfold afterPoll at hap
    split at hap
    · exact absurd hap (by simp)
    · simp only at hap
      split at hap
      · exact absurd hap (by simp)
      · split at hap <;> exact absurd hap (by simp)

/-- C18 (idle iterations), fault-free runs: an iteration that awaits nothing ends the submission, or dispatches a
    job, or starts (or marks unrunnable) a node that had not been started -/
theorem C18_idle_round_progress {wf : Wf} {k : Option Nat} {sorted : List NodeId} (hw : WellFormed wf sorted)
    (hk : k ≠ some 0) (sched : List (List Ev)) (hff : FaultFree sched) {st : St}
    (h : runAsync wf k sorted sched = .cont st) (he : st.futures = []) :
    (∃ o st', round wf k sorted st [] = .done o st') ∨
    ∃ st', round wf k sorted st [] = .cont st' ∧
      (st'.futures ≠ [] ∨ ∃ n, n ∈ sorted ∧ (st.ns.get n).blk = none ∧ (st'.ns.get n).blk ≠ none) := by
  have hstate : (runAsync wf k sorted sched).state? = some st := by rw [h]; rfl
  exact idle_round_progress hw hk (sinv_runAsync hw.topo sched hstate)
    (li_runAsync (ff_loopInv wf k sorted) hw.topo ff_init sched hff hstate) he

/-- C18, PARTIAL (hypothesis `FaultFree`) — THE BOUND: a fault-free run of a workflow that `sorting` accepts
    performs at most `2 * (jobs dispatched) + (nodes) + 2` iterations of the loop, whatever the schedule.
    (Every iteration increases the potential `2 * completed futures + started nodes + [something pending]`.) -/
theorem C18_fault_free_bound {wf : Wf} {k : Option Nat} {sorted : List NodeId} (hw : WellFormed wf sorted)
    (hk : k ≠ some 0) (sched : List (List Ev)) (hff : FaultFree sched) {st' : St}
    (h : (runAsync wf k sorted sched).state? = some st') :
    roundsRun wf k sorted (start wf k sorted (fun _ => .idle)) sched ≤ 2 * st'.futured.length + sorted.length + 2 := by
  have hs' := sinv_runAsync hw.topo sched h
  have hp := potential_le sorted hs'
  cases hs0 : start wf k sorted (fun _ => .idle) with
  | bad => simp [roundsRun]
  | done o s => cases sched <;> simp [roundsRun]
  | cont st0 =>
    have h0 : (start wf k sorted (fun _ => .idle)).state? = some st0 := by rw [hs0]; rfl
    have hsi := sinv_start hw.topo h0
    have hfi : FF st0 := li_afterPoll (ff_loopInv wf k sorted) hw.topo (sinv_doPoll hw.topo (sinv_init wf k))
      ((ff_loopInv wf k sorted).poll _ (sinv_init wf k) ff_init) h0
    have hrun : (runFrom wf k sorted (.cont st0) sched).state? = some st' := by
      unfold runAsync at h; rw [hs0] at h; exact h
    have := roundsRun_le hw hk sched st0 hsi hfi hff st' hrun
    omega

theorem roundsRun_of_cont {wf : Wf} {k : Option Nat} {sorted : List NodeId} : ∀ (sched : List (List Ev)) (st st' : St),
    runFrom wf k sorted (.cont st) sched = .cont st' → roundsRun wf k sorted (.cont st) sched = sched.length
  | [], _, _, _ => rfl
  | mv :: rest, st, st', h => by
    simp only [runFrom] at h
    cases hr : round wf k sorted st mv with
    | bad => rw [hr] at h; cases rest <;> simp [runFrom] at h
    | done o s => rw [hr] at h; cases rest <;> simp [runFrom] at h
    | cont s =>
      rw [hr] at h
      simp only [roundsRun, hr, List.length_cons]
      rw [roundsRun_of_cont rest s st' h]; omega

/-- C18, PARTIAL (hypothesis `FaultFree`) — TERMINATION: if a fault-free schedule is longer than the bound, the
    submission has ended before the schedule is used up -/
theorem C18_fault_free_terminates {wf : Wf} {k : Option Nat} {sorted : List NodeId} (hw : WellFormed wf sorted)
    (hk : k ≠ some 0) (sched : List (List Ev)) (hff : FaultFree sched) {st' : St}
    (h : (runAsync wf k sorted sched).state? = some st')
    (hlong : 2 * st'.futured.length + sorted.length + 2 < sched.length) :
    ∃ o, runAsync wf k sorted sched = .done o st' := by
  have hb := C18_fault_free_bound hw hk sched hff h
  cases hr : runAsync wf k sorted sched with
  | bad => rw [hr] at h; simp [Step.state?] at h
  | done o s =>
    rw [hr] at h; simp only [Step.state?, Option.some.injEq] at h; subst h
    exact ⟨o, rfl⟩
  | cont s =>
    exfalso
    rw [hr] at h; simp only [Step.state?, Option.some.injEq] at h; subst h
    cases hs0 : start wf k sorted (fun _ => .idle) with
    | bad => unfold runAsync at hr; rw [hs0] at hr; cases sched <;> simp [runFrom] at hr
    | done o s0 => unfold runAsync at hr; rw [hs0] at hr; cases sched <;> simp [runFrom] at hr
    | cont st0 =>
      unfold runAsync at hr; rw [hs0] at hr
      have := roundsRun_of_cont sched st0 s hr
      rw [hs0, this] at hb
      omega

/-! ### every ending of a fault-free run, and what the `not_started` break costs -/

/-- C18, PARTIAL (hypothesis `FaultFree`) — EVERY ENDING, also the ones produced by the stall detector: the collected
    errors are exactly the failed jobs, and the submission ends
    * with outputs (`success`: no job failed, every node done), or
    * with the error listing exactly the failed jobs (`failed`), or
    * with the stall detector's own error (`stall`): then no job failed and some node is not done.
    In particular a run that the detector ends while it is still marking a long chain of nodes downstream of a
    failure (one level per poll, `C18_one_level_per_poll`) reports exactly the failed jobs. -/
theorem C18_every_end {wf : Wf} {k : Option Nat} {sorted : List NodeId} (hw : WellFormed wf sorted)
    (sched : List (List Ev)) (hff : FaultFree sched) {o : Outcome} {st : St}
    (hrun : runAsync wf k sorted sched = .done o st) :
    (∀ c, c ∈ st.errors ↔ st.w c = .err) ∧
    ((o = .success ∧ st.errors = [] ∧ ∀ n, n ∈ wf.g.nodes → (st.ns.get n).isDone = true) ∨
     (o = .failed st.errors ∧ st.errors ≠ []) ∨
     (o = .stall ∧ st.errors = [] ∧ ∃ n, n ∈ wf.g.nodes ∧ (st.ns.get n).isDone = false)) := by
  have hstate : (runAsync wf k sorted sched).state? = some st := by rw [hrun]; rfl
  have hs := sinv_runAsync hw.topo sched hstate
  have hf := li_runAsync (ff_loopInv wf k sorted) hw.topo ff_init sched hff hstate
  obtain ⟨stp, hstp⟩ := runAsync_done hrun
  obtain ⟨hnf, _, _, _, hcase⟩ := afterPoll_done_normal hstp
  have h4 : ∀ c, c ∈ st.errors ↔ st.w c = .err := by
    intro c
    constructor
    · exact hf.namedErr c
    · intro he
      rcases hf.errNamed c he with h | h
      · rw [hnf] at h; simp at h
      · exact h
  refine ⟨h4, ?_⟩
  by_cases he : st.errors = []
  · have hne : st.errors.isEmpty = true := by simp [he]
    rcases hcase with ⟨hdone, ho⟩ | ⟨hnd, ho⟩
    · left
      refine ⟨?_, he, hdone⟩
      rw [ho]
      unfold finish
      simp only [hne, Bool.not_true, Bool.false_eq_true, if_false]
      have : wf.g.nodes.filter (fun n => !(st.ns.get n).errored.isEmpty) = [] := by
        rw [List.filter_eq_nil_iff]
        intro n _
        simp only [Bool.not_eq_true', Bool.not_eq_false, List.isEmpty_iff]
        apply List.eq_nil_iff_forall_not_mem.mpr
        intro i hi
        have := (h4 _).mpr ((hs.ninv.loc n).errErr i hi)
        rw [he] at this; simp at this
      rw [this]; simp
    · right; right
      refine ⟨?_, he, hnd⟩
      rw [ho]; simp [hne]
  · right; left
    have hne : st.errors.isEmpty = false := by simpa [List.isEmpty_iff] using he
    refine ⟨?_, he⟩
    rcases hcase with ⟨_, ho⟩ | ⟨_, ho⟩
    · rw [ho]; unfold finish; simp [hne]
    · rw [ho]; simp [hne]

/-- C18 (cost of the `not_started` break, 1): ONE LEVEL PER POLL — a node that consumes a node which is unstarted when a
    poll begins is still unstarted after that poll; so a chain of L unstarted nodes (e.g. downstream of a failure, each
    waiting to be marked unrunnable) needs at least L polls -/
theorem C18_one_level_per_poll {wf : Wf} {k : Option Nat} {sorted : List NodeId} (hw : WellFormed wf sorted)
    {w : World} {ns : NSMap} (hn : NInv wf w ns) {m n : NodeId} (hm : m ∈ sorted) (hnm : n ∈ wf.preds m)
    (hnb : (ns.get n).blk = none) (hmb : (ns.get m).blk = none) :
    ((poll wf k sorted w ns).1.get m).blk = none :=
  scan_one_level hw.topo ns sorted [] ns [] [] (by simp)
    ⟨hn, Grow.refl _, fun p hp => absurd hp (by simp), fun j hj => absurd hj (by simp)⟩
    (fun p hp => absurd hp (by simp)) (fun _ _ => rfl) m hm ⟨n, hnm, hnb⟩ hmb

/-- C18 (cost of the `not_started` break, 2): the delay it imposes on an independent node ends as soon as everything
    before that node in `sorted_nodes` has been started: then the poll examines it, and if its predecessors are done
    it is started (or marked unrunnable) by that very poll -/
theorem C18_examined_when_earlier_started {wf : Wf} {k : Option Nat} {sorted : List NodeId}
    (hw : WellFormed wf sorted) {w : World} {ns : NSMap} (hn : NInv wf w ns) (mid : List NodeId) (y : NodeId)
    (post : List NodeId) (hsplit : sorted = mid ++ y :: post) (hmid : ∀ x, x ∈ mid → (ns.get x).blk ≠ none)
    (hyb : (ns.get y).blk = none) (hpd : ∀ p, p ∈ wf.preds y → (ns.get p).isDone = true) :
    ((poll wf k sorted w ns).1.get y).blk ≠ none := by
  show ((scan wf w sorted ns [] []).1.get y).blk ≠ none
  rw [hsplit]
  exact scan_reaches hw.topo ns y post mid [] ns [] (by simpa using hsplit)
    ⟨hn, Grow.refl _, fun p hp => absurd hp (by simp), fun j hj => absurd hj (by simp)⟩ hmid hyb hpd

/-- a chain 0 → 1 → … → 12 -/
def chain13 : G := ⟨List.range 13, (List.range 12).map (fun i => (i, i + 1)), [], none⟩

set_option maxRecDepth 100000 in
/-- WITNESS (interaction with the 11 polls of the stall detector, failures): job 0 fails and 12 nodes downstream of it
    have to be marked one per poll; the detector gives up first — the submission still ends with the error that names
    exactly the failed job (as `C18_every_end` says), although nodes 2..12 were never marked -/
theorem C18_long_failure_chain :
    (match runAsync ⟨chain13, fun n _ => [n], fun c => c⟩ none (List.range 13)
        [[.acquire 0, .finishErr 0, .complete 0]] with
     | .done o st => some (o, (List.range 13).map (fun n => (st.ns.get n).isDone))
     | _ => none) =
    some (Outcome.failed [0], [true, true] ++ (List.range 11).map (fun _ => false)) := by decide

set_option maxRecDepth 100000 in
/-- WITNESS (the same interaction, no failure at all): node 0 succeeds and is followed by a chain of 12 nodes that
    split over an empty list; each is started — and immediately done — by one poll, nothing is pending, so it is the
    stall detector that polls, and after its 11th poll it raises although the workflow is healthy: a fault-free,
    failure-free run that ends with the detector's error, while the synchronous loop returns the outputs.  (Workflows of
    13 nodes are outside the quantifier of C17; reproduced on the real code, see the report.) -/
theorem C18_long_empty_chain_stalls :
    (match runAsync ⟨chain13, fun n _ => if n = 0 then [0] else [], fun c => c⟩ none (List.range 13)
        [[.acquire 0, .finishOk 0, .complete 0]] with
     | .done o _ => some o
     | _ => none) = some Outcome.stall ∧
    (runSync ⟨chain13, fun n _ => if n = 0 then [0] else [], fun c => c⟩ none (List.range 13) (fun _ => false) 31).1
      = SyncOutcome.success := by decide

/-- C18 for the debug worker: the synchronous loop terminates (no fuel caveat), see `C17_sync_terminates` -/
theorem C18_sync_terminates {wf : Wf} {k : Option Nat} {sorted : List NodeId} (hw : WellFormed wf sorted)
    (hc : ClosedGraph wf.g) (hac : Acyclic wf.g) (hk : k ≠ some 0) {r : NodeId → List Ck} (hr : RefJobs wf r)
    (fail : Ck → Bool) (fuel : Nat) (hfuel : 2 * (sorted.flatMap r).length + 2 * sorted.length + 3 ≤ fuel) :
    (runSync wf k sorted fail fuel).1 ≠ .outOfFuel :=
  C17_sync_terminates hw hc hac hk hr fail fuel hfuel

/-- Non-vacuity: the D24 schedule is *not* fault free, the D10 schedule of C14 is. -/
example : ¬ FaultFree [[.vanish 0]] := by
  intro h; exact h [.vanish 0] (by simp) (.vanish 0) (by simp)

example : FaultFree schedD10 := by unfold FaultFree; decide

end PydraModel.Sched
