import PydraModel.Rules.Lemmas2
import PydraModel.Rules.CallSites
/-
C31 — Requirement and mutual-exclusion rules are enforced exactly.

Property theorems only.  Model: `Rules/Model.lean` (`Task._rule_violations`, `Requirement.satisfied`);
reference: `Rules/Spec.lean` (`RulesOK`: the property statement with one notion of "set";
`CodeRulesOK`: the same statement with the three notions the code uses).
-/
namespace PydraModel.Rules

/-! ## Full statement, as the property words it -/

/-- The property at full strength (one notion of "set" in every clause).  The pinned code violates it:
    `C31_witness_xor_empty`, `C31_witness_optbool_false`, and no choice of the notion repairs it
    (`C31_no_uniform_notion`). -/
def C31_full_statement : Prop :=
  ∀ (d : Def) (a : Assignment), WF d → Closed d → (ruleViolations d a = [] ↔ RulesOK d a)

/-! ## Decision logic of the code, for any number of fields, requirement sets and groups -/

/-- FULL, unconditional in the assignment: `_rule_violations()` is empty iff the property's three clauses hold
    with the code's notions of "set" (`triggers` for a field's own requirements, "not None and not False-on-bool"
    for a required field, truthiness for exclusive groups). -/
theorem C31_code_exact (d : Def) (a : Assignment) (hwf : WF d) :
    ruleViolations d a = [] ↔ CodeRulesOK d a := by
  rw [ruleViolations_nil_iff]
  unfold CodeRulesOK RulesOKWith
  constructor
  · rintro ⟨hf, hx⟩
    refine ⟨?_, ?_, ?_⟩
    · intro f hmem; exact ((fieldViolations_nil_iff d a f).mp (hf f hmem)).1
    · intro f hmem; exact ((fieldViolations_nil_iff d a f).mp (hf f hmem)).2
    · intro g hg; exact (xorViolations_nil_iff a g (hwf g hg)).mp (hx g hg)
  · rintro ⟨hM, hR, hX⟩
    refine ⟨?_, ?_⟩
    · intro f hmem; exact (fieldViolations_nil_iff d a f).mpr ⟨hM f hmem, hR f hmem⟩
    · intro g hg; exact (xorViolations_nil_iff a g (hwf g hg)).mpr (hX g hg)

/-- PARTIAL (hypothesis `Uniform`, decidable): on assignments with no empty string in an exclusive group, no
    `False` on a required non-`bool` field and no `True` on an optional file-set field, the check accepts
    exactly the assignments the property allows. -/
theorem C31_partial (d : Def) (a : Assignment) (hwf : WF d) (hc : Closed d) (hu : Uniform d a) :
    ruleViolations d a = [] ↔ RulesOK d a :=
  (C31_code_exact d a hwf).trans (codeRulesOK_iff_rulesOK d a hc hu)

/-- The executable reference used by the driver decides the property's predicate. -/
theorem C31_spec_decides (d : Def) (a : Assignment) (hwf : WF d) : rulesOKb d a = true ↔ RulesOK d a :=
  rulesOKb_iff d a hwf

/-! ## Per-clause lemmas -/

/-- mandatory clause: a "Mandatory field" error is reported exactly for the unset, non-exempt fields -/
theorem C31_mandatory (d : Def) (a : Assignment) (n : Name) :
    Violation.mandatory n ∈ ruleViolations d a ↔
      ∃ f ∈ d.fields, f.name = n ∧ f.exempt = false ∧ a n = .unset := by
  unfold ruleViolations
  rw [List.mem_append]
  have hx : ¬ Violation.mandatory n ∈ d.xor.flatMap (xorViolations a) := by
    intro h
    obtain ⟨g, _, hg⟩ := List.mem_flatMap.mp h
    unfold xorViolations at hg
    simp only [] at hg
    split at hg
    · simp at hg
    · split at hg <;> simp at hg
  constructor
  · rintro (h | h)
    · obtain ⟨f, hf, hv⟩ := List.mem_flatMap.mp h
      unfold fieldViolations at hv
      rcases List.mem_append.mp hv with hv | hv
      · split at hv
        · rename_i hc
          simp at hv
          subst hv
          simp at hc
          exact ⟨f, hf, rfl, hc.2, hc.1⟩
        · simp at hv
      · split at hv <;> simp at hv
    · exact (hx h).elim
  · rintro ⟨f, hf, rfl, he, hu⟩
    left
    refine List.mem_flatMap.mpr ⟨f, hf, ?_⟩
    unfold fieldViolations
    simp [hu, he]

/-- requires clause (with allowed values): a "requires" error for field `f` is reported exactly when `f` triggers,
    has requirement sets, and every one of them contains a requirement that does not hold -/
theorem C31_requires (d : Def) (a : Assignment) (n : Name) :
    Violation.requires n ∈ ruleViolations d a ↔
      ∃ f ∈ d.fields, f.name = n ∧ triggers f (a n) = true ∧ f.requires ≠ [] ∧
        ∀ rs ∈ f.requires, ∃ r ∈ rs,
          ¬ ReqOK (fun m v => v ≠ .none ∧ ¬ (isBoolField d m = true ∧ v = .bool false)) a r := by
  unfold ruleViolations
  rw [List.mem_append]
  have hx : ¬ Violation.requires n ∈ d.xor.flatMap (xorViolations a) := by
    intro h
    obtain ⟨g, _, hg⟩ := List.mem_flatMap.mp h
    unfold xorViolations at hg
    simp only [] at hg
    split at hg
    · simp at hg
    · split at hg <;> simp at hg
  have hall : ∀ f : Field, (f.requires.any (rsSatisfied d a) = false ↔
      ∀ rs ∈ f.requires, ∃ r ∈ rs,
        ¬ ReqOK (fun m v => v ≠ .none ∧ ¬ (isBoolField d m = true ∧ v = .bool false)) a r) := by
    intro f
    rw [List.any_eq_false]
    apply forall_congr'; intro rs; apply imp_congr_right; intro _
    rw [rsSatisfied_iff]
    constructor
    · intro h
      apply Classical.byContradiction
      intro hn
      apply h
      intro r hr
      apply Classical.byContradiction
      intro hnr
      exact hn ⟨r, hr, hnr⟩
    · rintro ⟨r, hr, hn⟩ hall
      exact hn (hall r hr)
  constructor
  · rintro (h | h)
    · obtain ⟨f, hf, hv⟩ := List.mem_flatMap.mp h
      unfold fieldViolations at hv
      rcases List.mem_append.mp hv with hv | hv
      · split at hv <;> simp at hv
      · split at hv
        · rename_i hc
          simp at hv
          subst hv
          simp only [Bool.and_eq_true, Bool.not_eq_true'] at hc
          obtain ⟨⟨ht, hne⟩, hany⟩ := hc
          refine ⟨f, hf, rfl, ht, ?_, (hall f).mp hany⟩
          intro hnil; rw [hnil] at hne; simp at hne
        · simp at hv
    · exact (hx h).elim
  · rintro ⟨f, hf, rfl, ht, hne, hno⟩
    left
    refine List.mem_flatMap.mpr ⟨f, hf, ?_⟩
    unfold fieldViolations
    have h1 : f.requires.isEmpty = false := by
      cases hreq : f.requires with
      | nil => exact (hne hreq).elim
      | cons _ _ => rfl
    have h2 := (hall f).mpr hno
    simp [ht, h1, h2]

/-- xor clause, at-most-one half: "Mutually exclusive fields … set together" is reported for a group iff two
    different members are truthy -/
theorem C31_xor_at_most_one (a : Assignment) (g : List (Option Name)) (hnd : (g.filterMap id).Nodup) :
    (∃ s, Violation.xorMany s ∈ xorViolations a g) ↔
      ∃ n m, some n ∈ g ∧ some m ∈ g ∧ truthy (a n) = true ∧ truthy (a m) = true ∧ n ≠ m := by
  have hcount := filter_length_le_one_iff (fun n => truthy (a n)) (g.filterMap id) hnd
  simp only [mem_filterMap_id] at hcount
  unfold xorViolations
  simp only []
  by_cases h1 : ((g.filterMap id).filter (fun n => truthy (a n))).length > 1
  · simp only [h1, if_true]
    constructor
    · intro _
      have : ¬ ((g.filterMap id).filter (fun n => truthy (a n))).length ≤ 1 := by omega
      rw [hcount] at this
      apply Classical.byContradiction
      intro hno
      apply this
      intro n m hn hm tn tm
      apply Classical.byContradiction
      intro hne
      exact hno ⟨n, m, hn, hm, tn, tm, hne⟩
    · intro _; exact ⟨(g.filterMap id).filter (fun n => truthy (a n)), by simp⟩
  · simp only [h1, if_false]
    have hle : ((g.filterMap id).filter (fun n => truthy (a n))).length ≤ 1 := by omega
    constructor
    · rintro ⟨s, hs⟩
      split at hs <;> simp at hs
    · rintro ⟨n, m, hn, hm, tn, tm, hne⟩
      exact (hne (hcount.mp hle n m hn hm tn tm)).elim

/-- xor clause, exactly-one-unless-None half: "At least one of the mutually exclusive fields should be set" is
    reported iff no member is truthy and the group does not contain `None` -/
theorem C31_xor_exactly_one (a : Assignment) (g : List (Option Name)) :
    (∃ s, Violation.xorNone s ∈ xorViolations a g) ↔
      (¬ ∃ n, some n ∈ g ∧ truthy (a n) = true) ∧ none ∉ g := by
  have hpos := filter_length_pos_iff (fun n => truthy (a n)) (g.filterMap id)
  simp only [mem_filterMap_id] at hpos
  rw [← hpos]
  unfold xorViolations
  simp only []
  by_cases h1 : ((g.filterMap id).filter (fun n => truthy (a n))).length > 1
  · simp only [h1, if_true]
    constructor
    · rintro ⟨s, hs⟩; simp at hs
    · rintro ⟨h, _⟩; omega
  · simp only [h1, if_false]
    by_cases h0 : ((g.filterMap id).filter (fun n => truthy (a n))) = []
    · by_cases hn : none ∈ g
      · simp [h0, hn]
      · simp [h0, hn]
    · have hne : ((g.filterMap id).filter (fun n => truthy (a n))).isEmpty = false := by
        cases hf : (g.filterMap id).filter (fun n => truthy (a n)) with
        | nil => exact (h0 hf).elim
        | cons _ _ => rfl
      have hlen : ((g.filterMap id).filter (fun n => truthy (a n))).length ≠ 0 := by
        intro h; exact h0 (List.length_eq_zero_iff.mp h)
      simp only [hne, Bool.false_and, Bool.false_eq_true, if_false]
      constructor
      · rintro ⟨s, hs⟩; simp at hs
      · rintro ⟨h, _⟩; exact (h hlen).elim

/-! ## Witnesses: where the pinned code and the property's wording part -/

def optStr (n : Name) (req : List (List Req) := []) : Field :=
  { name := n, isBool := false, optFileset := false, exempt := false, requires := req }

/-- D51: exclusive group `{a, b}`, `a = ""`, `b = "x"`.  For its own requirements `""` is a set value, for the
    group it is not: the check accepts although two members of the group are set. -/
def wXorDef : Def := { fields := [optStr "a", optStr "b"], xor := [[some "a", some "b"]] }
def wXorAsg : Assignment := assignOf [("a", .str ""), ("b", .str "x")]

theorem C31_witness_xor_empty :
    ruleViolations wXorDef wXorAsg = [] ∧ ¬ RulesOK wXorDef wXorAsg ∧ WF wXorDef ∧ Closed wXorDef := by
  have hwf : WF wXorDef := by decide
  refine ⟨by decide, ?_, hwf, by decide⟩
  rw [← rulesOKb_iff _ _ hwf]
  decide

/-- …and the same `""` *does* count as set where requirements are concerned: `a = ""` with an unmet requirement
    is rejected, so the code has no single notion of "set". -/
def wReqEmptyDef : Def := { fields := [optStr "a" [[⟨"b", none⟩]], optStr "b"], xor := [] }

theorem C31_witness_empty_triggers :
    ruleViolations wReqEmptyDef (assignOf [("a", .str ""), ("b", .none)]) = [.requires "a"] := by decide

/-- D52: `a` requires `r`, `r : bool | None = False`, `a = "x"`.  `False` never triggers a field's own
    requirements, but satisfies a requirement on a field whose type is not exactly `bool`: accepted. -/
def wOptBoolDef : Def := { fields := [optStr "a" [[⟨"r", none⟩]], optStr "r"], xor := [] }
def wOptBoolAsg : Assignment := assignOf [("a", .str "x"), ("r", .bool false)]

theorem C31_witness_optbool_false :
    ruleViolations wOptBoolDef wOptBoolAsg = [] ∧ ¬ RulesOK wOptBoolDef wOptBoolAsg ∧
    WF wOptBoolDef ∧ Closed wOptBoolDef := by
  have hwf : WF wOptBoolDef := by decide
  refine ⟨by decide, ?_, hwf, by decide⟩
  rw [← rulesOKb_iff _ _ hwf]
  decide

/-- with `r : bool` the same assignment is rejected -/
theorem C31_bool_false_rejected :
    ruleViolations { fields := [optStr "a" [[⟨"r", none⟩]], { optStr "r" with isBool := true }], xor := [] }
      wOptBoolAsg = [.requires "a"] := by decide

/-- The property as worded does not hold for the pinned code. -/
theorem C31_full_statement_fails : ¬ C31_full_statement := by
  intro h
  obtain ⟨h1, h2, h3, h4⟩ := C31_witness_xor_empty
  exact h2 ((h wXorDef wXorAsg h3 h4).mp h1)

/-- No single notion of "set" makes the property true of the code: whatever predicate on values is used in all
    three clauses, some definition and assignment are accepted by the check and violate the property.  (So the
    deviation is not an artefact of how this file reads the word "set".) -/
theorem C31_no_uniform_notion (isSet : Val → Prop) :
    ∃ (d : Def) (a : Assignment), WF d ∧ Closed d ∧ ruleViolations d a = [] ∧
      ¬ RulesOKWith (fun _ v => isSet v) (fun _ v => isSet v) isSet d a := by
  by_cases hx : isSet (.str "x")
  · by_cases he : isSet (.str "")
    · -- "" and "x" both set: two members of an exclusive group
      refine ⟨{ fields := [optStr "a", optStr "b"], xor := [[some "a", some "b", none]] },
              assignOf [("a", .str ""), ("b", .str "x")], by decide, by decide, by decide, ?_⟩
      rintro ⟨_, _, hX⟩
      have := (hX [some "a", some "b", none] (by simp)).1 "a" "b" (by simp) (by simp) he hx
      revert this; decide
    · -- "x" set, "" not: a requirement on a field holding ""
      refine ⟨{ fields := [optStr "a" [[⟨"r", none⟩]], optStr "r"], xor := [] },
              assignOf [("a", .str "x"), ("r", .str "")], by decide, by decide, by decide, ?_⟩
      rintro ⟨_, hR, _⟩
      obtain ⟨rs, hrs, hall⟩ := hR (optStr "a" [[⟨"r", none⟩]]) (by simp) hx (by simp [optStr])
      simp [optStr] at hrs
      subst hrs
      exact he (hall ⟨"r", none⟩ (by simp)).1
  · -- "x" not set: a one-member exclusive group without None holding "x"
    refine ⟨{ fields := [optStr "a"], xor := [[some "a"]] },
            assignOf [("a", .str "x")], by decide, by decide, by decide, ?_⟩
    rintro ⟨_, _, hX⟩
    rcases (hX [some "a"] (by simp)).2 with h | ⟨n, hn, hs⟩
    · simp at h
    · simp at hn
      subst hn
      exact hx hs

/-! ## Outside the property's quantifier: lazy values, `readonly` / `path_template` fields, `True` on an optional
      file-set field.  The model carries them (`Val.lazy`, `Field.exempt`, `Field.optFileset`) because the code has a
      line for each; the correspondence exercises them in a separate stream (workflow node inputs, `shell.arg(readonly=
      True)`, `shell.outarg(path_template=…)`); `C31_partial` excludes them through `Closed` and `Uniform`.  What the
      code does there, for the record: -/

/-- a field holding a lazy value is skipped by the loop (`if is_lazy(value): continue`), whatever its requirements -/
theorem C31_lazy_field_skipped (d : Def) (a : Assignment) (f : Field) (h : a f.name = .lazy) :
    fieldViolations d a f = [] := by
  unfold fieldViolations triggers
  simp [h]

/-- …so `a` (lazy) with an unmet requirement is accepted at workflow-construction time although, read as "set", it
    violates the property; as a *required* field a lazy value counts as present, and in an exclusive group it counts
    as set. -/
theorem C31_lazy_behaviour :
    ruleViolations wReqEmptyDef (assignOf [("a", .lazy), ("b", .none)]) = [] ∧
    ¬ RulesOK wReqEmptyDef (assignOf [("a", .lazy), ("b", .none)]) ∧
    ruleViolations wReqEmptyDef (assignOf [("a", .str "x"), ("b", .lazy)]) = [] ∧
    ruleViolations wXorDef (assignOf [("a", .lazy), ("b", .str "x")]) = [.xorMany ["a", "b"]] := by
  have hwf : WF wReqEmptyDef := by decide
  refine ⟨by decide, ?_, by decide, by decide⟩
  rw [← rulesOKb_iff _ _ hwf]
  decide

/-- a `readonly` / `path_template` field left unset raises no "Mandatory field" error, but `attrs.NOTHING` still
    triggers its requirements -/
theorem C31_exempt_unset_triggers :
    ruleViolations { fields := [{ optStr "ro" [[⟨"b", none⟩]] with exempt := true }, optStr "b"], xor := [] }
      (assignOf [("b", .none)]) = [.requires "ro"] := by decide

/-- `True` on an optional file-set field (an optional `outarg`: "use the path template") does not trigger the field's
    requirements, but counts as set in an exclusive group and satisfies a requirement on it -/
theorem C31_optfileset_true :
    ruleViolations { fields := [{ optStr "out" [[⟨"b", none⟩]] with optFileset := true, exempt := true }, optStr "b"],
                     xor := [] } (assignOf [("out", .bool true), ("b", .none)]) = [] ∧
    ruleViolations { fields := [{ optStr "out" with optFileset := true, exempt := true }, optStr "b" [[⟨"out", none⟩]]],
                     xor := [[some "out", some "b"]] } (assignOf [("out", .bool true), ("b", .str "x")])
      = [.xorMany ["out", "b"]] := by decide

/-! ## Non-vacuity of the hypotheses -/

/-- a definition with two alternative requirement sets (one with allowed values), a mandatory field and two
    exclusive groups (one allowing none) meets `WF` and `Closed`; an accepted and a rejected assignment are
    both `Uniform` -/
def exDef : Def :=
  { fields := [optStr "a" [[⟨"b", none⟩], [⟨"c", some ["x", "y"]⟩, ⟨"s", none⟩]],
               optStr "b", optStr "c", { optStr "f" with isBool := true }, optStr "s"],
    xor := [[some "a", some "f"], [some "b", some "c", none]] }

example : WF exDef ∧ Closed exDef := by decide
example : Uniform exDef (assignOf [("a", .str "q"), ("b", .none), ("c", .str "y"), ("f", .bool false), ("s", .str "s")])
    ∧ ruleViolations exDef (assignOf [("a", .str "q"), ("b", .none), ("c", .str "y"), ("f", .bool false), ("s", .str "s")]) = [] := by
  decide
example : Uniform exDef (assignOf [("a", .str "q"), ("b", .none), ("c", .str "z"), ("f", .bool true)])
    ∧ ruleViolations exDef (assignOf [("a", .str "q"), ("b", .none), ("c", .str "z"), ("f", .bool true)])
      = [.requires "a", .mandatory "s", .xorMany ["a", "f"]] := by
  decide

/-! ## Violations are reported before any execution (regenerated from the source on every run) -/

namespace CallSites

/-- Read off the current source of `Task.__call__`, `Submitter.__call__`, `Job.__init__`, `Job.run`,
    `Task._check_rules`:
    1. in `Submitter.__call__` (also with `Job.__init__` inlined at the constructor call) every call that starts
       execution (`submit`, `run`, …) comes after an unconditional `task._check_rules()`, and after the `Job`
       constructor;
    2. `Job.__init__` calls `task._check_rules()` unconditionally before it stores the task (`self.task = …`), so
       no `Job` ever holds an unchecked task;
    3. `Task.__call__` starts execution only through `Submitter.__call__`;
    4. the task body (`_run`) is called in `Job.run` only, on the task stored by the constructor;
    5. `_check_rules` evaluates `_rule_violations()` unconditionally and has a `raise` after it. -/
theorem C31_before_execution :
    checkedBefore isCheck isExec submitterCallEv = true
    ∧ checkedBefore isCheck isExec (inlineJob jobInitEv submitterCallEv) = true
    ∧ checkedBefore (fun e => e.recv == "" && e.attr == "Job" && !e.guarded) isExec submitterCallEv = true
    ∧ submitterCallEv.any isExec = true
    ∧ checkedBefore isCheck (fun e => e.recv == "self" && e.attr == "task=") jobInitEv = true
    ∧ jobInitEv.any (fun e => e.recv == "self" && e.attr == "task=") = true
    ∧ taskCallEv.all (fun e => !isExec e) = true
    ∧ taskCallEv.any (fun e => e.recv == "Submitter" && e.attr == "__call__") = true
    ∧ jobRunEv.any (fun e => e.attr == "_run") = true
    ∧ jobRunEv.all (fun e => !(e.attr == "_run") || e.recv == "self.task") = true
    ∧ (taskCallEv ++ submitterCallEv ++ submitterSubmitEv ++ jobInitEv).all (fun e => !(e.attr == "_run")) = true
    ∧ checkedBefore (fun e => e.attr == "_rule_violations" && !e.guarded) (fun e => e.attr == "raise") checkRulesEv = true
    ∧ checkRulesEv.any (fun e => e.attr == "raise") = true := by
  decide

/-- what 1. means, for the list extracted today: any execution-starting call in `Submitter.__call__` has an
    unconditional rule check strictly before it -/
theorem C31_before_execution_meaning :
    ∀ pre e post, submitterCallEv = pre ++ e :: post → isExec e = true →
      ∃ c ∈ pre, c.attr = "_check_rules" ∧ c.guarded = false := by
  intro pre e post hl he
  obtain ⟨c, hc, hp⟩ := checkedBefore_spec isCheck isExec submitterCallEv C31_before_execution.1 pre e post hl he
  refine ⟨c, hc, ?_⟩
  unfold isCheck at hp
  simpa using hp

end CallSites

end PydraModel.Rules
