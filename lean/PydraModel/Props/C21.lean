import PydraModel.Typing.Static4
import PydraModel.Typing.Static8
/-
C21 — Accepted lazy connections are honoured at run time.

`checkType T S` mirrors `TypeParser(T).check_type(S)` with default flags (no superclass_auto_cast, no
match_any_of_union: "without relying on permissive super-to-sub-class casting"); `coerce (cfgOf sac) T v`
mirrors what the downstream input's parser does with a run-time value (`sac = fieldParserSac` on task fields;
the theorems hold for both settings).  Inductions: `Typing/Static*.lean` (Static–Static4: the sequence-pattern
grammar; Static5–Static8: the whole grammar).
-/
namespace PydraModel.Typing

/-- The property at full strength: for every pair of types of the grammar.  NOT provable for the pinned
    tree: see `C21_full_statement_false`. -/
def C21_full_statement : Prop :=
  ∀ (sac : Bool) (T S : Ty) (v : V), T.wf = true → S.wf = true → S.anyFree = true → v.std = true →
    checkType T S = .ok () → conforms S v = true → OkAr (coerce (cfgOf sac) T v)

theorem checkType_expand {T S : Ty} (hT : T.seqPat = true) (haf : S.anyFree = true)
    (h : checkType T S = .ok ()) : expandCheck T S = .ok () := by
  unfold checkType at h
  cases S with
  | any => simp [Ty.anyFree] at haf
  | cls a | union l | gen o args | tupleVar t =>
    simp only at h
    split at h
    · rename_i u hu; cases u; exact hu
    · rename_i e he
      exfalso
      split at h
      · rename_i o a
        -- a subscripted pattern of the restricted grammar is never MultiInputObj[...]
        simp only [Ty.seqPat, Bool.and_eq_true, Bool.or_eq_true] at hT
        have hm : (o == MIO) = false := by
          rcases hT.1 with ⟨hc, _⟩ | ⟨ht, _⟩
          · exact (c21Origin_facts hc).1
          · have : o = .tuple := by simpa using ht
            subst this; decide
        simp only [hm, Bool.false_and, Bool.false_eq_true, ↓reduceIte] at h
        cases h
      · cases h

/-- PARTIAL, restricted grammar `_seqPatterns`: the *pattern* T is built from classes, Any, unions,
    `o[T]` with o ∈ {list, Sequence, MutableSequence, Iterable, Collection}, `tuple[T1, .., Tn]` and
    `tuple[T, ...]` (sets, mappings and MultiInputObj occur in T as bare classes only); the *source* S is any
    well-formed Any-free type; v is any value conforming to S built from scalars and list/tuple/set/frozenset/dict.
    Exclusions (decidable): `strictAtoms` — a str/bytes object inhabits only the class `str`/`bytes` (D13 territory);
    `ex21` — no position where the constructor call raises or cannot be made (D25, D25b, D25c at a bare class,
    D25b/D25d at a generic origin, and no set value re-built through an abstract origin).
    Conclusion: the run-time coercion accepts v, or rejects it because of a fixed-length tuple arity mismatch. -/
theorem C21_partial_seqPatterns (sac : Bool) (T S : Ty) (v : V) (hT : T.seqPat = true) (hS : S.wf = true)
    (haf : S.anyFree = true) (hv : v.std = true) (hchk : checkType T S = .ok ()) (hc : conforms S v = true)
    (hst : strictAtoms S v = true) (hex : ex21 sac T v = false) : OkAr (coerce (cfgOf sac) T v) := by
  have hst' : hit pbStrict pgStrict S v = false := by
    unfold strictAtoms at hst; simpa using hst
  exact c21_main sac T S v hT hS haf hv (checkType_expand hT haf hchk) hc hst' hex

/-- PARTIAL, WHOLE pattern grammar (classes, Any, unions, every generic origin incl. set / frozenset /
    abstract sets, dict / Mapping / MutableMapping, MultiInputObj[T], fixed and variadic tuples, any nesting), any
    well-formed Any-free source S, any conforming standard value, both `superclass_auto_cast` settings, and
    acceptance through the MultiInputObj retry of `check_type` included.
    Exclusions (decidable): `strictAtoms S v` as above; `ex21x sac T v = false`, i.e. no position of the coercion where
      * a bare class is met by a non-instance whose constructor call raises (D25, D25b, D25c at a bare class),
      * an abstract generic origin is met by a non-instance (D25b),
      * a dict is met by a non-mapping origin it is an instance of (D25d: ValueError),
      * a set / frozenset is (re-)built, or a dict's keys are, from items whose pattern is not `hashTy`
        (scalar classes, tuples and unions of such, frozenset[..]) — the remaining restriction, named in the
        theorem: it is the static form of D25c and also leaves out harmless cases such as `set[Any]`. -/
theorem C21_partial_hashTyItems (sac : Bool) (T S : Ty) (v : V) (hT : T.wf = true) (hS : S.wf = true)
    (haf : S.anyFree = true) (hv : v.std = true) (hchk : checkType T S = .ok ()) (hc : conforms S v = true)
    (hst : strictAtoms S v = true) (hex : ex21x sac T v = false) : OkAr (coerce (cfgOf sac) T v) := by
  have hst' : hit pbStrict pgStrict S v = false := by
    unfold strictAtoms at hst; simpa using hst
  exact c21_checkTypeX sac T S v hT hS haf hv hchk hc hst' hex

/-- values stored by a `hashTy` pattern are hashable (why sets and dict keys can be built) -/
theorem C21_hashTy_hashable (sac : Bool) (t : Ty) (x y : V) (ht : t.wf = true) (hh : hashTy t = true)
    (hx : x.std = true) (h : coerce (cfgOf sac) t x = .ok y) : hashable y = true :=
  coerce_hashable (cfgOf sac) t x y ht hh hx h

def T2 : Ty := .gen .dict [.cls .str, .gen .set [.gen .tuple [.cls .float, .cls .Path]]]
def S2 : Ty := .gen .Mapping [.cls .str, .gen .list [.gen .tuple [.cls .int, .cls .str]]]
def v2 : V := .map .dict [.atom .str (.str "k".toList)]
  [.seq .list [.seq .tuple [.atom .int (.int 1), .atom .str (.str "a/b".toList)],
               .seq .tuple [.atom .bool (.int 1), .atom .str (.str "a//b".toList)]]]

example : T2.wf = true ∧ S2.wf = true ∧ S2.anyFree = true := by decide
example : v2.std = true := by decide +kernel
example : checkType T2 S2 = .ok () := by with_unfolding_all rfl
example : conforms S2 v2 = true := by decide +kernel
example : strictAtoms S2 v2 = true := by decide +kernel
example : ex21x true T2 v2 = false := by decide +kernel
/-- non-vacuity: Mapping -> dict, list -> set (duplicates after coercion dropped), int/bool -> float, str -> Path -/
example : coerce (cfgOf true) T2 v2
    = .ok (.map .dict [.atom .str (.str "k".toList)]
        [.seq .set [.seq .tuple [.atom .float (.int 1), .atom .PosixPath (.str "a/b".toList)]]]) := by
  with_unfolding_all rfl

/-- non-vacuity of the retry: `tuple[int, int] -> MultiInputObj[tuple[int, int]]` is accepted only by the retry -/
example : expandCheck (.gen MIO [.gen .tuple [.cls .int, .cls .int]]) (.gen .tuple [.cls .int, .cls .int]) = .error (.type false)
    ∧ checkType (.gen MIO [.gen .tuple [.cls .int, .cls .int]]) (.gen .tuple [.cls .int, .cls .int]) = .ok ()
    ∧ coerce (cfgOf true) (.gen MIO [.gen .tuple [.cls .int, .cls .int]]) (.seq .tuple [.atom .int (.int 1), .atom .int (.int 2)])
        = .ok (.seq .list [.seq .tuple [.atom .int (.int 1), .atom .int (.int 2)]]) := by
  exact ⟨by with_unfolding_all rfl, by with_unfolding_all rfl, by with_unfolding_all rfl⟩

/-- the class-level base case, re-proved over the regenerated tables on every run -/
theorem C21_tables (sac : Bool) (b a c : Cls) (hb : isStdValueCls b = true)
    (hba : issub b (effCls a) = true) (hs : (isStrBytes b && a != b) = false)
    (hc : coercibleStatic (.cls a) c = true) :
    issub b c = true ∨ coercibleRT (cfgOf sac) b c = true :=
  C21_tables_static_dynamic sac b a c hb hba hs hc

/-! ### non-vacuity: a nested accepted connection whose values are really coerced -/

def T1 : Ty := .gen .Sequence [.union [.gen .tuple [.cls .float, .cls .str], .cls .NoneType]]
def S1 : Ty := .gen .list [.union [.gen .tuple [.cls .int, .cls .str], .cls .NoneType]]
def v1 : V := .seq .list [.seq .tuple [.atom .int (.int 3), .atom .str (.str "a".toList)], .atom .NoneType .unit]

example : T1.seqPat = true := by decide
example : S1.wf = true ∧ S1.anyFree = true := by decide
example : v1.std = true := by decide +kernel
example : checkType T1 S1 = .ok () := by with_unfolding_all rfl
example : conforms S1 v1 = true := by decide +kernel
example : strictAtoms S1 v1 = true := by decide +kernel
example : ex21 true T1 v1 = false := by decide +kernel
example : coerce (cfgOf true) T1 v1
    = .ok (.seq .list [.seq .tuple [.atom .float (.int 3), .atom .str (.str "a".toList)], .atom .NoneType .unit]) := by
  with_unfolding_all rfl
/-- the arity escape is real: list[int] -> tuple[int, int] is accepted statically, [1, 2, 3] is rejected for its length -/
example : checkType (.gen .tuple [.cls .int, .cls .int]) (.gen .list [.cls .int]) = .ok ()
    ∧ coerce (cfgOf true) (.gen .tuple [.cls .int, .cls .int])
        (.seq .list [.atom .int (.int 1), .atom .int (.int 2), .atom .int (.int 3)]) = .error (.type true) := by
  exact ⟨by with_unfolding_all rfl, by with_unfolding_all rfl⟩

/-! ### witnesses: accepted statically, rejected at run time -/

/-- D25: `list[str] -> bytes` -/
theorem C21_witness_bytes :
    checkType (.cls .bytes) (.gen .list [.cls .str]) = .ok ()
    ∧ conforms (.gen .list [.cls .str]) (.seq .list [.atom .str (.str "ab".toList)]) = true
    ∧ coerce fieldCfg (.cls .bytes) (.seq .list [.atom .str (.str "ab".toList)]) = .error (.type false) := by
  exact ⟨by with_unfolding_all rfl, by decide +kernel, by with_unfolding_all rfl⟩

/-- D25b: `set[int] -> Sequence[int]` (abstract origin cannot be instantiated) -/
theorem C21_witness_abstract :
    checkType (.gen .Sequence [.cls .int]) (.gen .set [.cls .int]) = .ok ()
    ∧ conforms (.gen .set [.cls .int]) (.seq .set [.atom .int (.int 1), .atom .int (.int 2)]) = true
    ∧ coerce fieldCfg (.gen .Sequence [.cls .int]) (.seq .set [.atom .int (.int 1), .atom .int (.int 2)])
        = .error (.type false) := by
  exact ⟨by with_unfolding_all rfl, by decide +kernel, by with_unfolding_all rfl⟩

/-- D25c: `list[list[int]] -> set` (unhashable items) -/
theorem C21_witness_unhashable :
    checkType (.cls .set) (.gen .list [.gen .list [.cls .int]]) = .ok ()
    ∧ conforms (.gen .list [.gen .list [.cls .int]]) (.seq .list [.seq .list [.atom .int (.int 1)]]) = true
    ∧ coerce fieldCfg (.cls .set) (.seq .list [.seq .list [.atom .int (.int 1)]]) = .error (.type false) := by
  exact ⟨by with_unfolding_all rfl, by decide +kernel, by with_unfolding_all rfl⟩

def TD : Ty := .union [.gen .Collection [.cls .str], .gen .dict [.cls .str, .cls .int]]
def SD : Ty := .gen .dict [.cls .str, .cls .int]
def vD : V := .map .dict [.atom .str (.str "a".toList)] [.atom .int (.int 1)]

/-- D25d: `dict[str, int] -> Union[Collection[str], dict[str, int]]` raises ValueError instead of trying `dict` -/
theorem C21_witness_valueError :
    checkType TD SD = .ok () ∧ conforms SD vD = true ∧ coerce fieldCfg TD vD = .error .value := by
  exact ⟨by with_unfolding_all rfl, by decide +kernel, by with_unfolding_all rfl⟩

/-- the full statement is false for the model of the pinned tree (witness D25) -/
theorem C21_full_statement_false : ¬ C21_full_statement := by
  intro h
  have := h fieldParserSac (.cls .bytes) (.gen .list [.cls .str]) (.seq .list [.atom .str (.str "ab".toList)])
    (by decide) (by decide) (by decide) (by decide +kernel) C21_witness_bytes.1 C21_witness_bytes.2.1
  have hw : coerce (cfgOf fieldParserSac) (.cls .bytes) (.seq .list [.atom .str (.str "ab".toList)]) = .error (.type false) :=
    C21_witness_bytes.2.2
  rw [hw] at this
  rcases this with ⟨y, hy⟩ | he
  · cases hy
  · cases he

end PydraModel.Typing
