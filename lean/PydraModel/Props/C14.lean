import PydraModel.Props.C15
/-
C14 — A failing job never stops independent jobs; dependents never run; the error names every failed job.

Property theorems only.  Model: `Sched/Model.lean`, with the D10 repair (`update_status` guards `job.done` in the
`running` loop as in the `queued` loop: a job that is seen running and then fails is moved to `errored`).
"Depends on" is at node granularity, as in the scheduler: a node depends on every job of every node upstream.
`Doomed n` = some node upstream of `n` has a failed job.  Failing bodies are those for which the schedule
plays `finishErr`; the theorems hold for EVERY schedule, so for every fail set and every completion order.

Granularity: `C14_full` is stated for the semantics in which nothing changes on disk while `get_runnable_tasks`
runs; `C14_full_interleaved` is the same statement for the finer semantics of `Sched/Interleaved.lean`, in which
bodies start, finish and fail before every `node.done` / `p.done` read of a poll (one `update_status` call is still
atomic; futures complete between polls only).  `C14_race_instance` is the first gated witness of the check in that
semantics.  Before the D64 repair a job that failed *during* a poll could abort the whole workflow
(`C14_stale_tables_witness`).  After the repair `get_runnable_tasks` refreshes every predecessor first and decides
from that one snapshot (`C14_stale_tables_regression`, `nodeDecide_spec`: no hypothesis on the freshness of the
tables is needed any more); the gated witnesses on the real code are regression cases of the check.
-/
namespace PydraModel.Sched
open PydraModel.Graph

/-- C14 (dependents never run), FULL, at every instant of every schedule (even with lost jobs): nothing of a
    node downstream of a failed job is ever dispatched, and whatever has been dispatched or executed belongs
    to a node that is not downstream of a failure. -/
theorem C14_dependents_never_run {wf : Wf} {k : Option Nat} {sorted : List NodeId} (hw : WellFormed wf sorted)
    {st : St} (hi : Instant wf k sorted st) :
    (∀ n, Doomed wf st n → ¬ ((st.ns.get n).blk ≠ none ∧ (st.ns.get n).unrunnable = false)) ∧
    (∀ c, c ∈ st.futured → ∃ n, c ∈ (st.ns.get n).cks ∧ ¬ Doomed wf st n) := by
  have hs := sinv_instant hw hi
  refine ⟨fun n hd => doomed_not_started hs.ninv hd, ?_⟩
  intro c hc
  obtain ⟨n, hb, hu, hcn⟩ := hs.legit c hc
  exact ⟨n, hcn, fun hd => doomed_not_started hs.ninv hd ⟨hb, hu⟩⟩

/-- the submission ended through the normal exit of the loop (not through the stall detector) -/
def NormalEnd (wf : Wf) (k : Option Nat) (sorted : List NodeId) (sched : List (List Ev)) (o : Outcome) (st : St) : Prop :=
  runAsync wf k sorted sched = .done o st ∧ ∀ n, n ∈ wf.g.nodes → (st.ns.get n).isDone = true

/-- C14, FULL (after the D10 repair): for every acyclic workflow and every fault-free schedule under which the
    loop runs to its normal end,
    * every job of every node that is not downstream of a failure was dispatched (exactly once, C15) and has
      a result on disk (it was executed and cached) — a failing job has stopped nothing that is independent of it;
    * nodes downstream of a failure were never given any job;
    * every executed body belongs to a node that is not downstream of a failure;
    * the submission fails iff some job failed, and its error then names exactly the failed jobs. -/
theorem C14_full {wf : Wf} {k : Option Nat} {sorted : List NodeId} (hw : WellFormed wf sorted)
    (hac : Acyclic wf.g) (sched : List (List Ev)) (hff : ∀ mv, mv ∈ sched → ∀ e, e ∈ mv → noVanish e)
    {o : Outcome} {st : St} (hend : NormalEnd wf k sorted sched o st) :
    (∀ n, n ∈ wf.g.nodes → ¬ Doomed wf st n →
      ∀ c, c ∈ (st.ns.get n).cks → c ∈ st.futured ∧ (st.w c = .ok ∨ st.w c = .err)) ∧
    (∀ n, n ∈ wf.g.nodes → Doomed wf st n → (st.ns.get n).cks = []) ∧
    (∀ c, st.w c ≠ .idle → ∃ n, c ∈ (st.ns.get n).cks ∧ ¬ Doomed wf st n) ∧
    (∀ c, c ∈ st.errors ↔ st.w c = .err) ∧
    o = (if st.errors = [] then Outcome.success else Outcome.failed st.errors) := by
  obtain ⟨hrun, hdone⟩ := hend
  have hstate : (runAsync wf k sorted sched).state? = some st := by rw [hrun]; rfl
  have hs := sinv_runAsync hw.topo sched hstate
  have hf := li_runAsync (ff_loopInv wf k sorted) hw.topo ff_init sched hff hstate
  obtain ⟨stp, hstp⟩ := runAsync_done hrun
  obtain ⟨hnf, _, _, _, hcase⟩ := afterPoll_done_normal hstp
  obtain ⟨h1, h2, h3, h4⟩ := final_state hs hf hw.wip hac hdone hnf
  refine ⟨fun n hn hd c hc => (h1 n hn hd).2.2 c hc, fun n hn hd => (h2 n hn hd).2, h3, h4, ?_⟩
  -- the outcome
  have hfin : finish wf st = (if st.errors = [] then Outcome.success else Outcome.failed st.errors) := by
    unfold finish
    by_cases he : st.errors = []
    · simp only [he, List.isEmpty_nil, Bool.not_true, Bool.false_eq_true, if_false, if_true]
      -- no collected error: no node has a failed job
      have : wf.g.nodes.filter (fun n => !(st.ns.get n).errored.isEmpty) = [] := by
        rw [List.filter_eq_nil_iff]
        intro n _
        simp only [Bool.not_eq_true', Bool.not_eq_false, List.isEmpty_iff]
        apply List.eq_nil_iff_forall_not_mem.mpr
        intro i hi
        have := (h4 _).mpr ((hs.ninv.loc n).errErr i hi)
        rw [he] at this; simp at this
      rw [this]; simp
    · have : st.errors.isEmpty = false := by simpa [List.isEmpty_iff] using he
      simp [this, he]
  rcases hcase with ⟨_, ho⟩ | ⟨⟨n, hn, hnd⟩, _⟩
  · rw [ho, hfin]
  · rw [hdone n hn] at hnd; exact absurd hnd (by simp)

/-! ### the finer semantics: jobs may fail *while* a poll is scanning -/

theorem C14_dependents_never_run_interleaved {wf : Wf} {k : Option Nat} {sorted : List NodeId}
    (hw : WellFormed wf sorted) {st : St} (hi : InstantI wf k sorted st) :
    (∀ n, Doomed wf st n → ¬ ((st.ns.get n).blk ≠ none ∧ (st.ns.get n).unrunnable = false)) ∧
    (∀ c, c ∈ st.futured → ∃ n, c ∈ (st.ns.get n).cks ∧ ¬ Doomed wf st n) := by
  have hs := sinv_instantI hw hi
  refine ⟨fun n hd => doomed_not_started hs.ninv hd, ?_⟩
  intro c hc
  obtain ⟨n, hb, hu, hcn⟩ := hs.legit c hc
  exact ⟨n, hcn, fun hd => doomed_not_started hs.ninv hd ⟨hb, hu⟩⟩

def NormalEndI (wf : Wf) (k : Option Nat) (sorted : List NodeId) (sched : List (List Ev × Tape)) (o : Outcome)
    (st : St) : Prop :=
  runAsyncI wf k sorted sched = .done o st ∧ ∀ n, n ∈ wf.g.nodes → (st.ns.get n).isDone = true

/-- C14, FULL for the finer semantics (order of tests after the D64 repair): whatever starts, finishes or fails
    between any two status reads of any poll — the two gated witnesses of the check are instances — the conclusions
    of `C14_full` hold -/
theorem C14_full_interleaved {wf : Wf} {k : Option Nat} {sorted : List NodeId} (hw : WellFormed wf sorted)
    (hac : Acyclic wf.g) (sched : List (List Ev × Tape)) (hok : SchedOK sched)
    {o : Outcome} {st : St} (hend : NormalEndI wf k sorted sched o st) :
    (∀ n, n ∈ wf.g.nodes → ¬ Doomed wf st n →
      ∀ c, c ∈ (st.ns.get n).cks → c ∈ st.futured ∧ (st.w c = .ok ∨ st.w c = .err)) ∧
    (∀ n, n ∈ wf.g.nodes → Doomed wf st n → (st.ns.get n).cks = []) ∧
    (∀ c, st.w c ≠ .idle → ∃ n, c ∈ (st.ns.get n).cks ∧ ¬ Doomed wf st n) ∧
    (∀ c, c ∈ st.errors ↔ st.w c = .err) ∧
    o = (if st.errors = [] then Outcome.success else Outcome.failed st.errors) := by
  obtain ⟨hrun, hdone⟩ := hend
  have hstate : (runAsyncI wf k sorted sched).state? = some st := by rw [hrun]; rfl
  have hg := good_runAsyncI hw.topo sched hok hstate
  have hs := hg.s
  obtain ⟨stp, hstp⟩ : ∃ stp, afterPoll wf k sorted stp = .done o st := by
    rcases runFromI_done sched _ hrun with h1 | h1
    · exact ⟨_, h1⟩
    · exact h1
  obtain ⟨hnf, _, _, _, hcase⟩ := afterPoll_done_normal hstp
  obtain ⟨h1, h2, h3, h4⟩ := final_state hs hg.f hw.wip hac hdone hnf
  refine ⟨fun n hn hd c hc => (h1 n hn hd).2.2 c hc, fun n hn hd => (h2 n hn hd).2, h3, h4, ?_⟩
  have hfin : finish wf st = (if st.errors = [] then Outcome.success else Outcome.failed st.errors) := by
    unfold finish
    by_cases he : st.errors = []
    · simp only [he, List.isEmpty_nil, Bool.not_true, Bool.false_eq_true, if_false, if_true]
      have : wf.g.nodes.filter (fun n => !(st.ns.get n).errored.isEmpty) = [] := by
        rw [List.filter_eq_nil_iff]
        intro n _
        simp only [Bool.not_eq_true', Bool.not_eq_false, List.isEmpty_iff]
        apply List.eq_nil_iff_forall_not_mem.mpr
        intro i hi
        have := (h4 _).mpr ((hs.ninv.loc n).errErr i hi)
        rw [he] at this; simp at this
      rw [this]; simp
    · have : st.errors.isEmpty = false := by simpa [List.isEmpty_iff] using he
      simp [this, he]
  rcases hcase with ⟨_, ho⟩ | ⟨⟨n, hn, hnd⟩, _⟩
  · rw [ho, hfin]
  · rw [hdone n hn] at hnd; exact absurd hnd (by simp)

/-- the first gated witness of the check, in the finer semantics: p = 0, x = 1, y = 2, n = 3 (← p), z = 4 (← y);
    p fails during the poll that follows y's completion, right before the refresh of p that `n` performs -/
theorem C14_race_instance :
    (match runAsyncI ⟨⟨[0, 1, 2, 3, 4], [(0, 3), (2, 4)], [], none⟩, fun n _ => [n], fun c => c⟩ none [0, 1, 2, 3, 4]
        [([.acquire 0, .acquire 1, .acquire 2, .finishOk 1, .complete 1], []),
         ([.finishOk 2, .complete 2], [[], [], [], [], [.finishErr 0]]),
         ([.complete 0, .acquire 4, .finishOk 4, .complete 4], [])] with
     | .done o st => some (o, st.futured, (st.ns.get 3).unrunnable)
     | _ => none) = some (Outcome.failed [0], [0, 1, 2, 4], true) := by decide

/-! ### regression of the repaired defect D10, and non-vacuity

Nodes a = 0, f = 1, b = 2 (← a), c = 3 (← b), d = 4 (← f); one job each (checksum = node id).  The schedule lets
`f` be *seen running* at the poll after `a` completes and lets it fail afterwards: before the repair this poll
raised out of `update_status`, the workflow aborted and `c`, which is independent of `f`, never ran. -/

def wfD10 : Wf :=
  ⟨⟨[0, 1, 2, 3, 4], [(0, 2), (2, 3), (1, 4)], [], none⟩, fun n _ => [n], fun c => c⟩

def schedD10 : List (List Ev) :=
  [[.acquire 0, .acquire 1, .finishOk 0, .complete 0],
   [.acquire 2, .finishErr 1, .complete 1],
   [.finishOk 2, .complete 2],
   [.acquire 3, .finishOk 3, .complete 3]]

example : WellFormed wfD10 [0, 1, 2, 4, 3] := ⟨rfl, by decide, by decide⟩

example : Acyclic wfD10.g := ⟨fun n => match n with | 0 => 0 | 1 => 0 | 2 => 1 | 4 => 1 | _ => 2, by decide⟩

/-- the submission runs to its normal end, fails naming exactly `f`, has executed a, f, b, c and never started d -/
theorem C14_regression_D10 :
    (match runAsync wfD10 none [0, 1, 2, 4, 3] schedD10 with
     | .done o st => some (o, st.futured, (st.ns.get 4).unrunnable, wfD10.g.nodes.all (fun n => (st.ns.get n).isDone))
     | _ => none) = some (Outcome.failed [1], [0, 1, 2, 3], true, true) := by decide

instance : DecidablePred noVanish := fun e => by
  cases e <;> simp only [noVanish] <;> infer_instance

/-- Non-vacuity of `C14_full`: the run above satisfies its hypotheses. -/
example : ∃ o st, NormalEnd wfD10 none [0, 1, 2, 4, 3] schedD10 o st ∧
    (∀ mv, mv ∈ schedD10 → ∀ e, e ∈ mv → noVanish e) := by
  have key := C14_regression_D10
  cases h0 : runAsync wfD10 none [0, 1, 2, 4, 3] schedD10 with
  | done o st =>
    rw [h0] at key
    simp only [Option.some.injEq, Prod.mk.injEq] at key
    refine ⟨o, st, ⟨h0, ?_⟩, by decide⟩
    intro n hn
    exact List.all_eq_true.mp key.2.2.2 n hn
  | cont st => rw [h0] at key; simp at key
  | bad => rw [h0] at key; simp at key

/-! ### the modelling assumption "a poll is atomic" and the repaired defect D64 -/

/-- p = 0 with one job that was seen running; n = 1 consumes p -/
def wfPN : Wf := ⟨⟨[0, 1], [(0, 1)], [], none⟩, fun n _ => [n], fun c => c⟩

def nsStale : NSMap := ⟨fun n => if n = 0 then ⟨some [], [], [0], [], [], false, [0]⟩ else NS.init⟩

/-- WITNESS (repaired defect D64, the order of tests before the repair): if the job of `p` fails after `p`'s tables
    were refreshed but before `n`'s `get_runnable_tasks` runs (a change on disk *during* a poll), the old code tested
    `p.errored or p.unrunnable` on the stale tables, `all(p.done)` then recorded the failure and reported `p` done, and
    `n` was started behind a failed job — which `start()` does not survive: the workflow aborted -/
theorem C14_stale_tables_witness :
    let w2 : World := fun c => if c = 0 then .err else .idle
    let r := nodeRunnableOld wfPN w2 nsStale 1
    ((r.1.get 1).blk, (r.1.get 1).unrunnable, (r.1.get 0).errored, r.2) = (some [], false, [0], [0]) := by decide

/-- REGRESSION of D64 (repaired): the current order refreshes every predecessor first and takes both decisions
    from that snapshot; on the same stale tables `n` is marked unrunnable -/
theorem C14_stale_tables_regression :
    let w2 : World := fun c => if c = 0 then .err else .idle
    let r := nodeRunnable wfPN w2 nsStale 1
    ((r.1.get 1).blk, (r.1.get 1).unrunnable, (r.1.get 0).errored, r.2) = (some [], true, [0], []) := by decide

end PydraModel.Sched
