import PydraModel.PathTemplate.Lemmas2
/-
C26 — Output path templates resolve inside the job directory.

Property theorems only (helper lemmas: `PathTemplate/Lemmas.lean`).  `resolve` is the algorithm of the pinned
commit (`template_update_single`: format the template, take `Path(..).name`, join it to `cache_dir`); the
correspondence check decides on every run whether the working tree still runs it.
-/
namespace PydraModel.PathTemplate

/-- FULL statement of the property for template-derived paths: every resolved path is `cd / n` with `n` a plain
    file name.  NOT provable for the pinned code (D16); refuted by `C26_full_statement_false`. -/
def C26_full_statement : Prop :=
  ∀ (cd : Str) (c : Config),
    (∀ p, resolve cd c .template = .ok (.one p) → InsideAsPlainName cd p) ∧
    (∀ ps, resolve cd c .template = .ok (.many ps) → ∀ p ∈ ps, InsideAsPlainName cd p)

/-! ### containment -/

/-- PARTIAL: under the decidable hypothesis `TemplateTailOK` (the last component of the formatted template is a real
    name) the resolved path is directly inside the job directory, as a plain name.  Any template, values, lengths. -/
theorem C26_partial (cd : Str) (c : Config) (h : TemplateTailOK c = true) (p : Str)
    (hp : resolve cd c .template = .ok (.one p)) : InsideAsPlainName cd p := by
  unfold resolve at hp
  simp only at hp
  cases hsf : singleFormat c with
  | error e => simp [hsf] at hp
  | ok o =>
    cases o with
    | none => simp [hsf] at hp
    | some f =>
      cases f with
      | many ss => simp [hsf] at hp
      | one s =>
        simp [hsf] at hp
        have ht : TailOK s = true := by
          simpa [TemplateTailOK, formattedStrings, hsf] using h
        have hn := pathName_of_tailOK ht
        refine ⟨pathName s, hn, ?_⟩
        rw [← hp, joinCd_plain _ _ hn.1]

/-- PARTIAL, list-valued outputs (`MultiOutputFile`): every element is inside as a plain name. -/
theorem C26_partial_many (cd : Str) (c : Config) (h : TemplateTailOK c = true) (ps : List Str)
    (hp : resolve cd c .template = .ok (.many ps)) : ∀ p ∈ ps, InsideAsPlainName cd p := by
  unfold resolve at hp
  simp only at hp
  cases hsf : singleFormat c with
  | error e => simp [hsf] at hp
  | ok o =>
    cases o with
    | none => simp [hsf] at hp
    | some f =>
      cases f with
      | one s => simp [hsf] at hp
      | many ss =>
        simp [hsf] at hp
        intro p hpm
        rw [← hp] at hpm
        obtain ⟨s, hs, rfl⟩ := List.mem_map.mp hpm
        have hall : ∀ s ∈ ss, TailOK s = true := by
          simpa [TemplateTailOK, formattedStrings, hsf] using h
        have hn := pathName_of_tailOK (hall s hs)
        exact ⟨pathName s, hn, joinCd_plain _ _ hn.1⟩

/-- The hypothesis is exact: when the tail is not a real name the result is the job directory itself or its parent
    (this is the match rule of known finding D16). -/
theorem C26_tail_exact (cd : Str) (c : Config) (h : TemplateTailOK c = false) (p : Str)
    (hp : resolve cd c .template = .ok (.one p)) : p = cd ∨ p = cd ++ ['/', '.', '.'] := by
  unfold resolve at hp
  simp only at hp
  cases hsf : singleFormat c with
  | error e => simp [hsf] at hp
  | ok o =>
    cases o with
    | none => simp [hsf] at hp
    | some f =>
      cases f with
      | many ss => simp [hsf] at hp
      | one s =>
        simp [hsf] at hp
        have ht : TailOK s = false := by
          simpa [TemplateTailOK, formattedStrings, hsf] using h
        rcases pathName_of_not_tailOK ht with h0 | h0
        · left; rw [← hp, h0]; rfl
        · right; rw [← hp, h0]; rfl

/-- Whatever the template and values are, the result is the job directory or an immediate child entry of it
    (never deeper, never elsewhere): the only escapes are the directory itself and `..`. -/
theorem C26_never_deeper (cd : Str) (c : Config) (p : Str)
    (hp : resolve cd c .template = .ok (.one p)) :
    p = cd ∨ ∃ n, n ≠ [] ∧ '/' ∉ n ∧ p = cd ++ '/' :: n := by
  unfold resolve at hp
  simp only at hp
  cases hsf : singleFormat c with
  | error e => simp [hsf] at hp
  | ok o =>
    cases o with
    | none => simp [hsf] at hp
    | some f =>
      cases f with
      | many ss => simp [hsf] at hp
      | one s =>
        simp [hsf] at hp
        rcases pathName_cases s with h0 | h0 | h0
        · left; rw [← hp, h0]; rfl
        · right; exact ⟨['.', '.'], by simp, by simp, by rw [← hp, h0]; rfl⟩
        · right; exact ⟨pathName s, h0.1, h0.2.2.2, by rw [← hp, joinCd_plain _ _ h0.1]⟩

/-- A sufficient condition on the *template alone*: a template that ends in a literal piece without braces or
    separator and with at least one non-dot character formats to a string whose tail is a real name, for every
    dictionary of values — also after an input file's extension has been appended to it. -/
theorem C26_literal_tail_ok (d : Dict) (t suf s : Str) (hlit : suf.all isLitChar = true) (hsep : '/' ∉ suf)
    (hdot : ∃ c ∈ suf, c ≠ '.') (hs : fmt d (t ++ suf) = .ok s) :
    TailOK s = true ∧ ∀ e, '/' ∉ e → TailOK (withExt s (some e)) = true := by
  obtain ⟨s', _, rfl⟩ := fmt_append_lit_inv d t suf s hlit hs
  refine ⟨tailOK_append s' suf hsep hdot, ?_⟩
  intro e he
  unfold withExt
  simp only
  rw [List.append_assoc]
  apply tailOK_append
  · simp only [List.mem_append, List.mem_cons, not_or]
    exact ⟨hsep, by decide, he⟩
  · obtain ⟨c, hc, hcd⟩ := hdot
    exact ⟨c, by simp [hc], hcd⟩

/-! ### the known finding (D16) -/

/-- Witness: value ".." resolves to the parent of the job directory. -/
theorem C26_witness_dotdot :
    resolve "/c/job".toList { tmpl := "{x}".toList, vals := [("x".toList, .sc (.str "..".toList))], keep := true, multi := false }
      .template = .ok (.one "/c/job/..".toList) := by decide

/-- Witness: the empty value resolves to the job directory itself. -/
theorem C26_witness_empty :
    resolve "/c/job".toList { tmpl := "{x}".toList, vals := [("x".toList, .sc (.str []))], keep := true, multi := false }
      .template = .ok (.one "/c/job".toList) := by decide

theorem C26_full_statement_false : ¬ C26_full_statement := by
  intro h
  obtain ⟨n, hn, he⟩ := (h _ _).1 _ C26_witness_dotdot
  have : n = ['.', '.'] := by
    have := List.append_cancel_left (as := "/c/job".toList) (bs := '/' :: n) (cs := "/..".toList) (by simpa using he.symm)
    simpa using this
  exact hn.2.2.1 this

/-! ### determinism -/

/-- the job-directory independent part of `resolve`: the names -/
def names (c : Config) : Except Err (Option Formatted) :=
  (singleFormat c).map (fun o => o.map fun
    | .one s => .one (pathName s)
    | .many ss => .many (ss.map pathName))

def relocate (cd : Str) : Option Formatted → Out
  | none => .absent
  | some (.one n) => .one (joinCd cd n)
  | some (.many ns) => .many (ns.map (joinCd cd))

/-- The resolved path is a function of (template, values, keep_extension, output type) — `names c` — and of the job
    directory only through the final join. -/
theorem C26_deterministic (cd : Str) (c : Config) :
    resolve cd c .template = (names c).map (relocate cd) := by
  unfold resolve names
  cases singleFormat c with
  | error e => rfl
  | ok o =>
    cases o with
    | none => rfl
    | some f => cases f <;> simp [Except.map, relocate, Option.map, List.map_map, Function.comp_def]

/-- Values of inputs the template does not mention cannot influence the result. -/
theorem C26_irrelevant_value (cd : Str) (c : Config) (vals' : List (Str × Val))
    (h : ∀ n ∈ fieldNames c.tmpl, lookupVal c.vals n = lookupVal vals' n) :
    resolve cd { c with vals := vals' } .template = resolve cd c .template := by
  have : singleFormat { c with vals := vals' } = singleFormat c := by
    unfold singleFormat
    simp only
    rw [collect_congr c.vals vals' _ h]
  unfold resolve
  simp only [this]

/-! ### extensions: the three cases of `_element_formatting` -/

/-- `keep_extension=False`: the result is what the same file *without its extensions* gives. -/
theorem C26_ext_dropped (tmpl : Str) (d : Dict) (x : Str) (f : FileVal) :
    elementFormat tmpl d (some (x, f)) false
      = elementFormat tmpl d (some (x, { f with name := (splitExt f.name).1 })) true := by
  unfold elementFormat
  simp only [splitExt_stem, fileStem]
  simp [withExt]

/-- case 1 — the template ends with the file's field: the file's own name (with its extension when kept) is used. -/
theorem C26_ext_case_end (tmpl : Str) (d : Dict) (x : Str) (f : FileVal) (keep : Bool)
    (h : endsWithField tmpl x = true) :
    elementFormat tmpl d (some (x, f)) keep
      = fmt ((x, .sc (.str (withExt (fileStem f (splitExt f.name).1)
              (if keep then (splitExt f.name).2 else none)))) :: d) tmpl := by
  unfold elementFormat
  simp [h]

/-- case 2 — the template has no extension of its own: the file's extension is moved to the end. -/
theorem C26_ext_case_moved (tmpl : Str) (d : Dict) (x : Str) (f : FileVal) (keep : Bool)
    (h1 : endsWithField tmpl x = false) (h2 : '.' ∉ tmpl) :
    elementFormat tmpl d (some (x, f)) keep
      = (fmt ((x, .sc (.str (fileStem f (splitExt f.name).1))) :: d) tmpl).map
          (fun s => withExt s (if keep then (splitExt f.name).2 else none)) := by
  unfold elementFormat
  simp [h1, h2]

/-- case 3 — the template has its own extension: the file's extension is dropped. -/
theorem C26_ext_case_template_ext (tmpl : Str) (d : Dict) (x : Str) (f : FileVal) (keep : Bool)
    (h1 : endsWithField tmpl x = false) (h2 : '.' ∈ tmpl) :
    elementFormat tmpl d (some (x, f)) keep
      = fmt ((x, .sc (.str (fileStem f (splitExt f.name).1))) :: d) tmpl := by
  unfold elementFormat
  simp [h1, h2]

/-- End to end, for names of any length: with `keep_extension`, template `{x}suffix` (suffix without extension) and the
    file `/dir…/stem.ext` resolve to `<job dir>/stem` + `suffix` + `.ext` — the extension is moved behind the suffix. -/
theorem C26_ext_moved_name (cd x suf stem ext : Str) (dir : List Str)
    (hx : x ≠ [] ∧ (∀ c ∈ x, isWord c = true) ∧ x.all Char.isDigit = false)
    (hsuf : suf ≠ [] ∧ suf.all isLitChar = true ∧ '.' ∉ suf ∧ '/' ∉ suf)
    (hstem : stem ≠ [] ∧ '.' ∉ stem ∧ '/' ∉ stem) (hext : '/' ∉ ext) :
    resolve cd { tmpl := '{' :: (x ++ '}' :: suf), vals := [(x, .file ⟨dir, stem ++ '.' :: ext⟩)],
                 keep := true, multi := false } .template
      = .ok (.one (cd ++ '/' :: (stem ++ suf ++ '.' :: ext))) := by
  obtain ⟨hx1, hx2, hx3⟩ := hx
  obtain ⟨hs1, hs2, hs3, hs4⟩ := hsuf
  obtain ⟨ht1, ht2, ht3⟩ := hstem
  have hbrace : '{' ∉ suf := by
    intro hm
    have := (List.all_eq_true.mp hs2) '{' hm
    revert this; decide
  have hdotx : '.' ∉ x := fun hm => (word_ne_brace (hx2 '.' hm)).2.2.2.2.1 rfl
  have hnames := fieldNames_single x suf hx2 hx1 hbrace
  have hfmt := fmt_single [(x, DVal.sc (Scalar.str (renderAbs (dir ++ [stem]))))] x suf (renderAbs (dir ++ [stem]))
    hx2 hx1 hx3 hs2 (by simp [lookup])
  have hends := endsWithField_false x suf hs1 hs2
  have hnodot : ('{' :: (x ++ '}' :: suf)).contains '.' = false := by
    simp [hdotx, hs3]
  have hdot : ∃ c ∈ suf ++ '.' :: ext, c ≠ '.' := by
    cases suf with
    | nil => exact absurd rfl hs1
    | cons c r => exact ⟨c, by simp, fun e => hs3 (by simp [e])⟩
  have hname := pathName_file_tail dir stem (suf ++ '.' :: ext) ht3 (by simp [hs4, hext]) hdot
  unfold resolve singleFormat
  simp only [hnames, collect, lookupVal, List.find?, beq_self_eq_true, Option.map, elementFormat, splitExt_of stem ext ht2,
    fileStem, ht1, if_false, hends, hnodot, hfmt, withExt, Except.map, List.filter, List.append_assoc]
  simp [hname, joinCd]

/-! ### explicit values -/

/-- An explicitly supplied output path is used as given. -/
theorem C26_explicit (cd : Str) (c : Config) (p : Str) : resolve cd c (.path p) = .ok (.one p) := rfl

/-- `False` switches the output off. -/
theorem C26_off (cd : Str) (c : Config) : resolve cd c .off = .ok .absent := rfl

/-! ### non-vacuity -/

def exampleConfig : Config :=
  { tmpl := "{x}_out".toList, vals := [("x".toList, .file ⟨["data".toList], "img.nii.gz".toList⟩)], keep := true, multi := false }

example : TemplateTailOK exampleConfig = true := by decide

example : resolve "/c/job".toList exampleConfig .template = .ok (.one "/c/job/img_out.nii.gz".toList) := by decide

example : TemplateTailOK { tmpl := "{x}".toList, vals := [("x".toList, .sc (.str "..".toList))], keep := true, multi := false } = false := by
  decide

example : ("x".toList ≠ [] ∧ (∀ c ∈ "x".toList, isWord c = true) ∧ ("x".toList).all Char.isDigit = false) ∧
    ("_out".toList ≠ [] ∧ ("_out".toList).all isLitChar = true ∧ '.' ∉ "_out".toList ∧ '/' ∉ "_out".toList) ∧
    ("img".toList ≠ [] ∧ '.' ∉ "img".toList ∧ '/' ∉ "img".toList) ∧ '/' ∉ "nii.gz".toList := by decide

example : endsWithField "pre_{x}".toList "x".toList = true := by decide
example : endsWithField "{x}_out".toList "x".toList = false ∧ '.' ∉ "{x}_out".toList := by decide
example : endsWithField "{x}.txt".toList "x".toList = false ∧ '.' ∈ "{x}.txt".toList := by decide

example : ("_out.txt".toList).all isLitChar = true ∧ '/' ∉ "_out.txt".toList ∧ ∃ c ∈ "_out.txt".toList, c ≠ '.' := by
  refine ⟨by decide, by decide, 'o', by decide, by decide⟩

end PydraModel.PathTemplate
