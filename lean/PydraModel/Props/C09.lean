import PydraModel.FileHash.LemmasExact
/-
C09 — File hashes always reflect current file content.

Property theorems only (helper lemmas: `FileHash/Lemmas*.lean`).  The model (`FileHash/Model.lean`) is the
algorithm of the pinned tree: persistent-cache key `(class, path, st_mtime_ns)`, look-up order
in-memory dict → file in `PYDRA_HASH_CACHE` → calculate.  Histories are lists of operations of ANY length;
all theorems are by induction over the history with the invariant `Inv`
("every entry for key (cls, p, m) was computed from the content p has whenever p's mtime is m").

The digest function `H` is an arbitrary parameter; nothing (in particular not injectivity) is assumed of it.
-/
namespace PydraModel.FileHash

/-- FULL statement of the property (NOT true of the pinned tree, see `C09_not_full`): for every digest
    function and every history, each hash operation returns the digest of the content the file has at that
    moment. -/
def C09_full_statement : Prop :=
  ∀ (D : Type) (H : Cls → Content → D) (ops : List Op),
    digests H ops (run init ops) = digests H ops (specRun FS.empty ops)

/-- PARTIAL (what the code does guarantee): on every history — any length, any number of sessions, with
    clean-ups — in which each change of a path's (content, mtime) lands on a `(path, mtime)` pair for which no
    live cache entry holds a different content (`MtimeFresh`, decidable), every hash operation answers with
    the current content version … -/
theorem C09_partial (ops : List Op) (h : MtimeFresh ops) : run init ops = specRun FS.empty ops :=
  (run_eq_spec_of_fresh ops init inv_init h).1

/-- … hence with the digest of the current content, for any digest function whatsoever. -/
theorem C09_partial_digest {D : Type} (H : Cls → Content → D) (ops : List Op) (h : MtimeFresh ops) :
    digests H ops (run init ops) = digests H ops (specRun FS.empty ops) := by
  rw [C09_partial ops h]

/-- The same from any state satisfying the invariant (e.g. a cache directory left by earlier runs), and the
    invariant is re-established at the end: the induction that carries all of the above. -/
theorem C09_partial_from (st : State) (hinv : Inv st) (ops : List Op) (h : freshFrom st ops = true) :
    run st ops = specRun st.fs ops ∧ Inv (exec st ops) :=
  run_eq_spec_of_fresh ops st hinv h

/-- `MtimeFresh` is EXACTLY the class on which the code is right: a history is fresh iff every prefix of it,
    extended by any single hash operation, is answered as the reference answers it.  (So the hypothesis of
    `C09_partial` cannot be weakened to any other prefix-closed condition.) -/
theorem C09_exact (ops : List Op) :
    MtimeFresh ops ↔
      ∀ pre op, pre <+: ops → op.isHash = true → run init (pre ++ [op]) = specRun FS.empty (pre ++ [op]) := by
  constructor
  · intro h pre op hpre hop
    apply C09_partial
    obtain ⟨t, rfl⟩ := hpre
    unfold MtimeFresh at h ⊢
    rw [freshFrom_append, Bool.and_eq_true] at h
    rw [freshFrom_append, h.1]
    cases op <;> simp [Op.isHash] at hop <;> simp [freshFrom, touched]
  · intro h
    unfold MtimeFresh
    cases hf : freshFrom init ops with
    | true => rfl
    | false =>
      obtain ⟨pre, op, hpre, hop, hne⟩ := not_fresh_observable ops uniq_init hf
      exact absurd (h pre op hpre hop) hne

/-- WITNESS (known finding D7): write A with mtime t; hash; write B with the same mtime t; hash.
    The second hash returns A's digest (stale), in the same session and in a brand-new one; the reference says B. -/
theorem C09_witness :
    run init [.write 0 1 7, .hash 0 0 0, .write 0 2 7, .hash 0 0 0, .newProcess 0, .hash 0 0 0, .hashFresh 0 0]
      = [none, some 1, none, some 1, none, some 1, some 1]
    ∧ specRun FS.empty [.write 0 1 7, .hash 0 0 0, .write 0 2 7, .hash 0 0 0, .newProcess 0, .hash 0 0 0, .hashFresh 0 0]
      = [none, some 1, none, some 2, none, some 2, some 2]
    ∧ ¬ MtimeFresh [.write 0 1 7, .hash 0 0 0, .write 0 2 7, .hash 0 0 0] := by
  refine ⟨by decide, by decide, by decide⟩

/-- The full statement is false for the modelled code (take `H` = identity on content versions). -/
theorem C09_not_full : ¬ C09_full_statement := by
  intro h
  have := h Content (fun _ v => v) [.write 0 1 7, .hash 0 0 0, .write 0 2 7, .hash 0 0 0]
  revert this
  decide

/-- The other usual shapes of D7: the mtime is *restored* after the rewrite (`utime`); a file with a cached
    `(path, mtime)` is replaced by `rename`-over or `copy2` of a file that carries the same mtime. -/
theorem C09_witness_utime :
    run init [.write 0 1 7, .hash 0 0 0, .write 0 2 9, .utime 0 7, .hash 0 0 0] = [none, some 1, none, none, some 1] := by
  decide

theorem C09_witness_rename :
    run init [.write 0 1 7, .write 1 2 7, .hashFresh 0 0, .rename 1 0, .hashFresh 0 0] = [none, none, some 1, none, some 1] := by
  decide

theorem C09_witness_copy2 :
    run init [.write 0 1 7, .write 1 2 7, .hashFresh 0 0, .copy2 1 0, .hashFresh 0 0] = [none, none, some 1, none, some 1] := by
  decide

/-- MULTI-PROCESS: without clean-ups the directory on disk is the whole state — ending a session (dropping its
    in-memory dict) at any point changes no later answer of any session, whether the history is fresh or not. -/
theorem C09_multiproc (ops1 ops2 : List Op) (s : Sess)
    (h1 : noCleanUp ops1 = true) (h2 : noCleanUp ops2 = true) :
    run (exec init (ops1 ++ [.newProcess s])) ops2 = run (exec init ops1) ops2 := by
  rw [exec_append]
  have hm := memSubDisk_exec ops1 memSubDisk_init h1
  exact (sim_run ops2 (sim_newProcess (exec init ops1) s) hm h2).symm

/-- With clean-ups the same holds on fresh histories (both sides are the reference answers). -/
theorem C09_multiproc_fresh (ops1 ops2 : List Op) (s : Sess)
    (ha : MtimeFresh (ops1 ++ ops2)) (hb : MtimeFresh ((ops1 ++ [.newProcess s]) ++ ops2)) :
    run (exec init (ops1 ++ [.newProcess s])) ops2 = run (exec init ops1) ops2 := by
  rw [fresh_tail_eq _ _ ha, fresh_tail_eq _ _ hb, exec_append]
  rfl

/-- What clean-up does to the multi-process claim: an in-memory entry may outlive its file.  Session 0 keeps
    answering from memory (stale) while a new process recalculates — `newProcess` changes the later answer.
    (The history is not `MtimeFresh`; on fresh histories `C09_partial` applies with clean-ups included.) -/
theorem C09_cleanup_witness :
    run init [.write 0 1 7, .hash 0 0 0, .write 0 2 7, .cleanUp [⟨0, 0, 7⟩], .hash 0 0 0] = [none, some 1, none, none, some 1]
    ∧ run init [.write 0 1 7, .hash 0 0 0, .write 0 2 7, .cleanUp [⟨0, 0, 7⟩], .newProcess 0, .hash 0 0 0]
        = [none, some 1, none, none, none, some 2] := by
  refine ⟨by decide, by decide⟩

/-! ### non-vacuity -/

/-- A realistic fresh history: rewrite with a new mtime, same-size rewrite with a new mtime, copy2 to a new
    path, rename over an uncached path, re-use of an old mtime *after clean-up removed the entry*, two
    sessions, two classes — `MtimeFresh` holds, and the answers are the current contents. -/
example : MtimeFresh [.write 0 1 7, .hash 0 0 0, .write 0 2 8, .hash 1 0 0, .copy2 0 1, .hash 0 1 1,
    .newProcess 0, .cleanUp [⟨0, 0, 7⟩], .write 0 3 7, .hash 0 0 0, .rename 0 2, .hashFresh 0 2, .utime 2 9, .hash 1 0 2] := by
  decide

example : run init [.write 0 1 7, .hash 0 0 0, .write 0 2 8, .hash 1 0 0, .copy2 0 1, .hash 0 1 1,
    .newProcess 0, .cleanUp [⟨0, 0, 7⟩], .write 0 3 7, .hash 0 0 0, .rename 0 2, .hashFresh 0 2, .utime 2 9, .hash 1 0 2]
    = [none, some 1, none, some 2, none, some 2, none, none, none, some 3, none, some 3, none, some 3] := by
  decide

/-- Re-using a cached `(path, mtime)` with the *same* content is fresh (touch, or rewriting identical bytes). -/
example : MtimeFresh [.write 0 1 7, .hash 0 0 0, .write 0 1 7, .utime 0 8, .utime 0 7, .hash 0 0 0] := by decide

/-- `C09_multiproc` hypotheses are met by a history that is NOT fresh (it speaks about wrong answers too). -/
example : noCleanUp [.write 0 1 7, .hash 0 0 0, .write 0 2 7] = true ∧ noCleanUp [.hash 0 0 0, .hash 1 0 0] = true
    ∧ ¬ MtimeFresh ([.write 0 1 7, .hash 0 0 0, .write 0 2 7] ++ [.hash 0 0 0, .hash 1 0 0]) := by
  refine ⟨by decide, by decide, by decide⟩

/-- `C09_multiproc_fresh` hypotheses are met by a history with a clean-up in its first part. -/
example : MtimeFresh ([.write 0 1 7, .hashFresh 0 0, .cleanUp [⟨0, 0, 7⟩], .write 0 2 7] ++ [.hash 0 0 0, .hashFresh 0 0])
    ∧ MtimeFresh (([.write 0 1 7, .hashFresh 0 0, .cleanUp [⟨0, 0, 7⟩], .write 0 2 7] ++ [.newProcess 0]) ++ [.hash 0 0 0, .hashFresh 0 0]) := by
  refine ⟨by decide, by decide⟩

/-- `C09_partial_from`: a non-empty state satisfying the invariant. -/
example : Inv ⟨FS.empty.set 0 (some (1, 7)), [(⟨0, 0, 7⟩, 1), (⟨0, 0, 6⟩, 5)], [((3, ⟨0, 0, 7⟩), 1)]⟩ := by
  rw [inv_iff_noStale]
  intro p
  by_cases hp : p = 0
  · subst hp; decide
  · simp [staleAt, FS.set, FS.empty, hp]

end PydraModel.FileHash
