import PydraModel.FileHash.LemmasKey
/-
C09 — File hashes always reflect current file content.

Property theorems only (helper lemmas: `FileHash/Lemmas*.lean`).  The model (`FileHash/Model.lean`) is the
algorithm of the pinned tree: a file-set is a class and a list of member paths (any number of members);
persistent-cache key `(class, member paths, member st_mtime_ns values in the same order)`; look-up order
in-memory dict → file in `PYDRA_HASH_CACHE` → calculate.  Histories are lists of operations of ANY length;
the theorems are by induction over the history with the invariant `Inv`
("every entry for key (cls, ps, ms) was computed from the contents ps have whenever their mtimes are ms").

The digest function `H` is an arbitrary parameter; nothing (in particular not injectivity) is assumed of it.
-/
namespace PydraModel.FileHash

/-- FULL statement of the property (NOT true of the pinned tree, see `C09_not_full`): for every digest
    function and every history, each hash operation returns the digest of the contents the members of the
    file-set have at that moment. -/
def C09_full_statement : Prop :=
  ∀ (D : Type) (H : Cls → List Path → List Content → D) (ops : List Op),
    digests H ops (run init ops) = digests H ops (specRun FS.empty ops)

/-- PARTIAL (what the code does guarantee): on every history — any length, file-sets with any number of
    members, any number of sessions, with clean-ups — in which no file operation leaves a live cache entry
    stale (`MtimeFresh`, decidable: every change of a member lands on a combination of member mtimes under
    which no other contents are cached), every hash operation answers with the current content versions … -/
theorem C09_partial (ops : List Op) (h : MtimeFresh ops) : run init ops = specRun FS.empty ops :=
  (run_eq_spec_of_fresh ops init inv_init h).1

/-- … hence with the digest of the current contents, for any digest function whatsoever. -/
theorem C09_partial_digest {D : Type} (H : Cls → List Path → List Content → D) (ops : List Op) (h : MtimeFresh ops) :
    digests H ops (run init ops) = digests H ops (specRun FS.empty ops) := by
  rw [C09_partial ops h]

/-- The same from any state satisfying the invariant (e.g. a cache directory left by earlier runs), and the
    invariant is re-established at the end: the induction that carries all of the above. -/
theorem C09_partial_from (st : State) (hinv : Inv st) (ops : List Op) (h : freshFrom st ops = true) :
    run st ops = specRun st.fs ops ∧ Inv (exec st ops) :=
  run_eq_spec_of_fresh ops st hinv h

/-- `MtimeFresh` is EXACTLY the class on which the code is right: a history is fresh iff every prefix of it,
    extended by any single hash operation (any class, any member list, any session), is answered as the
    reference answers it. -/
theorem C09_exact (ops : List Op) :
    MtimeFresh ops ↔
      ∀ pre op, pre <+: ops → op.isHash = true → run init (pre ++ [op]) = specRun FS.empty (pre ++ [op]) := by
  constructor
  · intro h pre op hpre hop
    apply C09_partial
    obtain ⟨t, rfl⟩ := hpre
    unfold MtimeFresh at h ⊢
    rw [freshFrom_append, Bool.and_eq_true] at h
    rw [freshFrom_append, h.1]
    cases op <;> simp [Op.isHash] at hop <;> simp [freshFrom, Op.isFsOp]
  · intro h
    unfold MtimeFresh
    cases hf : freshFrom init ops with
    | true => rfl
    | false =>
      obtain ⟨pre, op, hpre, hop, hne⟩ := not_fresh_observable ops uniq_init hf
      exact absurd (h pre op hpre hop) hne

/-! ### what the key depends on -/

/-- The key determines the class, every member path and every member's mtime, positionally. -/
theorem C09_key_injective (cls cls' : Cls) (ps ps' : List Path) (ms ms' : List Mtime) :
    keyOf cls ps ms = keyOf cls' ps' ms' ↔ cls = cls' ∧ ps = ps' ∧ ms = ms' := by
  simp [keyOf]

/-- Changing ANY member's mtime changes the key: if member `i` of a complete file-set gets a new
    (content, mtime) pair whose mtime differs from the old one, the key of the file-set is different —
    however many members there are, whichever member it is, whatever the other members' mtimes are
    (in particular when the new mtime is not the newest of the set). -/
theorem C09_any_member_in_key (fs : FS) (cls : Cls) (ps : List Path) (i : Nat) (hi : i < ps.length)
    (cms cms' : List (Content × Mtime)) (c' : Content) (t' : Mtime)
    (h : readAll fs ps = some cms) (h' : readAll (fs.set ps[i] (some (c', t'))) ps = some cms')
    (hne : ∀ hc : i < cms.length, t' ≠ cms[i].2) :
    keyOf cls ps (cms'.map Prod.snd) ≠ keyOf cls ps (cms.map Prod.snd) := by
  intro heq
  have hm : cms'.map Prod.snd = cms.map Prod.snd := ((C09_key_injective _ _ _ _ _ _).mp heq).2.2
  have l1 := readAll_length h
  have l2 := readAll_length h'
  have g' := readAll_get h' i hi (by omega)
  simp only [FS.set, if_true, Option.some.injEq] at g'
  have e : (cms'.map Prod.snd)[i]'(by simp; omega) = (cms.map Prod.snd)[i]'(by simp; omega) := by
    simp only [hm]
  simp only [List.getElem_map] at e
  rw [← g'] at e
  exact hne (by omega) e

/-- … and a key that is in neither cache forces recalculation from the contents as they are now (no
    assumption on the state at all): a member change to a combination of mtimes not cached before is always
    answered correctly. -/
theorem C09_unseen_key_recalculates (st : State) (sess : Option Sess) (cls : Cls) (ps : List Path)
    (cms : List (Content × Mtime)) (h : readAll st.fs ps = some cms)
    (hmem : ∀ s, sess = some s → st.mem.lookup (s, keyOf cls ps (cms.map Prod.snd)) = none)
    (hdisk : st.disk.lookup (keyOf cls ps (cms.map Prod.snd)) = none) :
    (hashWith st sess cls ps).2 = some (cms.map Prod.fst) := by
  unfold hashWith hashWithK
  have : (sess.bind fun s => st.mem.lookup (s, keyOf cls ps (cms.map Prod.snd))) = none := by
    cases sess with
    | none => rfl
    | some s => simpa using hmem s rfl
  simp only [h, this, hdisk]

/-- Documentation by refutation — key constructions that lose a member's mtime return stale hashes on
    histories the pinned key handles correctly (`runK keyOf = run`, `runK_keyOf`).
    (a) one aggregate, the newest mtime: an OLDER member is replaced (rename-over) by a file whose mtime is
        different but still not the newest. -/
theorem C09_key_max_refuted :
    let h : List Op := [.write 0 1 5, .write 1 2 9, .hashFresh 3 [0, 1], .write 2 7 3, .rename 2 0, .hashFresh 3 [0, 1]]
    MtimeFresh h ∧ run init h = specRun FS.empty h
    ∧ runK keyMax init h = [none, none, some [1, 2], none, none, some [1, 2]]
    ∧ specRun FS.empty h = [none, none, some [1, 2], none, none, some [7, 2]] := by
  refine ⟨by decide, by decide, by decide, by decide⟩

/-- (b) one aggregate, the sum: two members change so that the sum is kept. -/
theorem C09_key_sum_refuted :
    let h : List Op := [.write 0 1 5, .write 1 2 9, .hashFresh 3 [0, 1], .write 0 3 6, .write 1 4 8, .hashFresh 3 [0, 1]]
    MtimeFresh h ∧ run init h = specRun FS.empty h ∧ runK keySum init h ≠ specRun FS.empty h := by
  refine ⟨by decide, by decide, by decide⟩

/-- (c) only the first member's mtime: the second member changes (copy2 of a file with another mtime). -/
theorem C09_key_first_refuted :
    let h : List Op := [.write 0 1 5, .write 1 2 9, .hashFresh 3 [0, 1], .write 2 7 3, .copy2 2 1, .hashFresh 3 [0, 1]]
    MtimeFresh h ∧ run init h = specRun FS.empty h ∧ runK keyFirst init h ≠ specRun FS.empty h := by
  refine ⟨by decide, by decide, by decide⟩

/-- (d) mtimes without their position (a multiset): two members swap mtimes. -/
theorem C09_key_unordered_refuted :
    let h : List Op := [.write 0 1 5, .write 1 2 9, .hashFresh 3 [0, 1], .write 0 3 9, .write 1 4 5, .hashFresh 3 [0, 1]]
    MtimeFresh h ∧ run init h = specRun FS.empty h ∧ runK keyUnordered init h ≠ specRun FS.empty h := by
  refine ⟨by decide, by decide, by decide⟩

/-- The real key does not depend on the order in which the members are handed to the constructor (nor, a
    fortiori, on a set's iteration order): paths AND mtimes are taken from the same sorted member list. -/
theorem C09_key_constructor_order_independent (fs : FS) (cls : Cls) (given given' : List Path)
    (h : given.Perm given') : fileSetKey fs cls given = fileSetKey fs cls given' := by
  unfold fileSetKey members
  rw [sortNat_perm h]

theorem C09_key_reversed_members (fs : FS) (cls : Cls) (given : List Path) :
    fileSetKey fs cls given.reverse = fileSetKey fs cls given :=
  C09_key_constructor_order_independent fs cls _ _ (List.reverse_perm given)

/-- (e) mtimes collected in the iteration order of the raw member set, an environment parameter: session 0
    iterates (member 0, member 1), session 1 (member 1, member 0).  The two members are swapped by renames
    between the hashes (every member gets new content AND a new mtime — not the D7 situation, the history is
    `MtimeFresh`): session 1 computes exactly session 0's old key and is served the stale entry.  With the same
    order in every process the same history is answered correctly: the answer depends on the environment. -/
theorem C09_key_iterorder_refuted :
    let h : List Op := [.write 0 1 5, .write 1 2 9, .hash 0 3 [0, 1], .rename 0 2, .rename 1 0, .rename 2 1, .hash 1 3 [0, 1]]
    let mixed : Option Sess → KeyFn := fun s => if s = some 1 then keyIterOrder [1, 0] else keyIterOrder [0, 1]
    MtimeFresh h ∧ run init h = specRun FS.empty h
    ∧ specRun FS.empty h = [none, none, some [1, 2], none, none, none, some [2, 1]]
    ∧ runEnv mixed init h = [none, none, some [1, 2], none, none, none, some [1, 2]]
    ∧ runEnv (fun _ => keyIterOrder [0, 1]) init h = specRun FS.empty h
    ∧ runEnv (fun _ => keyIterOrder [1, 0]) init h = specRun FS.empty h := by
  refine ⟨by decide, by decide, by decide, by decide, by decide, by decide⟩

/-! ### the defect (D7) -/

/-- WITNESS (known finding D7): write A with mtime t; hash; write B with the same mtime t; hash.
    The second hash returns A's digest (stale), in the same session and in a brand-new one; the reference says B. -/
theorem C09_witness :
    run init [.write 0 1 7, .hash 0 0 [0], .write 0 2 7, .hash 0 0 [0], .newProcess 0, .hash 0 0 [0], .hashFresh 0 [0]]
      = [none, some [1], none, some [1], none, some [1], some [1]]
    ∧ specRun FS.empty [.write 0 1 7, .hash 0 0 [0], .write 0 2 7, .hash 0 0 [0], .newProcess 0, .hash 0 0 [0], .hashFresh 0 [0]]
      = [none, some [1], none, some [2], none, some [2], some [2]]
    ∧ ¬ MtimeFresh [.write 0 1 7, .hash 0 0 [0], .write 0 2 7, .hash 0 0 [0]] := by
  refine ⟨by decide, by decide, by decide⟩

/-- The full statement is false for the modelled code (take `H` = identity on content versions). -/
theorem C09_not_full : ¬ C09_full_statement := by
  intro h
  have := h (List Content) (fun _ _ v => v) [.write 0 1 7, .hash 0 0 [0], .write 0 2 7, .hash 0 0 [0]]
  revert this
  decide

/-- The other usual shapes of D7: the mtime is *restored* after the rewrite (`utime`); a file with a cached
    `(path, mtime)` is replaced by `rename`-over or `copy2` of a file that carries the same mtime; a member of
    a pair is replaced by a file carrying that member's mtime. -/
theorem C09_witness_utime :
    run init [.write 0 1 7, .hash 0 0 [0], .write 0 2 9, .utime 0 7, .hash 0 0 [0]]
      = [none, some [1], none, none, some [1]] := by
  decide

theorem C09_witness_rename :
    run init [.write 0 1 7, .write 1 2 7, .hashFresh 0 [0], .rename 1 0, .hashFresh 0 [0]]
      = [none, none, some [1], none, some [1]] := by
  decide

theorem C09_witness_copy2 :
    run init [.write 0 1 7, .write 1 2 7, .hashFresh 0 [0], .copy2 1 0, .hashFresh 0 [0]]
      = [none, none, some [1], none, some [1]] := by
  decide

theorem C09_witness_pair :
    run init [.write 0 1 5, .write 1 2 9, .hashFresh 4 [0, 1], .write 2 7 5, .copy2 2 0, .hashFresh 4 [0, 1]]
      = [none, none, some [1, 2], none, none, some [1, 2]] := by
  decide

/-! ### several processes -/

/-- MULTI-PROCESS: without clean-ups the directory on disk is the whole state — ending a session (dropping its
    in-memory dict) at any point changes no later answer of any session, whether the history is fresh or not. -/
theorem C09_multiproc (ops1 ops2 : List Op) (s : Sess)
    (h1 : noCleanUp ops1 = true) (h2 : noCleanUp ops2 = true) :
    run (exec init (ops1 ++ [.newProcess s])) ops2 = run (exec init ops1) ops2 := by
  rw [exec_append]
  have hm := memSubDisk_exec ops1 memSubDisk_init h1
  exact (sim_run ops2 (sim_newProcess (exec init ops1) s) hm h2).symm

/-- With clean-ups the same holds on fresh histories (both sides are the reference answers). -/
theorem C09_multiproc_fresh (ops1 ops2 : List Op) (s : Sess)
    (ha : MtimeFresh (ops1 ++ ops2)) (hb : MtimeFresh ((ops1 ++ [.newProcess s]) ++ ops2)) :
    run (exec init (ops1 ++ [.newProcess s])) ops2 = run (exec init ops1) ops2 := by
  rw [fresh_tail_eq _ _ ha, fresh_tail_eq _ _ hb, exec_append]
  rfl

/-- What clean-up does to the multi-process claim: an in-memory entry may outlive its file.  Session 0 keeps
    answering from memory (stale) while a new process recalculates — `newProcess` changes the later answer.
    (The history is not `MtimeFresh`; on fresh histories `C09_partial` applies with clean-ups included.) -/
theorem C09_cleanup_witness :
    run init [.write 0 1 7, .hash 0 0 [0], .write 0 2 7, .cleanUp [⟨0, [0], [7]⟩], .hash 0 0 [0]]
      = [none, some [1], none, none, some [1]]
    ∧ run init [.write 0 1 7, .hash 0 0 [0], .write 0 2 7, .cleanUp [⟨0, [0], [7]⟩], .newProcess 0, .hash 0 0 [0]]
        = [none, some [1], none, none, none, some [2]] := by
  refine ⟨by decide, by decide⟩

/-! ### non-vacuity -/

/-- A realistic fresh history: rewrite with a new mtime, copy2 to a new path, a pair and a three-member set
    whose older members are replaced by files with other (not newest) mtimes, re-use of an old mtime *after
    clean-up removed the entry*, two sessions, several classes — `MtimeFresh` holds, and the answers are the
    current contents. -/
example : MtimeFresh [.write 0 1 7, .hash 0 0 [0], .write 0 2 8, .hash 1 0 [0], .copy2 0 1, .hash 0 1 [1],
    .hash 0 4 [0, 1], .write 2 5 3, .hash 1 3 [0, 1, 2], .rename 2 0, .hash 1 4 [0, 1], .hash 0 3 [0, 1, 2],
    .newProcess 0, .cleanUp [⟨0, [0], [7]⟩], .write 0 3 7, .hash 0 0 [0], .hashFresh 4 [0, 1], .utime 1 9, .hash 1 4 [0, 1]] := by
  decide

example : run init [.write 0 1 7, .hash 0 0 [0], .write 0 2 8, .hash 1 0 [0], .copy2 0 1, .hash 0 1 [1],
    .hash 0 4 [0, 1], .write 2 5 3, .hash 1 3 [0, 1, 2], .rename 2 0, .hash 1 4 [0, 1], .hash 0 3 [0, 1, 2],
    .newProcess 0, .cleanUp [⟨0, [0], [7]⟩], .write 0 3 7, .hash 0 0 [0], .hashFresh 4 [0, 1], .utime 1 9, .hash 1 4 [0, 1]]
    = [none, some [1], none, some [2], none, some [2], some [2, 2], none, some [2, 2, 5], none, some [5, 2], none,
       none, none, none, some [3], some [3, 2], none, some [3, 2]] := by
  decide

/-- Re-using a cached `(path, mtime)` with the *same* content is fresh (touch, or rewriting identical bytes). -/
example : MtimeFresh [.write 0 1 7, .hash 0 0 [0], .write 0 1 7, .utime 0 8, .utime 0 7, .hash 0 0 [0]] := by decide

/-- `C09_any_member_in_key` hypotheses: a three-member set, the middle (neither oldest nor newest) member changes. -/
example : readAll ((FS.empty.set 0 (some (1, 5))).set 1 (some (2, 7)) |>.set 2 (some (3, 9))) [0, 1, 2]
      = some [(1, 5), (2, 7), (3, 9)]
    ∧ readAll (((FS.empty.set 0 (some (1, 5))).set 1 (some (2, 7)) |>.set 2 (some (3, 9))).set ([0, 1, 2][1]) (some (4, 6))) [0, 1, 2]
      = some [(1, 5), (4, 6), (3, 9)] := by
  refine ⟨by decide, by decide⟩

/-- `C09_key_constructor_order_independent`: three members handed over in two different orders. -/
example : [7, 5, 6].Perm [5, 6, 7] ∧ members [7, 5, 6] = [5, 6, 7] := by
  refine ⟨by decide, by decide⟩

/-- `C09_multiproc` hypotheses are met by a history that is NOT fresh (it speaks about wrong answers too). -/
example : noCleanUp [.write 0 1 7, .hash 0 0 [0], .write 0 2 7] = true ∧ noCleanUp [.hash 0 0 [0], .hash 1 0 [0]] = true
    ∧ ¬ MtimeFresh ([.write 0 1 7, .hash 0 0 [0], .write 0 2 7] ++ [.hash 0 0 [0], .hash 1 0 [0]]) := by
  refine ⟨by decide, by decide, by decide⟩

/-- `C09_multiproc_fresh` hypotheses are met by a history with a clean-up in its first part. -/
example : MtimeFresh ([.write 0 1 7, .hashFresh 0 [0], .cleanUp [⟨0, [0], [7]⟩], .write 0 2 7] ++ [.hash 0 0 [0], .hashFresh 0 [0]])
    ∧ MtimeFresh (([.write 0 1 7, .hashFresh 0 [0], .cleanUp [⟨0, [0], [7]⟩], .write 0 2 7] ++ [.newProcess 0]) ++ [.hash 0 0 [0], .hashFresh 0 [0]]) := by
  refine ⟨by decide, by decide⟩

/-- `C09_partial_from`: a non-empty state satisfying the invariant. -/
example : Inv ⟨FS.empty.set 0 (some (1, 7)), [(⟨0, [0], [7]⟩, [1]), (⟨0, [0], [6]⟩, [5])], [((3, ⟨0, [0], [7]⟩), [1])]⟩ := by
  rw [inv_iff_noStale]
  decide

end PydraModel.FileHash
