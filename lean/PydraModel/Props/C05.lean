import PydraModel.StateAlg.Lemmas4
import PydraModel.Props.C01
import PydraModel.StateAlg.CallSites
/-
C05 — Equivalent splitter spellings agree; ill-formed split/combine requests are rejected early.

Everything the State computes from a splitter goes through `toRPN s`; two spellings with the same binary normal form
(`normalize`) therefore behave identically in every respect.  One-element lists/tuples do not change the normal form
(in any context, after the repair of D33); re-bracketing a chain of outer (inner) products changes the normal form but
not the reference expansion, which transfers to the model by C01 (for all trees, since the repair of D1).
-/
namespace PydraModel.StateAlg
open Spec

/-- FULL: a one-element list / tuple is the same splitter as its element (normal form and RPN). -/
theorem C05_singleton (s : Spl) :
    normalize (.outer [s]) = normalize s ∧ normalize (.inner [s]) = normalize s ∧
    toRPN (.outer [s]) = toRPN s ∧ toRPN (.inner [s]) = toRPN s := by
  refine ⟨normalize_outer_single s, normalize_inner_single s, ?_, ?_⟩ <;>
    simp [toRPN, ordering, orderingNode]

/-- FULL: the normal form is compositional — replacing an element of a list (tuple) by an equivalent spelling, at any
    position, gives an equivalent spelling.  Together with `C05_singleton` (and by iteration for deeper contexts): wrapping
    any sub-splitter anywhere in one-element lists/tuples does not change the normal form. -/
theorem C05_context (a a' : Spl) (h : normalize a = normalize a') (xs ys : List Spl) :
    normalize (.outer (xs ++ a :: ys)) = normalize (.outer (xs ++ a' :: ys)) ∧
    normalize (.inner (xs ++ a :: ys)) = normalize (.inner (xs ++ a' :: ys)) := by
  simp only [normalize]
  exact ⟨normList_congr false a a' h xs ys, normList_congr true a a' h xs ys⟩

/-- FULL: spellings with the same normal form produce the same RPN, hence the same states, the same job inputs in the
    same order, the same grouping under any combiner and the same errors — for all inputs. -/
theorem C05_same_normal_form (s s' : Spl) (t : Bin) (h : normalize s = some t) (h' : normalize s' = some t) :
    toRPN s = toRPN s' ∧
    (∀ env comb, prepareStates env s comb = prepareStates env s' comb) ∧
    (∀ venv, statesVal venv s = statesVal venv s') := by
  have e : toRPN s = toRPN s' := by rw [toRPN_eq h, toRPN_eq h']
  refine ⟨e, ?_, ?_⟩
  · intro env comb; simp only [prepareStates, e]
  · intro venv; simp only [statesVal, statesInd, e]

/-- FULL (reference): a nested outer product inside an outer product can be flattened, anywhere in the chain. -/
theorem C05_rebracket_outer {α} (elems : Name → List α) (shape : Name → List Nat) (xs ys zs : List Spl) :
    expand elems shape (.outer (xs ++ [Spl.outer ys] ++ zs)) = expand elems shape (.outer (xs ++ ys ++ zs)) := by
  simp only [expand, expandOuter_append, expandOuter, prodO_unit]

/-- FULL (reference): the same for inner products (the nested tuple must be non-empty to be a splitter at all). -/
theorem C05_rebracket_inner {α} (elems : Name → List α) (shape : Name → List Nat) (xs ys zs : List Spl) (hy : ys ≠ []) :
    expand elems shape (.inner (xs ++ [Spl.inner ys] ++ zs)) = expand elems shape (.inner (xs ++ ys ++ zs)) := by
  simp only [expand]
  have hs : expandInner elems shape [Spl.inner ys] = expandInner elems shape ys := by
    rw [expandInner_single]; simp [expand]
  cases xs with
  | nil =>
    cases zs with
    | nil => simpa using hs
    | cons z zs =>
      simp only [List.nil_append]
      rw [expandInner_append _ _ [Spl.inner ys] (z :: zs) (by simp) (by simp),
        expandInner_append _ _ ys (z :: zs) hy (by simp), hs]
  | cons x xs =>
    cases zs with
    | nil =>
      simp only [List.append_nil]
      rw [expandInner_append _ _ (x :: xs) [Spl.inner ys] (by simp) (by simp),
        expandInner_append _ _ (x :: xs) ys (by simp) hy, hs]
    | cons z zs =>
      rw [List.append_assoc, List.append_assoc,
        expandInner_append _ _ (x :: xs) ([Spl.inner ys] ++ z :: zs) (by simp) (by simp),
        expandInner_append _ _ [Spl.inner ys] (z :: zs) (by simp) (by simp),
        expandInner_append _ _ (x :: xs) (ys ++ z :: zs) (by simp) (by simp [hy]),
        expandInner_append _ _ ys (z :: zs) hy (by simp), hs]

/-- Transfer to the model, for ALL trees: two well-formed spellings with the same reference expansion run the same jobs with
    the same inputs in the same order. -/
theorem C05_rebracket_model (env : ShapeEnv) (s s' : Spl) (hwf : WellFormed s) (hwf' : WellFormed s')
    (h : expandInd env s = expandInd env s') :
    statesInd env s = statesInd env s' := by
  rw [C01_refines_ind env s hwf, C01_refines_ind env s' hwf', h]

/-- FULL: flattening a nested outer product anywhere in an outer chain does not change the jobs — any number of fields. -/
theorem C05_rebracket_outer_model (env : ShapeEnv) (xs ys zs : List Spl)
    (hwf : WellFormed (.outer (xs ++ [Spl.outer ys] ++ zs))) (hwf' : WellFormed (.outer (xs ++ ys ++ zs))) :
    statesInd env (.outer (xs ++ [Spl.outer ys] ++ zs)) = statesInd env (.outer (xs ++ ys ++ zs)) := by
  apply C05_rebracket_model env _ _ hwf hwf'
  simp only [expandInd, jobs, C05_rebracket_outer]

/-- FULL: the same for inner chains. -/
theorem C05_rebracket_inner_model (env : ShapeEnv) (xs ys zs : List Spl) (hy : ys ≠ [])
    (hwf : WellFormed (.inner (xs ++ [Spl.inner ys] ++ zs))) (hwf' : WellFormed (.inner (xs ++ ys ++ zs))) :
    statesInd env (.inner (xs ++ [Spl.inner ys] ++ zs)) = statesInd env (.inner (xs ++ ys ++ zs)) := by
  apply C05_rebracket_model env _ _ hwf hwf'
  simp only [expandInd, jobs, C05_rebracket_inner _ _ xs ys zs hy]

/-! ### validation: which requests are rejected -/

/-- the names `Task.split` takes as the split fields -/
def SplitReq.names (r : SplitReq) : List Name :=
  match r.splitter with
  | some s => if truthy (some s) then s.fields else r.kwargs
  | none => r.kwargs

/-- ill-formed split requests: overwriting an existing splitter, a field split twice, splitter fields without values,
    values for fields that are not in the splitter, container_ndim for a field that is not split -/
def illFormedValue (r : SplitReq) : Bool :=
  (r.hasSplitter && !r.overwrite) ||
  (match r.splitter with
   | some s => truthy (some s) &&
      (hasDup s.fields || s.fields.any (fun x => !r.kwargs.contains x) || r.kwargs.any (fun x => !s.fields.contains x))
   | none => false) ||
  r.ndimNames.any (fun x => !r.names.contains x)

/-- … a value that is not a sequence, or a keyword that is not an input of the task (TypeError) -/
def illFormedType (r : SplitReq) : Bool :=
  r.kwargs.any (fun x => r.nonSeq.contains x) || r.kwargs.any (fun x => !r.taskFields.contains x)

/-- FULL: `Task.split` raises exactly for the ill-formed requests; ValueError for the first group (checked first),
    TypeError for the second. -/
theorem C05_reject_iff (r : SplitReq) :
    (splitCheck r = .error .value ↔ illFormedValue r = true) ∧
    (splitCheck r = .error .type ↔ (illFormedValue r = false ∧ illFormedType r = true)) ∧
    ((∃ s, splitCheck r = .ok s) ↔ (illFormedValue r = false ∧ illFormedType r = false)) := by
  unfold splitCheck illFormedValue illFormedType SplitReq.names
  cases h1 : (r.hasSplitter && !r.overwrite)
  case true => simp
  case false =>
    cases hs : r.splitter with
    | none =>
      simp only [Bool.false_eq_true, ↓reduceIte, Bool.false_or, Bool.or_false]
      cases h4 : r.ndimNames.any (fun x => !r.kwargs.contains x) <;>
      cases h5 : r.kwargs.any (fun x => r.nonSeq.contains x) <;>
      cases h6 : r.kwargs.any (fun x => !r.taskFields.contains x) <;> simp_all
    | some s =>
      simp only [Bool.false_eq_true, ↓reduceIte, Bool.false_or]
      cases ht : truthy (some s)
      case false =>
        simp only [Bool.false_eq_true, ↓reduceIte, Bool.false_and, Bool.false_or]
        cases h4 : r.ndimNames.any (fun x => !r.kwargs.contains x) <;>
        cases h5 : r.kwargs.any (fun x => r.nonSeq.contains x) <;>
        cases h6 : r.kwargs.any (fun x => !r.taskFields.contains x) <;> simp_all
      case true =>
        simp only [↓reduceIte, Bool.true_and]
        cases hd : hasDup s.fields
        case true => simp
        case false =>
          cases hm : s.fields.any (fun x => !r.kwargs.contains x)
          case true => simp
          case false =>
            cases hu : r.kwargs.any (fun x => !s.fields.contains x)
            case true => simp
            case false =>
              simp only [Bool.false_eq_true, ↓reduceIte, Bool.or_self, Bool.false_or]
              cases h4 : r.ndimNames.any (fun x => !s.fields.contains x) <;>
              cases h5 : r.kwargs.any (fun x => r.nonSeq.contains x) <;>
              cases h6 : r.kwargs.any (fun x => !r.taskFields.contains x) <;> simp_all

/-- FULL: `Task.combine` / `Submitter.__call__` / `State.combiner_validation` reject exactly: overwriting a combiner,
    a combiner field that is not an input of the task, combining without splitting, a combiner field that is not split. -/
theorem C05_combine_reject_iff (taskFields : List Name) (hasCombiner overwrite : Bool) (combiner : List Name)
    (hasSplitter : Bool) (rpn : List Tok) :
    (combineCheck taskFields hasCombiner overwrite combiner = .error .value ↔
      ((hasCombiner && !overwrite) = true ∨ ∃ c ∈ combiner, c ∉ taskFields)) ∧
    (submitCheck hasSplitter true = .error .value ↔ hasSplitter = false) ∧
    (combinerValidation rpn combiner = .error .state ↔ ∃ c ∈ combiner, c ∉ rpnFields rpn) ∧
    (combinerValidation rpn combiner = .ok () ↔ ∀ c ∈ combiner, c ∈ rpnFields rpn) := by
  refine ⟨?_, ?_, ?_, ?_⟩
  · unfold combineCheck
    cases h1 : (hasCombiner && !overwrite)
    · simp only [Bool.false_eq_true, ↓reduceIte, false_or]
      cases h2 : combiner.any (fun c => !taskFields.contains c)
      · simp only [Bool.false_eq_true, ↓reduceIte]
        simp only [List.any_eq_false] at h2
        constructor
        · intro h; cases h
        · rintro ⟨c, hc, hn⟩
          have := h2 c hc
          simp_all
      · simp only [↓reduceIte, true_iff]
        simp only [List.any_eq_true] at h2
        obtain ⟨c, hc, hn⟩ := h2
        exact ⟨c, hc, by simpa using hn⟩
    · simp
  · unfold submitCheck; cases hasSplitter <;> simp
  · unfold combinerValidation
    cases h : combiner.all (fun c => (rpnFields rpn).contains c)
    · simp only [Bool.false_eq_true, ↓reduceIte, true_iff]
      obtain ⟨c, hc, hn⟩ := List.all_eq_false.mp h
      exact ⟨c, hc, by simpa using hn⟩
    · simp only [↓reduceIte]
      constructor
      · intro h'; cases h'
      · rintro ⟨c, hc, hn⟩
        have := List.all_eq_true.mp h c hc
        simp_all
  · unfold combinerValidation
    cases h : combiner.all (fun c => (rpnFields rpn).contains c)
    · simp only [Bool.false_eq_true, ↓reduceIte]
      constructor
      · intro h'; cases h'
      · intro hall
        have : combiner.all (fun c => (rpnFields rpn).contains c) = true :=
          List.all_eq_true.mpr (fun c hc => by simpa using hall c hc)
        rw [this] at h; cases h
    · simp only [↓reduceIte, true_iff]
      intro c hc
      simpa using List.all_eq_true.mp h c hc

/-! ### "… rejected with an error before any job is executed" — on the call-site skeleton regenerated from the source -/

section BeforeJobs
open CallSites

/-- Statements about the lists of call events extracted from the CURRENT source (re-checked by `decide` on every run):
    1. `Task.split` and `Task.combine` raise their errors without constructing a `Job`, running a body or submitting anything;
    2. in `Submitter.__call__` the `State(...)` construction (where a malformed splitter makes `_ordering` raise) and the
       "combining without splitting" `ValueError` both precede the construction of the (wrapper) `Job` and `self.submit`;
    3. in `NodeExecution.start` — the only place among these functions where the jobs of a split task are constructed —
       `self.state.prepare_states(...)` precedes `self._split_task()` and every `Job(...)`;
    4. `State.prepare_states` runs `splitter_validation`, `combiner_validation`, `set_input_groups`, `prepare_states_ind`,
       `prepare_states_val` unconditionally, in this order; `prepare_states_ind` calls `self.splits` (the shape check);
       `combiner_validation` and `splits` contain their `raise`;
    5. none of `Node._set_state`, `State.prepare_states`, `prepare_states_ind`, `splits`, `combiner_validation` constructs a
       `Job` or runs a body. -/
theorem C05_before_jobs :
    (taskSplitEv ++ taskCombineEv).all (fun e => !isJob e && !isRun e) = true
    ∧ taskSplitEv.any isRaise = true ∧ taskCombineEv.any isRaise = true
    ∧ preceded (fun e => e.recv == "" && e.attr == "State") (fun e => isJob e || isRun e) submitterCallEv = true
    ∧ preceded (fun e => e.recv == "" && e.attr == "ValueError") (fun e => isJob e || isRun e) submitterCallEv = true
    ∧ submitterCallEv.any isJob = true
    ∧ preceded (fun e => e.recv == "self.state" && e.attr == "prepare_states")
        (fun e => isJob e || e.attr == "_split_task") nodeExecStartEv = true
    ∧ nodeExecStartEv.any isJob = true
    ∧ selfCalls statePrepareStatesEv = stages
    ∧ statePrepareStatesIndEv.any (fun e => e.recv == "self" && e.attr == "splits" && !e.guarded) = true
    ∧ stateCombinerValidationEv.any isRaise = true ∧ stateSplitsEv.any isRaise = true
    ∧ (nodeSetStateEv ++ statePrepareStatesEv ++ statePrepareStatesIndEv ++ stateSplitsEv ++ stateCombinerValidationEv).all
        (fun e => !isJob e && !isRun e) = true := by
  decide

/-- what 3. means for the list extracted today: whatever constructs a job in `NodeExecution.start` comes after the call of
    `prepare_states` (which performs every State-level rejection, clause 4) -/
theorem C05_before_jobs_meaning :
    ∀ pre e post, nodeExecStartEv = pre ++ e :: post → isJob e = true →
      ∃ c ∈ pre, c.recv = "self.state" ∧ c.attr = "prepare_states" := by
  intro pre e post hl he
  have h := C05_before_jobs.2.2.2.2.2.2.1
  obtain ⟨c, hc, hp⟩ := preceded_spec _ _ _ h pre e post hl (by simp [he])
  exact ⟨c, hc, by simpa using hp⟩

end BeforeJobs

/-- the five malformed kinds of the property, on concrete requests (task with inputs 0..3) -/
example : splitCheck ⟨some (.outer [.fld 0, .fld 0]), [0], [0, 1, 2, 3], false, false, [], []⟩ = .error .value := rfl
example : splitCheck ⟨some (.outer [.fld 0, .fld 1]), [0], [0, 1, 2, 3], false, false, [], []⟩ = .error .value := rfl
example : splitCheck ⟨some (.fld 0), [0, 1], [0, 1, 2, 3], false, false, [], []⟩ = .error .value := rfl
example : combinerValidation (toRPN (.fld 0)) [1] = .error .state := by decide
example : submitCheck false true = .error .value := by decide
/-- a second split on an already split task is rejected, also when the splitter is derived from the keyword arguments … -/
example : splitCheck ⟨none, [0], [0, 1, 2, 3], true, false, [], []⟩ = .error .value := rfl
example : splitCheck ⟨some (.fld 0), [0], [0, 1, 2, 3], true, false, [], []⟩ = .error .value := rfl
/-- … unless `overwrite=True`, in which case the new splitter (here `list(kwargs)`) replaces the old one -/
example : ∃ s, splitCheck ⟨none, [1, 0], [0, 1, 2, 3], true, true, [], []⟩ = .ok s ∧ toRPN s = [.f 1, .f 0, .star] := ⟨_, rfl, rfl⟩
/-- … and a well-formed request is accepted (non-vacuity of the "accepted" side) -/
example : ∃ s, splitCheck ⟨some (.inner [.fld 0, .fld 1]), [1, 0], [0, 1, 2, 3], false, false, [], []⟩ = .ok s := ⟨_, rfl⟩

/-- Non-vacuity for the re-bracketing transfer: `[a, [b, c], d]` against `[a, b, c, d]`. -/
example : WellFormed (.outer ([.fld 0] ++ [.outer [.fld 1, .fld 2]] ++ [.fld 3])) ∧
    WellFormed (.outer ([.fld 0] ++ [.fld 1, .fld 2] ++ [.fld 3])) := by decide

end PydraModel.StateAlg
