import PydraModel.Sched.SyncTerm
import PydraModel.Props.C14
/-
C17 — Workflow results do not depend on worker or schedule.

Property theorems only.  Model: `Sched/Model.lean`.  Bodies are pure: the value a job produces is a function of its
checksum (`Wf.body`; the checksum covers the task and its resolved inputs), and the jobs a node gets at `start()`
are a function of the values its predecessor nodes produced (`Wf.mkJobs`).  A *reference* assignment of jobs to
nodes is any `r` that satisfies these equations (`RefJobs`); on an acyclic graph it is unique.
The theorems say: whatever the schedule, the limit `k`, the completion order and the loop (asynchronous with any
worker that runs each job once, or the synchronous debug loop), every node that is started gets exactly the reference
jobs, and a successful submission returns exactly the reference outputs.  Job lists may be EMPTY (a split over an
empty list, given literally or produced upstream): such a node is done as soon as it is started, `C17_sync` /
`C17_async` cover it because they rest on "every node is done", not on "no task is runnable"
(`C17_empty_split_regression`, `C17_while_tasks_witness`).
-/
namespace PydraModel.Sched
open PydraModel.Graph

/-- the dataflow equations: the jobs of each node are built from the values of the jobs of its predecessors -/
def RefJobs (wf : Wf) (r : NodeId → List Ck) : Prop :=
  ∀ n, r n = wf.mkJobs n ((wf.preds n).map (fun p => (r p).map wf.body))

/-- the mechanism (an invariant of the tables, kept by every poll under every schedule): a started node has the
    reference jobs -/
theorem jobs_are_reference {wf : Wf} {w : World} {ns : NSMap} (h : NInv wf w ns) (hw : wf.g.wip = [])
    (hac : Acyclic wf.g) {r : NodeId → List Ck} (hr : RefJobs wf r) :
    ∀ n, (ns.get n).blk ≠ none → (ns.get n).unrunnable = false → (ns.get n).cks = r n := by
  obtain ⟨rk, hrk⟩ := hac
  have hrank : ∀ p n, p ∈ wf.preds n → rk p < rk n := by
    intro p n hp
    exact hrk (p, n) (mem_preds_iff.mp hp) (by rw [hw]; simp)
  intro n
  induction hn : rk n using Nat.strongRecOn generalizing n with
  | _ m ih =>
    intro hb hu
    rw [h.jobsOf n hb hu, hr n]
    congr 1
    unfold inputsOf
    apply List.map_congr_left
    intro p hp
    have hs := (h.preds n hb hu p hp).1
    rw [ih (rk p) (by rw [← hn]; exact hrank p n hp) p rfl (by rw [hs.1]; simp) hs.2.2.2.2]

/-- C17 (asynchronous loop), FULL: for every acyclic workflow, every limit, every fault-free schedule that runs the
    loop to a successful end, the outputs are the reference outputs -/
theorem C17_async {wf : Wf} {k : Option Nat} {sorted : List NodeId} (hw : WellFormed wf sorted)
    (hac : Acyclic wf.g) {r : NodeId → List Ck} (hr : RefJobs wf r)
    (sched : List (List Ev)) (hff : ∀ mv, mv ∈ sched → ∀ e, e ∈ mv → noVanish e) {st : St}
    (hend : NormalEnd wf k sorted sched .success st) :
    ∀ n, n ∈ wf.g.nodes → outputs wf st n = (r n).map wf.body := by
  obtain ⟨hrun, hdone⟩ := hend
  have hstate : (runAsync wf k sorted sched).state? = some st := by rw [hrun]; rfl
  have hs := sinv_runAsync hw.topo sched hstate
  obtain ⟨_, _, _, h4, ho⟩ := C14_full hw hac sched hff ⟨hrun, hdone⟩
  have hnoerr : st.errors = [] := by
    by_cases he : st.errors = []
    · exact he
    · simp [he] at ho
  intro n hn
  have hnd : ¬ Doomed wf st n := by
    intro hd
    -- a doomed node has a failed ancestor: some job is `err`, so it would be among the (empty) collected errors
    have : ∀ m, Doomed wf st m → False := by
      intro m hm
      induction hm with
      | direct _ hf =>
        obtain ⟨c, _, he⟩ := hf
        have := (h4 c).mpr he
        rw [hnoerr] at this; simp at this
      | step _ _ ih => exact ih
    exact this n hd
  have hl := hs.ninv.loc n
  obtain ⟨hst, _, _, _⟩ := (isDone_iff _).mp (hdone n hn)
  have hb := blk_of_started hl hst
  have hu : (st.ns.get n).unrunnable = false := by
    cases hx : (st.ns.get n).unrunnable
    · rfl
    · exact absurd (unrunnable_doomed hs.ninv hw.wip hac n hx) hnd
  unfold outputs
  rw [jobs_are_reference hs.ninv hw.wip hac hr n hb hu]

/-- the synchronous loop ends successfully only with every node done, in a state that satisfies the invariant -/
theorem syncLoop_success {wf : Wf} {k : Option Nat} {sorted : List NodeId} (ht : TopoOrder wf sorted)
    (fail : Ck → Bool) : ∀ (fuel : Nat) {st : St}, SyncInv wf st →
      ∀ st', syncLoop wf k sorted fail fuel st = (.success, st') →
        SyncInv wf st' ∧ ∀ n, n ∈ wf.g.nodes → (st'.ns.get n).isDone = true
  | 0, st, _, st', h => by simp [syncLoop] at h
  | fuel + 1, st, hs, st', h => by
    simp only [syncLoop] at h
    by_cases ht0 : st.tasks.isEmpty = true
    · simp only [ht0, Bool.not_true, Bool.false_eq_true, if_false] at h
      by_cases ha : (anyNotDone st.w st.ns wf.g.nodes).1 = true
      · simp only [ha, Bool.not_true, Bool.false_eq_true, if_false] at h
        split at h
        · exact absurd h (by simp)
        · rename_i st1 hst1
          obtain ⟨a, _, _⟩ := syncInv_runTasks fail _ (syncInv_upd hs _) (syncInv_upd hs _).tasksLegit hst1
          exact syncLoop_success ht fail fuel (syncInv_doPoll ht a) st' h
      · have ha' : (anyNotDone st.w st.ns wf.g.nodes).1 = false := by
          cases hx : (anyNotDone st.w st.ns wf.g.nodes).1
          · rfl
          · exact absurd hx ha
        simp only [ha', Bool.not_false, if_true, Prod.mk.injEq, true_and] at h
        subst h
        exact ⟨syncInv_upd hs _, fun n hn => anyNotDone_false _ ha' n hn⟩
    · have ht1 : st.tasks.isEmpty = false := by
        cases hx : st.tasks.isEmpty
        · rfl
        · exact absurd hx ht0
      simp only [ht1, Bool.not_false, if_true, Bool.not_true, Bool.false_eq_true, if_false] at h
      split at h
      · exact absurd h (by simp)
      · rename_i st1 hst1
        obtain ⟨a, _, _⟩ := syncInv_runTasks fail _ hs hs.tasksLegit hst1
        exact syncLoop_success ht fail fuel (syncInv_doPoll ht a) st' h

/-- C17 (synchronous loop, debug worker), FULL -/
theorem C17_sync {wf : Wf} {k : Option Nat} {sorted : List NodeId} (hw : WellFormed wf sorted)
    (hac : Acyclic wf.g) {r : NodeId → List Ck} (hr : RefJobs wf r) (fail : Ck → Bool) (fuel : Nat) {st : St}
    (hend : runSync wf k sorted fail fuel = (.success, st)) :
    ∀ n, n ∈ wf.g.nodes → outputs wf st n = (r n).map wf.body := by
  obtain ⟨hs, hdone⟩ := syncLoop_success hw.topo fail fuel (syncInv_doPoll hw.topo (syncInv_init wf)) st hend
  intro n hn
  have hl := hs.ninv.loc n
  obtain ⟨hst, _, _, _⟩ := (isDone_iff _).mp (hdone n hn)
  have hb := blk_of_started hl hst
  have hu : (st.ns.get n).unrunnable = false := by
    cases hx : (st.ns.get n).unrunnable
    · rfl
    · exfalso
      -- an unrunnable node needs a failed job upstream, but the synchronous loop stops at the first failure
      have hd := unrunnable_doomed hs.ninv hw.wip hac n hx
      have : ∀ m, Doomed wf st m → False := by
        intro m hm
        induction hm with
        | direct _ hf =>
          obtain ⟨c, _, he⟩ := hf
          rcases hs.twoValued c with h1 | h1 <;> rw [h1] at he <;> simp at he
        | step _ _ ih => exact ih
      exact this n hd
  unfold outputs
  rw [jobs_are_reference hs.ninv hw.wip hac hr n hb hu]

/-- the execution log of the synchronous loop never holds more entries than there are (reference) jobs -/
theorem sync_log_bound {wf : Wf} {sorted : List NodeId} (hw : WellFormed wf sorted) (hac : Acyclic wf.g)
    {r : NodeId → List Ck} (hr : RefJobs wf r) {st : St} (hs : SyncInv wf st) (ho : OutInit sorted st) :
    st.futured.length ≤ (sorted.flatMap r).length := by
  apply hs.nodup.length_le_of_subset
  intro c hc
  obtain ⟨l1, l2, hl⟩ := List.append_of_mem hc
  obtain ⟨n, hb, hu, hcn, _⟩ := hs.logOrd l1 c l2 hl
  have hn : n ∈ sorted := by
    apply Classical.byContradiction
    intro hnot
    rw [ho n hnot] at hb
    exact hb rfl
  rw [jobs_are_reference hs.ninv hw.wip hac hr n hb hu] at hcn
  exact List.mem_flatMap.mpr ⟨n, hn, hcn⟩

/-- TERMINATION of the synchronous loop (debug worker), FULL: for every acyclic workflow, every `max_concurrent >= 1`
    and every set of failing bodies, `2 * (jobs) + 2 * (nodes) + 3` iterations suffice — `outOfFuel` is unreachable, so
    `C15_sync`, `C17_sync` and `C17_determinism` speak about the real, fuel-free loop -/
theorem C17_sync_terminates {wf : Wf} {k : Option Nat} {sorted : List NodeId} (hw : WellFormed wf sorted)
    (hc : ClosedGraph wf.g) (hac : Acyclic wf.g) (hk : k ≠ some 0) {r : NodeId → List Ck} (hr : RefJobs wf r)
    (fail : Ck → Bool) (fuel : Nat) (hfuel : 2 * (sorted.flatMap r).length + 2 * sorted.length + 3 ≤ fuel) :
    (runSync wf k sorted fail fuel).1 ≠ .outOfFuel := by
  have hperm : ∀ n, n ∈ wf.g.nodes → n ∈ sorted := by
    intro n hn
    have := (sortFrom_spec wf.g [] sorted hw.sorted).2
    simp only [if_true] at this
    exact this.mem_iff.mpr hn
  have hclosed : ∀ m, m ∈ sorted → ∀ p, p ∈ wf.preds m → p ∈ sorted :=
    fun m _ p hp => hperm p (hc.src (p, m) (mem_preds_iff.mp hp))
  have hs0 := syncInv_doPoll (k := k) hw.topo (syncInv_init wf)
  have ho0 : OutInit sorted (doPoll wf k sorted (St.init (fun _ => .idle))) := by
    intro n hn
    show (scan wf (fun _ => Truth.idle) sorted ⟨fun _ => NS.init⟩ [] []).1.get n = NS.init
    rw [scan_frame wf _ sorted _ [] [] hn (fun m hm hp => hn (hclosed m hm n hp))]
  apply syncLoop_terminates hw.topo hk hperm hclosed fail (sorted.flatMap r).length
    (fun st h1 h2 => sync_log_bound hw hac hr h1 h2) fuel _ hs0 ho0
  right
  omega

/-- C17, FULL: two successful runs of the same workflow — any two schedules, any two limits, asynchronous or
    synchronous — return the same outputs -/
theorem C17_determinism {wf : Wf} {k k' k'' : Option Nat} {sorted : List NodeId} (hw : WellFormed wf sorted)
    (hac : Acyclic wf.g) {r : NodeId → List Ck} (hr : RefJobs wf r)
    (s1 s2 : List (List Ev)) (h1 : ∀ mv, mv ∈ s1 → ∀ e, e ∈ mv → noVanish e)
    (h2 : ∀ mv, mv ∈ s2 → ∀ e, e ∈ mv → noVanish e) {st1 st2 st3 : St}
    (e1 : NormalEnd wf k sorted s1 .success st1) (e2 : NormalEnd wf k' sorted s2 .success st2)
    (fail : Ck → Bool) (fuel : Nat) (e3 : runSync wf k'' sorted fail fuel = (.success, st3)) :
    ∀ n, n ∈ wf.g.nodes → outputs wf st1 n = outputs wf st2 n ∧ outputs wf st1 n = outputs wf st3 n := by
  intro n hn
  rw [C17_async hw hac hr s1 h1 e1 n hn, C17_async hw hac hr s2 h2 e2 n hn, C17_sync hw hac hr fail fuel e3 n hn]
  exact ⟨rfl, rfl⟩

/-! ### non-vacuity: a workflow whose job lists really depend on upstream values

node 0 has one job (checksum 1, value 1+1 = 2); node 1 splits over `range (value of node 0)`, so it gets the jobs
10, 11; node 2 consumes both: its single checksum is 100 + the sum of their values. -/

def wfDyn : Wf :=
  ⟨⟨[0, 1, 2], [(0, 1), (1, 2)], [], none⟩,
   fun n ins => match n with
     | 0 => [1]
     | 1 => (List.range ((ins.headD []).headD 0)).map (· + 10)
     | _ => [100 + (ins.headD []).foldl (· + ·) 0],
   fun c => c + 1⟩

def refDyn : NodeId → List Ck
  | 0 => [1]
  | 1 => [10, 11]
  | 2 => [123]
  | _ => [100]

example : WellFormed wfDyn [0, 1, 2] := ⟨rfl, by decide, by decide⟩
example : Acyclic wfDyn.g := ⟨fun n => n, by decide⟩

theorem refDyn_ok : RefJobs wfDyn refDyn := by
  intro n
  match n with
  | 0 => decide
  | 1 => decide
  | 2 => decide
  | n + 3 =>
    have : wfDyn.preds (n + 3) = [] := by
      unfold Wf.preds; simp [wfDyn]
    simp [refDyn, wfDyn, this, Wf.preds]

/-- two different schedules with different limits and the debug loop: the same outputs [[2], [11, 12], [124]] -/
example :
    (match runAsync wfDyn (some 1) [0, 1, 2]
        [[.acquire 1, .finishOk 1, .complete 1], [.acquire 10, .finishOk 10, .complete 10],
         [.acquire 11, .finishOk 11, .complete 11], [.acquire 123, .finishOk 123, .complete 123]] with
     | .done o st => some (o, [0, 1, 2].map (outputs wfDyn st))
     | _ => none) = some (Outcome.success, [[2], [11, 12], [124]]) ∧
    (match runAsync wfDyn none [0, 1, 2]
        [[.acquire 1, .finishOk 1, .complete 1], [.acquire 11, .acquire 10, .finishOk 11, .complete 11],
         [.finishOk 10, .complete 10], [.acquire 123, .finishOk 123, .complete 123]] with
     | .done o st => some (o, [0, 1, 2].map (outputs wfDyn st))
     | _ => none) = some (Outcome.success, [[2], [11, 12], [124]]) ∧
    ((runSync wfDyn none [0, 1, 2] (fun _ => false) 20).1,
      [0, 1, 2].map (outputs wfDyn (runSync wfDyn none [0, 1, 2] (fun _ => false) 20).2))
      = (SyncOutcome.success, [[2], [11, 12], [124]]) := by decide

/-! ### nodes with an EMPTY job list

node 0 has one job (checksum 5, value 0); node 1 splits over `range (value of node 0)` = the empty list, so it gets no
job at all and is done as soon as it is started; node 2 consumes node 1's (empty) list of values: checksum 100 + 0.
The scan that starts node 1 returns no task (node 2 is cut off by the `not_started` break), so the loops must go on
because a node is not done, not because a task is runnable. -/

def wfEmpty : Wf :=
  ⟨⟨[0, 1, 2], [(0, 1), (1, 2)], [], none⟩,
   fun n ins => match n with
     | 0 => [5]
     | 1 => (List.range ((ins.headD []).headD 0)).map (· + 10)
     | _ => [100 + (ins.headD []).foldl (· + ·) 0],
   fun c => if c = 5 then 0 else c⟩

def refEmpty : NodeId → List Ck
  | 0 => [5]
  | 1 => []
  | _ => [100]

example : WellFormed wfEmpty [0, 1, 2] := ⟨rfl, by decide, by decide⟩
example : Acyclic wfEmpty.g := ⟨fun n => n, by decide⟩

theorem refEmpty_ok : RefJobs wfEmpty refEmpty := by
  intro n
  match n with
  | 0 => decide
  | 1 => decide
  | 2 => decide
  | n + 3 => simp [refEmpty, wfEmpty, Wf.preds]

/-- REGRESSION (zero-job nodes): the asynchronous loop (through its stall detector's re-poll) and the synchronous
    loop both go on after the empty node and return the reference outputs [[0], [], [100]] -/
theorem C17_empty_split_regression :
    (match runAsync wfEmpty none [0, 1, 2]
        [[.acquire 5, .finishOk 5, .complete 5], [.acquire 100, .finishOk 100, .complete 100]] with
     | .done o st => some (o, [0, 1, 2].map (outputs wfEmpty st))
     | _ => none) = some (Outcome.success, [[0], [], [100]]) ∧
    ((runSync wfEmpty none [0, 1, 2] (fun _ => false) 20).1,
      [0, 1, 2].map (outputs wfEmpty (runSync wfEmpty none [0, 1, 2] (fun _ => false) 20).2))
      = (SyncOutcome.success, [[0], [], [100]]) ∧
    ((runSync wfEmpty (some 1) [0, 1, 2] (fun _ => false) 20).1,
      [0, 1, 2].map (outputs wfEmpty (runSync wfEmpty (some 1) [0, 1, 2] (fun _ => false) 20).2))
      = (SyncOutcome.success, [[0], [], [100]]) := by decide

/-- WITNESS (what the continuation condition `any(not n.done ...)` is for): with `while tasks:` alone the
    synchronous loop stops right after the empty node was started, reports success, and node 2 — never started —
    contributes no value: the outputs differ from those of every other worker -/
theorem C17_while_tasks_witness :
    ((runSyncTasksOnly wfEmpty none [0, 1, 2] (fun _ => false) 20).1,
      [0, 1, 2].map (outputs wfEmpty (runSyncTasksOnly wfEmpty none [0, 1, 2] (fun _ => false) 20).2),
      ((runSyncTasksOnly wfEmpty none [0, 1, 2] (fun _ => false) 20).2.ns.get 2).blk)
      = (SyncOutcome.success, [[0], [], []], none) := by decide

/-! ### `rerun=True` under the debug worker without a limit: the results of a first run on an empty cache -/

/-- C17 for `rerun=True`, synchronous loop, no `max_concurrent` limit: whatever results the cache and the readonly caches
    held (successful or errored, from whatever earlier values), a successful submission returns the reference outputs
    computed from THIS submission's body values — exactly what a first run on an empty cache returns (`C17_sync`).
    (With a limit or an asynchronous worker the outputs may mix old and new values: finding D73,
    `C15_rerun_cut_job_keeps_old_result`, `C15_rerun_stale_read_race`.) -/
theorem C17_rerun_sync_unlimited {wf : Wf} {sorted : List NodeId} (hw : WellFormed wf sorted) (hac : Acyclic wf.g)
    {r : NodeId → List Ck} (hrj : RefJobs wf r) (cfg : RCfg) (hr : cfg.rerun = true) (w0 : World) (fail : Ck → Bool)
    (fuel : Nat) (hend : (runSyncR wf none sorted cfg w0 fail fuel).1 = .success) :
    ∀ n, n ∈ wf.g.nodes → outputsR wf cfg (runSyncR wf none sorted cfg w0 fail fuel).2 n = (r n).map wf.body := by
  have h0 : RSInv wf cfg (doPollR wf none sorted cfg (RSt.init w0)) :=
    rsinv_doPollR hw.topo (rsinv_init wf cfg w0) (allE_init w0)
  obtain ⟨_, _, c⟩ := syncLoopR_spec hw.topo hr fail fuel h0
  obtain ⟨_, _, hout⟩ := C15_rerun_sync_unlimited hw cfg hr w0 fail fuel
  have e : runSyncR wf none sorted cfg w0 fail fuel =
      syncLoopR wf none sorted cfg fail fuel (doPollR wf none sorted cfg (RSt.init w0)) := rfl
  rw [e] at hend hout ⊢
  generalize syncLoopR wf none sorted cfg fail fuel (doPollR wf none sorted cfg (RSt.init w0)) = R at c hend hout ⊢
  obtain ⟨hs, hall, hdone⟩ := c hend
  intro n hn
  rw [(hout hend n hn).2.2]
  have hp : NInv wf (view cfg R.2.st.w) R.2.st.ns := ninv_plain hs.ninv hs.tab
  -- no job failed in this submission, so no node is unrunnable
  have hnofail : ∀ p, ¬ FailedNode { R.2.st with w := view cfg R.2.st.w } p := by
    rintro p ⟨x, hx, he⟩
    have hl := hp.loc p
    have hx' : x ∈ (R.2.st.ns.get p).cks := hx
    have he' : view cfg R.2.st.w x = .err := he
    have hb : (R.2.st.ns.get p).blk ≠ none := by
      intro hb; rw [hl.unstarted hb] at hx'; simp [NS.init] at hx'
    cases hu : (R.2.st.ns.get p).unrunnable
    · obtain ⟨i, hi, hci⟩ := mem_cks_ckAt hx'
      have hmem := hall p i (hl.cover hb hu i hi)
      rw [hci] at hmem
      rw [view_of_ok cfg (hs.fresh x hmem)] at he'
      exact absurd he' (by simp)
    · rw [(hl.unrun hu).2.2.2.2] at hx'; simp at hx'
  have hnodoom : ∀ m, ¬ Doomed wf { R.2.st with w := view cfg R.2.st.w } m := by
    intro m hm
    induction hm with
    | direct _ hf => exact hnofail _ hf
    | step _ _ ih => exact ih
  have hl := hp.loc n
  obtain ⟨hst, _, _, _⟩ := (isDone_iff _).mp (hdone n hn)
  have hb := blk_of_started hl hst
  have hu : (R.2.st.ns.get n).unrunnable = false := by
    cases hx : (R.2.st.ns.get n).unrunnable
    · rfl
    · exact absurd (unrunnable_doomed (st := { R.2.st with w := view cfg R.2.st.w }) hp hw.wip hac n hx) (hnodoom n)
  rw [jobs_are_reference hp hw.wip hac hrj n hb hu]

end PydraModel.Sched
