import PydraModel.Sched.Interleaved
import PydraModel.Sched.Rerun
/-
C16 — The max_concurrent limit is never exceeded.

Property theorems only.  Model: `Sched/Model.lean` (`Submitter.expand_workflow_async` with the
`len(task_futures) < max_concurrent` guard of the D11 repair).  `Truth.locked` = "a body is executing".
The theorems hold for EVERY workflow graph that `DiGraph.sorting` can sort, any number of nodes and of jobs per
node, every limit `k`, every schedule of environment moves (including lost jobs) and at EVERY instant: not only
when the loop polls but after each single environment move.
-/
namespace PydraModel.Sched
open PydraModel.Graph

/-- the states the system passes through: a state in which the loop awaits, followed by any enabled prefix of
    the environment moves of the current round -/
def Instant (wf : Wf) (k : Option Nat) (sorted : List NodeId) (st : St) : Prop :=
  ∃ sched st0 es, (runAsync wf k sorted sched).state? = some st0 ∧ applyEvs st0 es = some st

theorem sinv_instant {wf : Wf} {k : Option Nat} {sorted : List NodeId} (hw : WellFormed wf sorted) {st : St}
    (hi : Instant wf k sorted st) : SInv wf k st := by
  obtain ⟨sched, st0, es, h0, h1⟩ := hi
  exact sinv_applyEvs es (sinv_runAsync hw.topo sched h0) h1

/-- C16, FULL: with limit `k`, at no instant are more than `k` bodies executing. -/
theorem C16_full {wf : Wf} {k : Nat} {sorted : List NodeId} (hw : WellFormed wf sorted) {st : St}
    (hi : Instant wf (some k) sorted st) (running : List Ck) (hnd : running.Nodup)
    (hrun : ∀ c, c ∈ running → st.w c = .locked) : running.length ≤ k := by
  have hs := sinv_instant hw hi
  have hsub : ∀ c, c ∈ running → c ∈ st.futures := fun c hc => hs.lockedPending c (hrun c hc)
  exact Nat.le_trans (hnd.length_le_of_subset hsub) (hs.limit k rfl)

/-- the mechanism: every executing body sits inside a pending future, and there are never more than `k` of those -/
theorem C16_pending_bound {wf : Wf} {k : Nat} {sorted : List NodeId} (hw : WellFormed wf sorted) {st : St}
    (hi : Instant wf (some k) sorted st) :
    st.futures.length ≤ k ∧ st.futures.Nodup ∧ ∀ c, st.w c = .locked → c ∈ st.futures := by
  have hs := sinv_instant hw hi
  exact ⟨hs.limit k rfl, hs.futuresNodup, hs.lockedPending⟩

/-- with `max_concurrent = 1` bodies run strictly one after the other -/
theorem C16_k1 {wf : Wf} {sorted : List NodeId} (hw : WellFormed wf sorted) {st : St}
    (hi : Instant wf (some 1) sorted st) (c c' : Ck) (h : st.w c = .locked) (h' : st.w c' = .locked) : c = c' := by
  by_cases hc : c = c'
  · exact hc
  · have := C16_full hw hi [c, c'] (by simp [hc]) (by intro x hx; simp at hx; rcases hx with rfl | rfl <;> assumption)
    simp at this

/-! ### the finer semantics: the disk changes *during* polls (`Sched/Interleaved.lean`) -/

/-- instants of the finer semantics.  The ground truth and the pending futures at any moment *inside* a poll are
    those of such an instant too: environment moves do not depend on the tables, and futures do not change while
    the loop is polling. -/
def InstantI (wf : Wf) (k : Option Nat) (sorted : List NodeId) (st : St) : Prop :=
  ∃ sched st0 es, SchedOK sched ∧ (runAsyncI wf k sorted sched).state? = some st0 ∧ applyEvs st0 es = some st

theorem sinv_instantI {wf : Wf} {k : Option Nat} {sorted : List NodeId} (hw : WellFormed wf sorted) {st : St}
    (hi : InstantI wf k sorted st) : SInv wf k st := by
  obtain ⟨sched, st0, es, hok, h0, h1⟩ := hi
  exact sinv_applyEvs es (good_runAsyncI hw.topo sched hok h0).s h1

/-- C16, FULL, also when bodies start and finish while the loop is polling -/
theorem C16_full_interleaved {wf : Wf} {k : Nat} {sorted : List NodeId} (hw : WellFormed wf sorted) {st : St}
    (hi : InstantI wf (some k) sorted st) (running : List Ck) (hnd : running.Nodup)
    (hrun : ∀ c, c ∈ running → st.w c = .locked) : running.length ≤ k := by
  have hs := sinv_instantI hw hi
  have hsub : ∀ c, c ∈ running → c ∈ st.futures := fun c hc => hs.lockedPending c (hrun c hc)
  exact Nat.le_trans (hnd.length_le_of_subset hsub) (hs.limit k rfl)

/-! ### submissions over pre-existing results (`Sched/Rerun.lean`) -/

/-- instants of a submission that starts on a cache holding `w0` (any results, successful or errored), with any readonly
    caches, any `rerun` flag and any old values (`cfg`) -/
def InstantR (wf : Wf) (k : Option Nat) (sorted : List NodeId) (cfg : RCfg) (w0 : World) (rst : RSt) : Prop :=
  ∃ sched r0 es, (runAsyncR wf k sorted cfg w0 sched).state? = some r0 ∧ applyEvsR cfg r0 es = some rst

/-- C16, FULL, over pre-existing results: whatever the cache holds at the beginning, with or without `rerun`, at every
    instant of every schedule at most `max_concurrent` bodies are executing (`executingR` = bodies begun and not ended in
    this submission: a body begins only inside a pending future, cache hits complete without a body). -/
theorem C16_rerun {wf : Wf} {k : Nat} {sorted : List NodeId} {cfg : RCfg} {w0 : World} {rst : RSt}
    (hi : InstantR wf (some k) sorted cfg w0 rst) : (executingR rst).length ≤ k := by
  obtain ⟨sched, r0, es, h0, h1⟩ := hi
  exact executingR_le (rinv_applyEvsR es (rinv_runAsyncR sched h0) h1)

/-- the same, bodies counted by their lock on the `cache_root`: every locked checksum is an executing body -/
theorem C16_rerun_begins_in_future {wf : Wf} {k : Option Nat} {sorted : List NodeId} {cfg : RCfg} {w0 : World} {rst : RSt}
    (hi : InstantR wf k sorted cfg w0 rst) :
    (∀ c, c ∈ executingR rst → c ∈ rst.st.futures) ∧ rst.st.futures.Nodup ∧ rst.began.Nodup := by
  obtain ⟨sched, r0, es, h0, h1⟩ := hi
  have hr := rinv_applyEvsR es (rinv_runAsyncR sched h0) h1
  refine ⟨?_, hr.f.futuresNodup, hr.beganNodup⟩
  intro c hc
  simp only [executingR, List.mem_filter, Bool.not_eq_true', List.contains_eq_mem, decide_eq_false_iff_not] at hc
  exact hr.execPending c hc.1 hc.2

/-! ### documentation of the repaired defect D11

Before the repair the dispatcher created a future for every not yet futured job of `tasks[:k]`, although jobs
that were already seen running had left `queued` and were no longer counted. -/

def wfInd4 : Wf := ⟨⟨[0, 1, 2, 3], [], [], none⟩, fun n _ => [n], fun c => c⟩

def executing (w : World) (cks : List Ck) : List Ck := cks.filter (fun c => w c == .locked)

/-- 4 independent jobs, k = 2: jobs 0 and 1 start, 0 finishes; the poll moves job 1 to `running`; the OLD rule
    then dispatches jobs 2 and 3 -/
def oldRuleRun : Option St :=
  match afterPollOld wfInd4 (some 2) [0, 1, 2, 3]
      (doPoll wfInd4 (some 2) [0, 1, 2, 3] (St.init (fun _ => .idle))) with
  | .cont st0 =>
    match roundOld wfInd4 (some 2) [0, 1, 2, 3] st0 [.acquire 0, .acquire 1, .finishOk 0, .complete 0] with
    | .cont st1 => applyEvs st1 [.acquire 2, .acquire 3]
    | _ => none
  | _ => none

/-- WITNESS (pre-repair rule): three bodies execute at once although the limit is 2 -/
theorem C16_old_rule_violates :
    oldRuleRun.map (fun st => executing st.w [0, 1, 2, 3]) = some [1, 2, 3] := by decide

/-- the same schedule under the current rule -/
def newRuleRun : Option St :=
  match runAsync wfInd4 (some 2) [0, 1, 2, 3] [[.acquire 0, .acquire 1, .finishOk 0, .complete 0]] with
  | .cont st1 => applyEvs st1 [.acquire 2]
  | _ => none

/-- REGRESSION of D11 (repaired): only job 2 is dispatched, job 3 waits; two bodies execute -/
theorem C16_new_rule_respects :
    newRuleRun.map (fun st => (executing st.w [0, 1, 2, 3], st.futures)) = some ([1, 2], [1, 2]) := by decide

/-- Non-vacuity: the witness workflow is well formed, and the state above is an `Instant`. -/
example : WellFormed wfInd4 [0, 1, 2, 3] := ⟨rfl, by decide, by decide⟩

example : ∃ st, Instant wfInd4 (some 2) [0, 1, 2, 3] st ∧ executing st.w [0, 1, 2, 3] = [1, 2] := by
  have key := C16_new_rule_respects
  unfold newRuleRun at key
  cases h0 : runAsync wfInd4 (some 2) [0, 1, 2, 3] [[.acquire 0, .acquire 1, .finishOk 0, .complete 0]] with
  | cont st1 =>
    rw [h0] at key
    cases h1 : applyEvs st1 [.acquire 2] with
    | some st =>
      simp only [h1, Option.map_some, Option.some.injEq, Prod.mk.injEq] at key
      exact ⟨st, ⟨_, st1, [.acquire 2], by rw [h0]; rfl, h1⟩, key.1⟩
    | none => simp [h1] at key
  | done o st => rw [h0] at key; simp at key
  | bad => rw [h0] at key; simp at key

end PydraModel.Sched
