import PydraModel.Pickle.Lemmas
import PydraModel.Pickle.Deep
import PydraModel.Gen.PickleState
/-
C29 — Jobs and results survive serialization to worker processes (partial: record level).

The substance that `cloudpickle` reproduces dynamically created classes, closures and file objects is
the contract of DESIGN §4 (`cp.loads (cp.dumps v) = v`, modelled by `Prim.dec (Prim.enc v) = v`); the
correspondence samples it in fresh interpreters on every run.  What is PROVED here is pydra's own
part: the `__getstate__`/`__setstate__` pairs — regenerated from the current source into
`Gen/PickleState.lean` on every run — lose or corrupt no attribute except the declared transient ones,
for every object (any attribute map, any values).
-/
namespace PydraModel.Pickle
open PydraModel.Gen

/-- attributes that are allowed not to survive (re-created or `None` in the other process) -/
def transient : String → List String
  | "Submitter" => ["loop"]
  | "Worker" | "DebugWorker" => ["loop"]
  | "ConcurrentFuturesWorker" => ["loop", "pool"]
  | "SlurmWorker" => ["loop", "error"]
  | "SgeWorker" => ["loop", "error", "tasks_to_run_by_threads_requested", "output_by_jobid",
      "jobid_by_task_uid", "threads_used", "job_completed_by_jobid", "result_files_by_jobid",
      "job_pkls_rerun"]
  | _ => []          -- Job, Result: every attribute must survive

/-- GENERAL THEOREM (any class description, any object): if the decidable check passes, the pickling
    round trip returns every non-transient attribute unchanged. -/
theorem C29_roundtrip_of_check (C : ClassState) (tr : List String) (h : checkClass C tr = true)
    (o : Obj) (a : String) (ha : a ∉ tr) : roundTrip C o a = o a := by
  unfold roundTrip
  rw [run_pointwise]
  by_cases hm : a ∈ mentioned (C.get ++ C.set)
  · unfold checkClass at h
    simp only [Bool.and_eq_true, List.all_eq_true, Bool.or_eq_true, List.contains_eq_mem,
      decide_eq_true_eq, beq_iff_eq] at h
    rcases h.1.2 a hm with h1 | h1
    · exact absurd h1 ha
    · rw [← normalize_denote, h1]; rfl
  · rw [effOn_not_mentioned _ a hm]; rfl

/-- … and every transient attribute ends re-created or explicitly `None`, never stale. -/
theorem C29_transient_of_check (C : ClassState) (tr : List String) (h : checkClass C tr = true)
    (o : Obj) (a : String) (ha : a ∈ tr) : roundTrip C o a = .fresh ∨ roundTrip C o a = .none := by
  unfold roundTrip
  rw [run_pointwise]
  unfold checkClass at h
  simp only [Bool.and_eq_true, List.all_eq_true] at h
  have := h.2 a ha
  generalize effOn (C.get ++ C.set) a = ps at this
  rcases List.eq_nil_or_concat ps with rfl | ⟨init, last, rfl⟩
  · simp at this
  · simp only [List.concat_eq_append, List.getLast?_append, List.getLast?_singleton, Option.some_or] at this
    rw [List.concat_eq_append, denote_append]
    cases last <;> simp at this
    · right; rfl
    · left; rfl

/-- REGENERATED OBLIGATION: every `__getstate__`/`__setstate__` pair found in the current source passes
    the check against the declared transient attributes (re-decided on every run). -/
theorem C29_generated_classes_ok :
    ∀ C ∈ PickleState.classes, checkClass C (transient C.name) = true := by decide

/-- C29 (record level), for the code as it is now: for every class on the serialization path, every
    object and every attribute outside the transient list, the value after the round trip is the value
    before — in particular `Job.task`, `Result.outputs`, `Result.task`, `Result.errored`,
    `Job.cache_root`, the read-only cache list, `uid`, `name`, `state_index`, the audit settings. -/
theorem C29_state_roundtrip (C : ClassState) (hC : C ∈ PickleState.classes) (o : Obj) (a : String)
    (ha : a ∉ transient C.name) : roundTrip C o a = o a :=
  C29_roundtrip_of_check C _ (C29_generated_classes_ok C hC) o a ha

theorem C29_transient_recreated (C : ClassState) (hC : C ∈ PickleState.classes) (o : Obj) (a : String)
    (ha : a ∈ transient C.name) : roundTrip C o a = .fresh ∨ roundTrip C o a = .none :=
  C29_transient_of_check C _ (C29_generated_classes_ok C hC) o a ha

/-- Witness that the check is not vacuous: a `__getstate__` that pickles `task` without
    `__setstate__` unpickling it (or that drops `cache_root`) is rejected, and really loses data. -/
theorem C29_witness_unpaired :
    checkClass ⟨"Job", [.all, .enc "task"], [.all]⟩ [] = false ∧
    roundTrip ⟨"Job", [.all, .enc "task"], [.all]⟩ (fun _ => .atom 1) "task" = .pickled (.atom 1) ∧
    checkClass ⟨"Job", [.all, .drop "cache_root"], [.all]⟩ [] = false := by decide

/-! ### Object-graph level: a Job carries its Submitter, which carries its Worker -/

/-- a class without `__getstate__`/`__setstate__` of its own (plain pickling) -/
def plainClass (n : String) : ClassState := ⟨n, [.all], [.all]⟩

theorem plain_ok (n : String) : checkClass (plainClass n) [] = true := by
  simp [checkClass, plainClass, mentioned, Step.attr]

/-- for graphs of generated classes, stability of a path is just "no transient attribute on it":
    the per-class check is discharged by `C29_generated_classes_ok` -/
theorem C29_stable_of_generated (h : Heap)
    (hcls : ∀ i C o, h i = some (C, o) → C ∈ PickleState.classes) :
    ∀ (p : List String) (i : Nat),
      (∀ (q : List String) (a : String) (r : List String) (j : Nat) (C : ClassState) (o : Obj), p = q ++ a :: r →
          follow h i q = .ref j → h j = some (C, o) → a ∉ transient C.name) →
      stable transient h i p := by
  intro p
  induction p with
  | nil => intro i _; trivial
  | cons a p ih =>
    intro i hq
    unfold stable
    cases hh : h i with
    | none => trivial
    | some co =>
      obtain ⟨C, o⟩ := co
      refine ⟨C29_generated_classes_ok C (hcls i C o hh), hq [] a p i C o rfl rfl hh, ?_⟩
      cases p with
      | nil => trivial
      | cons b r =>
        cases hoa : o a with
        | ref j =>
          simp only
          apply ih j
          intro q a' r' j' C' o' hsplit hf hj
          refine hq (a :: q) a' r' j' C' o' (by rw [hsplit]; rfl) ?_ hj
          cases q with
          | nil =>
            simp only [follow] at hf
            simp only [follow, hh]
            cases hf
            exact hoa
          | cons b' q' =>
            simp only [follow, hh, hoa]
            exact hf
        | _ => trivial

/-- C29 (graph level): for every object graph whose classes are the generated ones, following any path
    that uses no attribute its owner's class declares transient gives, after pickling and restoring the
    WHOLE graph, exactly what it gave before — e.g. `job.submitter.worker.n_procs`,
    `job.submitter.worker.sbatch_args`, `job.submitter.cache_root`; nothing configured on a Worker instance
    is replaced by a default. -/
theorem C29_deep_roundtrip (h : Heap)
    (hcls : ∀ i C o, h i = some (C, o) → C ∈ PickleState.classes)
    (p : List String) (i : Nat)
    (hp : ∀ (q : List String) (a : String) (r : List String) (j : Nat) (C : ClassState) (o : Obj), p = q ++ a :: r →
          follow h i q = .ref j → h j = some (C, o) → a ∉ transient C.name) :
    follow (heapRT h) i p = follow h i p :=
  follow_heapRT transient h p i (C29_stable_of_generated h hcls p i hp)

/-- the concrete graph of a Job submitted with a configured cf worker instance:
    0 = Job, 1 = Submitter, 2 = ConcurrentFuturesWorker -/
def sampleHeap : Heap
  | 0 => some (PickleState.Job, fun a => if a = "submitter" then .ref 1 else if a = "task" then .atom 5 else .atom 1)
  | 1 => some (PickleState.Submitter, fun a => if a = "worker" then .ref 2 else if a = "loop" then .atom 9 else .atom 2)
  | 2 => some (PickleState.ConcurrentFuturesWorker,
      fun a => if a = "n_procs" then .atom 19 else if a = "pool" then .atom 7 else if a = "loop" then .atom 9 else .absent)
  | _ => Option.none

/-- Non-vacuity and the instance the second seeded change broke: the worker's `n_procs` (19, not the default)
    is what the restored job sees; the pool and the loop are re-created / None. -/
example :
    follow (heapRT sampleHeap) 0 ["submitter", "worker", "n_procs"] = .atom 19 ∧
    follow (heapRT sampleHeap) 0 ["submitter", "worker"] = .ref 2 ∧
    follow (heapRT sampleHeap) 0 ["task"] = .atom 5 ∧
    follow (heapRT sampleHeap) 0 ["submitter", "worker", "pool"] = .fresh ∧
    follow (heapRT sampleHeap) 0 ["submitter", "loop"] = .fresh := by decide

/-- Witness (the shape of the seeded change `self.worker = type(self.worker)(**self.worker_kwargs)`): a
    `Submitter.__setstate__` that re-creates `worker` is rejected by the check and really loses the
    configuration reachable through it. -/
theorem C29_witness_worker_recreated :
    let bad : ClassState := ⟨"Submitter", [.all, .null "loop"], [.all, .fresh "loop", .fresh "worker"]⟩
    checkClass bad (transient "Submitter") = false ∧
    follow (heapRT (fun i => if i = 1 then some (bad, fun a => if a = "worker" then .ref 2 else .atom 2) else sampleHeap i))
      1 ["worker", "n_procs"] = .absent := by decide

/-- Non-vacuity: the generated `Result` description is the one with guarded encode/decode, and an
    errored result without outputs (`None`) round-trips as `None`. -/
example : PickleState.Result ∈ PickleState.classes ∧
    roundTrip PickleState.Result (fun a => if a = "outputs" then .none else .atom 7) "outputs" = .none ∧
    roundTrip PickleState.Result (fun a => if a = "outputs" then .none else .atom 7) "task" = .atom 7 := by
  refine ⟨by simp [PickleState.classes], by decide, by decide⟩

end PydraModel.Pickle
