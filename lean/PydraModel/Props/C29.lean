import PydraModel.Pickle.Lemmas
import PydraModel.Gen.PickleState
/-
C29 — Jobs and results survive serialization to worker processes (partial: record level).

The substance that `cloudpickle` reproduces dynamically created classes, closures and file objects is
the contract of DESIGN §4 (`cp.loads (cp.dumps v) = v`, modelled by `Prim.dec (Prim.enc v) = v`); the
correspondence samples it in fresh interpreters on every run.  What is PROVED here is pydra's own
part: the `__getstate__`/`__setstate__` pairs — regenerated from the current source into
`Gen/PickleState.lean` on every run — lose or corrupt no attribute except the declared transient ones,
for every object (any attribute map, any values).
-/
namespace PydraModel.Pickle
open PydraModel.Gen

/-- attributes that are allowed not to survive (re-created or `None` in the other process) -/
def transient : String → List String
  | "Submitter" => ["loop"]
  | "Worker" | "DebugWorker" => ["loop"]
  | "ConcurrentFuturesWorker" => ["loop", "pool"]
  | "SlurmWorker" => ["loop", "error"]
  | "SgeWorker" => ["loop", "error", "tasks_to_run_by_threads_requested", "output_by_jobid",
      "jobid_by_task_uid", "threads_used", "job_completed_by_jobid", "result_files_by_jobid",
      "job_pkls_rerun"]
  | _ => []          -- Job, Result: every attribute must survive

/-- GENERAL THEOREM (any class description, any object): if the decidable check passes, the pickling
    round trip returns every non-transient attribute unchanged. -/
theorem C29_roundtrip_of_check (C : ClassState) (tr : List String) (h : checkClass C tr = true)
    (o : Obj) (a : String) (ha : a ∉ tr) : roundTrip C o a = o a := by
  unfold roundTrip
  rw [run_pointwise]
  by_cases hm : a ∈ mentioned (C.get ++ C.set)
  · unfold checkClass at h
    simp only [Bool.and_eq_true, List.all_eq_true, Bool.or_eq_true, List.contains_eq_mem,
      decide_eq_true_eq, beq_iff_eq] at h
    rcases h.1.2 a hm with h1 | h1
    · exact absurd h1 ha
    · rw [← normalize_denote, h1]; rfl
  · rw [effOn_not_mentioned _ a hm]; rfl

/-- … and every transient attribute ends re-created or explicitly `None`, never stale. -/
theorem C29_transient_of_check (C : ClassState) (tr : List String) (h : checkClass C tr = true)
    (o : Obj) (a : String) (ha : a ∈ tr) : roundTrip C o a = .fresh ∨ roundTrip C o a = .none := by
  unfold roundTrip
  rw [run_pointwise]
  unfold checkClass at h
  simp only [Bool.and_eq_true, List.all_eq_true] at h
  have := h.2 a ha
  generalize effOn (C.get ++ C.set) a = ps at this
  rcases List.eq_nil_or_concat ps with rfl | ⟨init, last, rfl⟩
  · simp at this
  · simp only [List.concat_eq_append, List.getLast?_append, List.getLast?_singleton, Option.some_or] at this
    rw [List.concat_eq_append, denote_append]
    cases last <;> simp at this
    · right; rfl
    · left; rfl

/-- REGENERATED OBLIGATION: every `__getstate__`/`__setstate__` pair found in the current source passes
    the check against the declared transient attributes (re-decided on every run). -/
theorem C29_generated_classes_ok :
    ∀ C ∈ PickleState.classes, checkClass C (transient C.name) = true := by decide

/-- C29 (record level), for the code as it is now: for every class on the serialization path, every
    object and every attribute outside the transient list, the value after the round trip is the value
    before — in particular `Job.task`, `Result.outputs`, `Result.task`, `Result.errored`,
    `Job.cache_root`, the read-only cache list, `uid`, `name`, `state_index`, the audit settings. -/
theorem C29_state_roundtrip (C : ClassState) (hC : C ∈ PickleState.classes) (o : Obj) (a : String)
    (ha : a ∉ transient C.name) : roundTrip C o a = o a :=
  C29_roundtrip_of_check C _ (C29_generated_classes_ok C hC) o a ha

theorem C29_transient_recreated (C : ClassState) (hC : C ∈ PickleState.classes) (o : Obj) (a : String)
    (ha : a ∈ transient C.name) : roundTrip C o a = .fresh ∨ roundTrip C o a = .none :=
  C29_transient_of_check C _ (C29_generated_classes_ok C hC) o a ha

/-- Witness that the check is not vacuous: a `__getstate__` that pickles `task` without
    `__setstate__` unpickling it (or that drops `cache_root`) is rejected, and really loses data. -/
theorem C29_witness_unpaired :
    checkClass ⟨"Job", [.all, .enc "task"], [.all]⟩ [] = false ∧
    roundTrip ⟨"Job", [.all, .enc "task"], [.all]⟩ (fun _ => .atom 1) "task" = .pickled (.atom 1) ∧
    checkClass ⟨"Job", [.all, .drop "cache_root"], [.all]⟩ [] = false := by decide

/-- Non-vacuity: the generated `Result` description is the one with guarded encode/decode, and an
    errored result without outputs (`None`) round-trips as `None`. -/
example : PickleState.Result ∈ PickleState.classes ∧
    roundTrip PickleState.Result (fun a => if a = "outputs" then .none else .atom 7) "outputs" = .none ∧
    roundTrip PickleState.Result (fun a => if a = "outputs" then .none else .atom 7) "task" = .atom 7 := by
  refine ⟨by simp [PickleState.classes], by decide, by decide⟩

end PydraModel.Pickle
