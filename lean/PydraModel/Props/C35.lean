import PydraModel.JobProto.C35Run
import PydraModel.JobProto.C35Async
import PydraModel.JobProto.C35RunX
import PydraModel.JobProto.C35AsyncX
/-
C35 — Job lifecycle leaves the process and cache directory consistent (DESIGN §6 C35, engine JobProto §5.4).

`LifecycleOK w0 r`: after the call the working directory is what it was, this submission's `<uid>_info.json` is gone,
and the job directory was either not touched or holds a complete result and a complete job record.

FULL STATEMENT (not provable on the current tree — D20): `C35_full_statement`.
* `C35_no_fault` / `_async`: every call without an injected exception (body succeeding or raising any kind of
  exception, cached or not, rerun or not), from every initial world.
* `C35_partial` / `_async`: an exception (any kind) injected at any position INSIDE the `try:` body, in every
  initial world, with any task behaviour.
* `C35_safe` (+`_async`) and `C35_exact` (+`_async`): the positions at which an injected exception breaks the
  postcondition are EXACTLY the D20 positions (between writing the info file and `try:`, and inside `finally:` up
  to `os.chdir(cwd)`); at every other position — pre-lock hook, try body, except handler, after the restore — the
  postcondition holds from every initial world.
* `C35_witness_pre` / `C35_witness_post` (+ `_async`): a raising `pre_run_task` hook (called before the `try:`)
  or `post_run_task` hook (first statement of `finally:`) leaves the info file behind and (Job.run) the
  working directory changed; `C35_full_fails`.
* `C35_hooks` (UNBOUNDED history length): over any history of submissions `pre_run_task` and `post_run_task` are
  each called exactly once per entered task body; `C35_hooks_call`: 0 times exactly on a cache hit.
The finite parts are evaluated by the kernel on the GENERATED skeletons (`JobProto/C35Run.lean`, `C35Async.lean`).
-/
namespace PydraModel.JobProto
open PydraModel.Gen.JobSkeleton

set_option maxRecDepth 100000

/-- the property at full strength: an exception injected at ANY position leaves the lifecycle consistent -/
def C35_full_statement : Prop :=
  ∀ (w0 : World), w0.core.Initial → ∀ (env : Env), env.auditChdir = auditStartChdir →
    ∀ i ∈ positions jobRun, ∀ base, LifecycleOK w0 (exec jobRun env (.raiseAt i base) w0)

theorem C35_no_fault (w0 : World) (h0 : w0.core.Initial) (env : Env) (h1 : env.auditChdir = auditStartChdir) :
    LifecycleOK w0 (exec jobRun env .none w0) :=
  lifecycle_of_check jobRun auditStartChdir .none CheckRun.noFault w0 h0 env h1

theorem C35_no_fault_async (w0 : World) (h0 : w0.core.Initial) (env : Env)
    (h1 : env.auditChdir = auditStartChdir) : LifecycleOK w0 (exec jobRunAsync env .none w0) :=
  lifecycle_of_check jobRunAsync auditStartChdir .none CheckAsync.noFault w0 h0 env h1

theorem C35_partial (w0 : World) (h0 : w0.core.Initial) (env : Env) (h1 : env.auditChdir = auditStartChdir)
    (i : Nat) (hi : i ∈ jobRun.tryBodyPositions 0) (base : Bool) :
    LifecycleOK w0 (exec jobRun env (.raiseAt i base) w0) :=
  lifecycle_of_check jobRun auditStartChdir (.raiseAt i base)
    (fun c0 hc0 env henv => CheckRun.tryBody i hi c0 hc0 env henv base (by cases base <;> simp)) w0 h0 env h1

theorem C35_partial_async (w0 : World) (h0 : w0.core.Initial) (env : Env) (h1 : env.auditChdir = auditStartChdir)
    (i : Nat) (hi : i ∈ jobRunAsync.tryBodyPositions 0) (base : Bool) :
    LifecycleOK w0 (exec jobRunAsync env (.raiseAt i base) w0) :=
  lifecycle_of_check jobRunAsync auditStartChdir (.raiseAt i base)
    (fun c0 hc0 env henv => CheckAsync.tryBody i hi c0 hc0 env henv base (by cases base <;> simp)) w0 h0 env h1

/-- non-vacuity: the `try:` body has positions, among them the task body itself -/
example : jobRun.flatten.idxOf .body ∈ jobRun.tryBodyPositions 0 := by decide
example : jobRunAsync.flatten.idxOf .body ∈ jobRunAsync.tryBodyPositions 0 := by decide
example : (jobRun.tryBodyPositions 0).length = 6 := by decide

/-! ### Witnesses (D20) -/

def envPlain : Env := ⟨false, false, none, auditStartChdir⟩

/-- `Job.run`, raising `pre_run_task` hook: the hook is called after `os.chdir(cache_dir)` and outside the
    `try:` — working directory not restored, info file left, no result in the job directory -/
theorem C35_witness_pre :
    let r := exec jobRun envPlain (.raiseAt (jobRun.flatten.idxOf .hookPreRunTask) false) World.fresh
    r.2 = .raising false ∧ r.1.core.cwd = .jobDir ∧ r.1.core.info = true ∧ r.1.core.result = .absent := by
  decide +kernel

/-- `Job.run`, raising `post_run_task` hook: first statement of `finally:` — the result is not saved, the info
    file is not removed, the working directory is not restored -/
theorem C35_witness_post :
    let r := exec jobRun envPlain (.raiseAt (jobRun.flatten.idxOf .hookPostRunTask) false) World.fresh
    r.2 = .raising false ∧ r.1.core.cwd = .jobDir ∧ r.1.core.info = true ∧ r.1.core.result = .absent := by
  decide +kernel

theorem C35_witness_pre_async :
    let r := exec jobRunAsync envPlain (.raiseAt (jobRunAsync.flatten.idxOf .hookPreRunTask) false) World.fresh
    r.2 = .raising false ∧ r.1.core.info = true ∧ r.1.core.result = .absent := by
  decide +kernel

theorem C35_witness_post_async :
    let r := exec jobRunAsync envPlain (.raiseAt (jobRunAsync.flatten.idxOf .hookPostRunTask) false) World.fresh
    r.2 = .raising false ∧ r.1.core.cwd = .jobDir ∧ r.1.core.info = true ∧ r.1.core.result = .absent := by
  decide +kernel

theorem C35_full_fails : ¬ C35_full_statement := by
  intro h
  have hw := h World.fresh (by decide) envPlain rfl (jobRun.flatten.idxOf .hookPreRunTask) (by decide) false
  have h2 : (exec jobRun envPlain (.raiseAt (jobRun.flatten.idxOf .hookPreRunTask) false) World.fresh).1.core.info = true :=
    C35_witness_pre.2.2.1
  rw [hw.2.1] at h2
  cases h2

/-! ### The exact set of positions (C35_exact) -/

/-- an exception injected at ANY position that is not a D20 position — the pre-lock hook, everything up to and
    including the writing of the info file, the `try:` body, the `except` handler, everything after the working
    directory has been restored — leaves the lifecycle consistent, from every initial world -/
theorem C35_safe (w0 : World) (h0 : w0.core.Initial) (env : Env) (h1 : env.auditChdir = auditStartChdir)
    (i : Nat) (hi : i ∈ jobRun.safePositions) (base : Bool) :
    LifecycleOK w0 (exec jobRun env (.raiseAt i base) w0) :=
  lifecycle_of_check jobRun auditStartChdir (.raiseAt i base)
    (fun c0 hc0 env henv =>
      lifecycleAt_safe_of_parts jobRun auditStartChdir CheckRun.tryBody CheckRunX.extra i hi c0 hc0 env henv base
        (by cases base <;> simp)) w0 h0 env h1

theorem C35_safe_async (w0 : World) (h0 : w0.core.Initial) (env : Env) (h1 : env.auditChdir = auditStartChdir)
    (i : Nat) (hi : i ∈ jobRunAsync.safePositions) (base : Bool) :
    LifecycleOK w0 (exec jobRunAsync env (.raiseAt i base) w0) :=
  lifecycle_of_check jobRunAsync auditStartChdir (.raiseAt i base)
    (fun c0 hc0 env henv =>
      lifecycleAt_safe_of_parts jobRunAsync auditStartChdir CheckAsync.tryBody CheckAsyncX.extra i hi c0 hc0 env henv base
        (by cases base <;> simp)) w0 h0 env h1

/-- C35_exact: over the positions of the generated skeleton, the lifecycle postcondition survives an injected
    exception (in every representative world, for every task behaviour and exception kind) IF AND ONLY IF the
    position is not one of the D20 positions — the statements between writing the info file and `try:`, and the
    statements of `finally:` up to `os.chdir(cwd)` -/
theorem C35_exact : ∀ i ∈ positions jobRun,
    (LifecycleAt jobRun auditStartChdir i ↔ i ∉ jobRun.d20Positions) := by
  intro i hi
  constructor
  · intro hL hd
    have hbad := CheckRunX.d20Fails i hd
    exact hbad (hL Core.fresh (by decide) ⟨false, true, none, auditStartChdir⟩ (by decide) false (by decide))
  · intro hnd
    rcases mem_safe_or_d20 jobRun i hi with h | h
    · exact lifecycleAt_safe_of_parts jobRun auditStartChdir CheckRun.tryBody CheckRunX.extra i h
    · exact absurd h hnd

theorem C35_exact_async : ∀ i ∈ positions jobRunAsync,
    (LifecycleAt jobRunAsync auditStartChdir i ↔ i ∉ jobRunAsync.d20Positions) := by
  intro i hi
  constructor
  · intro hL hd
    have hbad := CheckAsyncX.d20Fails i hd
    exact hbad (hL Core.fresh (by decide) ⟨false, true, none, auditStartChdir⟩ (by decide) false (by decide))
  · intro hnd
    rcases mem_safe_or_d20 jobRunAsync i hi with h | h
    · exact lifecycleAt_safe_of_parts jobRunAsync auditStartChdir CheckAsync.tryBody CheckAsyncX.extra i h
    · exact absurd h hnd

/-- the D20 positions are where the raising hooks of the witnesses sit; the hooks before the lock and after it,
    the try body and the handler are safe -/
example : jobRun.flatten.idxOf .hookPreRunTask ∈ jobRun.d20Positions ∧
    jobRun.flatten.idxOf .hookPostRunTask ∈ jobRun.d20Positions ∧
    jobRun.flatten.idxOf .hookPreRun ∈ jobRun.safePositions ∧ jobRun.flatten.idxOf .hookPostRun ∈ jobRun.safePositions ∧
    jobRun.flatten.idxOf .body ∈ jobRun.safePositions ∧ jobRun.flatten.idxOf .recordError ∈ jobRun.safePositions := by
  decide

/-! ### Hooks -/

/-- one call without injected faults, from any initial world: `pre_run_task` and `post_run_task` are each called
    as often as the task body is entered in this call — once, or not at all; not at all exactly on a cache hit
    (no rerun and a complete good result in the job directory) -/
theorem C35_hooks_call (w0 : World) (h0 : w0.core.Initial) (env : Env) (h1 : env.auditChdir = auditStartChdir) :
    let r := exec jobRun env .none w0
    countHook .preRunTask r.1.evs - countHook .preRunTask w0.evs = r.1.execs - w0.execs ∧
    countHook .postRunTask r.1.evs - countHook .postRunTask w0.evs = r.1.execs - w0.execs ∧
    r.1.execs - w0.execs ≤ 1 ∧ w0.execs ≤ r.1.execs ∧
    (r.1.execs = w0.execs ↔ (env.rerun = false ∧ w0.core.result = .complete good ∧ w0.core.dir = true)) := by
  obtain ⟨_, he, _⟩ := exec_base jobRun env .none w0
  obtain ⟨b1, b2, b3, _, _, b6, _⟩ :=
    CheckRun.hooks _ (initial_normC_mem w0.core h0) env (h1 ▸ mem_allEnvs env)
  simp only [World.execs]
  rw [he]
  simp only [countHook_append, execsIn_append]
  have hg : (normC w0.core).result.isGood = true ↔ w0.core.result = .complete good := ResFile.isGood_iff _
  have hd : (normC w0.core).dir = w0.core.dir := rfl
  rw [hg, hd] at b6
  refine ⟨by omega, by omega, by omega, by omega, ?_⟩
  rw [← b6]
  omega

/-- UNBOUNDED: any history (any length) of fault-free submissions of `Job.run` from an initial world -/
theorem C35_hooks (envs : List Env) (h : ∀ env ∈ envs, env.auditChdir = auditStartChdir) (w0 : World)
    (h0 : w0.core.Initial) :
    let w := runHistory jobRun envs w0
    countHook .preRunTask w.evs - countHook .preRunTask w0.evs = w.execs - w0.execs ∧
    countHook .postRunTask w.evs - countHook .postRunTask w0.evs = w.execs - w0.execs :=
  let r := hooks_history jobRun auditStartChdir CheckRun.hooks envs h w0 h0
  ⟨r.2.1, r.2.2.1⟩

theorem C35_hooks_async (envs : List Env) (h : ∀ env ∈ envs, env.auditChdir = auditStartChdir) (w0 : World)
    (h0 : w0.core.Initial) :
    let w := runHistory jobRunAsync envs w0
    countHook .preRunTask w.evs - countHook .preRunTask w0.evs = w.execs - w0.execs ∧
    countHook .postRunTask w.evs - countHook .postRunTask w0.evs = w.execs - w0.execs :=
  let r := hooks_history jobRunAsync auditStartChdir CheckAsync.hooks envs h w0 h0
  ⟨r.2.1, r.2.2.1⟩

/-- non-vacuity: a history with a fresh run, a cache hit, a rerun and a failing rerun enters the body 3 times -/
example :
    (runHistory jobRun [envPlain, envPlain, { envPlain with rerun := true },
      { envPlain with rerun := true, bodyFails := some false }] World.fresh).execs = 3 := by decide +kernel

end PydraModel.JobProto
