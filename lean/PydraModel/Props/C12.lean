import PydraModel.Gen.JobSkeleton
import PydraModel.JobProto.CrashSafe
import PydraModel.JobProto.Pickle
/-
C12 — A crash at any point never yields a wrong result or a wedged cache (DESIGN §6 C12, engine JobProto §5.4).

Finite per skeleton (re-evaluated by the kernel on the GENERATED `jobRun` / `jobRunAsync`, so reordering `save`,
`unlink` or the lock release in the source re-opens them): `C12_closed_*`, `C12_resub_*`.
General (`JobProto/Lemmas.lean`, `Crash.lean`, `CrashSafe.lean`): crash at position `j` = state logged at `j` by the
fault-free run (`halt_or_log`); runs do not depend on the event log nor on stale markers (`exec_reduce`).
Together: `C12_crash_safe` / `C12_async` for EVERY initial world, EVERY crash position, torn or not.
Unbounded: `C12_prefix_free` (no strict prefix of a framed, STOP-terminated stream decodes).
-/
namespace PydraModel.JobProto
open PydraModel.Gen.JobSkeleton

set_option maxRecDepth 100000

/-! ### Finite checks on the generated skeletons -/

theorem C12_closed_run_ok : ClosedUnderCrashAt jobRun auditStartChdir none := by decide +kernel
theorem C12_closed_run_exc : ClosedUnderCrashAt jobRun auditStartChdir (some false) := by decide +kernel
theorem C12_closed_run_base : ClosedUnderCrashAt jobRun auditStartChdir (some true) := by decide +kernel
theorem C12_resub_run : ResubmissionGood jobRun auditStartChdir := by decide +kernel

theorem C12_closed_async_ok : ClosedUnderCrashAt jobRunAsync auditStartChdir none := by decide +kernel
theorem C12_closed_async_exc : ClosedUnderCrashAt jobRunAsync auditStartChdir (some false) := by decide +kernel
theorem C12_closed_async_base : ClosedUnderCrashAt jobRunAsync auditStartChdir (some true) := by decide +kernel
theorem C12_resub_async : ResubmissionGood jobRunAsync auditStartChdir := by decide +kernel

/-! ### The property -/

/-- C12 for `Job.run`: for every world shape `w0` a new process can find (any directory content, any legal result
    file incl. a strict prefix, stale markers of dead processes, any history), every task behaviour and flags of
    the run that crashes, every crash position `j` (death right before action `j`, or inside it leaving a torn
    file), and every resubmission (rerun or not) whose body succeeds: the resubmission returns the complete correct
    result — re-executing the body, or serving a complete result that was there before or whose body had
    finished — never a partial result, and both locks can be acquired afterwards. -/
theorem C12_crash_safe (w0 : World) (h0 : w0.core.Initial) (env1 : Env) (h1 : env1.auditChdir = auditStartChdir)
    (j : Nat) (f : Fault) (hf : f = .dieAt j ∨ f = .tornAt j) (rerun2 prov2 : Bool) :
    CrashSafe jobRun w0 env1 f ⟨rerun2, prov2, none, auditStartChdir⟩ :=
  crashSafe_of jobRun auditStartChdir
    (closedUnderCrash_of_parts _ _ C12_closed_run_ok C12_closed_run_exc C12_closed_run_base) C12_resub_run
    w0 h0 env1 h1 j f hf rerun2 prov2

/-- the same for `Job.run_async` -/
theorem C12_async (w0 : World) (h0 : w0.core.Initial) (env1 : Env) (h1 : env1.auditChdir = auditStartChdir)
    (j : Nat) (f : Fault) (hf : f = .dieAt j ∨ f = .tornAt j) (rerun2 prov2 : Bool) :
    CrashSafe jobRunAsync w0 env1 f ⟨rerun2, prov2, none, auditStartChdir⟩ :=
  crashSafe_of jobRunAsync auditStartChdir
    (closedUnderCrash_of_parts _ _ C12_closed_async_ok C12_closed_async_exc C12_closed_async_base) C12_resub_async
    w0 h0 env1 h1 j f hf rerun2 prov2

/-- non-vacuity of the crash points: from the empty cache location every position of the skeleton is a point
    where the process really dies (in a run whose body succeeds or in one whose body raises) -/
theorem C12_points_reached_run : ∀ i ∈ positions jobRun,
    (exec jobRun ⟨false, true, none, auditStartChdir⟩ (.dieAt i) World.fresh).2 = .dead ∨
    (exec jobRun ⟨false, true, some false, auditStartChdir⟩ (.dieAt i) World.fresh).2 = .dead := by
  decide +kernel

theorem C12_points_reached_async : ∀ i ∈ positions jobRunAsync,
    (exec jobRunAsync ⟨false, true, none, auditStartChdir⟩ (.dieAt i) World.fresh).2 = .dead ∨
    (exec jobRunAsync ⟨false, true, some false, auditStartChdir⟩ (.dieAt i) World.fresh).2 = .dead := by
  decide +kernel

example : World.fresh.core.Initial := by decide
example : ({ Core.fresh with dir := true, result := .trunc, jobLock := .otherDead, saveLock := .otherDead } : Core).Initial := by
  decide
/-- a torn write of the result really leaves a strict prefix behind, and the resubmission re-executes -/
example :
    let i := (jobRun.flatten.idxOf .saveResult)
    let r1 := exec jobRun {} (.tornAt i) World.fresh
    r1.2 = .dead ∧ r1.1.core.result = .trunc ∧ (exec jobRun {} .none (afterDeath r1.1)).1.execs = 2 := by
  decide +kernel

/-! ### Result files: a strict prefix never loads -/

/-- UNBOUNDED: for every frame list (any length, any payloads) no strict prefix of the encoded stream decodes -/
theorem C12_prefix_free (fs : List Pickle.Frame) (h : Pickle.WellFormed fs) (p : List Pickle.Byte)
    (hp : Pickle.StrictPrefix p (Pickle.encode fs)) : Pickle.decode p = .error .truncated :=
  Pickle.prefix_free fs h p hp

/-- and the complete stream does decode, to the frames written (non-vacuity of `C12_prefix_free`) -/
theorem C12_roundtrip (fs : List Pickle.Frame) (h : Pickle.WellFormed fs) : Pickle.decode (Pickle.encode fs) = .ok fs :=
  Pickle.roundtrip fs h

example : Pickle.WellFormed [⟨128, [5]⟩, ⟨140, [1, 2, 3]⟩] := by
  intro f hf; simp at hf; rcases hf with rfl | rfl <;> decide
example : Pickle.StrictPrefix [128, 1, 5, 140, 3, 1] (Pickle.encode [⟨128, [5]⟩, ⟨140, [1, 2, 3]⟩]) :=
  ⟨by decide, by decide⟩

/-- `load_result` in the model: a file that is absent or a strict prefix gives `None`, a complete one its value;
    `Job.result` never yields a value from an incomplete file -/
theorem C12_load_result :
    loadFile .absent = none ∧ loadFile .trunc = none ∧ (∀ v, loadFile (.complete v) = some v) ∧
    (∀ c : Core, c.jobErrored = false → ∀ v, jobResult c = some v → c.result = .complete v) := by
  refine ⟨rfl, rfl, fun _ => rfl, ?_⟩
  intro c hje v h
  simp only [jobResult, hje, Bool.false_eq_true, if_false] at h
  split at h
  · rcases hr : c.result with _ | _ | v' <;> simp [hr, loadFile] at h
    exact congrArg _ h
  · cases h

end PydraModel.JobProto
