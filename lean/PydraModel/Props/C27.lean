import PydraModel.Envs.ContainerLemmas
import PydraModel.Gen.EnvRegexes
/-
C27 — Container environments run the native command with remapped, mounted paths.

Property theorems only (model `Envs/Container.lean`, lemmas `Envs/ContainerLemmas.lean`).
The model is the working tree after the repairs D17 (mount arguments are list items), D17l (list-of-file inputs)
and D17m (a directory requested read-write stays read-write); `upsertLast` and `mountArgsPinned` keep the
earlier algorithms for the regression witnesses.
-/
namespace PydraModel.Envs.Container
open PydraModel.Gen

/-! ### the regenerated tie -/

/-- `map_path`, the branch tests, the cache-root statement and the argv skeletons of docker.py / singularity.py are
    the ones the model was written for -/
theorem C27_source_pinned :
    EnvRegexes.mapPathStmts =
      ["host_path, env_path = (fileset.parent, Path(f'{root}{fileset.parent}'))",
       "mode = 'rw' if copy_file or isinstance(fld, shell.outarg) else 'ro'",
       "if bindings.get(host_path, (None, 'ro'))[1] == 'rw':\n    mode = 'rw'",
       "bindings[host_path] = (env_path, mode)",
       "return env_path / fileset.name if isinstance(fileset, os.PathLike) else tuple((env_path / rel for rel in fileset.relative_fspaths))"]
    ∧ EnvRegexes.singlePathTest = "isinstance(value, (os.PathLike, FileSet))"
    ∧ EnvRegexes.seqPathTest = "TypeParser.matches(value, ty.Sequence[FileSet | os.PathLike])"
    ∧ EnvRegexes.cacheRootStmt = "bindings[job.cache_root] = (f'{self.root.rstrip('/')}{job.cache_root.absolute()}', 'rw')"
    ∧ EnvRegexes.copyFileStmt = "copy_file = fld.copy_mode == FileSet.CopyMode.copy" :=
  ⟨rfl, rfl, rfl, rfl, rfl⟩

theorem C27_skeleton_pinned :
    EnvRegexes.dockerLists =
      ["['docker', 'run', *self.xargs]", "['-v', f'{key}:{val[0]}:{val[1]}']", "['-w', f'{self.root}{job.cache_dir}']",
       "['return_code', 'stdout', 'stderr']", "[docker_img]"]
    ∧ EnvRegexes.dockerCall = "docker_args + [docker_img] + job.task._command_args(values=arg_values)"
    ∧ EnvRegexes.singularityLists =
      ["['singularity', 'exec', *self.xargs]", "['-B', f'{key}:{val[0]}:{val[1]}']",
       "['--pwd', f'{self.root.rstrip('/')}{job.cache_dir.absolute()}']", "['return_code', 'stdout', 'stderr']",
       "[singularity_img]"]
    ∧ EnvRegexes.singularityCall = "singularity_args + [singularity_img] + job.task._command_args(values=values)" :=
  ⟨rfl, rfl, rfl, rfl⟩

/-! ### argument vector -/

/-- FULL, any number of extra arguments, mounts and native arguments: the container runtime, its options, one
    `-v host:container:mode` pair per mounted directory, the working directory under the root, the image, then exactly
    the native argument vector with every path atom moved under the root. -/
theorem C27_argv_docker (cfg : Cfg) (fields : List Field) (native : List Arg) :
    dockerArgv cfg fields native =
      ["docker".toList, "run".toList] ++ cfg.xargs
        ++ (bindings cfg fields).flatMap (fun b => ["-v".toList, b.host ++ ':' :: b.cont ++ ':' :: modeStr b.rw])
        ++ ["-w".toList, cfg.root ++ cfg.cacheDir, cfg.image ++ ':' :: cfg.tag]
        ++ native.map (fun a => renderArg (mapPaths (envDir cfg.root) a)) := by
  simp [dockerArgv, mountArgs, bindStr, remapArgv]

theorem C27_argv_singularity (cfg : Cfg) (fields : List Field) (native : List Arg) :
    singularityArgv cfg fields native =
      ["singularity".toList, "exec".toList] ++ cfg.xargs
        ++ (bindings cfg fields).flatMap (fun b => ["-B".toList, b.host ++ ':' :: b.cont ++ ':' :: modeStr b.rw])
        ++ ["--pwd".toList, rstripSlash cfg.root ++ cfg.cacheDir, cfg.image ++ ':' :: cfg.tag]
        ++ native.map (fun a => renderArg (mapPaths (envDir cfg.root) a)) := by
  simp [singularityArgv, mountArgs, bindStr, remapArgv]

/-- the command part has exactly as many arguments as the native command -/
theorem C27_argv_length (root : Str) (native : List Arg) : (remapArgv root native).length = native.length := by
  simp [remapArgv]

/-- every mounted directory contributes exactly one flag and one (unsplit) `host:container:mode` item -/
theorem C27_mount_args_shape (flag : Str) (bs : List Bind) :
    (mountArgs flag bs).length = 2 * bs.length
    ∧ ∀ i (h : i < bs.length),
        (mountArgs flag bs)[2 * i]? = some flag ∧ (mountArgs flag bs)[2 * i + 1]? = some (bindStr bs[i]) := by
  induction bs with
  | nil => simp [mountArgs]
  | cons b bs ih =>
    have hc : mountArgs flag (b :: bs) = flag :: bindStr b :: mountArgs flag bs := by simp [mountArgs]
    rw [hc]
    refine ⟨by simp [ih.1]; omega, ?_⟩
    intro i hi
    cases i with
    | zero => simp
    | succ j =>
      have hj : j < bs.length := by simpa using hi
      have := ih.2 j hj
      have e1 : 2 * (j + 1) = (2 * j) + 1 + 1 := by omega
      rw [e1]
      simpa using this

/-! ### remapping is natural in the path atoms -/

/-- literal text is never touched -/
theorem C27_remap_lits (f : Str → Str) (a : Arg) : lits (mapPaths f a) = lits a := by
  induction a with
  | nil => rfl
  | cons x xs ih =>
    cases x <;> simp [lits, mapPaths, mapPathsAtom] at ih ⊢ <;> exact ih

/-- every path atom (and nothing else) is moved: directory `d` becomes `f d`, the file name stays -/
theorem C27_remap_paths (f : Str → Str) (a : Arg) :
    paths (mapPaths f a) = (paths a).map (fun p => (f p.1, p.2)) := by
  induction a with
  | nil => rfl
  | cons x xs ih =>
    cases x <;> simp [paths, mapPaths, mapPathsAtom] at ih ⊢ <;> exact ih

theorem C27_remap_id (a : Arg) : mapPaths id a = a := by
  induction a with
  | nil => rfl
  | cons x xs ih => cases x <;> simp [mapPaths, mapPathsAtom] at ih ⊢ <;> exact ih

theorem C27_remap_comp (f g : Str → Str) (a : Arg) : mapPaths f (mapPaths g a) = mapPaths (f ∘ g) a := by
  induction a with
  | nil => rfl
  | cons x xs ih => cases x <;> simp [mapPaths, mapPathsAtom] at ih ⊢ <;> exact ih

/-- an argument without path atoms reaches the container unchanged -/
theorem C27_remap_literal_arg (f : Str → Str) (a : Arg) (h : paths a = []) : renderArg (mapPaths f a) = renderArg a := by
  induction a with
  | nil => rfl
  | cons x xs ih =>
    cases x with
    | lit s =>
      have : paths xs = [] := by simpa [paths, List.filterMap_cons] using h
      have ih' := ih this
      simp only [renderArg, mapPaths, List.map_cons, List.flatten_cons, mapPathsAtom] at ih' ⊢
      rw [ih']
    | path d n => simp [paths] at h

/-! ### mounts -/

/-- the mode the property asks for: read-write for the cache root and for a directory holding a copied input or an
    output, read-only otherwise -/
def wantRw (cfg : Cfg) (fields : List Field) (d : Str) : Bool :=
  d == cfg.cacheRoot || fields.any (fun f => f.rw && f.files.any (fun p => p.1 == d))

/-- where the property wants directory `d` inside the container -/
def wantCont (cfg : Cfg) (d : Str) : Str := if d == cfg.cacheRoot then cacheCont cfg else envDir cfg.root d

theorem getB_bindings (cfg : Cfg) (fields : List Field) (d : Str) :
    getB (bindings cfg fields) d =
      if cfg.cacheRoot == d then some ⟨cfg.cacheRoot, cacheCont cfg, true⟩
      else if fields.any (fun f => f.files.any (fun p => p.1 == d)) then
        some ⟨d, envDir cfg.root d, fields.any (fun f => f.rw && f.files.any (fun p => p.1 == d))⟩
      else none := by
  unfold bindings
  rw [getB_setCache, getB_applyEntries, touches_entries, wantsRw_entries]
  simp [getB, rwOf]

/-- FULL (any number of fields and files): the parent directory of every input path is mounted, once, at its place
    under the root, read-write exactly when the property says so. -/
theorem C27_mounts_cover (cfg : Cfg) (fields : List Field) :
    ∀ f ∈ fields, ∀ p ∈ f.files,
      ∃ b ∈ bindings cfg fields, b.host = p.1 ∧ b.cont = wantCont cfg p.1 ∧ b.rw = wantRw cfg fields p.1 := by
  intro f hf p hp
  have hany : fields.any (fun f => f.files.any (fun q => q.1 == p.1)) = true :=
    List.any_eq_true.mpr ⟨f, hf, List.any_eq_true.mpr ⟨p, hp, by simp⟩⟩
  have hg := getB_bindings cfg fields p.1
  cases hc : (cfg.cacheRoot == p.1)
  · simp only [hc, Bool.false_eq_true, if_false, hany, if_true] at hg
    obtain ⟨hm, hh⟩ := getB_some_mem _ _ _ hg
    refine ⟨_, hm, rfl, ?_, ?_⟩
    · have : (p.1 == cfg.cacheRoot) = false := by
        rw [Bool.eq_false_iff] at hc ⊢; intro e; apply hc; simp at e ⊢; exact e.symm
      simp [wantCont, this]
    · have : (p.1 == cfg.cacheRoot) = false := by
        rw [Bool.eq_false_iff] at hc ⊢; intro e; apply hc; simp at e ⊢; exact e.symm
      simp [wantRw, this]
  · simp only [hc, if_true] at hg
    obtain ⟨hm, hh⟩ := getB_some_mem _ _ _ hg
    have he : cfg.cacheRoot = p.1 := by simpa using hc
    refine ⟨_, hm, he, ?_, ?_⟩
    · simp [wantCont, he]
    · simp [wantRw, he]

/-- the cache root is mounted read-write -/
theorem C27_cache_root_rw (cfg : Cfg) (fields : List Field) :
    (⟨cfg.cacheRoot, cacheCont cfg, true⟩ : Bind) ∈ bindings cfg fields := by
  have hg := getB_bindings cfg fields cfg.cacheRoot
  simp only [BEq.rfl, if_true] at hg
  exact (getB_some_mem _ _ _ hg).1

/-- no directory is mounted twice (no conflicting modes can reach the runtime) -/
theorem C27_mounts_nodup (cfg : Cfg) (fields : List Field) : (hosts (bindings cfg fields)).Nodup := by
  unfold bindings
  exact nodup_setCache _ _ _ (nodup_applyEntries _ _ _ (by simp [hosts]))

/-- nothing else is mounted: every mount is the cache root or the parent of an input path, with the wanted target and mode -/
theorem C27_mounts_only (cfg : Cfg) (fields : List Field) :
    ∀ b ∈ bindings cfg fields,
      (b.host = cfg.cacheRoot ∨ ∃ f ∈ fields, ∃ p ∈ f.files, p.1 = b.host)
      ∧ b.cont = wantCont cfg b.host ∧ b.rw = wantRw cfg fields b.host := by
  intro b hb
  have hg := mem_getB _ b (C27_mounts_nodup cfg fields) hb
  rw [getB_bindings] at hg
  cases hc : (cfg.cacheRoot == b.host)
  · simp only [hc, Bool.false_eq_true, if_false] at hg
    have hne : (b.host == cfg.cacheRoot) = false := by
      rw [Bool.eq_false_iff] at hc ⊢; intro e; apply hc; simp at e ⊢; exact e.symm
    cases ha : fields.any (fun f => f.files.any (fun p => p.1 == b.host))
    · simp [ha] at hg
    · simp only [ha, if_true, Option.some.injEq] at hg
      obtain ⟨f, hf, hf2⟩ := List.any_eq_true.mp ha
      obtain ⟨p, hp, hp2⟩ := List.any_eq_true.mp hf2
      refine ⟨Or.inr ⟨f, hf, p, hp, by simpa using hp2⟩, ?_, ?_⟩
      · rw [← hg]; simp [wantCont, hne]
      · rw [← hg]; simp [wantRw, hne]
  · simp only [hc, if_true, Option.some.injEq] at hg
    have he : cfg.cacheRoot = b.host := by simpa using hc
    refine ⟨Or.inl he.symm, ?_, ?_⟩
    · rw [← hg]; simp [wantCont]
    · rw [← hg]; simp [wantRw]

/-- non-vacuity and a worked example: a copied input staged in the job directory, a linked input staged in the same
    directory afterwards (the D17m witness) and a plain input elsewhere -/
example :
    let cfg : Cfg := ⟨"/mnt/pydra".toList, "busybox".toList, "latest".toList, [], "/c".toList, "/c/job".toList⟩
    let fields : List Field := [⟨[("/c/job".toList, "a.txt".toList)], true⟩, ⟨[("/c/job".toList, "b.txt".toList)], false⟩,
                                ⟨[("/in dir".toList, "c.txt".toList)], false⟩]
    bindings cfg fields =
      [⟨"/c/job".toList, "/mnt/pydra/c/job".toList, true⟩, ⟨"/in dir".toList, "/mnt/pydra/in dir".toList, false⟩,
       ⟨"/c".toList, "/mnt/pydra/c".toList, true⟩] := by decide

/-! ### the command's return code -/

/-- the failure test of `Docker.execute` / `Singularity.execute` (regenerated from the source) is true on every
    non-zero return code, negative ones (death by signal) included, and false on 0 -/
theorem C27_rc_pinned :
    EnvRegexes.dockerRcTest.failsOnNonzero = true ∧ EnvRegexes.singularityRcTest.failsOnNonzero = true
    ∧ EnvRegexes.dockerRcTest.eval 0 = false ∧ EnvRegexes.singularityRcTest.eval 0 = false := by decide

/-- FULL: whatever non-zero status the container runtime ends with, the task fails (RuntimeError) -/
theorem C27_nonzero_fails (rc : Int) (h : rc ≠ 0) :
    EnvRegexes.dockerRcTest.eval rc = true ∧ EnvRegexes.singularityRcTest.eval rc = true :=
  ⟨PydraModel.JobProto.RcTest.failsOnNonzero_sound _ C27_rc_pinned.1 rc h,
   PydraModel.JobProto.RcTest.failsOnNonzero_sound _ C27_rc_pinned.2.1 rc h⟩

example : EnvRegexes.dockerRcTest.eval (-9) = true ∧ EnvRegexes.singularityRcTest.eval 137 = true := by decide

/-! ### regression witnesses of the repaired defects -/

/-- D17m (repaired): with plain last-writer-wins assignment the job directory holding a copied input was mounted
    read-only when a linked input staged there came later; the working tree keeps it read-write -/
theorem C27_witness_last_writer :
    let es : List (Str × Bool) := [("/c/job".toList, true), ("/c/job".toList, false)]
    (applyEntries upsertLast "/mnt/pydra".toList [] es).map (·.rw) = [false]
    ∧ (applyEntries upsert "/mnt/pydra".toList [] es).map (·.rw) = [true] := by decide

/-- D17 (repaired): joining and re-splitting the mount list cut a directory name at its blank -/
theorem C27_witness_pinned_space :
    let b : Bind := ⟨"/in dir".toList, "/mnt/pydra/in dir".toList, false⟩
    mountArgsPinned "-v".toList [b] = ["-v".toList, "/in".toList, "dir:/mnt/pydra/in".toList, "dir:ro".toList]
    ∧ mountArgs "-v".toList [b] = ["-v".toList, "/in dir:/mnt/pydra/in dir:ro".toList] := by decide

end PydraModel.Envs.Container
