import PydraModel.Hash.LemmasTask
/-
C06 — A cache hit returns what executing the task now would return.

The cache is keyed by `Task._checksum` (`<cache_root>/<checksum>/_result.pklz`): a submission is answered from the cache
iff a result is stored under the task's checksum.  For deterministic tasks the property therefore holds iff tasks that
would compute something different never share a checksum: `checksum t = checksum t' → TaskEquiv t t'`.

FULL STATEMENT (kept visible, NOT provable for the tree as it is): `C06_full_statement`.
The model's `taskChecksum` hashes exactly what `_compute_hashes` hashes — the *values* of the input fields (a function
value by its source, not its closure cells or globals) and the `Outputs` class — which is why the full statement fails:
  * closure cell values, module globals of the executor function          (D4-closure; D28 for workflow constructors)
  * metadata of the input fields that shapes the command line: argstr, position, sep, formatter
                                                                          (D4-argstr, D4-position, D4-sep, D4-formatter)
`C06_partial` proves the statement in collision-extraction form with these aspects as explicit hypotheses, and one witness
theorem per aspect shows two tasks with equal checksums (for EVERY digest function) that are not equivalent.
-/
namespace PydraModel.Hash
open PydraModel.Gen

/-! ### what "the same computation" means -/

/-- closure cells and referenced globals of a function value (what `bytes_repr_function` does not look at) -/
def unhashedEnv : PyVal → List (Scalar × PyVal) × List (Scalar × PyVal)
  | .func _ _ _ cells globals => (cells, globals)
  | _ => ([], [])

/-- same captured closure values and globals in every field value (compared as written: same objects) -/
def SameClosures (t t' : TaskDef) : Prop :=
  t.fields.map (fun f => (f.name, f.value.map (fun v => (unhashedEnv v).1)))
    = t'.fields.map (fun f => (f.name, f.value.map (fun v => (unhashedEnv v).1)))

def SameGlobals (t t' : TaskDef) : Prop :=
  t.fields.map (fun f => (f.name, f.value.map (fun v => (unhashedEnv v).2)))
    = t'.fields.map (fun f => (f.name, f.value.map (fun v => (unhashedEnv v).2)))

/-- same command-line relevant metadata of every input field -/
def SameFieldMeta (t t' : TaskDef) : Prop :=
  t.fields.map (fun f => (f.name, f.md.argstr, f.md.position, f.md.sep, f.md.formatter.map (fun v => funcBytesOf v)))
    = t'.fields.map (fun f => (f.name, f.md.argstr, f.md.position, f.md.sep, f.md.formatter.map (fun v => funcBytesOf v)))
where
  funcBytesOf : PyVal → Bytes
    | .func _ b _ _ _ => funcBytes b
    | _ => []

/-- one entry of `inp_dict` against its partner: same name, same digest, and — for values of the grammar `G₀` — same
    type and content -/
def EntryRel (H : Bytes → Bytes) (a b : Bytes × PyVal) : Prop :=
  a.1 = b.1 ∧ hashAlone H a.2 = hashAlone H b.2 ∧ (inG0 a.2 = true → inG0 b.2 = true → Equiv a.2 b.2)

/-- the hashed part of two tasks agrees: task type, and the entries of `inp_dict` (field values and `Outputs`) up to the
    order of the fields -/
def HashedEquiv (H : Bytes → Bytes) (t t' : TaskDef) : Prop :=
  t.ttype = t'.ttype ∧ ∃ l', t'.inpDict.Perm l' ∧ Rel2 (EntryRel H) t.inpDict l'

/-- the two tasks would run the same computation -/
def TaskEquiv (H : Bytes → Bytes) (t t' : TaskDef) : Prop :=
  HashedEquiv H t t' ∧ SameClosures t t' ∧ SameGlobals t t' ∧ SameFieldMeta t t'

def C06_full_statement : Prop :=
  ∀ (H : Bytes → Bytes) (t t' : TaskDef) (c : Bytes), HOK H →
    taskChecksum H t = .ok c → taskChecksum H t' = .ok c → TaskEquiv H t t' ∨ ∃ S, Collision H S

/-- every byte string fed to `H` while `_compute_hashes` runs -/
def taskInputs (H : Bytes → Bytes) (t : TaskDef) : List Bytes :=
  t.inpDict.flatMap (fun kv => inputsOf H kv.2) ++
  (match fieldAlone H t.inpDict with
   | .ok fh => (match pySorted pairLt fh with
     | .ok s => inputsOf H (hashesValue s)
     | .error _ => [])
   | .error _ => [])

/-! ### helper lemmas -/

theorem pre_node_or_ref : ∀ (v : PyVal) (p : Pre), pre v = .ok p → (∃ i ps, p = .node i ps) ∨ (∃ i, p = .ref i)
  | .sc s, p, h => by simp only [pre, Except.ok.injEq] at h; exact .inl ⟨_, _, h.symm⟩
  | .path c f, p, h => by simp only [pre, Except.ok.injEq] at h; exact .inl ⟨_, _, h.symm⟩
  | .ndarray c d s x, p, h => by simp only [pre, Except.ok.injEq] at h; exact .inl ⟨_, _, h.symm⟩
  | .ty t, p, h => by simp only [pre, Except.ok.injEq] at h; exact .inl ⟨_, _, h.symm⟩
  | .seq i k xs, p, h => by obtain ⟨ps, _, rfl⟩ := pre_seq_inv h; exact .inl ⟨_, _, rfl⟩
  | .set i f xs, p, h => by obtain ⟨ps, _, rfl⟩ := pre_set_inv h; exact .inl ⟨_, _, rfl⟩
  | .dict i xs, p, h => by obtain ⟨ps, _, rfl⟩ := pre_dict_inv h; exact .inl ⟨_, _, rfl⟩
  | .obj i c xs, p, h => by obtain ⟨ps, _, rfl⟩ := pre_obj_inv h; exact .inl ⟨_, _, rfl⟩
  | .func i b code c g, p, h => by obtain ⟨cs, _, rfl⟩ := pre_func_inv h; exact .inl ⟨_, _, rfl⟩
  | .ref i, p, h => by simp only [pre, Except.ok.injEq] at h; exact .inr ⟨i, h.symm⟩
  | .tyFields i fs os, p, h => by
    simp only [pre] at h
    cases h1 : preList fs with
    | error e => rw [h1] at h; cases h
    | ok a =>
      rw [h1] at h
      simp only [except_bind_ok] at h
      cases h2 : preList os with
      | error e => rw [h2] at h; cases h
      | ok b =>
        rw [h2] at h
        simp only [except_bind_ok] at h
        match b, h with
        | [], h => simp only [except_pure, except_bind_ok, Except.ok.injEq] at h; exact .inl ⟨_, _, h.symm⟩
        | [.node _ parts], h => simp only [except_pure, except_bind_ok, Except.ok.injEq] at h; exact .inl ⟨_, _, h.symm⟩
        | [.lit _], h => simp at h
        | [.ref _], h => simp at h
        | _ :: _ :: _, h => simp at h
  | .task i t fs priv, p, h => by
    simp only [pre] at h
    cases h1 : preItems fs with
    | error e => rw [h1] at h; cases h
    | ok a =>
      rw [h1] at h
      simp only [except_bind_ok] at h
      cases h2 : preList priv with
      | error e => rw [h2] at h; cases h
      | ok b =>
        rw [h2] at h
        simp only [except_bind_ok] at h
        split at h
        · cases h
        · cases h3 : taskFieldParts a with
          | error e => rw [h3] at h; cases h
          | ok c =>
            rw [h3] at h
            simp only [except_bind_ok, except_pure, Except.ok.injEq] at h
            exact .inl ⟨_, _, h.symm⟩

theorem hashAlone_bytes (H : Bytes → Bytes) (hok : HOK H) {v : PyVal} {d : Bytes} (h : hashAlone H v = .ok d) :
    ∀ b ∈ d, b < 256 := by
  unfold hashAlone at h
  cases hp : pre v with
  | error e => rw [hp] at h; cases h
  | ok p =>
    rw [hp] at h
    simp only [Except.map, Except.ok.injEq] at h
    subst h
    rcases pre_node_or_ref v p hp with ⟨i, ps, rfl⟩ | ⟨i, rfl⟩
    · simp only [evalPure]; exact hok.2 _
    · simp only [evalPure]; decide

theorem Rel2.or_elim {α β : Type} {P : α → β → Prop} {C : Prop} : ∀ {xs : List α} {ys : List β},
    Rel2 (fun a b => P a b ∨ C) xs ys → Rel2 P xs ys ∨ C
  | [], [], _ => .inl (by simp [Rel2])
  | [], _ :: _, h => by simp [Rel2] at h
  | _ :: _, [], h => by simp [Rel2] at h
  | a :: as, b :: bs, h => by
    simp only [Rel2] at h
    rcases h.1 with h1 | hc
    · rcases Rel2.or_elim h.2 with h2 | hc
      · exact .inl (by simp only [Rel2]; exact ⟨h1, h2⟩)
      · exact .inr hc
    · exact .inr hc

/-- REGENERATED TIE: the checksum is `<task type>-<hash>` -/
theorem checksum_sep_ok : HashLits.checksumSep = [45] := by decide

theorem taskChecksum_inv (H : Bytes → Bytes) (W : Nat → Option Pre) {t : TaskDef} {c : Bytes}
    (hu : ∀ kv ∈ t.inpDict, ∃ p, pre kv.2 = .ok p ∧ UniqueIds W p) (h : taskChecksum H t = .ok c) :
    ∃ fh s d, fieldAlone H t.inpDict = .ok fh ∧ pySorted pairLt fh = .ok s ∧ hashAlone H (hashesValue s) = .ok d
      ∧ c = t.ttype ++ HashLits.checksumSep ++ hex d := by
  have e0 : Sound H W [] [] := by intro i d h; simp [Memo.find] at h
  have e1 := fieldHashes_pure H W t.inpDict [] e0 hu
  simp only [taskChecksum, computeHashes, e1] at h
  cases hf : fieldAlone H t.inpDict with
  | error e => rw [hf] at h; cases h
  | ok fh =>
    rw [hf] at h
    simp only [except_bind_ok] at h
    cases hs : pySorted pairLt fh with
    | error e => rw [hs] at h; cases h
    | ok s =>
      rw [hs] at h
      simp only [except_bind_ok, hashFunction_hashesValue] at h
      cases hd : hashAlone H (hashesValue s) with
      | error e => rw [hd] at h; cases h
      | ok d =>
        rw [hd] at h
        simp only [except_bind_ok, except_pure, Except.ok.injEq] at h
        exact ⟨fh, s, d, rfl, hs, hd, h.symm⟩

/-! ### the partial theorem -/

/-- PARTIAL, collision-extraction form: two tasks with the same checksum agree on everything `_compute_hashes` looks at —
    task type, field names, digests of the field values and of the `Outputs` class, and type and content (`≃`) of every
    field value of the grammar `G₀` — or else two different byte strings fed to `H` while computing the two checksums have
    the same digest.  Hypotheses: `H` returns 16 bytes; the task type contains no '-'; the hashed values are trees / DAGs
    (`UniqueIds`). -/
theorem C06_hashed_equiv (H : Bytes → Bytes) (hok : HOK H) (t t' : TaskDef) (c : Bytes)
    (ht : 45 ∉ t.ttype) (ht' : 45 ∉ t'.ttype) (W W' : Nat → Option Pre)
    (hu : ∀ kv ∈ t.inpDict, ∃ p, pre kv.2 = .ok p ∧ UniqueIds W p)
    (hu' : ∀ kv ∈ t'.inpDict, ∃ p, pre kv.2 = .ok p ∧ UniqueIds W' p)
    (h1 : taskChecksum H t = .ok c) (h2 : taskChecksum H t' = .ok c) :
    HashedEquiv H t t' ∨ Collision H (taskInputs H t ++ taskInputs H t') := by
  obtain ⟨fh, s, d, f1, f2, f3, rfl⟩ := taskChecksum_inv H W hu h1
  obtain ⟨fh', s', d', g1, g2, g3, gc⟩ := taskChecksum_inv H W' hu' h2
  rw [checksum_sep_ok] at gc
  simp only [List.append_assoc, List.singleton_append] at gc
  obtain ⟨ett, ehex⟩ := append_sep_inj ht ht' gc
  have ed : d = d' := hex_inj (hashAlone_bytes H hok f3) (hashAlone_bytes H hok g3) ehex
  subst ed
  -- the value hashed last discriminates the sorted (name, hexdigest) lists
  have hsub1 : ∀ x ∈ inputsOf H (hashesValue s), x ∈ taskInputs H t := by
    intro x hx; simp only [taskInputs, f1, f2, List.mem_append]; right; exact hx
  have hsub2 : ∀ x ∈ inputsOf H (hashesValue s'), x ∈ taskInputs H t' := by
    intro x hx; simp only [taskInputs, g1, g2, List.mem_append]; right; exact hx
  have hdisc := C08_discriminates H hok.1 _ _ (inG0_hashesValue s) (inG0_hashesValue s') d d f3 g3 rfl
  have hcoll : Collision H (inputsOf H (hashesValue s) ++ inputsOf H (hashesValue s')) →
      Collision H (taskInputs H t ++ taskInputs H t') := by
    intro hc
    refine Collision.mono H ?_ hc
    intro x hx
    simp only [List.mem_append] at hx ⊢
    rcases hx with hx | hx
    · left; exact hsub1 x hx
    · right; exact hsub2 x hx
  rcases hdisc with he | hc
  case inr => exact .inr (hcoll hc)
  have es : s = s' := equiv_hashesValue he
  subst es
  -- transport the permutations back to the two `inp_dict`s
  have p1 : s.Perm fh := pySorted_perm _ _ _ f2
  have p2 : s.Perm fh' := pySorted_perm _ _ _ g2
  have r1 := fieldAlone_rel H f1
  have r2 := fieldAlone_rel H g1
  obtain ⟨l', q1, q2⟩ := Rel2.perm_right (p2.symm.trans p1) r2
  -- pointwise: same name, same hexdigest
  have r3 := Rel2.comp r1 (Rel2.flip q2)
  have hmem : ∀ b ∈ l', b ∈ t'.inpDict := fun b hb => q1.symm.subset hb
  have step : Rel2 (fun a b => EntryRel H a b ∨ Collision H (taskInputs H t ++ taskInputs H t')) t.inpDict l' := by
    refine Rel2.imp ?_ r3
    intro a ha b hb ⟨x, ⟨n1, da, ha1, hx1⟩, ⟨n2, db, hb1, hx2⟩⟩
    have hname : a.1 = b.1 := by rw [← n1, ← n2]
    have hdig : da = db := hex_inj (hashAlone_bytes H hok ha1) (hashAlone_bytes H hok hb1) (by rw [← hx1, ← hx2])
    subst hdig
    by_cases ga : inG0 a.2 = true
    · by_cases gb : inG0 b.2 = true
      · rcases C08_discriminates H hok.1 a.2 b.2 ga gb da da ha1 hb1 rfl with he | hc
        · left; exact ⟨hname, by rw [ha1, hb1], fun _ _ => he⟩
        · right
          refine Collision.mono H ?_ hc
          intro y hy
          simp only [List.mem_append] at hy ⊢
          rcases hy with hy | hy
          · left; simp only [taskInputs, List.mem_append, List.mem_flatMap]; left; exact ⟨a, ha, hy⟩
          · right; simp only [taskInputs, List.mem_append, List.mem_flatMap]; left; exact ⟨b, hmem b hb, hy⟩
      · left; exact ⟨hname, by rw [ha1, hb1], fun _ h => absurd h gb⟩
    · left; exact ⟨hname, by rw [ha1, hb1], fun h _ => absurd h ga⟩
  rcases Rel2.or_elim step with hr | hc
  · left; exact ⟨ett, l', q1, hr⟩
  · right; exact hc

/-- PARTIAL (`C06_partial`): a cache hit is a fresh result — equal checksums mean equivalent tasks — as soon as the aspects
    that `_compute_hashes` does not look at are known to agree: closure cell values, globals, and the command-line metadata
    of the input fields (argstr, position, sep, formatter). -/
theorem C06_partial (H : Bytes → Bytes) (hok : HOK H) (t t' : TaskDef) (c : Bytes)
    (ht : 45 ∉ t.ttype) (ht' : 45 ∉ t'.ttype) (W W' : Nat → Option Pre)
    (hu : ∀ kv ∈ t.inpDict, ∃ p, pre kv.2 = .ok p ∧ UniqueIds W p)
    (hu' : ∀ kv ∈ t'.inpDict, ∃ p, pre kv.2 = .ok p ∧ UniqueIds W' p)
    (h1 : taskChecksum H t = .ok c) (h2 : taskChecksum H t' = .ok c)
    (hcl : SameClosures t t') (hgl : SameGlobals t t') (hmd : SameFieldMeta t t') :
    TaskEquiv H t t' ∨ Collision H (taskInputs H t ++ taskInputs H t') := by
  rcases C06_hashed_equiv H hok t t' c ht ht' W W' hu hu' h1 h2 with h | h
  · exact .inl ⟨h, hcl, hgl, hmd⟩
  · exact .inr h

/-- An abstract cache keyed by the checksum: a hit for `t'` returns the stored result of some earlier `t` with the same
    checksum; with `TaskEquiv` (and deterministic tasks: `run` respects `TaskEquiv`) that IS what running `t'` returns. -/
theorem C06_hit_is_fresh {Result : Type} (H : Bytes → Bytes) (run : TaskDef → Result)
    (hdet : ∀ t t', TaskEquiv H t t' → run t = run t') (t t' : TaskDef) (he : TaskEquiv H t t') :
    run t = run t' := hdet t t' he

/-! ### witnesses: equal checksums for EVERY digest function, yet different computations -/

def intOut : PyVal := .tyFields 7 [] []

def fnWith (cells globals : List (Scalar × PyVal)) : PyVal :=
  .func 5 (.ast [ascii "arguments(x)", ascii "Return(BinOp(Name('x'), Add(), Name('k')))"]) [] cells globals

def pyTask (fn : PyVal) : TaskDef :=
  { ttype := ascii "python",
    fields := [{ name := ascii "x", value := some (.sc (.int 1)) }, { name := ascii "function", value := some fn }],
    outputs := intOut }

/-- WITNESS (D4-closure): `make(1)` and `make(100)` — same source, other closure cell. -/
theorem C06_witness_closure (H : Bytes → Bytes) :
    taskChecksum H (pyTask (fnWith [(.str (ascii "k"), .sc (.int 1))] []))
      = taskChecksum H (pyTask (fnWith [(.str (ascii "k"), .sc (.int 100))] []))
    ∧ ¬ SameClosures (pyTask (fnWith [(.str (ascii "k"), .sc (.int 1))] []))
        (pyTask (fnWith [(.str (ascii "k"), .sc (.int 100))] [])) := by
  refine ⟨rfl, ?_⟩
  simp [SameClosures, pyTask, fnWith, unhashedEnv]

/-- WITNESS (globals): same source, other value of a module global the body reads. -/
theorem C06_witness_globals (H : Bytes → Bytes) :
    taskChecksum H (pyTask (fnWith [] [(.str (ascii "K"), .sc (.int 1))]))
      = taskChecksum H (pyTask (fnWith [] [(.str (ascii "K"), .sc (.int 100))]))
    ∧ ¬ SameGlobals (pyTask (fnWith [] [(.str (ascii "K"), .sc (.int 1))]))
        (pyTask (fnWith [] [(.str (ascii "K"), .sc (.int 100))])) := by
  refine ⟨rfl, ?_⟩
  simp [SameGlobals, pyTask, fnWith, unhashedEnv]

/-- WITNESS (D28): a workflow class whose constructor closes over `n` (`make(2)` / `make(5)`): same checksum. -/
theorem C06_witness_workflow_closure (H : Bytes → Bytes) :
    let wf (n : Int) : TaskDef :=
      { ttype := ascii "workflow",
        fields := [{ name := ascii "x", value := some (.sc (.int 1)) },
                   { name := ascii "constructor", value := some (fnWith [(.str (ascii "n"), .sc (.int n))] []) }],
        outputs := intOut }
    taskChecksum H (wf 2) = taskChecksum H (wf 5) ∧ ¬ SameClosures (wf 2) (wf 5) := by
  refine ⟨rfl, ?_⟩
  simp [SameClosures, fnWith, unhashedEnv]

def shTask (md : FieldMeta) (md2 : FieldMeta) : TaskDef :=
  { ttype := ascii "shell",
    fields := [{ name := ascii "executable", value := some (.sc (.str (ascii "echo"))) },
               { name := ascii "p", value := some (.sc (.str (ascii "1"))), md := md },
               { name := ascii "q", value := some (.sc (.str (ascii "2"))), md := md2 }],
    outputs := intOut }

/-- WITNESS (D4-argstr): `-a` vs `-b`. -/
theorem C06_witness_argstr (H : Bytes → Bytes) :
    taskChecksum H (shTask { argstr := ascii "-a" } {}) = taskChecksum H (shTask { argstr := ascii "-b" } {})
    ∧ ¬ SameFieldMeta (shTask { argstr := ascii "-a" } {}) (shTask { argstr := ascii "-b" } {}) := by
  refine ⟨rfl, ?_⟩
  simp [SameFieldMeta, shTask, ascii]

/-- WITNESS (D4-position): positions of two fields swapped. -/
theorem C06_witness_position (H : Bytes → Bytes) :
    taskChecksum H (shTask { position := some 1 } { position := some 2 })
      = taskChecksum H (shTask { position := some 2 } { position := some 1 })
    ∧ ¬ SameFieldMeta (shTask { position := some 1 } { position := some 2 })
        (shTask { position := some 2 } { position := some 1 }) := by
  refine ⟨rfl, ?_⟩
  simp [SameFieldMeta, shTask]

/-- WITNESS (D4-sep): `sep=","` vs `sep=":"`. -/
theorem C06_witness_sep (H : Bytes → Bytes) :
    taskChecksum H (shTask { sep := some (ascii ",") } {}) = taskChecksum H (shTask { sep := some (ascii ":") } {})
    ∧ ¬ SameFieldMeta (shTask { sep := some (ascii ",") } {}) (shTask { sep := some (ascii ":") } {}) := by
  refine ⟨rfl, ?_⟩
  simp [SameFieldMeta, shTask, ascii]

def fmtFn (body : Bytes) : PyVal := .func 6 (.ast [[97], body]) [] [] []

/-- WITNESS (D4-formatter): two different formatter functions. -/
theorem C06_witness_formatter (H : Bytes → Bytes) :
    taskChecksum H (shTask { formatter := some (fmtFn [120]) } {})
      = taskChecksum H (shTask { formatter := some (fmtFn [121]) } {})
    ∧ ¬ SameFieldMeta (shTask { formatter := some (fmtFn [120]) } {})
        (shTask { formatter := some (fmtFn [121]) } {}) := by
  refine ⟨rfl, ?_⟩
  simp [SameFieldMeta, shTask, SameFieldMeta.funcBytesOf, fmtFn, funcBytes]

/-! ### documentation: an object serializer that drops callable-valued attributes -/

/-- is the value something Python calls `callable` (function, class / type, functools.partial, bound method)? -/
def isCallableVal : PyVal → Bool
  | .func .. => true
  | .ty _ => true
  | .tyFields .. => true
  | .seq _ .partialFn _ => true
  | .seq _ .boundMethod _ => true
  | _ => false

/-- VARIANT of the `__dict__` branch of the generic fallback (`callable(value)` instead of `inspect.ismethod(value)` in
    `is_special_or_method`): every instance attribute whose VALUE is callable is left out.  The live model
    (`keptFields .dict`) keeps every entry that is neither a dunder name nor a bound method. -/
def keptFieldsDropCallable (raw : List (Bytes × Bool × PyVal)) : List (Scalar × PyVal) :=
  (raw.filter (fun f => keepField .dict f.1 f.2.1 && !isCallableVal f.2.2)).map (fun f => (Scalar.str f.1, f.2.2))

/-- `double` / `square`: two functions with source whose serialised bodies differ (one chunk each, abbreviated) -/
def fnDouble : PyVal := .func 5 (.ast [[100]]) [] [] []
def fnSquare : PyVal := .func 5 (.ast [[115]]) [] [] []
/-- `Transform(fn=…)`: a plain instance whose `__dict__` is `{'fn': <function>}` -/
def transformRaw (fn : PyVal) : List (Bytes × Bool × PyVal) := [([102, 110], true, fn)]
def transformLive (fn : PyVal) : PyVal := .obj 1 [109, 46, 84] (keptFields .dict (transformRaw fn))
def transformVariant (fn : PyVal) : PyVal := .obj 1 [109, 46, 84] (keptFieldsDropCallable (transformRaw fn))

/-- DOCUMENTATION WITNESS: under the variant `Transform(fn=double)` and `Transform(fn=square)` are serialised as the same
    (empty) object and hence get the same hash — and as task inputs the same checksum — for EVERY digest function, while the
    live model keeps the attribute: the two objects are different values of the grammar `G₀` (so by `C08_discriminates` their
    hashes differ unless `H` collides). -/
theorem C06_witness_callable_attr_dropped (H : Bytes → Bytes) :
    hashAlone H (transformVariant fnDouble) = hashAlone H (transformVariant fnSquare)
    ∧ ¬ Equiv (transformLive fnDouble) (transformLive fnSquare)
    ∧ inG0 (transformLive fnDouble) = true ∧ inG0 (transformLive fnSquare) = true := by
  refine ⟨rfl, ?_, by decide, by decide⟩
  have e1 : transformLive fnDouble = .obj 1 [109, 46, 84] [(.str [102, 110], fnDouble)] := rfl
  have e2 : transformLive fnSquare = .obj 1 [109, 46, 84] [(.str [102, 110], fnSquare)] := rfl
  rw [e1, e2]
  simp only [Equiv]
  rintro ⟨_, ys', hperm, he⟩
  have hys : ys' = [(.str [102, 110], fnSquare)] := List.perm_singleton.mp hperm
  subst hys
  simp only [EquivItems, Equiv, fnDouble, fnSquare, funcBytes] at he
  exact absurd he.2.1.2.1 (by decide)

/-! ### regression (D5 repaired): shape and dtype of a numpy array are part of the hash -/

/-- `zeros((2,3))`, `zeros((3,2))`, `zeros(6)` and int64 / float64 zeros are pairwise NOT `≃`, so by
    `C08_discriminates` their hashes differ unless `H` collides (they were equal before fix d36bcd68). -/
theorem C06_numpy_shape_dtype_distinguished (data : Bytes) :
    ¬ Equiv (.ndarray (ascii "numpyndarray") (ascii "float64") (ascii "(2, 3)") data)
        (.ndarray (ascii "numpyndarray") (ascii "float64") (ascii "(3, 2)") data)
    ∧ ¬ Equiv (.ndarray (ascii "numpyndarray") (ascii "float64") (ascii "(2, 3)") data)
        (.ndarray (ascii "numpyndarray") (ascii "float64") (ascii "(6,)") data)
    ∧ ¬ Equiv (.ndarray (ascii "numpyndarray") (ascii "int64") (ascii "(2,)") data)
        (.ndarray (ascii "numpyndarray") (ascii "float64") (ascii "(2,)") data)
    ∧ inG0 (.ndarray (ascii "numpyndarray") (ascii "float64") (ascii "(2, 3)") data) = true := by
  refine ⟨?_, ?_, ?_, rfl⟩ <;> simp [Equiv, ascii]

/-! ### non-vacuity -/

/-- the hypotheses of `C06_partial` are satisfiable: a python task with an int input, hashed with a toy 16-byte digest -/
def toyH : Bytes → Bytes := fun b => List.replicate 15 0 ++ [b.length % 256]

example : HOK toyH := by
  refine ⟨fun x => by simp [toyH], fun x b hb => ?_⟩
  simp only [toyH, List.mem_append, List.mem_replicate, List.mem_singleton] at hb
  rcases hb with ⟨_, rfl⟩ | rfl <;> omega

example : 45 ∉ (pyTask (fnWith [] [])).ttype := by decide
example : ∃ c, taskChecksum toyH (pyTask (fnWith [] [])) = .ok c := ⟨_, rfl⟩

end PydraModel.Hash
