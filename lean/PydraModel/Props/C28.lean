import PydraModel.Batch.LemmasTable
import PydraModel.Batch.LemmasOpts
import PydraModel.Gen.EnvRegexes
/-
C28 — Batch-scheduler workers follow the scheduler's verdict.

Property theorems only (model `Batch/Model.lean`, reference `Batch/Spec.lean`, lemmas `Batch/Lemmas*.lean`).
The model is the working tree (after repair D18: a user `-e` or `--error` option is honoured).
-/
namespace PydraModel.Batch
open PydraModel.Gen
open PydraModel.Envs.Lmod (isPySpace)

/-! ### the regenerated tie -/

/-- the regexes of `SlurmWorker` are the ones the matchers `findOpt`, `firstDigits`, `sacctSearch` were written for -/
theorem C28_regex_pinned :
    EnvRegexes.slurmJobNameRe = "(?<=-J )\\S+|(?<=--job-name=)\\S+"
    ∧ EnvRegexes.slurmOutputRe = "(?<=-o )\\S+|(?<=--output=)\\S+"
    ∧ EnvRegexes.slurmErrorRe = "(?<=-e )\\S+|(?<=--error=)\\S+"
    ∧ EnvRegexes.slurmJobIdRe = "\\d+"
    ∧ EnvRegexes.slurmSacctRe = "(?P<jobid>\\d*) +(?P<status>\\w*)\\+? +(?P<exit_code>\\d+):\\d+" :=
  ⟨rfl, rfl, rfl, rfl, rfl⟩

/-- state lists, the success test, the poll test, the `--no-requeue` literal, the command tuples and the error-line
    handling are the ones `verify`, `step`, `failureOf` mirror -/
theorem C28_logic_pinned :
    EnvRegexes.slurmRequeueStatesRun.map String.toList = requeueStates
    ∧ EnvRegexes.slurmRequeueStatesVerify.map String.toList = requeueStates
    ∧ EnvRegexes.slurmPollingStatesVerify.map String.toList = pollingStates
    ∧ EnvRegexes.slurmNoRequeueFlag = "--no-requeue"
    ∧ EnvRegexes.slurmSuccessTest = "int(m.group('exit_code')) != 0 or m.group('status') != 'COMPLETED'"
    ∧ EnvRegexes.slurmPollTest = "not stdout or 'slurm_load_jobs error' in stderr"
    ∧ EnvRegexes.slurmSqueueCmd = ["squeue", "-h", "-j", "<jobid>"]
    ∧ EnvRegexes.slurmSacctCmd = ["sacct", "-n", "-X", "-j", "<jobid>", "-o", "JobID,State,ExitCode"]
    ∧ EnvRegexes.slurmScontrolCmd = ["scontrol", "requeue", "<jobid>"]
    ∧ EnvRegexes.slurmErrorLine = ["Path(error_file).read_text().split('\\n')[-2]"]
    ∧ EnvRegexes.slurmErrorMessages =
        ["error_line.replace('Exception: ', '')", "error_line.replace('Exception: ', '')", "'Job failed (unknown reason - TODO)'"] :=
  ⟨by decide, by decide, by decide, rfl, rfl, rfl, rfl, rfl, rfl, rfl, rfl⟩

/-! ### the verdict table -/

def digitsOnly (j : Str) : Prop := j ≠ [] ∧ ∀ c ∈ j, isDigit c = true

instance (j : Str) : Decidable (digitsOnly j) := by unfold digitsOnly; exact inferInstance

theorem polling_after_submit (a : Args) (w : World) (j : Str) (hj : digitsOnly j) :
    Polling (step a w (init a) (rSubmit j)) j ∧ (step a w (init a) (rSubmit j)).requeues = 0 := by
  have h := classifySbatch_submit j hj.1 hj.2
  have e : step a w (init a) (rSubmit j) =
      { init a with phase := .squeue, jobid := j, errPath := replace "%j".toList j (sbatchArgs a.user a.defaults).2,
                    calls := (init a).calls ++ [squeueCmd j] } := by
    simp [step, init, h]
  rw [e]
  exact ⟨⟨rfl, rfl⟩, rfl⟩

/-- THE TABLE, for scheduler histories of ANY length, any padding of the accounting lines, any user argument string
    without `--no-requeue`: the worker returns exactly when the scheduler reports COMPLETED with exit code 0, raises
    for every other final state and for missing accounting, issues `scontrol requeue` and keeps polling after
    CANCELLED / TIMEOUT / PREEMPTED (the number of requeues is the number of such reports), keeps polling while the job
    is listed or accounted RUNNING / PENDING, and is still polling when the history ends first. -/
theorem C28_slurm_table (a : Args) (w : World) (hnr : noRequeue a = false) (j : Str) (hj : digitsOnly j)
    (polls : List Poll) (hwf : ∀ p ∈ polls, p.WF) :
    specOf (slurmRun a w (rSubmit j :: renderPolls polls)).verdict = (specPolls polls).1
    ∧ (slurmRun a w (rSubmit j :: renderPolls polls)).requeues = (specPolls polls).2 := by
  unfold slurmRun
  rw [runFrom_cons]
  obtain ⟨hp, hr0⟩ := polling_after_submit a w j hj
  have := table_from a w hnr j polls hwf _ hp
  rw [hr0] at this
  simpa [outcomeOf] using this

/-- non-vacuity: a history pending → cancelled (requeued) → running in accounting → COMPLETED -/
example :
    let l1 : AcctLine := ⟨"42".toList, 9, "CANCELLED".toList, true, 5, "0".toList, "0".toList, " \n".toList⟩
    let l2 : AcctLine := ⟨"42".toList, 0, "RUNNING".toList, false, 0, "0".toList, "0".toList, "\n".toList⟩
    let l3 : AcctLine := ⟨"42".toList, 3, "COMPLETED".toList, false, 2, "0".toList, "0".toList, "\n".toList⟩
    let polls := [Poll.queued " 42 debug main u PD 0:00 1 (None)\n".toList [], .ended l1, .ended l2, .ended l3]
    (∀ p ∈ polls, p.WF) ∧ digitsOnly "42".toList ∧ specPolls polls = (.complete, 1) := by
  refine ⟨?_, by decide, by decide⟩
  intro p hp
  simp at hp
  rcases hp with rfl | rfl | rfl | rfl
  · exact ⟨by decide, by decide⟩
  all_goals (unfold Poll.WF AcctLine.WF; decide)

/-- `sbatch` failing (non-zero exit status) or printing no job id is reported as a failure at once, whatever follows -/
theorem C28_submit_failed (a : Args) (w : World) (r : Response) (rs : List Response)
    (h : r.rc ≠ 0 ∨ firstDigits r.out = none) :
    ∃ m, (slurmRun a w (r :: rs)).verdict = .raised "RuntimeError" m
      ∧ (slurmRun a w (r :: rs)).calls = ["sbatch".toList :: (sbatchArgs a.user a.defaults).1] := by
  unfold slurmRun
  rw [runFrom_cons]
  by_cases hrc : r.rc = 0
  · have hnone : firstDigits r.out = none := by
      rcases h with h | h
      · exact absurd hrc h
      · exact h
    have hst : (step a w (init a) r).phase = .fin (.raised "RuntimeError" "Could not extract job ID".toList) := by
      simp [step, init, classifySbatch, hrc, hnone]
    rw [runFrom_fin a w _ _ hst]
    refine ⟨"Could not extract job ID".toList, by simp [outcomeOf, verdictOf, hst], ?_⟩
    simp [outcomeOf, step, init, classifySbatch, hrc, hnone]
  · have hst : (step a w (init a) r).phase
        = .fin (.raised "RuntimeError" ("Error returned from sbatch: ".toList ++ r.err)) := by
      simp [step, init, classifySbatch, hrc]
    rw [runFrom_fin a w _ _ hst]
    refine ⟨"Error returned from sbatch: ".toList ++ r.err, by simp [outcomeOf, verdictOf, hst], ?_⟩
    simp [outcomeOf, step, init, classifySbatch, hrc]

/-- any well-formed accounting line is read as (state, exit code): any job id, any padding, `+` mark or not -/
theorem C28_sacct_parse (l : AcctLine) (h : l.WF) : sacctSearch l.render = some (l.state, l.code) :=
  sacctSearch_of_at _ _ (sacctAt_render l h)

/-- the job is submitted once: whatever the scheduler answers (streams of any length), the worker issues exactly one
    `sbatch` — cancellation, timeout and preemption lead to `scontrol requeue`, never to a second submission -/
theorem C28_single_submission (a : Args) (w : World) (rs : List Response) :
    ((slurmRun a w rs).calls.filter isSbatch).length = 1 := by
  unfold slurmRun
  simpa [outcomeOf] using single_submission_from a w rs (init a) (by simp [init, isSbatch])

/-! ### what the submission reports -/

/-- FULL for a plain task: the submission is reported complete exactly when the scheduler reports successful
    completion AND the result exists; failed on failure and when the result is missing -/
theorem C28_final_plain (a : Args) (w : World) (hnr : noRequeue a = false) (j : Str) (hj : digitsOnly j)
    (polls : List Poll) (hwf : ∀ p ∈ polls, p.WF) (resultExists : Bool) :
    submitPlain (slurmRun a w (rSubmit j :: renderPolls polls)).verdict resultExists
      = specFinal (specPolls polls).1 resultExists := by
  have h := (C28_slurm_table a w hnr j hj polls hwf).1
  generalize (slurmRun a w (rSubmit j :: renderPolls polls)).verdict = v at h
  rw [← h]
  cases v <;> rfl

/-- the full statement for a job that is a node of a workflow — NOT provable on this tree (D24) -/
def C28_final_node_full_statement : Prop :=
  ∀ (a : Args) (w : World) (j : Str) (polls : List Poll) (resultExists : Bool),
    noRequeue a = false → digitsOnly j → (∀ p ∈ polls, p.WF) →
    submitNode (slurmRun a w (rSubmit j :: renderPolls polls)).verdict resultExists
      = specFinal (specPolls polls).1 resultExists

/-- PARTIAL for a workflow node: holds unless the scheduler reports successful completion while the result is missing -/
theorem C28_final_node_partial (a : Args) (w : World) (hnr : noRequeue a = false) (j : Str) (hj : digitsOnly j)
    (polls : List Poll) (hwf : ∀ p ∈ polls, p.WF) (resultExists : Bool)
    (hD24 : ¬ ((specPolls polls).1 = .complete ∧ resultExists = false)) :
    submitNode (slurmRun a w (rSubmit j :: renderPolls polls)).verdict resultExists
      = specFinal (specPolls polls).1 resultExists := by
  have h := (C28_slurm_table a w hnr j hj polls hwf).1
  generalize (slurmRun a w (rSubmit j :: renderPolls polls)).verdict = v at h
  rw [← h] at hD24 ⊢
  cases v with
  | done =>
    cases resultExists
    · exact absurd ⟨rfl, rfl⟩ hD24
    · rfl
  | raised c m => rfl
  | stillPolling => rfl

/-- non-vacuity of the hypothesis: a completed job whose result exists -/
example : ¬ ((SpecVerdict.complete = .complete) ∧ true = false) := by decide

def acctOK : AcctLine := ⟨"42".toList, 3, "COMPLETED".toList, false, 2, "0".toList, "0".toList, "\n".toList⟩
def acctCancelled : AcctLine := ⟨"42".toList, 1, "CANCELLED".toList, true, 1, "0".toList, "0".toList, "\n".toList⟩
def plainArgs (user : String) : Args :=
  ⟨user.toList, ⟨"main.uid".toList, "/c/slurm-%j.out".toList, "/c/slurm-%j.err".toList, "/c/batchscript.sh".toList⟩⟩

/-- WITNESS (D24): COMPLETED 0:0 without a result file — the worker returns, the reference says "failed (no result)",
    a workflow submission hangs -/
theorem C28_witness_lost :
    (slurmRun (plainArgs "") ⟨[]⟩ (rSubmit "42".toList :: renderPolls [.ended acctOK])).verdict = .done
    ∧ specFinal (specPolls [.ended acctOK]).1 false = .failed
    ∧ submitNode (slurmRun (plainArgs "") ⟨[]⟩ (rSubmit "42".toList :: renderPolls [.ended acctOK])).verdict false = .hang
    ∧ ¬ C28_final_node_full_statement := by
  have h1 : (slurmRun (plainArgs "") ⟨[]⟩ (rSubmit "42".toList :: renderPolls [.ended acctOK])).verdict = .done := by decide
  refine ⟨h1, by decide, by rw [h1]; rfl, ?_⟩
  intro hfull
  have := hfull (plainArgs "") ⟨[]⟩ "42".toList [.ended acctOK] false (by decide) (by decide)
    (by intro p hp; simp at hp; subst hp; unfold Poll.WF AcctLine.WF acctOK; decide)
  rw [h1] at this
  revert this
  decide

/-- WITNESS (`--no-requeue`, same root as D24): a CANCELLED job is reported complete by the worker (the truthy state
    string is returned as `True`); without the flag the same history is requeued and polling goes on -/
theorem C28_witness_norequeue :
    (slurmRun (plainArgs "--no-requeue") ⟨[]⟩ [rSubmit "42".toList, rGone, ⟨0, acctCancelled.render, []⟩]).verdict = .done
    ∧ (specPolls [.ended acctCancelled]).1 = .stillPolling
    ∧ (slurmRun (plainArgs "") ⟨[]⟩ [rSubmit "42".toList, rGone, ⟨0, acctCancelled.render, []⟩]).verdict = .stillPolling := by
  decide

/-- WITNESS: accounting output that `_sacct_re` does not match makes the worker raise AttributeError
    (`None.group`); no accounting at all is a clean "Job information not found" -/
theorem C28_witness_sacct :
    (slurmRun (plainArgs "") ⟨[]⟩ [rSubmit "42".toList, rGone, ⟨0, "42 COMPLETED\n".toList, []⟩]).verdict
      = .raised "AttributeError" []
    ∧ (slurmRun (plainArgs "") ⟨[]⟩ [rSubmit "42".toList, rGone, ⟨0, [], []⟩]).verdict
      = .raised "RuntimeError" "Job information not found".toList := by
  decide

/-! ### user options -/

/-- the user's tokens come first and verbatim; a default job name / output / error option is appended exactly when the
    user's string holds none (so never a duplicate); the batch script is last; the error file read on failure is the
    user's when one is given -/
theorem C28_sbatch_args (user : Str) (d : Defaults) :
    (sbatchArgs user d).1 =
      pySplit user
        ++ (if (findJobName user).isSome then [] else ["--job-name=".toList ++ d.jobName])
        ++ (if (findOutput user).isSome then [] else ["--output=".toList ++ d.outFile])
        ++ (if (findError user).isSome then [] else ["--error=".toList ++ d.errFile])
        ++ [d.script]
    ∧ (sbatchArgs user d).2 = (findError user).getD d.errFile := by
  unfold sbatchArgs
  cases hJ : findJobName user <;> cases hO : findOutput user <;> cases hE : findError user <;> simp

/-- an option written as `-X value` or `--long=value` anywhere in the string, whatever surrounds it, is detected -/
theorem C28_option_detected (sh lg mark : Str) (hm : mark = sh ∨ mark = lg) (pre : Str) (v0 : Char) (vs rest : Str)
    (hv0 : isPySpace v0 = false) : (findOpt sh lg (pre ++ mark ++ (v0 :: vs ++ rest))).isSome = true :=
  findOpt_isSome sh lg mark hm pre v0 vs rest hv0

/-- FULL after repair D18: the first `-e value` / `--error=value` is taken with its whole value as the job's error file -/
theorem C28_error_honoured (mark : Str) (hm : mark = "-e ".toList ∨ mark = "--error=".toList) (pre v rest : Str)
    (d : Defaults) (hne : v ≠ []) (hv : ∀ c ∈ v, isPySpace c = false)
    (hr : rest = [] ∨ ∃ y ys, rest = y :: ys ∧ isPySpace y = true)
    (hfirst : scanOpt "-e ".toList "--error=".toList [] (pre ++ mark) = none) :
    (sbatchArgs (pre ++ mark ++ (v ++ rest)) d).2 = v
    ∧ ("--error=".toList ++ d.errFile) ∉ (sbatchArgs (pre ++ mark ++ (v ++ rest)) d).1.dropLast
        ∨ ("--error=".toList ++ d.errFile) ∈ pySplit (pre ++ mark ++ (v ++ rest)) := by
  have hf : findError (pre ++ mark ++ (v ++ rest)) = some v :=
    findOpt_value _ _ mark hm pre v rest hne hv hr hfirst
  obtain ⟨h1, h2⟩ := C28_sbatch_args (pre ++ mark ++ (v ++ rest)) d
  by_cases hmem : ("--error=".toList ++ d.errFile) ∈ pySplit (pre ++ mark ++ (v ++ rest))
  · exact Or.inr hmem
  · left
    refine ⟨by rw [h2, hf]; rfl, ?_⟩
    rw [h1, hf]
    simp only [Option.isSome_some, if_true, List.append_nil]
    rw [List.dropLast_concat]
    intro hin
    simp only [List.mem_append] at hin
    rcases hin with (hin | hin) | hin
    · exact hmem hin
    · split at hin
      · cases hin
      · simp at hin
    · split at hin
      · cases hin
      · simp at hin

/-- non-vacuity / worked example: all three options given by the user in mixed spellings — nothing is appended -/
example :
    (sbatchArgs "-J myname --output=/o/%j.out -e /e/%j.err --mem=4G".toList
        ⟨"main.uid".toList, "/c/slurm-%j.out".toList, "/c/slurm-%j.err".toList, "/c/b.sh".toList⟩)
      = (["-J".toList, "myname".toList, "--output=/o/%j.out".toList, "-e".toList, "/e/%j.err".toList, "--mem=4G".toList,
          "/c/b.sh".toList], "/e/%j.err".toList) := by decide

/-- D18 (repaired) regression: with a user error option the failure message is read from the user's file, `%j` replaced -/
theorem C28_witness_user_error :
    (slurmRun (plainArgs "--error=/e/%j.err") ⟨[("/e/42.err".toList, "Traceback\nValueError: boom\n".toList)]⟩
        [rSubmit "42".toList, rGone, ⟨0, "42 FAILED 1:0\n".toList, []⟩]).verdict
      = .raised "Exception" "ValueError: boom".toList := by decide

/-! ### `load_and_run` -/

/-- the `Result(...)` calls of both error paths use only fields of `Result` and give every field without default
    (regenerated from job.py / result.py); the handlers have the modelled shape -/
theorem C28_load_and_run_pinned :
    EnvRegexes.loadAndRunResultKwargs.map (ctorOK EnvRegexes.resultFields EnvRegexes.resultMandatoryFields) = [true, true]
    ∧ EnvRegexes.loadAndRunHandlers =
      [["if job_pkl.parent.exists():", "raise"],
       ["errorfile = job.cache_dir / '_error.pklz'", "if not errorfile.exists():", "if not resultfile.exists():",
        "e.add_note(f' full crash report is here: {errorfile}')", "raise"]] := ⟨by decide, rfl⟩

/-- FULL (after repairs D72 and D72s), every situation of the batch script and either way of passing the pickle's
    location (str or Path): an unloadable job pickle leaves an errored result and an error file next to it and re-raises
    the loader's exception; a job that raises without having saved a result gets an errored result (and an error file if
    it has none); a result saved by the job itself is kept; in every failing case the original exception is the one
    re-raised; a successful run writes nothing extra. -/
theorem C28_load_and_run (argIsPath : Bool) (i : LRIn)
    (hp : i.pklIsPath = handlerSeesPath EnvRegexes.loadAndRunConvertsPath argIsPath) :
    let o := loadAndRun true true i
    (i.pickleLoads = false → o.exc = .original ∧ o.erroredResultWritten = i.parentExists ∧ o.errorFileWritten = i.parentExists)
    ∧ (i.pickleLoads = true → i.runRaises = true →
        o.exc = .original ∧ o.erroredResultWritten = !i.resultByRun ∧ o.resultKept = i.resultByRun
        ∧ o.errorFileWritten = !i.errorByRun)
    ∧ (i.pickleLoads = true → i.runRaises = false → o = ⟨.none, false, false, true⟩) := by
  have hc : handlerSeesPath EnvRegexes.loadAndRunConvertsPath argIsPath = true := by
    cases argIsPath <;> rfl
  rw [hc] at hp
  obtain ⟨p, a, b, c, d, e⟩ := i
  simp only at hp
  subst hp
  cases a <;> cases b <;> cases c <;> cases d <;> cases e <;> decide

/-- WITNESS (D72s, repaired): before `job_pkl = Path(job_pkl)` the batch scripts' str argument reached the
    unloadable-pickle handler, where `job_pkl.parent` raised AttributeError: the loader's exception was masked, no
    errored result and no error file were written -/
theorem C28_witness_D72s :
    handlerSeesPath false false = false
    ∧ loadAndRun true true ⟨false, false, true, false, false, false⟩ = ⟨.attributeError, false, false, false⟩
    ∧ handlerSeesPath EnvRegexes.loadAndRunConvertsPath false = true
    ∧ loadAndRun true true ⟨true, false, true, false, false, false⟩ = ⟨.original, true, true, false⟩ := by decide

/-- what the source says now: `load_and_run` converts its argument to a Path before the handler uses `job_pkl.parent`;
    the SLURM batch script passes a quoted string -/
theorem C28_batch_script_path_pinned :
    EnvRegexes.loadAndRunUsesParent = true ∧ EnvRegexes.loadAndRunConvertsPath = true
    ∧ EnvRegexes.slurmPassesQuotedPath = true := ⟨rfl, rfl, rfl⟩

/-- after a failing batch script a result file exists whenever the job directory does: errored, or the job's own -/
theorem C28_load_and_run_leaves_result (i : LRIn) (hf : i.pickleLoads = false ∨ i.runRaises = true)
    (hp : i.parentExists = true) (hpath : i.pklIsPath = true) :
    (loadAndRun true true i).erroredResultWritten = true ∨ (loadAndRun true true i).resultKept = true := by
  obtain ⟨p, a, b, c, d, e⟩ := i
  cases p <;> cases a <;> cases b <;> cases c <;> cases d <;> cases e <;> simp_all [loadAndRun]

/-- WITNESS (D72, repaired): with `Result(output=None, runtime=None, errored=True, task=None)` — unknown field
    `output`, mandatory `cache_dir` missing — the handler itself raised TypeError, the original exception was masked
    and no errored result was written, in both error paths -/
theorem C28_witness_D72 :
    ctorOK EnvRegexes.resultFields EnvRegexes.resultMandatoryFields ["output", "runtime", "errored", "task"] = false
    ∧ loadAndRun false false ⟨true, false, true, false, false, false⟩ = ⟨.typeError, false, true, false⟩
    ∧ loadAndRun false false ⟨true, true, true, true, false, false⟩ = ⟨.typeError, false, true, false⟩
    ∧ loadAndRun true true ⟨true, false, true, false, false, false⟩ = ⟨.original, true, true, false⟩
    ∧ loadAndRun true true ⟨true, true, true, true, false, false⟩ = ⟨.original, true, true, false⟩ := by decide

/-! ### SGE -/

/-- the facts about the source the SGE model rests on: `threads_used` is created by `dict`, and `run` executes
    `self.threads_used += <int>` before the first `qsub`; `load_job` has no `ind` parameter although `run` passes one -/
theorem C28_sge_source_pinned :
    EnvRegexes.sgeThreadsUsedFactory = "dict"
    ∧ EnvRegexes.sgeAugAssign = "self.threads_used += threads_requested * len(tasks_to_run)"
    ∧ EnvRegexes.sgeAugAddBeforeSubmit = true
    ∧ EnvRegexes.loadJobParams = ["job_pkl"] ∧ EnvRegexes.loadJobHasVarKw = false
    ∧ EnvRegexes.sgeLoadJobKwargsUsed = ["ind", "job_pkl"] := ⟨rfl, rfl, rfl, rfl, rfl, rfl⟩

/-- WITNESS (D18sge): every SGE submission raises TypeError before any scheduler command is issued, whatever the
    scheduler would answer -/
theorem C28_sge_crash (tasks : Nat) (ht : tasks ≠ 0) (rs : List Response) :
    (sgeRun .dict EnvRegexes.sgeAugAddBeforeSubmit tasks rs).verdict = .raised "TypeError" []
    ∧ (sgeRun .dict EnvRegexes.sgeAugAddBeforeSubmit tasks rs).calls = [] := by
  simp [sgeRun, ht, EnvRegexes.sgeAugAddBeforeSubmit, augAddInt]

end PydraModel.Batch
