import PydraModel.Props.C01
/-
C04 — Splitting nested containers visits every inner element.

Model: `elements v n` = `range(prod(input_shape(v, n)))` indexing into `flatten(v, max_depth=n)` (what `_processing_terms`
/ `_single_op_splits` and `map_splits` do together); reference: `leavesAt n v`, the elements at depth `n`, depth first.
The element extraction (`flatten`) is right for every value; the defect D3 is that `input_shape` falls back to
`(len(v),)` as soon as the nesting is ragged, so the index range is too short (elements dropped) or too long (IndexError).
-/
namespace PydraModel.StateAlg
open Spec

/-- The property as stated ("regular and ragged nestings alike") — NOT provable for the pinned tree, see the witnesses. -/
def C04_full_statement : Prop :=
  ∀ (v : List Nested) (n : Nat), 1 ≤ n → elements v n = .ok (leavesAt n v)

/-- FULL for the extraction itself: `flatten` yields exactly the depth-`n` elements, depth first, for EVERY nested value
    (regular or ragged, any depth and width): nothing dropped, nothing duplicated. -/
theorem C04_flatten_full (v : List Nested) (n : Nat) : flatten n v = leavesAt n v :=
  flatten_eq_leavesAt n v

/-- PARTIAL (decidable hypothesis `dims? n v ≠ none`: rectangular down to depth `n`, any depth / width): the jobs of a
    field split alone see exactly the depth-`n` elements in depth-first order.
    Missing for the full statement: ragged values (`input_shape` falls back to the outer length). -/
theorem C04_partial (v : List Nested) (n : Nat) (h : (dims? n v).isSome = true) :
    elements v n = .ok (leavesAt n v) := by
  cases hd : dims? n v with
  | none => simp [hd] at h
  | some d => exact elements_rect v n d hd

/-- What the model does for EVERY value: it visits the first `prod (input_shape)` elements, or fails with IndexError when
    the computed shape promises more elements than there are.  Hence: the property holds for `v` iff
    `prod (inputShape n v) = (leavesAt n v).length` (that is the match rule of D3, negated). -/
theorem C04_model_char (v : List Nested) (n : Nat) :
    elements v n =
      if prod (inputShape n v) ≤ (leavesAt n v).length then .ok ((leavesAt n v).take (prod (inputShape n v)))
      else .error .index :=
  elements_char v n

theorem C04_holds_iff (v : List Nested) (n : Nat) :
    elements v n = .ok (leavesAt n v) ↔ prod (inputShape n v) = (leavesAt n v).length := by
  rw [C04_model_char]
  constructor
  · intro h
    split at h
    · rename_i hle
      simp only [Except.ok.injEq] at h
      have := congrArg List.length h
      simp only [List.length_take] at this
      omega
    · simp at h
  · intro h
    simp [h]

/-- A field split alone through the whole pipeline (`prepare_states`) runs over `elements`. -/
theorem C04_alone (venv : VEnv) (x : Name) :
    statesVal venv (.fld x) =
      match elements (venv x).1 (venv x).2 with
      | .ok es => .ok (es.map (fun e => [(x, e)]))
      | .error e => .error e := by
  have h1 : statesInd (shapeEnv venv) (.fld x) =
      .ok ((List.range (prod (shapeEnv venv x))).map (fun i => [(x, i)])) := by
    simp [statesInd, toRPN, ordering, splits, iterSplits, rawRows, List.map_map, Function.comp_def]
  unfold statesVal
  rw [h1]
  simp only []
  rw [mapSplits_single]
  rfl

/-- The same inside outer/inner splitters: for EVERY tree (any number of fields) whose nested fields are
    rectangular down to their container dimension, every job sees the matching depth-`n` element of every field. -/
theorem C04_in_splitters (venv : VEnv) (s : Spl) (hwf : WellFormed s) (hr : Rectangular venv s) :
    statesVal venv s = ofSpec (expandVal venv s) :=
  C01_refines venv s hwf hr

/-- Witness D3 (ragged): `[[1,2],[3]]` with container dimension 2 runs over 1, 2 only; 3 is dropped. -/
theorem C04_witness_ragged :
    elements [.node [.leaf 1, .leaf 2], .node [.leaf 3]] 2 = .ok [.leaf 1, .leaf 2] ∧
    leavesAt 2 [.node [.leaf 1, .leaf 2], .node [.leaf 3]] = [.leaf 1, .leaf 2, .leaf 3] ∧
    inputShape 2 [.node [.leaf 1, .leaf 2], .node [.leaf 3]] = [2] := by
  refine ⟨rfl, rfl, rfl⟩

/-- Witness D3 (empty inner list): `[[],[1]]` with container dimension 2 raises IndexError instead of running one job. -/
theorem C04_witness_empty :
    elements [.node [], .node [.leaf 1]] 2 = .error .index ∧
    leavesAt 2 [.node [], .node [.leaf 1]] = [.leaf 1] := by
  refine ⟨rfl, rfl⟩

/-- so the full statement is false for the model of the pinned tree -/
theorem C04_full_statement_fails : ¬ C04_full_statement := by
  intro h
  have := h [.node [], .node [.leaf 1]] 2 (by omega)
  rw [C04_witness_empty.1] at this
  cases this

/-- Non-vacuity: a 2×2×1 value is rectangular down to depth 3, 2 and 1; an empty inner level is rectangular too. -/
example : (dims? 3 [.node [.node [.leaf 1], .node [.leaf 2]], .node [.node [.leaf 3], .node [.leaf 4]]]).isSome = true := rfl
example : dims? 2 [.node [.node [.leaf 1], .node [.leaf 2]], .node [.node [.leaf 3], .node [.leaf 4]]] = some [2, 2] := rfl
example : dims? 2 [.node [], .node []] = some [2, 0] := rfl

end PydraModel.StateAlg
