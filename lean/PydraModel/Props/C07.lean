import PydraModel.Props.C08
/-
C07 — Identical computations map to the same cache identity in every session.

What a session can change about "the same computation" is explicit in the model: the iteration order of every set,
the insertion order of every dict, the identity (`id`) of every object — PYTHONHASHSEED, the process, a pickling round
trip act only through these — and, outside the value, the cache root / worker / pid (`RunCfg`).

FULL STATEMENT: `C07_full_statement` — for ALL values.
Status on the current tree: sets and frozensets are ordered by the digests of their elements (fix 847ae56e, D6 repaired),
and the items of dicts / objects by the byte representation of their keys (fix e8ebe74c, D68 repaired): nothing is required
about comparability any more.  The decidable hypothesis `sortable` that remains is well-formedness — the keys of one dict
are pairwise different — and holds for every Python value, so the theorems below are the FULL statement for well-formed values.
`C07_regression_xor` / `C07_regression_xor_none`: the former D6 witnesses, now seed-independent / not raising;
`C07_old_xor_sorted_by_value` documents the OLD algorithm.
-/
namespace PydraModel.Hash
open PydraModel.Gen

def C07_full_statement : Prop :=
  ∀ (H : Bytes → Bytes) (v v' : PyVal), Equiv v v' → ∃ h, hashAlone H v = .ok h ∧ hashAlone H v' = .ok h

/-- `sorted` is a function of the multiset when `<` is a strict total order on the elements. -/
theorem C07_sorted_total {α : Type} (lt : α → α → Except Err Bool) (ltb : α → α → Bool) (xs ys : List α)
    (hp : xs.Perm ys) (ha : AgreeOn lt ltb xs) (ht : TotalOn ltb xs) : pySorted lt xs = pySorted lt ys :=
  (pySorted_perm_eq lt ltb xs ys hp ha ht).1

/-- The hash of a value is the same in every environment (FULL: `sortable` is well-formedness of dict keys) — any other iteration / insertion order, any other
    object identities (`v ≃ v'`) — with and without the memo (for tree / DAG values). -/
theorem C07_value_env_invariant (H : Bytes → Bytes) (v v' : PyVal) (he : Equiv v v') (hs : sortable v = true) :
    (∃ h, hashAlone H v = .ok h ∧ hashAlone H v' = .ok h)
    ∧ (∀ (W W' : Nat → Option Pre) (p p' : Pre), pre v = .ok p → pre v' = .ok p' → UniqueIds W p → UniqueIds W' p' →
        hashFunction H v = hashFunction H v') := by
  have h := C08_order_indep H v v' he hs
  refine ⟨h, ?_⟩
  intro W W' p p' hp hp' hu hu'
  obtain ⟨d, h1, h2⟩ := h
  rw [C08_hashFunction_pure H W v p hp hu, C08_hashFunction_pure H W' v' p' hp' hu', h1, h2]

/-- A pickling round trip (any function returning a re-presentation of the same content, §4 contract of cloudpickle)
    does not change the hash. -/
theorem C07_pickle_roundtrip (H : Bytes → Bytes) (roundtrip : PyVal → PyVal) (hrt : ∀ v, Equiv v (roundtrip v))
    (v : PyVal) (hs : sortable v = true) : hashAlone H (roundtrip v) = hashAlone H v := by
  obtain ⟨d, h1, h2⟩ := C08_order_indep H v (roundtrip v) (hrt v) hs
  rw [h1, h2]

/-- `Job.checksum` does not mention the cache root, the worker, the hash seed or the process. -/
theorem C07_cache_root_worker_indep (H : Bytes → Bytes) (cfg cfg' : RunCfg) (t : TaskDef) :
    jobChecksum H cfg t = jobChecksum H cfg' t := rfl

/-! ### task checksums -/

/-- `field_hashes` with every value hashed alone -/
def fieldAlone (H : Bytes → Bytes) : List (Bytes × PyVal) → Except Err (List (Bytes × Bytes))
  | [] => .ok []
  | (k, v) :: rest => do
    let h ← hashAlone H v
    let hs ← fieldAlone H rest
    pure ((k, hex h) :: hs)

theorem fieldHashes_pure (H : Bytes → Bytes) (W : Nat → Option Pre) :
    ∀ (l : List (Bytes × PyVal)) (m : Memo), Sound H W [] m → (∀ kv ∈ l, ∃ p, pre kv.2 = .ok p ∧ UniqueIds W p) →
      fieldHashes H l m = fieldAlone H l
  | [], _, _, _ => rfl
  | (k, v) :: rest, m, hs, hall => by
    obtain ⟨p, hp, hu⟩ := hall (k, v) (by simp)
    obtain ⟨m', h1, h2, h3⟩ := C08_context_free H W v p m hp hu hs
    have ih := fieldHashes_pure H W rest m' h3 (fun x hx => hall x (by simp [hx]))
    simp only [fieldHashes, fieldAlone, h1, h2, except_bind_ok, ih]

/-- two presentations of the same inputs: same names, equivalent values -/
def InputsEquiv : List (Bytes × PyVal) → List (Bytes × PyVal) → Prop
  | [], [] => True
  | (k, v) :: xs, (k', v') :: ys => k = k' ∧ Equiv v v' ∧ InputsEquiv xs ys
  | _, _ => False

def inputsSortable : List (Bytes × PyVal) → Bool
  | [] => true
  | (_, v) :: xs => sortable v && inputsSortable xs

theorem fieldAlone_equiv (H : Bytes → Bytes) : ∀ (l l' : List (Bytes × PyVal)), InputsEquiv l l' →
    inputsSortable l = true → fieldAlone H l = fieldAlone H l'
  | [], [], _, _ => rfl
  | [], _ :: _, h, _ => by simp [InputsEquiv] at h
  | _ :: _, [], h, _ => by simp [InputsEquiv] at h
  | (k, v) :: xs, (k', v') :: ys, h, hs => by
    simp only [InputsEquiv] at h
    simp only [inputsSortable, Bool.and_eq_true] at hs
    obtain ⟨rfl, hv, hr⟩ := h
    obtain ⟨d, h1, h2⟩ := C08_order_indep H v v' hv hs.1
    simp only [fieldAlone, h1, h2, fieldAlone_equiv H xs ys hr hs.2]

/-- (FULL: `sortable` is well-formedness of dict keys) Two separately constructed tasks of the same type whose hashed inputs (field values and the Outputs class)
    are presentations of the same content get the same checksum, whatever the iteration / insertion orders and
    identities in the two sessions (values: trees / DAGs with totally ordered set elements and dict keys). -/
theorem C07_checksum_env_invariant (H : Bytes → Bytes) (t t' : TaskDef) (ht : t.ttype = t'.ttype)
    (he : InputsEquiv t.inpDict t'.inpDict) (hs : inputsSortable t.inpDict = true)
    (W W' : Nat → Option Pre)
    (hu : ∀ kv ∈ t.inpDict, ∃ p, pre kv.2 = .ok p ∧ UniqueIds W p)
    (hu' : ∀ kv ∈ t'.inpDict, ∃ p, pre kv.2 = .ok p ∧ UniqueIds W' p) :
    taskChecksum H t = taskChecksum H t' := by
  have e0 : ∀ (W : Nat → Option Pre), Sound H W [] [] := by intro W i d h; simp [Memo.find] at h
  have e1 := fieldHashes_pure H W t.inpDict [] (e0 W) hu
  have e2 := fieldHashes_pure H W' t'.inpDict [] (e0 W') hu'
  have e3 := fieldAlone_equiv H _ _ he hs
  simp only [taskChecksum, computeHashes, e1, e2, e3, ht]

/-! ### witnesses (D6) -/

/-- a shell task hashed as a value (`bytes_repr_task`): one field `a = None`, `_splitter = _combiner = _container_ndim = None`
    and the given `_xor` -/
def taskWithXor (xor : PyVal) : PyVal :=
  .task 9 (ascii "shell") [(.str (ascii "a"), .sc .none)] [.sc .none, .sc .none, .sc .none, xor]

/-- what `bytes_repr_task` feeds to `H` for `taskWithXor x`, as a function of the digest `dx` of `_xor` -/
def taskInput (H : Bytes → Bytes) (dx : Bytes) : Bytes :=
  let dNone := H (reprNone ++ [])
  (HashLits.taskOpenA ++ ascii "shell" ++ HashLits.taskOpenB) ++ ((ascii "a" ++ HashLits.taskFieldEq) ++ (dNone ++
    (HashLits.taskSep ++ (HashLits.taskSplitter ++ (dNone ++ (HashLits.taskCombiner ++ (dNone ++ (HashLits.taskNdim ++
    (dNone ++ (HashLits.taskXor ++ (dx ++ (HashLits.taskClose ++ []))))))))))))

/-- REGRESSION (D6 repaired, fix 847ae56e): a task with the two xor groups `{a,b}`, `{c,d}`, seen with the two iteration
    orders of its `_xor` frozenset, is hashed to the same value for EVERY digest function — the workflow directory of a
    split task no longer depends on PYTHONHASHSEED. -/
theorem C07_regression_xor (H : Bytes → Bytes) :
    ∃ h, hashAlone H (taskWithXor d6a) = .ok h ∧ hashAlone H (taskWithXor d6b) = .ok h := by
  obtain ⟨_, _, d, h1, h2⟩ := C08_regression_set_of_sets H
  have e1 : ∃ xa, hashAlone H d6a = .ok (H xa) ∧ hashAlone H (taskWithXor d6a) = .ok (H (taskInput H (H xa))) :=
    ⟨_, rfl, rfl⟩
  have e2 : ∃ xb, hashAlone H d6b = .ok (H xb) ∧ hashAlone H (taskWithXor d6b) = .ok (H (taskInput H (H xb))) :=
    ⟨_, rfl, rfl⟩
  obtain ⟨xa, a1, a2⟩ := e1
  obtain ⟨xb, b1, b2⟩ := e2
  rw [h1] at a1; rw [h2] at b1
  simp only [Except.ok.injEq] at a1 b1
  refine ⟨_, a2, ?_⟩
  rw [b2, ← a1, ← b1]

/-- REGRESSION (D6 repaired): an xor group that contains `None` (`{a, b, None}`) is hashed without TypeError. -/
theorem C07_regression_xor_none (H : Bytes → Bytes) :
    ∃ h, hashAlone H (taskWithXor (.set 1 true [.set 2 true [.sc (.str (ascii "a")), .sc (.str (ascii "b")), .sc .none]]))
      = .ok h := ⟨_, rfl⟩

/-- DOCUMENTATION of the OLD algorithm (before fix 847ae56e): `sorted(obj)` on the xor groups themselves kept whatever
    iteration order PYTHONHASHSEED produced, and raised TypeError on a group containing `None`. -/
theorem C07_old_xor_sorted_by_value :
    sortedByValue [sA, sB] = .ok [sA, sB] ∧ sortedByValue [sB, sA] = .ok [sB, sA]
    ∧ sortedByValue [.sc (.str (ascii "a")), .sc (.str (ascii "b")), .sc .none] = .error .typeError :=
  ⟨rfl, rfl, rfl⟩

/-! ### aliasing is not content; the stale-placeholder variant of `hash_single` -/

/-- One object referenced twice (`[x, x]`) and the equal value built from two separate equal objects (`[x, x']`, `x ≃ x'`:
    other identities) get the same hash from `hash_single` WITH its per-call memo: memo transparency
    (`C08_hashFunction_pure`, trees / DAGs) on both sides, and `≃` ignores identities.  The shape of
    `T(reference=f, moving=f)` vs `T(reference=File(p), moving=File(p))`; an instance of `C07_value_env_invariant`. -/
theorem C07_aliasing_invariant (H : Bytes → Bytes) (x x' : PyVal) (hxx : Equiv x x) (hxx' : Equiv x x')
    (hs : sortable x = true) (W W' : Nat → Option Pre) (p p' : Pre)
    (hp : pre (.seq 1 .list [x, x]) = .ok p) (hp' : pre (.seq 2 .list [x, x']) = .ok p')
    (hu : UniqueIds W p) (hu' : UniqueIds W' p') :
    hashFunction H (.seq 1 .list [x, x]) = hashFunction H (.seq 2 .list [x, x']) := by
  have he : Equiv (.seq 1 .list [x, x]) (.seq 2 .list [x, x']) := by simp [Equiv, EquivList, hxx, hxx']
  have hsl : sortable (.seq 1 .list [x, x]) = true := by simp [sortable, sortableList, hs]
  exact (C07_value_env_invariant H _ _ he hsl).2 W W' p p' hp hp' hu hu'

/-- VARIANT of `hash_single` (the branch that returns early for objects with a persistent-cache key skips
    `cache[objid] = hsh`): for the ids in `keyed` the digest is returned but the memo keeps the cycle-guard placeholder. -/
def evalMemoStale (H : Bytes → Bytes) (keyed : Nat → Bool) : Nat → Pre → Memo → Bytes × Memo
  | _, .lit b, m => (b, m)
  | _, .ref i, m => ((m.find i).getD HashLits.placeholder, m)
  | _, .sorted _, m => ([], m)
  | 0, _, m => ([], m)
  | fuel + 1, .node i ps, m =>
    match (if i = 0 then none else m.find i) with
    | some d => (d, m)
    | none =>
      let m0 := if i = 0 then m else (i, HashLits.placeholder) :: m
      let r := ps.foldl (fun (acc : Bytes × Memo) p => let q := evalMemoStale H keyed fuel p acc.2; (acc.1 ++ q.1, q.2)) ([], m0)
      let d := H r.1
      (d, if i = 0 ∨ keyed i then r.2 else (i, d) :: r.2)

/-- `[f, f]`: one keyed object (id 5, e.g. a File) referenced twice -/
def staleShared : Pre := .node 1 [lit listOpen, .node 5 [lit [102]], .node 5 [lit [102]], lit HashLits.seqClose]
/-- `[File(p), File(p)]`: two separate equal objects (ids 5 and 6) -/
def staleSeparate : Pre := .node 2 [lit listOpen, .node 5 [lit [102]], .node 6 [lit [102]], lit HashLits.seqClose]

/-- DOCUMENTATION WITNESS (stale placeholder): under the variant the SECOND reference to the keyed object is answered with
    the one-byte placeholder, so `[f, f]` feeds `H` a string of another length than `[File(p), File(p)]` does — equal values,
    different hashes unless `H` collides — whereas the live `hash_single` (`evalMemo`) gives both the same hash. -/
theorem C07_witness_stale_placeholder (H : Bytes → Bytes) (hlen : ∀ x, (H x).length = 16) :
    (evalMemo H staleShared []).1 = (evalMemo H staleSeparate []).1
    ∧ (let d := H [102]
       let x := listOpen ++ (d ++ (HashLits.placeholder ++ HashLits.seqClose))
       let y := listOpen ++ (d ++ (d ++ HashLits.seqClose))
       x ≠ y ∧ (evalMemoStale H (fun i => i == 5) 3 staleShared []).1 = H x
        ∧ (evalMemoStale H (fun i => i == 5) 3 staleSeparate []).1 = H y ∧ (evalMemo H staleSeparate []).1 = H y) := by
  refine ⟨rfl, ?_, ?_, ?_, ?_⟩
  · intro h
    have h1 := List.append_cancel_left (List.append_cancel_left h)
    have := congrArg List.length h1
    simp only [List.length_append, hlen] at this
    have hp : HashLits.placeholder.length = 1 := by decide
    omega
  · simp [evalMemoStale, staleShared, lit, Memo.find, List.foldl]
  · simp [evalMemoStale, staleSeparate, lit, Memo.find, List.foldl]
  · simp [evalMemo, evalMemoList, staleSeparate, lit, Memo.find]

/-- an instance of `C07_aliasing_invariant`: `x = [1]` (id 5), `x' = [1]` (id 6) -/
example (H : Bytes → Bytes) :
    hashFunction H (.seq 1 .list [.seq 5 .list [.sc (.int 1)], .seq 5 .list [.sc (.int 1)]])
      = hashFunction H (.seq 2 .list [.seq 5 .list [.sc (.int 1)], .seq 6 .list [.sc (.int 1)]]) := rfl

/-! ### non-vacuity -/

/-- a python task `T(a={"x","y"}, b={"k": 1})` and the same task as another session presents it -/
def exTask (order : Bool) : TaskDef :=
  { ttype := ascii "python",
    fields := [
      { name := ascii "a", value := some (.set 1 false (if order then [.sc (.str [120]), .sc (.str [121])]
                                                          else [.sc (.str [121]), .sc (.str [120])])) },
      { name := ascii "b", value := some (.dict 2 [(.str [107], .sc (.int 1))]) },
      { name := ascii "unset", value := none }],
    outputs := .tyFields 3 [] [] }

example : inputsSortable (exTask true).inpDict = true := by decide
/-- `inp_dict` of the two presentations -/
def exInp (order : Bool) : List (Bytes × PyVal) :=
  [(ascii "a", .set 1 false (if order then [.sc (.str [120]), .sc (.str [121])] else [.sc (.str [121]), .sc (.str [120])])),
   (ascii "b", .dict 2 [(.str [107], .sc (.int 1))]),
   (HashLits.outputsKey, .tyFields 3 [] [])]

example : (exTask true).inpDict = exInp true ∧ (exTask false).inpDict = exInp false := ⟨rfl, rfl⟩

/-- the two presentations are `InputsEquiv` (hypothesis of `C07_checksum_env_invariant`) -/
example : InputsEquiv (exInp true) (exInp false) := by
  simp only [exInp, InputsEquiv, Equiv, if_true, Bool.false_eq_true, if_false, ↓reduceIte]
  exact ⟨trivial, ⟨trivial, [.sc (.str [120]), .sc (.str [121])], List.Perm.swap _ _ _, by simp [EquivList, Equiv]⟩,
    trivial, ⟨_, List.Perm.refl _, by simp [EquivItems, Equiv]⟩, trivial, by simp [EquivList], trivial⟩

end PydraModel.Hash
