import PydraModel.Template.ArgvBridge6
import PydraModel.Gen.TemplateRegexes
/-
C25 — Command-line templates define the task they spell out.

Property theorems only (helper lemmas: `Template/Lemmas*.lean`).
`parseTemplate` is the model of `parse_command_line_template` (pinned commit), `fieldsOf` the reference reading of a
structured template, `renderAll` how a structured template is written down.  Templates are token lists of ANY length.
-/
namespace PydraModel.Template
open PydraModel.Gen

/-! ### tie to the source: the matchers were written for the regexes that are in builder.py now -/

/-- The regex source strings and the order of the match chain found in /repo on this run are the ones the
    hand-written matchers (`matchArg`, `matchOpt`, `lex`, `isQuoted`) were written for. -/
theorem C25_regex_sources :
    TemplateRegexes.argPattern = argPatternSrc ∧ TemplateRegexes.optPattern = optPatternSrc ∧
    TemplateRegexes.boolArgPattern = boolArgPatternSrc ∧ TemplateRegexes.quotedDefaultPattern = quotedDefaultPatternSrc ∧
    TemplateRegexes.matchChain = matchChainSrc := by
  refine ⟨by decide, by decide, by decide, by decide, by decide⟩

/-- The default-coercion table regenerated from the running interpreter (builtin type × sample literal) is reproduced
    by `defaultValue` + `coerceDefault`, row by row. -/
theorem C25_default_coercion_table : TemplateRegexes.coercionRows.all coercionRowOK = true := by
  decide +kernel

/-! ### the lexer reads back what was written -/

theorem C25_lex_arg (r : Role) (a : ArgSpec) (h : argOK a = true) :
    lex ('<' :: (argBody r a ++ ['>'])) = .arg (argBody r a) := lex_render_arg r a h

theorem C25_lex_flag (o n : Str) (d : Option Str) (h : tokOK (.flag o n d) = true) :
    lex (o ++ '<' :: (flagBody n d ++ ['>'])) = .flag o (flagBody n d) := lex_render_flag o n d h

theorem C25_lex_option (o : Str) (h : optOK o = true) : lex o = .opt := lex_option h

/-! ### the property -/

/-- FULL statement, for templates of any length: writing a grammatical template down and parsing it gives exactly the
    task the template spells — the same executable and, token by token, the same fields (name, input/output kind,
    type with `?` / `+` / `*`, default, `$` path template, option string) numbered 1..n in template order — and the
    same rejection when a default or type cannot be read. -/
theorem C25_parse_render (tbl : FmtTable) (exe : List Str) (ts : List GTok) (h : Grammar exe ts = true) :
    parseTemplate tbl (renderAll exe ts) = fieldsOf tbl exe ts := by
  simp only [Grammar, Bool.and_eq_true, bne_iff_ne, ne_eq, decide_eq_true_eq] at h
  obtain ⟨⟨⟨hne, hexe⟩, hok⟩, hnd⟩ := h
  have hexe' := (all_iff _ _).mp hexe
  have hok' := (all_iff _ _).mp hok
  obtain ⟨h1, h2⟩ := exe_split exe ts hexe' hok'
  unfold parseTemplate renderAll fieldsOf
  simp only [h1, h2, hne, if_false]
  rw [steps_all tbl ts [] hok' hnd (by simp)]
  cases hs : specAll tbl ts with
  | error e => rfl
  | ok fs =>
    simp only [Except.map, List.nil_append, Option.isSome_none, Bool.false_eq_true, if_false]
    rw [assignPositions_fresh fs (specAll_positions tbl ts fs hs)]

/-- Every token of the template becomes exactly one command-line field; these fields appear in template order and
    carry the positions 1..n (the executable keeps position 0). -/
theorem C25_positions (tbl : FmtTable) (exe : List Str) (ts : List GTok) (d : Def) (h : fieldsOf tbl exe ts = .ok d) :
    d.exe = exe ∧
    (d.fields.filter isArgument).map (·.name) = ts.map tokName ∧
    (d.fields.filter isArgument).map (·.position) = (List.range' 1 ts.length).map some := by
  unfold fieldsOf at h
  obtain ⟨fs, hfs, rfl⟩ := map_ok' h
  have hn := specAll_argument_names tbl ts fs hfs
  refine ⟨rfl, ?_, ?_⟩
  · simp only [number_names, hn]
  · have hl : (fs.filter isArgument).length = ts.length := by
      have := congrArg List.length hn
      simpa using this
    simp only [number_positions, hl]

/-! ### rejections -/

/-- A token that is neither `<…>` nor starts with `-` is refused wherever it stands after the executable
    (`ValueError: Found unknown token`). -/
theorem C25_reject_unknown_token (tbl : FmtTable) (exe : List Str) (ts : List GTok) (tok : Str) (rest : List Str)
    (fs : List Field) (h : Grammar exe ts = true) (hne : ts ≠ []) (hs : specAll tbl ts = .ok fs)
    (h1 : tok.head? ≠ some '<') (h2 : tok.head? ≠ some '-') :
    parseTemplate tbl (renderAll exe ts ++ tok :: rest) = .error .unknownToken := by
  simp only [Grammar, Bool.and_eq_true, bne_iff_ne, ne_eq, decide_eq_true_eq] at h
  obtain ⟨⟨⟨hne', hexe⟩, hok⟩, hnd⟩ := h
  have hexe' := (all_iff _ _).mp hexe
  have hok' := (all_iff _ _).mp hok
  have hlex : lex tok = .unknown := by
    unfold lex matchArg matchOpt
    cases tok with
    | nil => rfl
    | cons c t =>
      have c1 : c ≠ '<' := fun e => h1 (by simp [e])
      have c2 : c ≠ '-' := fun e => h2 (by simp [e])
      split
      · rename_i heq; split at heq <;> simp_all
      · split
        · rfl
        · rename_i heq; split at heq <;> simp_all
  obtain ⟨t, ts', rfl⟩ : ∃ t ts', ts = t :: ts' := by
    cases ts with
    | nil => exact absurd rfl hne
    | cons t ts' => exact ⟨t, ts', rfl⟩
  obtain ⟨w, ws, hw, hsa⟩ := render_head_startsArgs t (hok' t (by simp))
  have hc : (!startsArgs w) = false := by simp [hsa]
  unfold parseTemplate renderAll
  have e1 : (exe ++ (t :: ts').flatMap render ++ tok :: rest)
      = exe ++ w :: (ws ++ ts'.flatMap render ++ tok :: rest) := by
    rw [List.flatMap_cons, hw]; simp
  rw [e1]
  simp only [takeWhile_append_stop _ exe w _ hexe' hc, dropWhile_append_stop _ exe w _ hexe' hc, hne', if_false]
  have e2 : w :: (ws ++ ts'.flatMap render ++ tok :: rest) = (t :: ts').flatMap render ++ tok :: rest := by
    rw [List.flatMap_cons, hw]; simp
  rw [e2, steps_append, steps_all tbl (t :: ts') [] hok' hnd (by simp), hs]
  simp [Except.map, bind, Except.bind, steps, step, hlex]

/-- An option that is not followed by a field is refused (`ValueError: Found an option without a field`). -/
theorem C25_reject_trailing_option (tbl : FmtTable) (exe : List Str) (ts : List GTok) (o : Str) (fs : List Field)
    (h : Grammar exe ts = true) (ho : optOK o = true) (hs : specAll tbl ts = .ok fs) :
    parseTemplate tbl (renderAll exe ts ++ [o]) = .error .optionWithoutField := by
  simp only [Grammar, Bool.and_eq_true, bne_iff_ne, ne_eq, decide_eq_true_eq] at h
  obtain ⟨⟨⟨hne', hexe⟩, hok⟩, hnd⟩ := h
  have hexe' := (all_iff _ _).mp hexe
  have hok' := (all_iff _ _).mp hok
  obtain ⟨run, rfl, _, _⟩ := optOK_shape ho
  have hc : (!startsArgs ('-' :: run)) = false := rfl
  unfold parseTemplate renderAll
  obtain ⟨h1, h2⟩ : (exe ++ ts.flatMap render ++ ['-' :: run]).takeWhile (fun t => !startsArgs t) = exe ∧
      (exe ++ ts.flatMap render ++ ['-' :: run]).dropWhile (fun t => !startsArgs t) = ts.flatMap render ++ ['-' :: run] := by
    cases ts with
    | nil =>
      simp only [List.flatMap_nil, List.append_nil, List.nil_append]
      exact ⟨takeWhile_append_stop _ exe _ [] hexe' hc, dropWhile_append_stop _ exe _ [] hexe' hc⟩
    | cons t ts' =>
      obtain ⟨w, ws, hw, hsa⟩ := render_head_startsArgs t (hok' t (by simp))
      have hcw : (!startsArgs w) = false := by simp [hsa]
      rw [List.flatMap_cons, hw]
      simp only [List.cons_append, List.append_assoc]
      exact ⟨takeWhile_append_stop _ exe w _ hexe' hcw, dropWhile_append_stop _ exe w _ hexe' hcw⟩
  simp only [h1, h2, hne', if_false]
  rw [steps_append, steps_all tbl ts [] hok' hnd (by simp), hs]
  simp [Except.map, bind, Except.bind, steps, step, lex_option ho]

/-- `$template` on a field that is not an output is refused (`ValueError: Path templates can only be used with output fields`). -/
theorem C25_reject_template_on_input (tbl : FmtTable) (o : Option Str) (r : Role) (a : ArgSpec) (t : Str)
    (h : argOK a = true) (hm : a.mod = .tmpl t) (hr : r ≠ .output) :
    parseArgBody tbl o (argBody r a) = .error .templateOnInput := by
  rw [parseArgBody_render tbl o r a h]
  unfold specFields specAttrs specDefaultLit
  cases r with
  | output => exact absurd rfl hr
  | input => simp [hm, beq_dec, Except.bind, Except.map]
  | modify => simp [hm, beq_dec, Except.bind, Except.map]

/-- A template that does not start with an executable word is refused (`ValueError: Found no executable`). -/
theorem C25_reject_no_executable (tbl : FmtTable) (tokens : List Str)
    (h : tokens = [] ∨ ∃ w ws, tokens = w :: ws ∧ startsArgs w = true) :
    parseTemplate tbl tokens = .error .noExecutable := by
  unfold parseTemplate
  rcases h with rfl | ⟨w, ws, rfl, hw⟩
  · rfl
  · simp [List.takeWhile, hw]

/-- GENERAL REJECTION (true of the code: the `else: raise ValueError("Found unknown token …")` branch): wherever the
    loop meets a token that none of the three regexes matches at its start, the template is refused — whatever came
    before (as long as it was accepted) and whatever follows. -/
theorem C25_reject_unlexable (tbl : FmtTable) (st st' : PState) (pre post : List Str) (tok : Str)
    (hpre : steps tbl st pre = .ok st') (hlex : matchArg tok = none ∧ matchOpt tok = none) :
    steps tbl st (pre ++ tok :: post) = .error .unknownToken := by
  rw [steps_append, hpre]
  simp [bind, Except.bind, steps, step, lex, hlex.1, hlex.2]

/-- … and "unlexable" is exactly: no `<…>` match at the start and no `-x…` match at the start. -/
theorem C25_unlexable_iff (tok : Str) : lex tok = .unknown ↔ matchArg tok = none ∧ matchOpt tok = none := by
  unfold lex
  cases h1 : matchArg tok with
  | some b => simp
  | none =>
    cases h2 : matchOpt tok with
    | none => simp
    | some p =>
      obtain ⟨o, rest⟩ := p
      cases h3 : matchArg rest <;> simp [h3]

/-! ### leniency of the parser (witnesses; all three reproduced on the implementation by the correspondence corpus)

The converse of the rejection theorem is FALSE for the code: `re.match` anchors the regexes at the start of a token only,
and a pending option is overwritten without complaint, so some strings outside the documented grammar are accepted. -/

/-- Anything may follow the closing `>` of a field: `<a>junk` is read as `<a>` (for every field and every junk). -/
theorem C25_lenient_trailing_text (r : Role) (a : ArgSpec) (h : argOK a = true) (junk : Str) :
    lex ('<' :: (argBody r a ++ '>' :: junk)) = .arg (argBody r a) := by
  unfold lex
  rw [matchArg_render r a h junk]

/-- An option followed by another option is dropped silently: `cmd -o -p <x>` defines `x` with `-p` only. -/
theorem C25_lenient_option_overwritten :
    (parseTemplate [] ["cmd".toList, "-o".toList, "-p".toList, "<x>".toList]).map
        (fun d => d.fields.map (fun f => (f.name, f.argstr, f.position)))
      = .ok [("x".toList, some "-p".toList, some 1)] := by decide +kernel

/-- An "option" may carry arbitrary text after its name: the whole token `-o=3` becomes the argstr. -/
theorem C25_lenient_option_text :
    (parseTemplate [] ["cmd".toList, "-o=3".toList, "<x>".toList]).map
        (fun d => d.fields.map (fun f => (f.name, f.argstr))) = .ok [("x".toList, some "-o=3".toList)] := by
  decide +kernel

/-! ### the argv clause -/

/-- ARGV (partial only in its explicit side conditions; any template length, any value sizes).
    For a grammatical template that the parser accepts, the definition it produces — handed to the Argv engine's model of
    `shell.define`'s slot filling, `ShellTask._command_args` and `position_sort` (`Argv.runDef`) — yields, for safe values,
    the executable followed by the straightforward reading of every token in template order (`tokenArgs`), and no error.
    Token kinds covered: positional `<x>`, typed, `?`, `+`, `*`, `=default`, `$template`, `out|`, `modify|`, options
    `-o <x>` of all these, flags `-f<x[=default]>`.  Not covered (`notBoolArg`): a `<…>` token typed `bool`
    (a positional bool prints an empty word).  Safe values (`SafeTV`): flags get a bool or nothing; other tokens get
    non-empty, blank- and quote-free, truthy scalars (the falsy ones are D41), lists of them for `+`/`*`, non-empty
    tuples otherwise; an output's value is the resolved path (C26's subject), an unset optional is `unset`.
    The D26 hypothesis of C22 is discharged outright: every position is explicit (1..n). -/
theorem C25_argv (tbl : FmtTable) (exe : List Str) (ts : List GTok) (d : Def) (vs : List Argv.Value)
    (hg : Grammar exe ts = true) (hd : parseTemplate tbl (renderAll exe ts) = .ok d)
    (hnb : ∀ t ∈ ts, notBoolArg t = true) (hlen : vs.length = ts.length)
    (hsafe : ∀ tv ∈ List.zip ts vs, SafeTV tv.1 tv.2) :
    Argv.runDef d.exe (toArgvFields d) vs []
      = .ok (d.exe ++ (List.zip ts vs).flatMap (fun tv => tokenArgs tv.1 tv.2)) := by
  rw [C25_parse_render tbl exe ts hg] at hd
  unfold fieldsOf at hd
  obtain ⟨fs, hfs, rfl⟩ := map_ok' hd
  have hok : ∀ t ∈ ts, tokOK t = true := by
    simp only [Grammar, Bool.and_eq_true] at hg
    exact (all_iff _ _).mp hg.1.2
  have hall := specAll_fieldsOf tbl ts fs hfs hnb
  obtain ⟨hT, hwords, hl⟩ := toTriples_template ts (fs.filter isArgument) hall vs 1 hlen hok hsafe
  obtain ⟨hfields, hvals⟩ := toTriples_fields (fs.filter isArgument) vs 1 (by rw [hl]; exact hlen)
  obtain ⟨hprops, hinc⟩ := toTriples_props (fs.filter isArgument) vs 1 (by decide)
  have := runDef_shaped exe (toTriples 1 (fs.filter isArgument) vs)
    (fun t ht => (hprops t ht).1) hinc (fun t ht => (hprops t ht).2.1)
    (fun t ht => (hT t ht).1) (fun t ht => (hT t ht).2)
  rw [hfields, hvals, hwords] at this
  simp only [toArgvFields, number_filter]
  exact this

/-! ### non-vacuity: a realistic template satisfies the grammar and parses to the expected task -/

def exampleTable : FmtTable :=
  [("file".toList, some ("generic/file".toList, none, true)),
   ("image/png".toList, some ("image/png".toList, some ".png".toList, true))]

def exampleTokens : List GTok :=
  [.arg none .input ⟨"in_file".toList, some "file".toList, .plain⟩,
   .flag "-R".toList "recursive".toList none,
   .arg (some "--int-arg".toList) .input ⟨"n".toList, some "int".toList, .dflt "3".toList⟩,
   .arg none .input ⟨"xs".toList, some "str".toList, .star⟩,
   .arg none .output ⟨"out".toList, some "image/png".toList, .plain⟩]

example : Grammar ["cmd".toList] exampleTokens = true := by decide

example : renderAll ["cmd".toList] exampleTokens
    = ["cmd", "<in_file:file>", "-R<recursive>", "--int-arg", "<n:int=3>", "<xs:str*>", "<out|out:image/png>"].map String.toList := by
  decide

example : (parseTemplate exampleTable (renderAll ["cmd".toList] exampleTokens)).map
      (fun d => d.fields.map (fun f => (String.ofList f.name, f.position, f.argstr.map String.ofList, f.pathTemplate.map String.ofList)))
    = .ok [("in_file", some 1, some "", none), ("recursive", some 2, some "-R", none), ("n", some 3, some "--int-arg", none),
           ("xs", some 4, some "", none), ("out", some 5, some "", some "out.png")] := by
  decide +kernel

/-- the argv theorem's hypotheses are met by the example template with concrete values, and its conclusion computes -/
def exampleValues : List Argv.Value :=
  [.one (.path "/data/in.txt".toList), .one (.bool true), .one (.int 5), .many [.str "u".toList, .str "v".toList],
   .one (.path "/job/out.png".toList)]

example : (∀ t ∈ exampleTokens, notBoolArg t = true) ∧ exampleValues.length = exampleTokens.length := by decide

example : (List.zip exampleTokens exampleValues).flatMap (fun tv => tokenArgs tv.1 tv.2)
    = ["/data/in.txt", "-R", "--int-arg", "5", "u", "v", "/job/out.png"].map String.toList := by decide

example : argOK ⟨"a".toList, none, .tmpl "x.txt".toList⟩ = true := by decide
example : optOK "--opt".toList = true := by decide

end PydraModel.Template
