import PydraModel.Roundtrip.Lemmas2
/-
C32 — Task definitions survive dictionary round trips.

Property theorems only.  Model: `Roundtrip/Model.lean` (`unstructure`, `structure`, `filter_out_defaults`, the parts
of `define` that `structure` goes through); class defaults: `Gen/FieldDefaults.lean`, regenerated from the interpreter.
-/
namespace PydraModel.Roundtrip

/-- The property at full strength: every definition produced by `define` comes back unchanged, and the dictionary
    can be used again.  The pinned code violates both halves (`C32_witness_requires`, `C32_python_dict_consumed`). -/
def C32_full_statement : Prop :=
  ∀ d : Def, DefWF d →
    ∃ dct', structureDict (unstructureDef d) = .ok (d, dct') ∧ (structureDict dct').map Prod.fst = .ok d

/-- Base case, closed by `decide` on the regenerated table: the attribute names of each field class are distinct
    (so "look the attribute up, else take the class default" finds the right value). -/
theorem C32_defaults_table_ok : TableOK := by decide

/-- the regenerated table knows the four classes, `name` is not an attribute the filter sees, and `requires` /
    `position` default to "no requirements" / "no position" (what the model's `define` relies on) -/
theorem C32_defaults_table_shape :
    (argTable .shell).lookup "requires" = some (.reqs []) ∧ (argTable .python).lookup "requires" = some (.reqs []) ∧
    (argTable .shell).lookup "position" = some .none ∧ (argTable .shell).lookup "name" = none ∧
    (outTable .shell).length > 0 ∧ (outTable .python).length > 0 ∧
    Gen.FieldDefaults.requirementSetKeys = ["requirements"] ∧
    Gen.FieldDefaults.requirementKeys = ["name", "allowed_values"] ∧
    Gen.FieldDefaults.requirementAllowedDefault = .none := by decide

/-- `filter_out_defaults` drops exactly the attributes equal to the class default -/
theorem C32_filter_exact (T : Attrs) (f : Field) (k : String) :
    k ∈ (unstructureField T f).map Prod.fst ↔ ∃ v, (k, v) ∈ f.attrs ∧ T.lookup k ≠ some v := by
  unfold unstructureField
  simp only [List.map_map, List.mem_map, List.mem_filter, Function.comp_def]
  constructor
  · rintro ⟨⟨k', v⟩, ⟨hm, hp⟩, rfl⟩
    exact ⟨v, hm, by simpa using hp⟩
  · rintro ⟨v, hm, hp⟩
    exact ⟨(k, v), ⟨hm, by simpa using hp⟩, rfl⟩

/-- one field, any class table with distinct attribute names, any number of attributes -/
theorem C32_field_roundtrip (T : Attrs) (hT : (T.map Prod.fst).Nodup) (f : Field)
    (hwf : FieldWF T f) (hser : SerOK f) : structureField T f.name (unstructureField T f) = f :=
  structureField_unstructureField T hT f hwf hser

/-- exactly which attribute values survive the dictionary form -/
theorem C32_value_survives_iff (v : Val) :
    deser (ser v) = v ↔ ∀ r, v = .reqs r → ∀ rs ∈ r, rs = [] ∨ rs = [("requirements", Option.none)] :=
  deser_ser_iff v

/-- `structure` on a dictionary whose entries all convert, whose inputs are positioned and whose references exist -/
theorem structureDict_ok (dct : Dict) (ins outs : List Field)
    (h0 : (dct.inputs.map (·.1)).contains "function" = false)
    (h1 : mapE (fun ne => entryField (argTable dct.flavor) ne.1 ne.2) dct.inputs = .ok ins)
    (h2 : mapE (fun ne => entryField (outTable dct.flavor) ne.1 ne.2) dct.outputs = .ok outs)
    (hpos : dct.flavor = .shell → assignPositions ins = ins)
    (hrefs : refsOK dct.flavor ins outs dct.xor = true) :
    (structureDict dct).map Prod.fst =
      .ok { flavor := dct.flavor, name := dct.name, executor := dct.executor, inputs := ins, outputs := outs,
            xor := dct.xor } := by
  unfold structureDict
  have hn' : ¬ (dct.flavor = .python ∧ (dct.inputs.map (·.1)).contains "function" = true) := by
    rw [h0]; simp
  rw [if_neg hn']
  simp only [h1, h2]
  cases hf : dct.flavor with
  | python =>
    rw [hf] at hrefs
    simp only [hrefs, if_true, Except.map]
  | shell =>
    rw [hf] at hrefs
    simp only [hpos hf, hrefs, if_true, Except.map]

/-- PARTIAL (hypothesis `SerOKDef`, decidable: no field has a requirement set that the dictionary form mangles).
    For every definition with any number of input and output fields: `structure (unstructure d)` is `d`. -/
theorem C32_roundtrip_partial (d : Def) (hwf : DefWF d) (hser : SerOKDef d) :
    (structureDict (unstructureDef d)).map Prod.fst = .ok d := by
  have hT := C32_defaults_table_ok
  obtain ⟨hin, hout, hrefs, hpos, hfn⟩ := hwf
  have h1 := mapE_roundtrip (argTable d.flavor) (hT.arg d.flavor) d.inputs hin
    (fun f hf => hser f (by simp [hf]))
  have h2 := mapE_roundtrip (outTable d.flavor) (hT.out d.flavor) d.outputs hout
    (fun f hf => hser f (by simp [hf]))
  have hn : ((unstructureDef d).inputs.map (·.1)).contains "function" = false := by
    rw [unstructure_names]; exact hfn
  have hpos' : (unstructureDef d).flavor = .shell → assignPositions d.inputs = d.inputs :=
    fun hf => assignPositions_id d.inputs (hpos hf)
  have := structureDict_ok (unstructureDef d) d.inputs d.outputs hn h1 h2 hpos' hrefs
  rw [this]
  cases d; rfl

/-- in particular: definitions whose fields have no requirements at all -/
theorem C32_roundtrip_no_requires (d : Def) (hwf : DefWF d)
    (hno : ∀ f ∈ d.inputs ++ d.outputs, ∀ kv ∈ f.attrs, ∀ r, kv.2 = .reqs r → r = []) :
    (structureDict (unstructureDef d)).map Prod.fst = .ok d := by
  apply C32_roundtrip_partial d hwf
  intro f hf kv hkv
  rw [deser_ser_iff]
  intro r hr rs hrs
  have := hno f hf kv hkv r hr
  subst this
  simp at hrs

/-- Corollary: whatever is computed from the definition — the command line of a shell task for given inputs, the
    rule check — is the same for the round-tripped definition. -/
theorem C32_observations_preserved {β} (obs : Def → β) (d : Def) (hwf : DefWF d) (hser : SerOKDef d) :
    (structureDict (unstructureDef d)).map (fun r => obs r.1) = .ok (obs d) := by
  have := C32_roundtrip_partial d hwf hser
  cases h : structureDict (unstructureDef d) with
  | error e => rw [h] at this; simp [Except.map] at this
  | ok r =>
    rw [h] at this
    simp only [Except.map, Except.ok.injEq] at this
    simp [Except.map, this]

/-- …instantiated with the rule check of engine `Rules` (C31): same violations for every assignment -/
theorem C32_rules_preserved (d : Def) (hwf : DefWF d) (hser : SerOKDef d) (a : Rules.Assignment) :
    (structureDict (unstructureDef d)).map (fun r => Rules.ruleViolations (toRules r.1) a)
      = .ok (Rules.ruleViolations (toRules d) a) :=
  C32_observations_preserved (fun d => Rules.ruleViolations (toRules d) a) d hwf hser

/-- `shell.define` leaves the dictionary alone: it can be structured again, with the same result -/
theorem C32_shell_dict_reusable (dct : Dict) (hfl : dct.flavor = .shell) (d : Def) (dct' : Dict)
    (h : structureDict dct = .ok (d, dct')) : dct' = dct ∧ structureDict dct' = .ok (d, dct') := by
  have hd : dct' = dct := by
    unfold structureDict at h
    simp only [hfl] at h
    split at h
    · simp at h
    · split at h
      · simp at h
      · split at h
        · simp at h
        · split at h
          · simp only [Except.ok.injEq, Prod.mk.injEq] at h
            exact h.2.symm
          · simp at h
  exact ⟨hd, by rw [hd]; rw [hd] at h; exact h⟩

/-- D54, for every python definition: `structure` leaves the `function` field in the caller's dictionary, and a second
    `structure` of that dictionary is refused. -/
theorem C32_python_dict_consumed (dct : Dict) (hfl : dct.flavor = .python) (d : Def) (dct' : Dict)
    (h : structureDict dct = .ok (d, dct')) : structureDict dct' = .error .unrecognisedInput := by
  have hd : dct'.flavor = .python ∧ (dct'.inputs.map (·.1)).contains "function" = true := by
    unfold structureDict at h
    simp only [hfl] at h
    split at h
    · simp at h
    · split at h
      · simp at h
      · split at h
        · simp at h
        · split at h
          · simp only [Except.ok.injEq, Prod.mk.injEq] at h
            rw [← h.2]
            simp [pythonLeftovers, hfl]
          · simp at h
  unfold structureDict
  rw [if_pos ⟨hd.1, hd.2⟩]

/-! ## Witnesses -/

/-- a field of class `<flavor>.arg` with the given attributes, the rest at the class default -/
def mkArg (fl : Flavor) (name : String) (over : Attrs) : Field :=
  { name, attrs := (argTable fl).map (fun kd => (kd.1, (over.lookup kd.1).getD kd.2)) }

def tStr : Val := .atom "type:str | None"

/-- D53: `a` requires `b`. -/
def wReqDef : Def :=
  { flavor := .shell, name := "W", executor := .str "echo",
    inputs := [mkArg .shell "a" [("type", tStr), ("default", .none), ("position", .int 1),
                                 ("requires", .reqs [[("b", Option.none)]])],
               mkArg .shell "b" [("type", tStr), ("default", .none), ("position", .int 2)]],
    outputs := [], xor := [] }

/-- D53: the definition is well formed, yet `structure (unstructure d)` is refused (`ValueError: 'Unrecognised' field
    names in referenced in the requirements … ['requirements']`). -/
theorem C32_witness_requires :
    DefWF wReqDef ∧ structureDict (unstructureDef wReqDef) = .error .unrecognisedRef := by
  decide +kernel

/-- D53, silent variant: with an input that happens to be called `requirements` the round trip succeeds and returns a
    definition with *different rules*: `a` required `b`, now it requires `requirements`.  With `a = "x"`, `b = "x"` the
    original accepts and the copy reports a violation. -/
def wReqSilentDef : Def :=
  { wReqDef with inputs := wReqDef.inputs ++
      [mkArg .shell "requirements" [("type", tStr), ("default", .none), ("position", .int 3)]] }

def wAsg : Rules.Assignment := Rules.assignOf [("a", .str "x"), ("b", .str "x"), ("requirements", .none)]

theorem C32_witness_requires_silent :
    DefWF wReqSilentDef ∧
    Rules.ruleViolations (toRules wReqSilentDef) wAsg = [] ∧
    (structureDict (unstructureDef wReqSilentDef)).map
        (fun r => (decide (r.1 = wReqSilentDef), Rules.ruleViolations (toRules r.1) wAsg))
      = .ok (false, [.requires "a"]) := by
  decide +kernel

/-- D54 on a concrete python definition: the first `structure` succeeds and gives the definition back, the second
    one on the same dictionary is refused. -/
def wPyDef : Def :=
  { flavor := .python, name := "P", executor := .atom "fn:mod.P",
    inputs := [mkArg .python "a" [("type", tStr), ("default", .none)],
               mkArg .python "b" [("type", .atom "type:<class 'bool'>"), ("default", .bool false)]],
    outputs := [{ name := "out", attrs := outTable .python }], xor := [[some "a", some "b"]] }

theorem C32_witness_python_twice :
    DefWF wPyDef ∧ SerOKDef wPyDef ∧
    (structureDict (unstructureDef wPyDef)).map Prod.fst = .ok wPyDef ∧
    ((structureDict (unstructureDef wPyDef)).bind (fun r => structureDict r.2)) = .error .unrecognisedInput := by
  decide +kernel

/-- The property as worded does not hold for the pinned code. -/
theorem C32_full_statement_fails : ¬ C32_full_statement := by
  intro h
  obtain ⟨dct', h1, _⟩ := h wReqDef C32_witness_requires.1
  rw [C32_witness_requires.2] at h1
  cases h1

/-! ## Non-vacuity -/

/-- a shell definition with argstr / position / sep / help / allowed values and an xor group satisfies the hypotheses
    of `C32_roundtrip_partial` … -/
def exShell : Def :=
  { flavor := .shell, name := "Ex", executor := .str "echo",
    inputs := [mkArg .shell "alpha" [("type", tStr), ("default", .none), ("argstr", .str "--alpha={alpha}"),
                                     ("position", .int 2), ("help", .str "the first option"), ("sep", .str ",")],
               mkArg .shell "flag" [("type", .atom "type:<class 'bool'>"), ("default", .bool false),
                                    ("argstr", .str "-f"), ("position", .int (-1))],
               mkArg .shell "mode" [("type", .atom "type:<class 'str'>"), ("argstr", .str "-m"), ("position", .int 1),
                                    ("allowed_values", .strs ["d", "x", "y"])]],
    outputs := [], xor := [[some "alpha", some "flag", Option.none]] }

example : DefWF exShell ∧ SerOKDef exShell := by decide +kernel

/-- … and really loses attributes on the way to the dictionary (the filter is not the identity): -/
example : (unstructureField (argTable .shell) (mkArg .shell "flag" [("type", .atom "type:<class 'bool'>"),
            ("default", .bool false), ("argstr", .str "-f"), ("position", .int (-1))])).map Prod.fst
          = ["type", "default", "argstr", "position"] := by decide +kernel

/-- `shell.define` assigns the free slots in order to inputs without a position (slot 0 is the executable, `-1` is
    the last slot) -/
example : (assignPositions [mkArg .shell "p" [], mkArg .shell "q" [("position", .int 1)],
                            mkArg .shell "r" [("position", .int (-1))], mkArg .shell "s" []]).map
            (fun f => f.get "position") = [.int 2, .int 1, .int (-1), .int 3] := by decide +kernel

end PydraModel.Roundtrip
