import PydraModel.Roundtrip.ArgvView
/-
C32 — Task definitions survive dictionary round trips.

Property theorems only.  Model: `Roundtrip/Model.lean` (`unstructure`, `structure`, `filter_out_defaults`, the parts
of `define` that `structure` goes through); class defaults: `Gen/FieldDefaults.lean`, regenerated from the interpreter.
`structureDict` is the code after the repair of D54 (a pure function of the dictionary); `structureDictShallow` is the
former shallow-copy behaviour, kept for the record.
-/
namespace PydraModel.Roundtrip

/-- The property at full strength: every definition produced by `define` comes back unchanged.  The pinned code
    violates it for definitions with requirement sets (`C32_witness_requires`, D53). -/
def C32_full_statement : Prop :=
  ∀ d : Def, DefWF d → structureDict (unstructureDef d) = .ok d

/-- Base case, closed by `decide` on the regenerated table: the attribute names of each field class are distinct
    (so "look the attribute up, else take the class default" finds the right value). -/
theorem C32_defaults_table_ok : TableOK := by decide

/-- the regenerated table knows the four classes, `name` is not an attribute the filter sees, and `requires` /
    `position` default to "no requirements" / "no position" (what the model's `define` relies on) -/
theorem C32_defaults_table_shape :
    (argTable .shell).lookup "requires" = some (.reqs []) ∧ (argTable .python).lookup "requires" = some (.reqs []) ∧
    (argTable .shell).lookup "position" = some .none ∧ (argTable .shell).lookup "name" = none ∧
    (outTable .shell).length > 0 ∧ (outTable .python).length > 0 ∧
    Gen.FieldDefaults.requirementSetKeys = ["requirements"] ∧
    Gen.FieldDefaults.requirementKeys = ["name", "allowed_values"] ∧
    Gen.FieldDefaults.requirementAllowedDefault = .none := by decide

/-- `filter_out_defaults` drops exactly the attributes equal to the class default -/
theorem C32_filter_exact (T : Attrs) (f : Field) (k : String) :
    k ∈ (unstructureField T f).map Prod.fst ↔ ∃ v, (k, v) ∈ f.attrs ∧ T.lookup k ≠ some v := by
  unfold unstructureField
  simp only [List.map_map, List.mem_map, List.mem_filter, Function.comp_def]
  constructor
  · rintro ⟨⟨k', v⟩, ⟨hm, hp⟩, rfl⟩
    exact ⟨v, hm, by simpa using hp⟩
  · rintro ⟨v, hm, hp⟩
    exact ⟨(k, v), ⟨hm, by simpa using hp⟩, rfl⟩

/-- one field, any class table with distinct attribute names, any number of attributes -/
theorem C32_field_roundtrip (T : Attrs) (hT : (T.map Prod.fst).Nodup) (f : Field)
    (hwf : FieldWF T f) (hser : SerOK f) : structureField T f.name (unstructureField T f) = f :=
  structureField_unstructureField T hT f hwf hser

/-- exactly which attribute values survive the dictionary form -/
theorem C32_value_survives_iff (v : Val) :
    deser (ser v) = v ↔ ∀ r, v = .reqs r → ∀ rs ∈ r, rs = [] ∨ rs = [("requirements", Option.none)] :=
  deser_ser_iff v

/-- `structure` on a dictionary whose entries all convert and whose inputs and outargs are positioned: it checks the
    references and returns the converted fields -/
theorem structureDict_eval (dct : Dict) (ins outs : List Field)
    (h0 : (dct.inputs.map (·.1)).contains "function" = false)
    (h1 : mapE (fun ne => entryField (argTable dct.flavor) ne.1 ne.2) dct.inputs = .ok ins)
    (h2 : mapE (fun ne => outEntryField dct.flavor ne.1 ne.2) dct.outputs = .ok outs)
    (hpos : dct.flavor = .shell → ∀ f ∈ ins ++ outs.filter Field.isOutarg, f.get "position" ≠ .none) :
    structureDict dct =
      if refsOK dct.flavor ins outs dct.xor = true then
        .ok { flavor := dct.flavor, name := dct.name, executor := dct.executor, inputs := ins, outputs := outs,
              xor := dct.xor }
      else .error .unrecognisedRef := by
  unfold structureDict
  have hn' : ¬ (dct.flavor = .python ∧ (dct.inputs.map (·.1)).contains "function" = true) := by
    rw [h0]; simp
  rw [if_neg hn']
  simp only [h1, h2]
  have htake : (ins ++ outs.filter Field.isOutarg).take ins.length = ins := by simp
  have hdrop : (ins ++ outs.filter Field.isOutarg).drop ins.length = outs.filter Field.isOutarg := by simp
  cases hf : dct.flavor with
  | python => simp only [htake, hdrop, mergeOutargs_self]
  | shell => simp only [assignPositions_id _ (hpos hf), htake, hdrop, mergeOutargs_self]

/-- Without any assumption on the values: for every well-formed definition, `structure (unstructure d)` either is
    refused by the reference check or returns `roundDef d` — the definition with every non-default attribute sent
    through the dictionary form. -/
theorem C32_roundtrip_general (d : Def) (hwf : DefWF d) :
    structureDict (unstructureDef d) =
      if refsOK d.flavor (roundDef d).inputs (roundDef d).outputs d.xor = true then .ok (roundDef d)
      else .error .unrecognisedRef := by
  have hT := C32_defaults_table_ok
  obtain ⟨hin, hout, htpl, _, hpos, hfn, hro⟩ := hwf
  have h1 := mapE_inputs_gen (argTable d.flavor) (hT.arg d.flavor) d.inputs hin
  have h2 := mapE_outputs_gen hT d.flavor d.outputs hout htpl
  have hn : ((unstructureDef d).inputs.map (·.1)).contains "function" = false := by
    rw [unstructure_names]; exact hfn
  have hpos' : (unstructureDef d).flavor = .shell →
      ∀ f ∈ d.inputs.map (roundField (argTable d.flavor)) ++
            (d.outputs.map (fun f => roundField (outTableFor d.flavor f.isOutarg) f)).filter Field.isOutarg,
        f.get "position" ≠ .none := by
    intro hf f hmem
    rw [filter_isOutarg_round] at hmem
    rcases List.mem_append.mp hmem with hm | hm
    · obtain ⟨g, hg, rfl⟩ := List.mem_map.mp hm
      rw [roundField_get _ g (hro g (by simp [hg])) "position" (by decide)]
      exact hpos hf g (by simp [hg])
    · obtain ⟨g, hg, rfl⟩ := List.mem_map.mp hm
      have hg' := (List.mem_filter.mp hg).1
      rw [roundField_get _ g (hro g (by simp [hg'])) "position" (by decide)]
      exact hpos hf g (List.mem_append.mpr (Or.inr hg))
  exact structureDict_eval (unstructureDef d) _ _ hn h1 h2 hpos'

theorem roundDef_of_serOK (d : Def) (hser : SerOKDef d) : roundDef d = d := by
  unfold roundDef
  have h1 : d.inputs.map (roundField (argTable d.flavor)) = d.inputs := by
    rw [map_eq_self_iff]
    intro f hf
    exact roundField_of_serOK _ f (hser f (by simp [hf]))
  have h2 : d.outputs.map (fun f => roundField (outTableFor d.flavor f.isOutarg) f) = d.outputs := by
    rw [map_eq_self_iff]
    intro f hf
    exact roundField_of_serOK _ f (hser f (by simp [hf]))
  rw [h1, h2]

/-- PARTIAL (hypothesis `SerOKDef`, decidable: no field has a requirement set that the dictionary form mangles).
    For every definition with any number of input and output fields (outargs included): `structure (unstructure d)` is `d`. -/
theorem C32_roundtrip_partial (d : Def) (hwf : DefWF d) (hser : SerOKDef d) :
    structureDict (unstructureDef d) = .ok d := by
  rw [C32_roundtrip_general d hwf, roundDef_of_serOK d hser]
  simp [hwf.2.2.2.1]

/-- in particular: definitions whose fields have no requirements at all -/
theorem C32_roundtrip_no_requires (d : Def) (hwf : DefWF d)
    (hno : ∀ f ∈ d.inputs ++ d.outputs, ∀ kv ∈ f.attrs, ∀ r, kv.2 = .reqs r → r = []) :
    structureDict (unstructureDef d) = .ok d := by
  apply C32_roundtrip_partial d hwf
  intro f hf kv hkv
  rw [deser_ser_iff]
  intro r hr rs hrs
  have := hno f hf kv hkv r hr
  subst this
  simp at hrs

/-- Corollary: whatever is computed from the definition is the same for the round-tripped definition. -/
theorem C32_observations_preserved {β} (obs : Def → β) (d : Def) (hwf : DefWF d) (hser : SerOKDef d) :
    (structureDict (unstructureDef d)).map obs = .ok (obs d) := by
  rw [C32_roundtrip_partial d hwf hser]; rfl

/-- …instantiated with the rule check of engine `Rules` (C31): same violations for every assignment -/
theorem C32_rules_preserved (d : Def) (hwf : DefWF d) (hser : SerOKDef d) (a : Rules.Assignment) :
    (structureDict (unstructureDef d)).map (fun r => Rules.ruleViolations (toRules r) a)
      = .ok (Rules.ruleViolations (toRules d) a) :=
  C32_observations_preserved (fun d => Rules.ruleViolations (toRules d) a) d hwf hser

/-- The command line is preserved (engine `Argv`, C22's `commandArgs`, through the view `Roundtrip/ArgvView.lean`):
    for every assignment of values to the fields and every `append_args`, the recreated definition builds the same
    argument vector (or fails in the same way) as the original. -/
theorem C32_cmdline_preserved (d : Def) (hwf : DefWF d) (hser : SerOKDef d)
    (vals : String → Argv.Value) (app : List Argv.Str) :
    (structureDict (unstructureDef d)).map (fun r => commandArgsOf r vals app) = .ok (commandArgsOf d vals app) :=
  C32_observations_preserved (fun d => commandArgsOf d vals app) d hwf hser

/-- What D53 can change is exactly `requires`: whenever `structure (unstructure d)` returns at all — also outside
    `SerOKDef` — the result is `roundDef d`, which has the same flavour, name, executor, groups, field names and
    attribute names, and the same value of every attribute other than `requires`. -/
theorem C32_only_requires_can_change (d d' : Def) (hwf : DefWF d)
    (h : structureDict (unstructureDef d) = .ok d') :
    d' = roundDef d ∧ d'.flavor = d.flavor ∧ d'.name = d.name ∧ d'.executor = d.executor ∧ d'.xor = d.xor ∧
    d'.inputs.map (·.name) = d.inputs.map (·.name) ∧ d'.outputs.map (·.name) = d.outputs.map (·.name) ∧
    (∀ T f, f ∈ d.inputs ++ d.outputs → ∀ k, k ≠ "requires" → (roundField T f).get k = f.get k) := by
  have hg := C32_roundtrip_general d hwf
  rw [h] at hg
  have hd : d' = roundDef d := by
    by_cases hr : refsOK d.flavor (roundDef d).inputs (roundDef d).outputs d.xor = true
    · simp only [hr, if_true, Except.ok.injEq] at hg; exact hg
    · simp only [hr] at hg; cases hg
  subst hd
  refine ⟨rfl, rfl, rfl, rfl, rfl, ?_, ?_, ?_⟩
  · simp [roundDef, List.map_map, Function.comp_def, roundField_name]
  · simp [roundDef, List.map_map, Function.comp_def, roundField_name]
  · intro T f hf k hk
    exact roundField_get T f (hwf.2.2.2.2.2.2 f hf) k hk

/-- …hence the command line survives D53 too: whenever `structure (unstructure d)` returns a definition, it builds
    the same argument vector as the original for all values (only the rule check can differ). -/
theorem C32_cmdline_preserved_whenever_structured (d d' : Def) (hwf : DefWF d)
    (h : structureDict (unstructureDef d) = .ok d')
    (vals : String → Argv.Value) (app : List Argv.Str) :
    commandArgsOf d' vals app = commandArgsOf d vals app := by
  rw [(C32_only_requires_can_change d d' hwf h).1]
  exact commandArgsOf_roundDef d hwf.2.2.2.2.2.2 vals app

/-! ## The dictionary is not state (repair of D54) — and what the shallow copy used to do -/

/-- Regression statement for the repaired code: a dictionary can be structured any number of times; on the dictionary
    of a definition whose values survive, every call returns that definition. -/
theorem C32_dict_reusable (d : Def) (hwf : DefWF d) (hser : SerOKDef d) :
    let dct := unstructureDef d
    structureDict dct = .ok d ∧ (structureDict dct).bind (fun _ => structureDict dct) = .ok d := by
  have h := C32_roundtrip_partial d hwf hser
  simp only [h]
  exact ⟨trivial, rfl⟩

/-- Before the repair (`copy`, not `deepcopy`), for every python definition: `structure` left the `function` field in
    the caller's dictionary, and a second `structure` of that dictionary was refused.  Documentation of D54. -/
theorem C32_old_shallow_python_dict_consumed (dct : Dict) (hfl : dct.flavor = .python) (d : Def) (dct' : Dict)
    (h : structureDictShallow dct = .ok (d, dct')) : structureDict dct' = .error .unrecognisedInput := by
  have hd : dct'.flavor = .python ∧ (dct'.inputs.map (·.1)).contains "function" = true := by
    unfold structureDictShallow at h
    cases hs : structureDict dct with
    | error e => rw [hs] at h; simp [Except.map] at h
    | ok d0 =>
      rw [hs] at h
      simp only [Except.map, hfl, Except.ok.injEq, Prod.mk.injEq] at h
      rw [← h.2]
      simp [pythonLeftovers, hfl]
  unfold structureDict
  rw [if_pos ⟨hd.1, hd.2⟩]

/-- …while a shell dictionary was left alone even then -/
theorem C32_old_shallow_shell_dict_kept (dct : Dict) (hfl : dct.flavor = .shell) (d : Def) (dct' : Dict)
    (h : structureDictShallow dct = .ok (d, dct')) : dct' = dct := by
  unfold structureDictShallow at h
  cases hs : structureDict dct with
  | error e => rw [hs] at h; simp [Except.map] at h
  | ok d0 =>
    rw [hs] at h
    simp only [Except.map, hfl, Except.ok.injEq, Prod.mk.injEq] at h
    exact h.2.symm

/-! ## Witnesses -/

/-- a field of class `<flavor>.arg` with the given attributes, the rest at the class default -/
def mkArg (fl : Flavor) (name : String) (over : Attrs) : Field :=
  { name, attrs := (argTable fl).map (fun kd => (kd.1, (over.lookup kd.1).getD kd.2)) }

def tStr : Val := .atom "type:str | None"

/-- D53: `a` requires `b`. -/
def wReqDef : Def :=
  { flavor := .shell, name := "W", executor := .str "echo",
    inputs := [mkArg .shell "a" [("type", tStr), ("default", .none), ("position", .int 1),
                                 ("requires", .reqs [[("b", Option.none)]])],
               mkArg .shell "b" [("type", tStr), ("default", .none), ("position", .int 2)]],
    outputs := [], xor := [] }

/-- D53: the definition is well formed, yet `structure (unstructure d)` is refused (`ValueError: 'Unrecognised' field
    names in referenced in the requirements … ['requirements']`). -/
theorem C32_witness_requires :
    DefWF wReqDef ∧ structureDict (unstructureDef wReqDef) = .error .unrecognisedRef := by
  decide +kernel

/-- D53, silent variant: with an input that happens to be called `requirements` the round trip succeeds and returns a
    definition with *different rules*: `a` required `b`, now it requires `requirements`.  With `a = "x"`, `b = "x"` the
    original accepts and the copy reports a violation. -/
def wReqSilentDef : Def :=
  { wReqDef with inputs := wReqDef.inputs ++
      [mkArg .shell "requirements" [("type", tStr), ("default", .none), ("position", .int 3)]] }

def wAsg : Rules.Assignment := Rules.assignOf [("a", .str "x"), ("b", .str "x"), ("requirements", .none)]

theorem C32_witness_requires_silent :
    DefWF wReqSilentDef ∧
    Rules.ruleViolations (toRules wReqSilentDef) wAsg = [] ∧
    (structureDict (unstructureDef wReqSilentDef)).map
        (fun r => (decide (r = wReqSilentDef), Rules.ruleViolations (toRules r) wAsg))
      = .ok (false, [.requires "a"]) := by
  decide +kernel

/-- A concrete python definition (regression case of D54): with the repaired `structure` the dictionary gives the
    definition back as often as it is used; with the former shallow copy the second use was refused. -/
def wPyDef : Def :=
  { flavor := .python, name := "P", executor := .atom "fn:mod.P",
    inputs := [mkArg .python "a" [("type", tStr), ("default", .none)],
               mkArg .python "b" [("type", .atom "type:<class 'bool'>"), ("default", .bool false)]],
    outputs := [{ name := "out", attrs := outTable .python }], xor := [[some "a", some "b"]] }

theorem C32_witness_python_twice :
    DefWF wPyDef ∧ SerOKDef wPyDef ∧
    structureDict (unstructureDef wPyDef) = .ok wPyDef ∧
    ((structureDict (unstructureDef wPyDef)).bind (fun _ => structureDict (unstructureDef wPyDef))) = .ok wPyDef ∧
    ((structureDictShallow (unstructureDef wPyDef)).bind (fun r => structureDict r.2)) = .error .unrecognisedInput := by
  decide +kernel

/-- The property as worded does not hold for the pinned code. -/
theorem C32_full_statement_fails : ¬ C32_full_statement := by
  intro h
  have h1 := h wReqDef C32_witness_requires.1
  rw [C32_witness_requires.2] at h1
  cases h1

/-! ## Non-vacuity -/

/-- a shell definition with argstr / position / sep / help / allowed values and an xor group satisfies the hypotheses
    of `C32_roundtrip_partial` … -/
def exShell : Def :=
  { flavor := .shell, name := "Ex", executor := .str "echo",
    inputs := [mkArg .shell "alpha" [("type", tStr), ("default", .none), ("argstr", .str "--alpha={alpha}"),
                                     ("position", .int 2), ("help", .str "the first option"), ("sep", .str ",")],
               mkArg .shell "flag" [("type", .atom "type:<class 'bool'>"), ("default", .bool false),
                                    ("argstr", .str "-f"), ("position", .int (-1))],
               mkArg .shell "mode" [("type", .atom "type:<class 'str'>"), ("argstr", .str "-m"), ("position", .int 1),
                                    ("allowed_values", .strs ["d", "x", "y"])]],
    outputs := [], xor := [[some "alpha", some "flag", Option.none]] }

example : DefWF exShell ∧ SerOKDef exShell := by decide +kernel

/-- … and really loses attributes on the way to the dictionary (the filter is not the identity): -/
example : (unstructureField (argTable .shell) (mkArg .shell "flag" [("type", .atom "type:<class 'bool'>"),
            ("default", .bool false), ("argstr", .str "-f"), ("position", .int (-1))])).map Prod.fst
          = ["type", "default", "argstr", "position"] := by decide +kernel

/-- `shell.define` assigns the free slots in order to inputs without a position (slot 0 is the executable, `-1` is
    the last slot) -/
example : (assignPositions [mkArg .shell "p" [], mkArg .shell "q" [("position", .int 1)],
                            mkArg .shell "r" [("position", .int (-1))], mkArg .shell "s" []]).map
            (fun f => f.get "position") = [.int 2, .int 1, .int (-1), .int 3] := by decide +kernel

end PydraModel.Roundtrip
