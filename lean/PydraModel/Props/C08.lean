import PydraModel.Hash.Model
