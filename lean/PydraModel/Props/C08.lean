import PydraModel.Hash.Discriminate2
import PydraModel.Hash.LemmasMemo
import PydraModel.Hash.Sources
/-
C08 — Value hashing is deterministic, discriminating and context-free.

Property theorems only (models: `Hash/Model.lean`; lemmas: `Hash/Lemmas*.lean`, `Hash/OrderIndep.lean`,
`Hash/Discriminate*.lean`).  The digest function `H` is a parameter everywhere; the only assumption ever made about it is
that it returns 16 bytes (`digest_size=16`).

FULL STATEMENT (kept visible; NOT provable for the tree as it is): `def C08_full_statement` below — for ALL values: same
content ⇒ same hash; hashing inside any context = hashing alone.
Status on the current tree:
  * sets / frozensets: REPAIRED (D6, fix 847ae56e: elements ordered by their digests).  `C08_order_indep` needs nothing for
    sets any more; `C08_regression_set_of_sets` / `C08_regression_unorderable_set` are the former witnesses, now passing;
    `C08_old_sorted_by_value` documents what the OLD algorithm (`sortedByValue`) did to them;
  * dict keys / attribute names: REPAIRED (D68, fix e8ebe74c: items ordered by the byte representation of their keys).
    `sortable` is now mere well-formedness (the keys of one dict are pairwise different) — true of every Python value;
    `C08_regression_unorderable_keys` is the former witness, `C08_old_keys_sorted_by_value` documents the old order;
  * a back reference is answered with the one-byte placeholder (D66)  →  `C08_context_free` needs `UniqueIds`
    (tree / DAG values); witness `C08_witness_cycle`;
  * PEP 585 aliases: REPAIRED (D65, fix 4172742a), regression cases in the harness.  Lambdas lose their content before any
    byte was produced: REPAIRED (D67, fix 0b7c1de8: a function whose source statement is not its own `def` is hashed
    through its code object, `FuncBody.code`), regression cases in the harness.
-/
namespace PydraModel.Hash
open PydraModel.Gen

/-- the byte strings fed to `H` while `v` is hashed alone -/
def inputsOf (H : Bytes → Bytes) (v : PyVal) : List Bytes :=
  match pre v with
  | .ok p => Pre.inputs H p
  | .error _ => []

/-- hashing a sequence of values with ONE `Cache` (what `_compute_hashes` does with the field values) -/
def hashSeq (H : Bytes → Bytes) : List PyVal → Memo → Except Err (List Bytes)
  | [], _ => .ok []
  | v :: vs, m => do
    let r ← hashWith H v m
    let rest ← hashSeq H vs r.2
    pure (r.1 :: rest)

/-- every value hashed alone -/
def hashEachAlone (H : Bytes → Bytes) : List PyVal → Except Err (List Bytes)
  | [] => .ok []
  | v :: vs => do
    let h ← hashAlone H v
    let rest ← hashEachAlone H vs
    pure (h :: rest)

/-- The property at full strength (for reference; refuted for the current tree by the two witness theorems). -/
def C08_full_statement : Prop :=
  ∀ (H : Bytes → Bytes), (∀ x, (H x).length = 16) →
    (∀ v w, Equiv v w → ∃ h, hashAlone H v = .ok h ∧ hashAlone H w = .ok h)
    ∧ (∀ v (m : Memo) p, pre v = .ok p → (hashWith H v m).map (·.1) = hashAlone H v)

/-! ### order independence (deterministic function of type and content) -/

/-- `sorted` of a permutation is the same list, whenever `<` answers on all pairs of elements and is a strict
    total order on them (stated for the model of CPython's `list.sort` for fewer than 64 elements). -/
theorem C08_sorted_perm {α : Type} (lt : α → α → Except Err Bool) (ltb : α → α → Bool) (xs ys : List α)
    (hp : xs.Perm ys) (ha : AgreeOn lt ltb xs) (ht : TotalOn ltb xs) :
    pySorted lt xs = pySorted lt ys ∧ ∃ s, pySorted lt xs = .ok s ∧ s.Perm xs ∧ SortedB ltb s := by
  obtain ⟨h1, h2⟩ := pySorted_perm_eq lt ltb xs ys hp ha ht
  exact ⟨h1, _, h2, pySortedB_perm ltb xs, pySortedB_sorted ltb xs ht⟩

/-- Two values with the same type and content — whatever the iteration order of their sets, the insertion order of
    their dicts, the identity of their parts — get the same hash, and hashing them does not fail.  FULL for sets and
    frozensets (ordered by digest) and for dicts / objects (items ordered by the byte representation of their keys); the
    decidable hypothesis `sortable v` is well-formedness only: the keys of one dict are pairwise different. -/
theorem C08_order_indep (H : Bytes → Bytes) (v w : PyVal) (he : Equiv v w) (hs : sortable v = true) :
    ∃ h, hashAlone H v = .ok h ∧ hashAlone H w = .ok h := by
  obtain ⟨p, q, h1, h2, h3⟩ := order_indep_val H v w he hs
  refine ⟨evalPure H p, ?_, ?_⟩
  · simp [hashAlone, h1, Except.map]
  · simp [hashAlone, h2, Except.map, h3.evalPure_eq]

/-! ### discrimination (collision-extraction form) -/

/-- Equal hashes of two values of the grammar `G₀` (decidable `inG0`): the values have the same type and content,
    or two different byte strings among those fed to `H` while hashing them have the same digest. -/
theorem C08_discriminates (H : Bytes → Bytes) (hlen : ∀ x, (H x).length = 16) (v w : PyVal)
    (gv : inG0 v = true) (gw : inG0 w = true) (hv hw : Bytes)
    (h1 : hashAlone H v = .ok hv) (h2 : hashAlone H w = .ok hw) (he : hv = hw) :
    Equiv v w ∨ Collision H (inputsOf H v ++ inputsOf H w) := by
  unfold hashAlone at h1 h2
  cases hp : pre v with
  | error e => rw [hp] at h1; cases h1
  | ok p =>
    cases hq : pre w with
    | error e => rw [hq] at h2; cases h2
    | ok q =>
      rw [hp] at h1; rw [hq] at h2
      simp only [Except.map, Except.ok.injEq] at h1 h2
      have := disc_val H hlen v w p q gv gw hp hq (by rw [h1, h2, he])
      simpa [inputsOf, hp, hq] using this

/-- Dict keys are self-delimiting: the serialisation of a scalar key is a prefix code, so no key followed by
    `=`, a digest and `,` can be read as another key (unique parsing of mapping contents). -/
theorem C08_keys_self_delimiting {a b : Scalar} (ha : a.WF) (hb : b.WF) {r r' : Bytes}
    (h : encScalar a ++ r = encScalar b ++ r') : a = b ∧ r = r' := encScalar_prefix_code ha hb h

/-! ### context-freeness (transparency of the id-keyed memo) -/

/-- PARTIAL (hypothesis `UniqueIds W (pre v)`: live objects have unique ids and the value is a tree or DAG):
    `hash_single` started with ANY memo left behind by earlier hashing of such values returns the hash the value gets
    alone, and leaves such a memo behind. -/
theorem C08_context_free (H : Bytes → Bytes) (W : Nat → Option Pre) (v : PyVal) (p : Pre) (m : Memo)
    (hp : pre v = .ok p) (hu : UniqueIds W p) (hs : Sound H W [] m) :
    ∃ m', hashWith H v m = .ok (evalPure H p, m') ∧ hashAlone H v = .ok (evalPure H p) ∧ Sound H W [] m' := by
  obtain ⟨h1, h2⟩ := evalMemo_pure H W p [] m hu hs (by simp) (by simp)
  refine ⟨(evalMemo H p m).2, ?_, ?_, h2⟩
  · simp only [hashWith, hp, Except.map]
    rw [← h1]
  · simp [hashAlone, hp, Except.map]

/-- … hence a whole sequence of values hashed with one `Cache` gets exactly the hashes the values get alone. -/
theorem C08_context_free_seq (H : Bytes → Bytes) (W : Nat → Option Pre) :
    ∀ (vs : List PyVal) (m : Memo), Sound H W [] m → (∀ v ∈ vs, ∃ p, pre v = .ok p ∧ UniqueIds W p) →
      hashSeq H vs m = hashEachAlone H vs
  | [], _, _, _ => rfl
  | v :: vs, m, hs, hall => by
    obtain ⟨p, hp, hu⟩ := hall v (by simp)
    obtain ⟨m', h1, h2, h3⟩ := C08_context_free H W v p m hp hu hs
    have ih := C08_context_free_seq H W vs m' h3 (fun x hx => hall x (by simp [hx]))
    simp only [hashSeq, hashEachAlone, h1, h2, except_bind_ok, ih]

/-- `hash_function(v)` (fresh `Cache`) is the pure hash for tree / DAG values. -/
theorem C08_hashFunction_pure (H : Bytes → Bytes) (W : Nat → Option Pre) (v : PyVal) (p : Pre)
    (hp : pre v = .ok p) (hu : UniqueIds W p) : hashFunction H v = hashAlone H v := by
  obtain ⟨m', h1, h2, _⟩ := C08_context_free H W v p [] hp hu (by intro i d h; simp [Memo.find] at h)
  simp [hashFunction, h1, h2, Except.map]

/-! ### witnesses -/

def sA : PyVal := .set 2 true [.sc (.str [97]), .sc (.str [98])]     -- frozenset({'a', 'b'})
def sB : PyVal := .set 3 true [.sc (.str [99]), .sc (.str [100])]    -- frozenset({'c', 'd'})
/-- `frozenset({sA, sB})` iterated sA first / sB first (what PYTHONHASHSEED decides) -/
def d6a : PyVal := .set 1 true [sA, sB]
def d6b : PyVal := .set 1 true [sB, sA]

/-- REGRESSION (D6 repaired, fix 847ae56e): the two iteration orders of `{{'a','b'},{'c','d'}}` have the same content,
    are inside `sortable`, and get the same hash for EVERY digest function. -/
theorem C08_regression_set_of_sets (H : Bytes → Bytes) :
    Equiv d6a d6b ∧ sortable d6a = true ∧ ∃ h, hashAlone H d6a = .ok h ∧ hashAlone H d6b = .ok h := by
  have he : Equiv d6a d6b := by
    simp only [d6a, d6b, Equiv]
    refine ⟨trivial, [sA, sB], List.Perm.swap _ _ _, ?_⟩
    simp only [EquivList, sA, sB, Equiv]
    exact ⟨⟨trivial, _, List.Perm.refl _, by simp [EquivList, Equiv]⟩,
      ⟨trivial, _, List.Perm.refl _, by simp [EquivList, Equiv]⟩, trivial⟩
  exact ⟨he, by decide, C08_order_indep H d6a d6b he (by decide)⟩

/-- REGRESSION (D6 repaired): a set whose elements Python's `<` cannot compare (`{'a', None}`) is hashed without error. -/
theorem C08_regression_unorderable_set (H : Bytes → Bytes) :
    ∃ h, hashAlone H (.set 1 true [.sc (.str [97]), .sc .none]) = .ok h := ⟨_, rfl⟩

/-- DOCUMENTATION of the OLD algorithm (`sorted(obj)` on the values, before fix 847ae56e): it left both iteration orders
    of `{{'a','b'},{'c','d'}}` as they were (proper subset is only a partial order), so the digests were emitted in
    iteration order, i.e. in an order chosen by PYTHONHASHSEED; and it raised TypeError on `{'a', None}`. -/
theorem C08_old_sorted_by_value :
    sortedByValue [sA, sB] = .ok [sA, sB] ∧ sortedByValue [sB, sA] = .ok [sB, sA]
    ∧ sortedByValue [.sc (.str [97]), .sc .none] = .error .typeError := by
  refine ⟨rfl, rfl, rfl⟩

/-- REGRESSION (D68 repaired, fix e8ebe74c): a dict whose keys Python's `<` cannot compare (`{1: 2, 'a': 3}`) is hashed
    without error, in both insertion orders to the same value. -/
theorem C08_regression_unorderable_keys (H : Bytes → Bytes) :
    ∃ h, hashAlone H (.dict 1 [(.int 1, .sc (.int 2)), (.str [97], .sc (.int 3))]) = .ok h
      ∧ hashAlone H (.dict 2 [(.str [97], .sc (.int 3)), (.int 1, .sc (.int 2))]) = .ok h := by
  apply C08_order_indep H _ _ _ (by decide)
  simp only [Equiv]
  exact ⟨[(.int 1, .sc (.int 2)), (.str [97], .sc (.int 3))], List.Perm.swap _ _ _, by simp [EquivItems, Equiv]⟩

/-- DOCUMENTATION of the OLD key order (`sorted(mapping)` on the keys, before fix e8ebe74c): TypeError on `{1: …, 'a': …}`;
    and the NEW order is by representation, so `'b'` (`str:1:b`) now precedes `'aa'` (`str:2:aa`). -/
theorem C08_old_keys_sorted_by_value :
    sortedKeysByValue [.int 1, .str [97]] = .error .typeError
    ∧ (sortItems [(Scalar.str [97, 97], ()), (Scalar.str [98], ())]).map (·.1) = [.str [98], .str [97, 97]] := by
  exact ⟨rfl, by decide⟩

/-- `a = [b, 1]`, `b = [a]` seen from `a` (ids 1 and 2). -/
def cycA : PyVal := .seq 1 .list [.seq 2 .list [.ref 1], .sc (.int 1)]
/-- the same two objects seen from `b` -/
def cycB : PyVal := .seq 2 .list [.seq 1 .list [.ref 2, .sc (.int 1)]]

def listOpen : Bytes := seqOpenLit .list

/-- WITNESS (D66): `a` hashed after `b` with the same `Cache` is served from the memo with the digest it got while
    `b` was in progress — computed from the ONE-byte placeholder — whereas alone it is computed from `b`'s 16-byte
    digest: two different byte strings, so the two hashes of `a` agree only if `H` collides on them. -/
theorem C08_witness_cycle (H : Bytes → Bytes) (hlen : ∀ x, (H x).length = 16) :
    ∃ x y hb, x ≠ y ∧ hashSeq H [cycB, cycA] [] = .ok [hb, H x] ∧ hashFunction H cycA = .ok (H y) := by
  let one := H (encScalar (.int 1))
  refine ⟨listOpen ++ (HashLits.placeholder ++ (one ++ HashLits.seqClose)),
    listOpen ++ (H (listOpen ++ (HashLits.placeholder ++ HashLits.seqClose)) ++ (one ++ HashLits.seqClose)), _, ?_, rfl, rfl⟩
  intro h
  have h1 := List.append_cancel_left h
  have := congrArg List.length h1
  simp only [List.length_append, hlen] at this
  have hp : HashLits.placeholder.length = 1 := by decide
  omega

/-! ### mapping keys are serialised without any memo -/

/-- The byte representation of a mapping key is a function of the key ALONE: `bytes_repr_mapping_contents` emits
    `b"".join(bytes_repr(key))`, which for the scalar keys of the model is the literal `encScalar key`; evaluating it
    leaves every `Cache` state untouched and does not depend on it. -/
theorem C08_key_repr_memo_free (H : Bytes → Bytes) (k : Scalar) (m : Memo) :
    evalMemo H (lit (encScalar k)) m = (encScalar k, m) := rfl

/-- More generally the id-keyed memo only concerns compound nodes WITH an identity: a value all of whose nodes are
    untracked (`id = 0`: scalars, keys, arrays, inline types, …) gets its alone-hash from `hash_single` whatever the memo
    contains — no `UniqueIds`, no soundness assumption — and leaves the memo as it was. -/
theorem C08_untracked_memo_free (H : Bytes → Bytes) (v : PyVal) (p : Pre) (m : Memo)
    (hp : pre v = .ok p) (hu : Pre.untracked p = true) :
    hashWith H v m = .ok (evalPure H p, m) ∧ hashAlone H v = .ok (evalPure H p) := by
  refine ⟨?_, by simp [hashAlone, hp, Except.map]⟩
  simp only [hashWith, hp, Except.map, evalMemo_untracked H p m hu]

/-! #### documentation variant: a key memo keyed by the key's VALUE -/

/-- Python's `==` on the scalars that can be dict keys, as far as the witness needs it: `1 == True`, `0 == False` -/
def pyEqScalar : Scalar → Scalar → Bool
  | .int a, .int b => a == b
  | .int a, .bool b => a == boolInt b
  | .bool a, .int b => boolInt a == b
  | .bool a, .bool b => a == b
  | a, b => a == b

/-- `Cache._key_reprs` of the variant: key value → bytes of the first key that compared equal -/
abbrev KeyMemo := List (Scalar × Bytes)

def keyReprValueMemo (km : KeyMemo) (k : Scalar) : Bytes × KeyMemo :=
  match km.find? (fun e => pyEqScalar e.1 k) with
  | some e => (e.2, km)
  | none => (encScalar k, (k, encScalar k) :: km)

/-- mapping contents (given the digests of the values) with the value-keyed key memo -/
def mapBytesValueMemo : KeyMemo → List (Scalar × Bytes) → Bytes × KeyMemo
  | km, [] => ([], km)
  | km, (k, d) :: rest =>
    let r := keyReprValueMemo km k
    let rs := mapBytesValueMemo r.2 rest
    (r.1 ++ HashLits.mapEq ++ d ++ HashLits.mapSep ++ rs.1, rs.2)

/-- DOCUMENTATION WITNESS: with a key memo keyed by VALUE, the contents of `{True: v}` serialised after those of `{1: v}`
    with the same `Cache` are the bytes of `{1: v}` — not what `{True: v}` gives alone (context-freeness broken), and
    indistinguishable from a second `{1: v}` (discrimination broken: `[{1: v}, {True: v}]` hashes like `[{1: v}, {1: v}]` for
    every digest function); started with the other mapping, the result is the other way round (order dependent).  The live
    serialiser and the model use no such memo (`C08_key_repr_memo_free`); the harness generates such siblings. -/
theorem C08_witness_value_keyed_key_memo (d : Bytes) :
    let first := mapBytesValueMemo [] [(.int 1, d)]
    (mapBytesValueMemo first.2 [(.bool true, d)]).1 = mapBytes [(.int 1, d)]
    ∧ (mapBytesValueMemo [] [(.bool true, d)]).1 = mapBytes [(.bool true, d)]
    ∧ mapBytes [(.bool true, d)] ≠ mapBytes [(.int 1, d)]
    ∧ (mapBytesValueMemo (mapBytesValueMemo [] [(.bool true, d)]).2 [(.int 1, d)]).1 = mapBytes [(.bool true, d)] := by
  refine ⟨rfl, rfl, ?_, rfl⟩
  intro h
  have := congrArg (fun l => l.head?) h
  simp only [mapBytes, List.append_assoc] at this
  have e1 : (encScalar (.bool true) ++ (HashLits.mapEq ++ (d ++ (HashLits.mapSep ++ [])))).head? = some 84 := rfl
  have e2 : (encScalar (.int 1) ++ (HashLits.mapEq ++ (d ++ (HashLits.mapSep ++ [])))).head? = some 105 := rfl
  rw [e1, e2] at this
  cases this

/-! ### documentation: a layout-dependent array serialiser -/

/-- An array as it lies in memory: `logical` = its elements in index (row-major) order — what the model's `ndarray`
    carries and what `tobytes(order="C")` yields whatever the layout —, `raw` = its memory buffer, what a layout-dependent
    serialisation such as `tobytes(order="A")` or a chunked `ravel(order="K")` would feed to the hash. -/
structure ArrMem where
  dtype : Bytes
  shape : Bytes
  logical : Bytes
  raw : Bytes

def ArrMem.value (a : ArrMem) : PyVal := .ndarray (ascii "numpyndarray") a.dtype a.shape a.logical
/-- the hash under the layout-dependent serialisation: same prefix, data = raw buffer -/
def hashRawBuffer (H : Bytes → Bytes) (a : ArrMem) : Except Err Bytes :=
  hashAlone H (.ndarray (ascii "numpyndarray") a.dtype a.shape a.raw)

/-- `a = [[0,1],[2,3]]` (uint8), C-contiguous -/
def arrC : ArrMem := ⟨ascii "uint8", ascii "(2, 2)", [0, 1, 2, 3], [0, 1, 2, 3]⟩
/-- the same array stored Fortran-contiguous (`np.asfortranarray(a)`) -/
def arrF : ArrMem := ⟨ascii "uint8", ascii "(2, 2)", [0, 1, 2, 3], [0, 2, 1, 3]⟩
/-- `a.T = [[0,2],[1,3]]` as a transposed view of `a`: another array over the SAME buffer -/
def arrT : ArrMem := ⟨ascii "uint8", ascii "(2, 2)", [0, 2, 1, 3], [0, 1, 2, 3]⟩

/-- DOCUMENTATION WITNESS: hashing the raw buffer instead of the logical bytes violates both halves of C08 —
    (order/layout independence) `arrC` and `arrF` are the same array (`≃`, and the model hashes them equally) but the raw-buffer
    hash feeds `H` two different byte strings;  (discrimination) `arrC` and `arrT` are different arrays of the grammar `G₀`
    (so by `C08_discriminates` the model's hashes differ unless `H` collides) but their raw-buffer hashes are EQUAL for every
    digest function.  The live serialiser (`tobytes(order="C")`) is the model's `logical`; the harness generates every layout. -/
theorem C08_witness_layout_dependent_serialisation (H : Bytes → Bytes) :
    (Equiv arrC.value arrF.value ∧ hashAlone H arrC.value = hashAlone H arrF.value
      ∧ ∃ x y, x ≠ y ∧ hashRawBuffer H arrC = .ok (H x) ∧ hashRawBuffer H arrF = .ok (H y))
    ∧ (¬ Equiv arrC.value arrT.value ∧ inG0 arrC.value = true ∧ inG0 arrT.value = true
      ∧ hashRawBuffer H arrC = hashRawBuffer H arrT) := by
  refine ⟨⟨by simp [ArrMem.value, arrC, arrF, Equiv], rfl, _, _, ?_, rfl, rfl⟩,
    ⟨by simp [ArrMem.value, arrC, arrT, Equiv], by decide, by decide, rfl⟩⟩
  intro h
  simp only [evalPureList, evalPure, lit] at h
  revert h
  decide

/-! ### non-vacuity -/

/-- a dict with str keys holding a set of ints and a tuple: inside `sortable` and `G₀` -/
def exVal : PyVal :=
  .dict 1 [(.str [98], .set 2 false [.sc (.int 3), .sc (.int 1), .sc (.int 2)]),
           (.str [97], .seq 3 .tuple [.sc (.float 0), .sc .none])]
/-- the same content: other insertion order, other iteration order, other identities -/
def exVal' : PyVal :=
  .dict 7 [(.str [97], .seq 8 .tuple [.sc (.float 0), .sc .none]),
           (.str [98], .set 9 false [.sc (.int 2), .sc (.int 3), .sc (.int 1)])]

example : sortable exVal = true := by decide
example : inG0 exVal = true ∧ inG0 exVal' = true := by decide
example : Equiv exVal exVal' := by
  simp only [exVal, exVal', Equiv]
  refine ⟨[(.str [98], .set 9 false [.sc (.int 2), .sc (.int 3), .sc (.int 1)]),
           (.str [97], .seq 8 .tuple [.sc (.float 0), .sc .none])], List.Perm.swap _ _ _, ?_⟩
  simp only [EquivItems, Equiv, EquivList, and_true, true_and]
  refine ⟨[.sc (.int 3), .sc (.int 1), .sc (.int 2)], ?_, by simp [EquivList, Equiv]⟩
  exact ((List.Perm.swap _ _ _).cons _).trans (List.Perm.swap _ _ _)

/-- a DAG: the list `s` (id 2) occurs twice inside the tuple (id 1) -/
def exDag : PyVal := .seq 1 .tuple [.seq 2 .list [.sc (.int 1)], .seq 2 .list [.sc (.int 1)]]
def exS : Pre := .node 2 [lit (seqOpenLit .list), .node 0 [lit (encScalar (.int 1))], lit (seqCloseLit .list)]
def exP : Pre := .node 1 [lit (seqOpenLit .tuple), exS, exS, lit (seqCloseLit .tuple)]
def exW : Nat → Option Pre := fun i => if i = 1 then some exP else if i = 2 then some exS else none

example : pre exDag = .ok exP ∧ UniqueIds exW exP := by
  refine ⟨rfl, ?_⟩
  simp [UniqueIds, UniqueIdsList, exW, exP, exS, lit]

/-- the scalar heads table is what the source says today (regenerated tie) -/
example : headOfIdx 7 = HashLits.strTag := rfl

end PydraModel.Hash
