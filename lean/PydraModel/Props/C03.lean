import PydraModel.WfState.LemmasRoute
import PydraModel.WfState.LemmasHist
import PydraModel.WfState.Class
import PydraModel.WfState.Whole
/-
C03 — Workflow state propagation matches a nested-loop reference evaluation.   (LAYERED / PARTIAL, DESIGN §6 C03)

`Spec.run`  : the independent nested-loop interpreter with origin-tagged axes (WfState/Spec.lean).
`Model.run` : the code's mechanism — state history, splitter trees, index products, index dictionaries
              (WfState/Model.lean); it reproduces the pinned tree's defects.

What is PROVED here (all unbounded: any number of upstream states, any axis sizes):
  * `C03_routing`         mixed-radix theorem: the per-upstream index the code computes by enumerating the outer product
                          `[_U1, …, _Uk]` row-major is the position, in `Ui`'s own enumeration, of the job's coordinates
                          restricted to `Ui`'s axes.
  * `C03_job_enumeration` the spec's job `j` (point `j` of the merged axes) has the div-mod digits of `j` as coordinates;
                          number of jobs = product of all axis sizes.
  * `C03_fanin_disjoint`  for a node whose upstream final states have pairwise disjoint, duplicate-free axes and are
                          connected through one field each: the index the model's `inputs_ind` dictionary holds for the
                          field connected to `Ui` at job `j` = the index the spec's `lookupUp` uses for `Ui` at job `j`.
    `C03_chain`           the same for a single upstream (chain).
  * `C03_history_noop`    `_add_state_history` changes nothing when no previous state's history meets a directly
                          connected root state (the situation of `NoSharedOrigin`).
  * `C03_group_test`      (WfState/LemmasRoute.lean) with duplicate-free keys, the code's selection of a combiner group by
                          dictionary inclusion = the reference's selection by restricting the job's coordinates.
  * witnesses (kernel evaluation of both interpreters): diamond (D2), descendant (D31), second-pass TypeError (D30),
    partial zip combiner (D29), all-previous-axes combiner (D37), later upstream through two fields (D38), node name
    contained in a foreign combiner key (D39).  `C03_witness_key_order` documents the key bookkeeping of D46 (fixed).
  * `C03_workflow_Simple_partial`   THE WORKFLOW-LEVEL STATEMENT ON THE CLASS `Simple` (WfState/Simple.lean; proof in
                          WfState/Whole*.lean): any number of nodes, any wiring (chains, fan-ins, fan-outs into separate
                          branches), own splitters absent / over one field / OUTER over two fields, any list lengths ≥ 1,
                          NO combiner, no scalar splitter, and `NoSharedOrigin` in the form "the connected upstream states
                          and the own splitter have pairwise disjoint, duplicate-free axes; each upstream state feeds one
                          field; no connected upstream state is fed by another connected one".  For every such workflow the
                          whole model — both construction passes (`_connect_splitters`, `_add_state_history`,
                          `_complete_prev_state`, the second pass of `_create_graph`), `set_input_groups`,
                          `prepare_states_ind/inputs`, `_split_task`, `LazyOutField._get_value` — and the nested-loop
                          reference succeed with the same outputs, the same job counts and the same job outputs per node.
    `C03_complete_prev_state_first/_again`  the helper characterisations of `_complete_prev_state` (`_remove_repeated` +
                          `_add_state_history`) the composition uses: identity on the class, at construction and at every
                          later `_create_graph`.
What is NOT proved: `C03_full_statement` (false: `C03_full_statement_false`), and the workflow-level statement for the rest
of `InClass` (combiners, scalar splitters, shared origins that the mechanism happens to handle) — there the composition
is compared by the correspondence check on every generated workflow and reported as testing.
-/
namespace PydraModel.WfState
open Model

/-- MIXED-RADIX ROUTING.  `ss[i]` = axis sizes of upstream `Ui`'s final state.  Take any job number `j` of the outer
    product.  Its coordinates over all axes are the digits of `j` over the flat radices; cut them into the upstreams'
    blocks and re-encode block `i` over `Ui`'s radices: this is digit `i` of `j` over the radices `|U1|, …, |Uk|` —
    exactly the index `range(len(st.states_ind_final))` contributes in `State.prepare_inputs`. -/
theorem C03_routing (ss : List (List Nat)) (j : Nat) (hj : j < prodL ss.flatten) :
    List.zipWith encode ss (splitBlocks (ss.map List.length) (decode ss.flatten j)) = decode (ss.map prodL) j :=
  decode_blocks ss j hj

/-- The spec enumerates one job per point, row-major; job `j` has the mixed-radix digits of `j` as coordinates. -/
theorem C03_job_enumeration (sizes : List Nat) :
    (rowMajor sizes).length = prodL sizes ∧
    ∀ j, j < prodL sizes → (rowMajor sizes)[j]? = some (decode sizes j) :=
  ⟨length_rowMajor sizes, fun j hj => rowMajor_getElem? sizes j hj⟩

/-- The code's enumeration `itertools.product(*blocks)` (any blocks): element `j` is selected block-wise by the digits of `j`. -/
theorem C03_product_enumeration {α : Type} [Inhabited α] (blocks : List (List α)) :
    (cart blocks).length = prodL (blocks.map List.length) ∧
    ∀ j, j < prodL (blocks.map List.length) →
      (cart blocks)[j]? = some (pick blocks (decode (blocks.map List.length) j)) :=
  ⟨length_cart blocks, fun j hj => cart_getElem? blocks j hj⟩

/-- FAN-IN FROM DISJOINT ORIGINS (node level).
    `ups[i]` = final axes (origin-tagged key, size) of upstream `Ui`, connected to field `fs[i]`; the node may have an own
    splitter (`own` = the model's enumeration of it and its keys; `ownAxes` = the spec's axes for it).
    Hypothesis `hdisj` is `NoSharedOrigin` at this node: the merged axis list has no duplicate.
    Conclusion: at every job `j`, for every upstream `m`, the model's `inputs_ind[j]["<node>.<field m>"]` equals the index
    at which `Spec.lookupUp` reads `Um`'s value for the spec's job `j`. -/
theorem C03_fanin_disjoint (name : Name) (ups : List (List (Key × Nat))) (fs : List Fld)
    (ownAxes : List (Key × Nat)) (own : Option (List (List Nat) × List Key))
    (hlen : fs.length = ups.length) (hfs : fs.Nodup)
    (hdisj : ((ups.map (·.map (·.1))).flatten ++ ownAxes.map (·.1)).Nodup)
    (hown : ownLen own = prodL (ownAxes.map (·.2)))
    (hk : ∀ e k, own = some (e, k) → ∀ f ∈ fs, (name, f) ∉ k)
    (j : Nat) (hj : j < prodL ((ups.flatten ++ ownAxes).map (·.2))) (m : Nat) (hm : m < ups.length) :
    ((inputsIndOf name (List.zipWith (fun a f => (prodL (a.map (·.2)), [f])) ups fs) own)[j]?).bind
        (fun d => d.get? (name, fs[m]'(hlen ▸ hm)))
      = ((rowMajor ((ups.flatten ++ ownAxes).map (·.2)))[j]?).map fun c =>
          encode (ups[m].map (·.2)) (ups[m].map fun a => Spec.coordOf ((ups.flatten ++ ownAxes).map (·.1)) c a.1) :=
  fanin_disjoint name ups fs ownAxes own hlen hfs hdisj hown hk j hj m hm

/-- CHAIN: one upstream state `up` feeding field `f` of a node (with or without an own splitter). -/
theorem C03_chain (name : Name) (up : List (Key × Nat)) (f : Fld)
    (ownAxes : List (Key × Nat)) (own : Option (List (List Nat) × List Key))
    (hdisj : (up.map (·.1) ++ ownAxes.map (·.1)).Nodup)
    (hown : ownLen own = prodL (ownAxes.map (·.2)))
    (hk : ∀ e k, own = some (e, k) → (name, f) ∉ k)
    (j : Nat) (hj : j < prodL ((up ++ ownAxes).map (·.2))) :
    ((inputsIndOf name [(prodL (up.map (·.2)), [f])] own)[j]?).bind (fun d => d.get? (name, f))
      = ((rowMajor ((up ++ ownAxes).map (·.2)))[j]?).map fun c =>
          encode (up.map (·.2)) (up.map fun a => Spec.coordOf ((up ++ ownAxes).map (·.1)) c a.1) := by
  have := C03_fanin_disjoint name [up] [f] ownAxes own rfl (by simp) (by simpa using hdisj) hown
    (by intro e k he g hg; simp at hg; subst hg; exact hk e k he) j (by simpa using hj) 0 (by simp)
  simpa using this

end PydraModel.WfState

namespace PydraModel.WfState
open Model

/-! ### helper characterisation: `_add_state_history` -/

/-- EXACT BEHAVIOUR OF `_add_state_history` IN THE CLASS: when no previous state that has connections of its own lists a
    directly connected root state in its prev-state part, the list of previous states and `other_states` are returned
    unchanged.  (`NoSharedOrigin` implies the hypothesis: such a root would be a common origin.) -/
theorem C03_history_noop (infos : List UpInfo) (other : Other) (prev : List Name)
    (h : ∀ i ∈ infos, i.hasOther = true → ∀ r ∈ i.prev, r ∉ rootsOf infos) :
    historyCore infos other prev = .ok (other, prev) :=
  historyCore_noop infos other prev h

/-- Non-vacuity: fan-in from two independent root states satisfies the hypothesis. -/
example : historyCore [⟨0, false, true, []⟩, ⟨1, false, true, []⟩] [(0, [.x]), (1, [.y])] [0, 1]
    = .ok ([(0, [.x]), (1, [.y])], [0, 1]) :=
  C03_history_noop _ _ _ (by intro i hi ho; simp at hi; rcases hi with rfl | rfl <;> simp at ho)

/-- … and the triangle (`B = f(A)`, node fed by `A` and `B`) violates it: the history is rewritten (`_B` removed,
    field of `B` zipped onto `A`). -/
example : historyCore [⟨0, false, true, []⟩, ⟨1, true, false, [0]⟩] [(0, [.x]), (1, [.y])] [0, 1]
    = .ok ([(0, [.x, .y]), (1, [.y])], [0]) := rfl

/-! ### witnesses: the model of the code differs from the reference -/

/-- Shape of one input as it arrived in a job: 1 = one upstream output (`[tag, …]`), 2 = a list of them, 3 = an empty
    list, 0 = anything else (constant, element of a split list, `None`).  (Not recursive: cheap in the kernel.) -/
def Val.shape : Val → Nat
  | .list (.tag _ :: _) => 1
  | .list (.list _ :: _) => 2
  | .list [] => 3
  | _ => 0

/-- Shapes of the inputs x, y, z of every job in a workflow output (a list of job outputs `[tag, x, y, z, u, v]`). -/
def Val.jobShapes : Val → List (List Nat)
  | .list jobs => jobs.map fun j => match j with
    | .list [_, x, y, z, _, _] => [x.shape, y.shape, z.shape]
    | _ => []
  | _ => []

/-- A decidable summary of an outcome: per-node job counts and the input shapes seen by the jobs of the workflow outputs, or the exception. -/
inductive Summary
  | ok (jobs : List (Name × Nat)) (outShapes : List (List (List Nat)))
  | crash (c : Crash)
  | other
  deriving DecidableEq, Repr

def modelSummary (w : Wf) : Summary :=
  match Model.run w with
  | .ok r => .ok r.jobs (r.outs.map Val.jobShapes)
  | .error (.crash c) => .crash c
  | .error _ => .other

def specSummary (w : Wf) : Summary :=
  match Spec.run w with
  | .ok r => .ok r.jobs (r.outs.map Val.jobShapes)
  | .error _ => .other

/-- Model and spec produce the same observable result. -/
def Agrees (w : Wf) : Prop :=
  ∃ m s, Model.run w = .ok m ∧ Spec.run w = .ok s ∧ m.outs = s.outs ∧ m.jobs = s.jobs

theorem Agrees.summary {w : Wf} (h : Agrees w) : modelSummary w = specSummary w := by
  obtain ⟨m, s, hm, hs, ho, hj⟩ := h
  simp [modelSummary, specSummary, hm, hs, ho, hj]

private def nd (name : Name) (x y z : Src) (split : Split := .no) (comb : List Key := []) : Node :=
  { name := name, x := x, y := y, z := z, split := split, comb := comb }
private def l3 : Src := .lst [.int 1, .int 2, .int 3]
private def l2 : Src := .lst [.int 7, .int 8]

/-- D2: `A(split) → B`, `A → C`, `(B, C) → D`. -/
def diamond : Wf :=
  { nodes := [nd 0 l3 .none .none (.single .x), nd 1 (.up 0) .none .none, nd 2 (.up 0) .none .none,
              nd 3 (.up 1) (.up 2) .none], outs := [3] }

/-- WITNESS D2 (diamond): the model of the code's merge runs `|A|² = 9` jobs of `D`, the reference `|A| = 3`. -/
theorem C03_witness_diamond :
    modelSummary diamond = .ok [(0, 3), (1, 3), (2, 3), (3, 9)] [[[1, 1, 0], [1, 1, 0], [1, 1, 0], [1, 1, 0], [1, 1, 0], [1, 1, 0], [1, 1, 0], [1, 1, 0], [1, 1, 0]]] ∧
    specSummary diamond = .ok [(0, 3), (1, 3), (2, 3), (3, 3)] [[[1, 1, 0], [1, 1, 0], [1, 1, 0]]] ∧
    Class.wellFormed diamond = true ∧ Class.noSharedOrigin diamond = false := by decide +kernel

/-- The triangle `A → B`, `(A, B) → D` is aligned correctly by the code's special case. -/
def triangle : Wf :=
  { nodes := [nd 0 l3 .none .none (.single .x), nd 1 (.up 0) .none .none, nd 2 (.up 0) (.up 1) .none], outs := [2] }

theorem C03_triangle_agrees : modelSummary triangle = specSummary triangle := by decide +kernel

/-- D31: `A(split)`, `V = f(A)` with an own splitter, `N(x = A, y = V)`: `N.x` is the whole list of `A`'s outputs. -/
def descendant : Wf :=
  { nodes := [nd 0 l3 .none .none (.single .x), nd 1 (.up 0) l2 .none (.single .y), nd 2 (.up 0) (.up 1) .none],
    outs := [2] }

theorem C03_witness_descendant :
    modelSummary descendant = .ok [(0, 3), (1, 6), (2, 6)] [[[2, 1, 0], [2, 1, 0], [2, 1, 0], [2, 1, 0], [2, 1, 0], [2, 1, 0]]] ∧
    specSummary descendant = .ok [(0, 3), (1, 6), (2, 6)] [[[1, 1, 0], [1, 1, 0], [1, 1, 0], [1, 1, 0], [1, 1, 0], [1, 1, 0]]] := by decide +kernel

/-- D30: `N2(x = N0, y = N1)`, `N3(x = N2, y = N0)` with `N0`, `N1` split: `TypeError` when `_create_graph`
    re-applies `update_connections`. -/
def rewired : Wf :=
  { nodes := [nd 0 l3 .none .none (.single .x), nd 1 l2 .none .none (.single .x), nd 2 (.up 0) (.up 1) .none,
              nd 3 (.up 2) (.up 0) .none], outs := [3] }

theorem C03_witness_rewired :
    modelSummary rewired = .crash .typeError ∧
    specSummary rewired = .ok [(0, 3), (1, 2), (2, 6), (3, 6)] [[[1, 1, 0], [1, 1, 0], [1, 1, 0], [1, 1, 0], [1, 1, 0], [1, 1, 0]]] := by decide +kernel

/-- D29: inner split over `(x, y)`, only `x` combined, output consumed by another node. -/
def partialZip : Wf :=
  { nodes := [nd 0 l2 (.lst [.int 10, .int 20]) .none (.inner .x .y) [(0, .x)], nd 1 (.up 0) .none .none], outs := [1] }

theorem C03_witness_partial_zip :
    modelSummary partialZip = .crash .attributeError ∧
    specSummary partialZip = .ok [(0, 2), (1, 1)] [[[], [], [], [], [], []]] := by decide +kernel

/-- D37: a node with an own splitter whose combiner removes every inherited axis. -/
def combAllPrev : Wf :=
  { nodes := [nd 0 l3 .none .none (.single .x), nd 1 (.up 0) l2 .none (.single .y) [(0, .x)]], outs := [1] }

theorem C03_witness_comb_all_prev :
    modelSummary combAllPrev = .crash .valueError ∧
    specSummary combAllPrev = .ok [(0, 3), (1, 6)] [[[], []]] := by decide +kernel

/-- D38: the second upstream state feeds two fields: the second field receives the whole list
    (input shape 2 = a list of upstream outputs, where the reference has shape 1 = one upstream output). -/
def laterMulti : Wf :=
  { nodes := [nd 0 l2 .none .none (.single .x), nd 1 l3 .none .none (.single .x), nd 2 (.up 0) (.up 1) (.up 1)],
    outs := [2] }

theorem C03_witness_later_multi :
    modelSummary laterMulti = .ok [(0, 2), (1, 3), (2, 6)] [[[1, 1, 2], [1, 1, 2], [1, 1, 2], [1, 1, 2], [1, 1, 2], [1, 1, 2]]] ∧
    specSummary laterMulti = .ok [(0, 2), (1, 3), (2, 6)] [[[1, 1, 1], [1, 1, 1], [1, 1, 1], [1, 1, 1], [1, 1, 1], [1, 1, 1]]] ∧
    Class.noSharedOrigin laterMulti = true := by decide +kernel

/-- D39: the second node is *named* `x`, a substring of the upstream key `a.x` it combines: `State.current_combiner`
    (`self.name in comb`) takes the inherited axis for the node's own (`ownCombOverride`, computed from the real strings by the
    driver). -/
def nameClashWf : Wf :=
  { nodes := [nd 0 l3 .none .none (.single .x),
              { nd 1 (.up 0) .none .none .no [(0, .x)] with ownCombOverride := some [(0, .x)] }], outs := [1] }

/-- WITNESS D39: the output is a list of three one-element groups (no job output at the top level: shapes `[]`) where the
    reference has one flat list of the three job outputs. -/
theorem C03_witness_name_clash :
    modelSummary nameClashWf = .ok [(0, 3), (1, 3)] [[[], [], []]] ∧
    specSummary nameClashWf = .ok [(0, 3), (1, 3)] [[[1, 0, 0], [1, 0, 0], [1, 0, 0]]] ∧
    (Class.flags nameClashWf).nameClash = true := by decide +kernel

/-- D46 (FIXED in /repo 932a47fa): `p` (two own axes) and `q` (one inherited axis + two own axes) feed `n`, which combines
    its own splitter. -/
def keyOrderWf : Wf :=
  { nodes := [nd 0 l2 .none .none (.single .x),
              nd 1 (.lst [.int 7]) (.lst [.int 8]) .none (.outer .x .y),
              nd 2 (.lst [.int 5]) (.lst [.int 6]) (.up 0) (.outer .x .y),
              nd 3 (.up 1) (.up 2) (.lst [.int 9]) (.single .z) [(3, .z)]], outs := [3] }

/-- What is left of node 3's splitter after its combiner: `((1.x, 1.y), (0.x, (2.x, 2.y)))`. -/
def keyOrderTree : Tree :=
  .outer (.outer (.leaf (1, .x)) (.leaf (1, .y))) (.outer (.leaf (0, .x)) (.outer (.leaf (2, .x)) (.leaf (2, .y))))

/-- D46, documentation: on this splitter the OLD key bookkeeping of `State.splits` (`Tree.splitsKeys`:
    `keys = new_keys_L + keys`) put `0.x` in front of everything, while the index tuples — and the fixed bookkeeping
    (`keys = keys_L + keys_R` = `Tree.leaves`) — are in nesting order; with the fix the model of the code agrees with the
    reference on the workflow (two jobs of node 3), which is inside the class again. -/
theorem C03_witness_key_order :
    keyOrderTree.splitsKeys = [(0, .x), (1, .x), (1, .y), (2, .x), (2, .y)] ∧
    keyOrderTree.leaves = [(1, .x), (1, .y), (0, .x), (2, .x), (2, .y)] ∧
    modelSummary keyOrderWf = specSummary keyOrderWf ∧
    specSummary keyOrderWf = .ok [(0, 2), (1, 1), (2, 2), (3, 2)] [[[], []]] ∧
    (Class.flags keyOrderWf).keyOrder = true ∧ Class.inClass keyOrderWf = true := by decide +kernel

/-- The FULL statement of C03 for the model of the code: every well-formed workflow evaluates as the nested-loop
    reference says.  NOT claimed — it is false for the pinned tree (next theorem). -/
def C03_full_statement : Prop := ∀ w : Wf, Class.wellFormed w = true → Agrees w

theorem C03_full_statement_false : ¬ C03_full_statement := by
  intro h
  have ha := (h diamond C03_witness_diamond.2.2.1).summary
  rw [C03_witness_diamond.1, C03_witness_diamond.2.1] at ha
  exact absurd ha (by decide)

/-- Even restricted to workflows without shared origins the full statement fails (D38). -/
theorem C03_no_shared_origin_not_enough :
    ¬ (∀ w : Wf, Class.wellFormed w = true → Class.noSharedOrigin w = true → Agrees w) := by
  intro h
  have hw : Class.wellFormed laterMulti = true := by decide +kernel
  have ha := (h laterMulti hw C03_witness_later_multi.2.2).summary
  rw [C03_witness_later_multi.1, C03_witness_later_multi.2.1] at ha
  exact absurd ha (by decide)

/-! ### workflows used by C30's repeated-run witnesses (Props/C30.lean) -/

/-- D29 on a second run: `N0` zipped over (x, y) and combined over x only, `N1` split, `N2` fed by both. -/
def rerunPartialZip : Wf :=
  { nodes := [nd 0 l2 (.lst [.int 10, .int 20]) .none (.inner .x .y) [(0, .x)],
              nd 1 l3 .none .none (.single .x),
              nd 2 (.up 0) (.up 1) .none], outs := [2] }

/-- D39 on a second run: node 1's NAME is contained in the key of node 0's second axis, which node 1 combines. -/
def rerunNameClash : Wf :=
  { nodes := [nd 0 l2 .none (.lst [.int 7]) (.outer .x .z) [(0, .x)],
              { nd 1 (.up 0) .none .none .no [(0, .z)] with ownCombOverride := some [(0, .z)] },
              nd 2 (.up 1) .none .none], outs := [2] }

/-- A decidable summary of any outcome of the model. -/
def summaryOf (r : M Result) : Summary :=
  match r with
  | .ok r => .ok r.jobs (r.outs.map Val.jobShapes)
  | .error (.crash c) => .crash c
  | .error _ => .other

/-- Summaries of two consecutive runs over the same node/state objects (`none`: the first run failed). -/
def rerunSummary (w : Wf) : Option (Summary × Summary) :=
  match Model.runTwice w with
  | .ok (r1, r2) => some (summaryOf (.ok r1), summaryOf r2)
  | .error _ => none

/-! ### the workflow-level statement on the class `Simple` -/

/-- `Agrees` plus equality of every node's list of job outputs. -/
def AgreesJobwise (w : Wf) : Prop :=
  ∃ m s, Model.run w = .ok m ∧ Spec.run w = .ok s ∧ m.outs = s.outs ∧ m.jobs = s.jobs ∧ m.jobOuts = s.jobOuts

theorem AgreesJobwise.agrees {w : Wf} (h : AgreesJobwise w) : Agrees w := by
  obtain ⟨m, s, hm, hs, ho, hj, _⟩ := h
  exact ⟨m, s, hm, hs, ho, hj⟩

/-- **C03 on the class `Simple` (PARTIAL: the class excludes combiners, scalar splitters and shared origins).**
    For every workflow accepted by the decidable predicate `Simple.simple`, the model of pydra's state mechanism and the
    nested-loop reference both succeed, with equal workflow outputs, equal job counts and equal job outputs per node. -/
theorem C03_workflow_Simple_partial (w : Wf) (h : Simple.simple w = true) : AgreesJobwise w :=
  Simple.simple_agrees w h

/-- `_complete_prev_state` at construction (`Node._set_state`, no prev-state part yet), characterised on the class: with
    the state objects of the earlier nodes plain (`InvA`) and no connected state's history meeting another connected state,
    `_remove_repeated` and `_add_state_history` change nothing — the prev-state splitter is the list of ALL connected
    states in connection order. -/
theorem C03_complete_prev_state_first (E : Simple.Env) (sts : Sts) (n : Nat) (hI : Simple.InvA E sts n) (s : St) (other : Other)
    (hs : s.prev = [])
    (hprev : ∀ u ∈ other.map (·.1), u < n ∧ E.axes u ≠ [])
    (hhist : ∀ u ∈ other.map (·.1), ∀ r ∈ E.sups u, r ∉ other.map (·.1)) :
    connect sts s other = .ok (setTrees sts { s with other := other, prev := other.map (·.1) }) :=
  Simple.connect_first E sts n hI s other hs hprev hhist

/-- `_complete_prev_state` when `Workflow._create_graph` re-applies `update_connections` (on every run): the prev-state part
    is already complete, nothing is added, `_remove_repeated` finds every `_U` among the connected states, the history
    rewriting is the identity. -/
theorem C03_complete_prev_state_again (E : Simple.Env) (sts : Sts) (n : Nat) (hI : Simple.InvA E sts n) (s : St) (other : Other)
    (hs : s.prev = other.map (·.1)) (hne : other ≠ [])
    (hprev : ∀ u ∈ other.map (·.1), u < n ∧ E.axes u ≠ [])
    (hhist : ∀ u ∈ other.map (·.1), ∀ r ∈ E.sups u, r ∉ other.map (·.1)) :
    connect sts s other = .ok (setTrees sts { s with other := other }) :=
  Simple.connect_second E sts n hI s other hs hne hprev hhist

/-- Non-vacuity: a five-node workflow in the class — two split roots (one with an outer splitter), a chain node with an own
    splitter on top of its upstream state, a fan-in of the two branches with one more own axis, a stateless constant node —
    on which the reference runs (3·2)·2·3·2 = 72 jobs at the fan-in. -/
def simpleExample : Wf :=
  { nodes := [nd 0 l3 l2 .none (.outer .x .y),
              nd 1 (.up 0) l2 .none (.single .y),
              nd 2 l3 .none .none (.single .x),
              nd 3 (.up 1) (.up 2) l2 (.single .z),
              nd 4 (.const (.int 5)) .none .none],
    outs := [3, 4] }

theorem simpleExample_in_class : Simple.simple simpleExample = true := by decide +kernel

theorem simpleExample_jobs :
    (match Spec.run simpleExample with | .ok r => r.jobs | .error _ => []) = [(0, 6), (1, 12), (2, 3), (3, 72), (4, 1)] := by
  decide +kernel

/-- The class is inside the harness' empirical class: a `Simple` workflow has none of the flags that put a workflow
    outside `InClass` — checked by the driver on every generated workflow (`cls.simple → cls.inClass`), not proved. -/
example : Class.inClass simpleExample = true := by decide +kernel

/-! ### non-vacuity of the routing theorems -/

/-- Non-vacuity of `C03_routing`: two upstreams with axes of sizes [3] and [2,2]; job 7 of 12 has coordinates (1,1,1), its
    per-upstream indices are 1 and 3. -/
example : (7 : Nat) < prodL [[3], [2, 2]].flatten := by decide
example : decode [[3], [2, 2]].flatten 7 = [1, 1, 1] ∧ decode ([[3], [2, 2]].map prodL) 7 = [1, 3] := by decide

/-- Non-vacuity of `C03_fanin_disjoint`: node 2 fed by node 0 (axis of size 3) through `x` and node 1 (axis of size 2)
    through `y`, with an own split over `z` (size 2): all hypotheses hold, and at job 7 the model routes index 1 / 1. -/
example :
    let ups : List (List (Key × Nat)) := [[((0, .x), 3)], [((1, .x), 2)]]
    let fs : List Fld := [.x, .y]
    let ownAxes : List (Key × Nat) := [((2, .z), 2)]
    let own : Option (List (List Nat) × List Key) := some ([[0], [1]], [(2, .z)])
    fs.length = ups.length ∧ fs.Nodup ∧
    ((ups.map (·.map (·.1))).flatten ++ ownAxes.map (·.1)).Nodup ∧
    ownLen own = prodL (ownAxes.map (·.2)) ∧
    (∀ f ∈ fs, ((2 : Name), f) ∉ [((2 : Name), Fld.z)]) ∧
    (7 : Nat) < prodL ((ups.flatten ++ ownAxes).map (·.2)) ∧
    ((inputsIndOf 2 (List.zipWith (fun a f => (prodL (a.map (·.2)), [f])) ups fs) own)[7]?).bind (fun d => d.get? (2, .y))
      = some 1 := by
  decide

/-- Non-vacuity of `C03_group_test`: keys A.x, B.x; the group of B.x = 1 contains the job (2, 1) and not (2, 0). -/
example : Dict.subset (mkDict [((1 : Name), Fld.x)] [1]) (mkDict [((0 : Name), Fld.x), (1, .x)] [2, 1]) = true ∧
    Dict.subset (mkDict [((1 : Name), Fld.x)] [1]) (mkDict [((0 : Name), Fld.x), (1, .x)] [2, 0]) = false := by decide

end PydraModel.WfState
