import PydraModel.Props.C38
/-
C38 — second layer: the CIFS filter of `parse_mount_table` is transparent to `on_cifs`.

`parse_mount_table` keeps only the mount points lying under some CIFS mount, and `get_mount` then looks a
path up in the FILTERED table.  The theorem below shows, for every table and path of any size, that the
answer of `on_cifs` is the one the unfiltered (full, sorted) mount table would give: dropping the entries
outside CIFS mounts never turns a non-CIFS path into a CIFS one or the reverse.  It needs the filter and
the lookup to use the SAME (component) comparison; with `str.startswith` in either place it is false
(`C38_filter_str_witness`).
-/
namespace PydraModel.Mount

/-- `Path(m).is_relative_to(c)` -/
def underComp (m c : Str) : Bool := (comps c).isPrefixOf (comps m)

/-- the filter predicate of `parse_mount_table` over the sorted table `info` -/
def keep (under : Str → Str → Bool) (info : Table) (m : Entry) : Bool :=
  ((info.filter (fun e => lower e.2 == "cifs".toList)).map (·.1)).any (fun c => under m.1 c)

theorem parseTable_eq (under : Str → Str → Bool) (pairs : Table) :
    parseTable under pairs = (sortByLenDesc pairs).filter (keep under (sortByLenDesc pairs)) := rfl

theorem find?_and_of_some {α} (p q : α → Bool) (l : List α) {m : α}
    (hf : l.find? p = some m) (hq : q m = true) : l.find? (fun a => q a && p a) = some m := by
  induction l with
  | nil => simp at hf
  | cons x xs ih =>
    by_cases hx : p x = true
    · simp [hx] at hf; subst hf; simp [hx, hq]
    · simp [hx] at hf
      simp [hx, ih hf]

theorem find?_filter_and {α} (p q : α → Bool) (l : List α) :
    (l.filter q).find? p = l.find? (fun a => q a && p a) := by
  induction l with
  | nil => rfl
  | cons x xs ih =>
    by_cases hq : q x = true
    · by_cases hp : p x = true
      · simp [List.filter_cons, hq, hp]
      · simp [List.filter_cons, hq, hp, ih]
    · simp [List.filter_cons, hq, ih]

theorem lower_cifs {s : Str} (h : s = "cifs".toList) : lower s = "cifs".toList := by
  subst h; decide

/-- FULL statement: over a table as `parse_mount_table` sorts it, filtering to the entries under CIFS
    mounts does not change the answer of `on_cifs`, for any path. -/
theorem C38_filter_transparent (info : Table) (path : Str) (h : TableOK info) :
    onCifs getMountComp (info.filter (keep underComp info)) path = onCifs getMountComp info path := by
  unfold onCifs getMountComp
  rw [find?_filter_and]
  cases hf : info.find? (fun e => (comps e.1).isPrefixOf (comps path)) with
  | none =>
    have : info.find? (fun a => keep underComp info a && (comps a.1).isPrefixOf (comps path)) = none := by
      rw [List.find?_eq_none] at hf ⊢
      intro x hx
      have := hf x hx
      simp at this ⊢
      intro _; exact this
    simp [this]
  | some m =>
    obtain ⟨hm, hpm, hmax⟩ := find?_maximal (fun e : Entry => e.1.length) _ info h.1 hf
    by_cases hq : keep underComp info m = true
    · have := find?_and_of_some (fun e : Entry => (comps e.1).isPrefixOf (comps path)) (keep underComp info) info hf hq
      simp [this]
    · -- nothing that matches the path survives the filter
      have hnone : info.find? (fun a => keep underComp info a && (comps a.1).isPrefixOf (comps path)) = none := by
        rw [List.find?_eq_none]
        intro e he hboth
        simp only [Bool.and_eq_true] at hboth
        obtain ⟨hke, hpe⟩ := hboth
        apply hq
        have hpe' : comps e.1 <+: comps path := List.isPrefixOf_iff_prefix.mp hpe
        have hpm' : comps m.1 <+: comps path := List.isPrefixOf_iff_prefix.mp hpm
        have hlen := hmax e he hpe
        have hem : comps e.1 <+: comps m.1 := by
          rcases Nat.lt_or_ge (comps m.1).length (comps e.1).length with hlt | hge
          · exfalso
            have hme : comps m.1 <+: comps e.1 := List.prefix_of_prefix_length_le hpm' hpe' (Nat.le_of_lt hlt)
            have := render_lt_of_strict_prefix hme hlt (fun c hc => comps_ne_nil hc)
            rw [← h.2 m hm, ← h.2 e he] at this
            omega
          · exact List.prefix_of_prefix_length_le hpe' hpm' hge
        unfold keep at hke ⊢
        rw [List.any_eq_true] at hke ⊢
        obtain ⟨c, hc, hce⟩ := hke
        refine ⟨c, hc, ?_⟩
        unfold underComp at hce ⊢
        exact List.isPrefixOf_iff_prefix.mpr ((List.isPrefixOf_iff_prefix.mp hce).trans hem)
      have hm2 : (m.2 == "cifs".toList) = false := by
        cases hb : (m.2 == "cifs".toList) with
        | false => rfl
        | true =>
          exfalso; apply hq
          have hm2 : m.2 = "cifs".toList := by simpa using hb
          unfold keep
          rw [List.any_eq_true]
          refine ⟨m.1, ?_, ?_⟩
          · rw [List.mem_map]
            refine ⟨m, ?_, rfl⟩
            rw [List.mem_filter]
            exact ⟨hm, by simp [lower_cifs hm2]⟩
          · unfold underComp; exact List.isPrefixOf_iff_prefix.mpr (List.prefix_refl _)
      simp only [hnone, hm2]
      decide

/-- the same, phrased on `parse_mount_table`'s output for raw (unsorted) pairs in canonical spelling -/
theorem C38_parse_transparent (pairs : Table) (path : Str) (hn : ∀ e ∈ pairs, Normalized e.1) :
    onCifs getMountComp (parseTable underComp pairs) path
      = onCifs getMountComp (sortByLenDesc pairs) path := by
  rw [parseTable_eq]
  exact C38_filter_transparent _ path
    ⟨sortByLenDesc_sorted pairs, fun e he => hn e ((sortByLenDesc_mem pairs e).mp he)⟩

/-- Witness: with `str.startswith` as the FILTER's prefix test (the pinned commit), the filter is not
    transparent: `/data2` (ext4) is kept as if it lay under the CIFS mount `/data`, … and with the
    `str.startswith` LOOKUP `/data2/x` is then reported on CIFS although the full table says ext4. -/
theorem C38_filter_str_witness :
    let pairs : Table := [("/data".toList, "cifs".toList), ("/data2".toList, "ext4".toList)]
    ("/data2".toList, "ext4".toList) ∈ parseTable (fun m c => c.isPrefixOf m) pairs
    ∧ ("/data2".toList, "ext4".toList) ∉ parseTable underComp pairs
    ∧ onCifs getMountStr [("/data".toList, "cifs".toList)] "/data2/x".toList = true
    ∧ onCifs getMountComp (parseTable underComp pairs) "/data2/x".toList = false := by
  decide

/-- Non-vacuity of `C38_parse_transparent`: canonical pairs, nested ext4 mount inside a CIFS mount. -/
example : ∀ e ∈ ([("/mnt".toList, "cifs".toList), ("/mnt/local".toList, "ext4".toList), ("/home".toList, "ext4".toList)] : Table),
    Normalized e.1 := by
  intro e he
  simp at he
  rcases he with rfl | rfl | rfl <;> (unfold Normalized; decide)

example : onCifs getMountComp (parseTable underComp
    [("/mnt".toList, "cifs".toList), ("/mnt/local".toList, "ext4".toList), ("/home".toList, "ext4".toList)]) "/mnt/local/f".toList = false
  ∧ onCifs getMountComp (parseTable underComp
    [("/mnt".toList, "cifs".toList), ("/mnt/local".toList, "ext4".toList), ("/home".toList, "ext4".toList)]) "/mnt/f".toList = true := by
  decide

/-! ### Regenerating the table from its own output is a no-op -/

theorem sortByLenDesc_of_sorted (t : Table) (h : t.Pairwise (fun a b => b.1.length ≤ a.1.length)) :
    sortByLenDesc t = t := by
  induction t with
  | nil => rfl
  | cons x xs ih =>
    rw [List.pairwise_cons] at h
    have : sortByLenDesc (x :: xs) = insertByLen x (sortByLenDesc xs) := rfl
    rw [this, ih h.2]
    cases xs with
    | nil => rfl
    | cons y ys =>
      unfold insertByLen
      simp [h.1 y (by simp)]

theorem cifs_kept (info : Table) (e : Entry) (he : e ∈ info) (hc : (lower e.2 == "cifs".toList) = true) :
    keep underComp info e = true := by
  unfold keep
  rw [List.any_eq_true]
  refine ⟨e.1, ?_, ?_⟩
  · rw [List.mem_map]; exact ⟨e, List.mem_filter.mpr ⟨he, hc⟩, rfl⟩
  · unfold underComp; exact List.isPrefixOf_iff_prefix.mpr (List.prefix_refl _)

/-- the CIFS mount points of the filtered table are those of the full table -/
theorem cifs_of_filtered (info : Table) :
    (info.filter (keep underComp info)).filter (fun e => lower e.2 == "cifs".toList)
      = info.filter (fun e => lower e.2 == "cifs".toList) := by
  rw [List.filter_filter]
  apply List.filter_congr
  intro e he
  cases hc : (lower e.2 == "cifs".toList) with
  | false => simp
  | true => simp [cifs_kept info e he hc]

/-- FULL statement: `parse_mount_table` is idempotent on its own output, for every list of pairs —
    a table cached in `_mount_table`, printed and parsed again, is the same table. -/
theorem C38_parse_idempotent (pairs : Table) :
    parseTable underComp (parseTable underComp pairs) = parseTable underComp pairs := by
  have hs := C38_parse_sorted underComp pairs
  rw [parseTable_eq underComp (parseTable underComp pairs), sortByLenDesc_of_sorted _ hs, parseTable_eq underComp pairs]
  generalize sortByLenDesc pairs = info
  have hk : keep underComp (info.filter (keep underComp info)) = keep underComp info := by
    funext m
    have kd : ∀ (t : Table), keep underComp t m
        = ((t.filter (fun e => lower e.2 == "cifs".toList)).map (·.1)).any (fun c => underComp m.1 c) := fun _ => rfl
    rw [kd, kd info, cifs_of_filtered]
  rw [hk, List.filter_filter]
  apply List.filter_congr
  intro e _
  simp

example : parseTable underComp [("/mnt".toList, "cifs".toList), ("/mnt/local".toList, "ext4".toList), ("/home".toList, "ext4".toList)]
    = [("/mnt/local".toList, "ext4".toList), ("/mnt".toList, "cifs".toList)] := by decide

/-! ### `on_same_mount` is an equivalence on paths, and agrees with the reference mount -/

theorem C38_same_mount_equiv (tbl : Table) :
    (∀ p, onSameMount getMountComp tbl p p = true)
    ∧ (∀ p q, onSameMount getMountComp tbl p q = onSameMount getMountComp tbl q p)
    ∧ (∀ p q r, onSameMount getMountComp tbl p q = true → onSameMount getMountComp tbl q r = true →
        onSameMount getMountComp tbl p r = true) := by
  refine ⟨fun p => by simp [onSameMount], fun p q => ?_, fun p q r h1 h2 => ?_⟩
  · unfold onSameMount
    exact Bool.eq_iff_iff.mpr ⟨fun h => by rw [beq_iff_eq] at h ⊢; exact h.symm, fun h => by rw [beq_iff_eq] at h ⊢; exact h.symm⟩
  · unfold onSameMount at *
    rw [beq_iff_eq] at *
    exact h1.trans h2

/-- two paths are reported on the same mount exactly when their longest component-prefix mount points
    (the property's reference, unique up to spelling by `C38_comp_longest`) have the same components -/
theorem C38_same_mount_ref (tbl : Table) (p q : Str) (h : TableOK tbl) :
    ∃ rp rq, IsLongestCompPrefix tbl p rp ∧ IsLongestCompPrefix tbl q rq ∧
      (onSameMount getMountComp tbl p q = true ↔ comps rp.1 = comps rq.1) :=
  ⟨getMountComp tbl p, getMountComp tbl q, C38_comp_longest tbl p h, C38_comp_longest tbl q h,
    by unfold onSameMount; exact beq_iff_eq⟩

end PydraModel.Mount
