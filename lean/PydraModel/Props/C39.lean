import PydraModel.Envs.LmodLemmas
import PydraModel.Gen.EnvRegexes
/-
C39 — Lmod environments add module settings to the caller's environment.

Property theorems only (helper lemmas: `Envs/LmodLemmas.lean`; model: `Envs/Lmod.lean`).
`lmodEnv` is the algorithm of the working tree (after the D23 repair: the child environment starts from the
caller's), `lmodEnvPinned` the one of the pinned commit (starts from `{}`); which one the tree runs is decided by
the regenerated `Gen.EnvRegexes.lmodEnvInit` (pinned below) and by the correspondence check.
-/
namespace PydraModel.Envs.Lmod
open PydraModel.Gen

/-! ### the regenerated tie: the source still says what the matcher was written for -/

/-- the regex `Lmod.execute` gives to `re.findall` is the one `matchAt`/`findAllGo` implement -/
theorem C39_regex_pinned :
    EnvRegexes.lmodRegex = "os\\.environ\\[['\"](.*?)['\"]\\]\\s*=\\s*['\"](.*?)['\"]" := rfl

/-- `\s` of the running CPython is the set `isPySpace` uses -/
theorem C39_space_pinned : spaceCodes = EnvRegexes.pySpaceCodes := by decide

/-- the child environment starts from a copy of the caller's, the argv is the native one, and both are what
    `base.execute` receives -/
theorem C39_source_pinned :
    EnvRegexes.lmodEnvInit = "dict(os.environ)"
    ∧ EnvRegexes.lmodCmdArgs = EnvRegexes.nativeCmdArgs
    ∧ EnvRegexes.lmodExecuteCall = "base.execute(cmd_args, env=env)" := ⟨rfl, rfl, rfl⟩

/-! ### the property -/

/-- FULL (environments and lmod outputs of any size): the child sees the caller's environment overridden by
    exactly the assignments read from lmod's output — a variable the modules assign has the last assigned value,
    every other variable has the caller's value (or stays unset). -/
theorem C39_env_full (caller : Env) (out : Str) (k : Str) :
    (lmodEnv caller out).get k =
      match lastAssign (parseLmod out) k with
      | some v => some v
      | none => caller.get k :=
  applyAssignments_get (parseLmod out) caller k

/-- variables the modules do not touch are passed through unchanged -/
theorem C39_untouched (caller : Env) (out : Str) (k : Str) (h : lastAssign (parseLmod out) k = none) :
    (lmodEnv caller out).get k = caller.get k := by
  rw [C39_env_full, h]

/-- the child environment is a proper dictionary (no variable twice) when the caller's is -/
theorem C39_env_nodup (caller : Env) (out : Str) (h : (caller.map (·.1)).Nodup) :
    ((lmodEnv caller out).map (·.1)).Nodup :=
  applyAssignments_keys_nodup _ _ h

/-- the argument vector is the native one -/
theorem C39_argv (caller : Env) (out : Str) (argv : List Str) :
    (lmodExecute caller out argv).1 = (nativeExecute caller argv).1 := rfl

/-- Parser round trip, any number of assignments, keys and values of any length, either quote character at each
    of the four positions: what a simulated lmod prints is read back exactly, provided keys and values contain no
    quote character and no newline. -/
theorem C39_parse (items : List Item)
    (hq : ∀ i ∈ items, isQuote i.q1 = true ∧ isQuote i.q2 = true)
    (hp : ∀ i ∈ items, Plain i.key ∧ Plain i.val) :
    parseLmod (render items) = items.map (fun i => (i.key, i.val)) := by
  unfold parseLmod render
  induction items with
  | nil => rfl
  | cons i is ih =>
    have hqi := hq i (by simp)
    have hpi := hp i (by simp)
    simp only [List.flatMap_cons, List.map_cons]
    rw [findAllGo_renderLine _ _ _ _ _ hpi.1 hpi.2 hqi.1 hqi.2]
    rw [ih (fun j hj => hq j (by simp [hj])) (fun j hj => hp j (by simp [hj]))]

/-- non-vacuity of `C39_parse`: a set, a PATH prepend and a double-quoted value -/
example :
    let items := [Item.mk '\'' '\'' "MODVAR".toList "from-module".toList,
                  Item.mk '\'' '\'' "PATH".toList "/opt/mod/bin:/usr/bin".toList,
                  Item.mk '"' '"' "LMOD_X".toList "a b".toList]
    (∀ i ∈ items, isQuote i.q1 = true ∧ isQuote i.q2 = true) ∧ (∀ i ∈ items, Plain i.key ∧ Plain i.val) := by
  decide

/-- end to end on a rendered output: child environment = caller overridden by the printed assignments -/
theorem C39_rendered (caller : Env) (items : List Item) (k : Str)
    (hq : ∀ i ∈ items, isQuote i.q1 = true ∧ isQuote i.q2 = true)
    (hp : ∀ i ∈ items, Plain i.key ∧ Plain i.val) :
    (lmodEnv caller (render items)).get k =
      match lastAssign (items.map (fun i => (i.key, i.val))) k with
      | some v => some v
      | none => caller.get k := by
  rw [C39_env_full, C39_parse items hq hp]

/-! ### no state is carried between jobs on one Lmod object -/

/-- the object has no field besides `modules`, `execute` assigns nothing on `self`, and its first statement runs
    `lmod python load <self.modules>` unconditionally, once -/
theorem C39_stateless_pinned :
    EnvRegexes.lmodFields = ["modules"] ∧ EnvRegexes.lmodExecuteSelfWrites = []
    ∧ EnvRegexes.lmodExecuteFirstStmt = "env_src = self.run_lmod_cmd('python', 'load', *self.modules)"
    ∧ EnvRegexes.lmodExecuteLoadCalls = 1 := ⟨rfl, rfl, rfl, rfl⟩

theorem runObj_tree (load : Loader) (h : List Run) : runObj (stepTree load) () h = h.map (executeEnv load) := by
  induction h with
  | nil => rfl
  | cons r rs ih => simp [runObj, stepTree, ih]

/-- FULL, histories of any length on one object, any lmod executable, caller environment and modules changed at will
    between the jobs: the environment of the k-th job is the single-run semantics on the k-th (modules, caller
    environment) — nothing of the earlier jobs matters. -/
theorem C39_history_independent (load : Loader) (h : List Run) (k : Nat) :
    (runObj (stepTree load) () h)[k]? = h[k]?.map (executeEnv load) := by
  rw [runObj_tree]; simp

/-- the same for a history cut anywhere: a job's environment does not depend on what ran before it -/
theorem C39_prefix_irrelevant (load : Loader) (pre : List Run) (r : Run) :
    (runObj (stepTree load) () (pre ++ [r])).getLast? = some (executeEnv load r) := by
  rw [runObj_tree]; simp

/-- WITNESS for the memoising variant: PATH is extended between two jobs; the second job gets the PATH computed for
    the first environment (the caller's extension is lost), where the single-run semantics prepends to the new PATH -/
theorem C39_witness_memo :
    let load := prependLoader "PATH".toList "/opt/mod/bin".toList
    let h : List Run := [⟨["m".toList], [("PATH".toList, "/usr/bin".toList)]⟩,
                          ⟨["m".toList], [("PATH".toList, "/home/u/bin:/usr/bin".toList)]⟩]
    ((runObj (stepMemo load) none h).map (fun e => e.get "PATH".toList))
        = [some "/opt/mod/bin:/usr/bin".toList, some "/opt/mod/bin:/usr/bin".toList]
    ∧ ((runObj (stepTree load) () h).map (fun e => e.get "PATH".toList))
        = [some "/opt/mod/bin:/usr/bin".toList, some "/opt/mod/bin:/home/u/bin:/usr/bin".toList] := by decide

/-! ### the command's return code -/

/-- the failure test of `Lmod.execute` (regenerated from the source) is true on every non-zero return code, negative
    ones (death by signal) included, and false on 0 -/
theorem C39_rc_pinned :
    EnvRegexes.lmodRcTest.failsOnNonzero = true ∧ EnvRegexes.lmodRcTest.eval 0 = false := by decide

/-- FULL: whatever non-zero status the command ends with under Lmod, the task fails (RuntimeError) -/
theorem C39_nonzero_fails (rc : Int) (h : rc ≠ 0) : EnvRegexes.lmodRcTest.eval rc = true :=
  PydraModel.JobProto.RcTest.failsOnNonzero_sound _ C39_rc_pinned.1 rc h

/-! ### witnesses -/

/-- D23q (quoting): a value containing the other quote character is cut at it — the non-greedy `(.*?)['"]` stops at the
    first quote of either kind. `os.environ["Q"] = "it's";` assigns `it`. -/
theorem C39_witness_quote :
    parseLmod "os.environ[\"Q\"] = \"it's\";\n".toList = [("Q".toList, "it".toList)] := by decide

/-- D23q: an escaped quote is not understood either (`'it\'s'` is read as `it\`), and escapes are not undone
    (`'a\\b'`, Python for `a\b`, is read as `a\\b`) -/
theorem C39_witness_escaped :
    parseLmod ("os.environ['Q'] = '".toList ++ pyEscape '\'' "it's".toList ++ "';\n".toList)
      = [("Q".toList, "it\\".toList)]
    ∧ parseLmod ("os.environ['B'] = '".toList ++ pyEscape '\'' "a\\b".toList ++ "';\n".toList)
      = [("B".toList, "a\\\\b".toList)] := by decide

/-- values of plain characters (no quote, newline or backslash) are printed unescaped, so `C39_parse` covers what a
    Python-quoting lmod prints for them -/
theorem C39_plain_unescaped (q : Char) (v : Str) (hq : isQuote q = true) (h : ∀ c ∈ v, plainChar c = true) :
    pyEscape q v = v := by
  induction v with
  | nil => rfl
  | cons c cs ih =>
    have hc := h c (by simp)
    simp only [plainChar, Bool.and_eq_true, Bool.not_eq_true', bne_iff_ne, ne_eq] at hc
    have hcq : c ≠ q := by
      intro e; rw [e] at hc; rw [hq] at hc; exact absurd hc.1.1 (by decide)
    have h1 : (c == '\\') = false := by simp [hc.2]
    have h2 : (c == q) = false := by simp [hcq]
    have h3 : (c == '\n') = false := by simp [hc.1.2]
    simp [pyEscape, h1, h2, h3, ih (fun d hd => h d (by simp [hd]))]

/-- the pinned commit's algorithm (D23, repaired): the caller's variables were dropped -/
theorem C39_witness_pinned_env :
    (lmodEnvPinned [("HOME".toList, "/h".toList)] "os.environ['PATH'] = '/m';\n".toList).get "HOME".toList = none
    ∧ (lmodEnv [("HOME".toList, "/h".toList)] "os.environ['PATH'] = '/m';\n".toList).get "HOME".toList
        = some "/h".toList := by decide

end PydraModel.Envs.Lmod
