import PydraModel.Props.C16
/-
C15 — Jobs start only after the jobs they consume have succeeded; every job is dispatched at most once.

Property theorems only.  Model: `Sched/Model.lean`.  Quantification: every workflow graph that `DiGraph.sorting`
can sort (any number of nodes, any number of jobs per node, job lists computed at `start()` from upstream values,
jobs may share a checksum), every limit `k`, every schedule of environment moves (lost jobs included), every
instant; and the synchronous loop of the debug worker with any set of failing bodies.
Dependence is at node granularity, as in `NodeExecution.get_runnable_tasks` (its live `if True:` branch waits for
*all* jobs of *all* predecessor nodes).
-/
namespace PydraModel.Sched
open PydraModel.Graph

/-- C15 (precedence), FULL: whenever anything has happened to a job on disk (its body has started, finished,
    failed or was lost), the job belongs to a node all of whose predecessor nodes have only successful jobs.
    Since `ok` is final, the predecessors had succeeded before the body started. -/
theorem C15_precedence {wf : Wf} {k : Option Nat} {sorted : List NodeId} (hw : WellFormed wf sorted) {st : St}
    (hi : Instant wf k sorted st) (c : Ck) (hc : st.w c ≠ .idle) :
    ∃ n, c ∈ (st.ns.get n).cks ∧ ∀ p, p ∈ wf.preds n → ∀ c', c' ∈ (st.ns.get p).cks → st.w c' = .ok := by
  have hs := sinv_instant hw hi
  obtain ⟨n, hb, hu, hcn⟩ := hs.legit c (hs.touched c hc)
  exact ⟨n, hcn, fun p hp c' hc' => (hs.ninv.preds n hb hu p hp).2 c' hc'⟩

/-- a body can start (`acquire`) only for a job that has been dispatched and whose predecessors all succeeded -/
theorem C15_start_enabled {wf : Wf} {k : Option Nat} {sorted : List NodeId} (hw : WellFormed wf sorted)
    {st st' : St} (hi : Instant wf k sorted st) (c : Ck) (h : applyEv st (.acquire c) = some st') :
    c ∈ st.futured ∧
    ∃ n, c ∈ (st.ns.get n).cks ∧ ∀ p, p ∈ wf.preds n → ∀ c', c' ∈ (st.ns.get p).cks → st.w c' = .ok := by
  have hs := sinv_instant hw hi
  simp only [applyEv] at h
  split at h
  · rename_i hc
    simp only [Bool.and_eq_true, List.contains_eq_mem, decide_eq_true_eq] at hc
    have hf := hs.futuresSub c hc.1
    obtain ⟨n, hb, hu, hcn⟩ := hs.legit c hf
    exact ⟨hf, n, hcn, fun p hp c' hc' => (hs.ninv.preds n hb hu p hp).2 c' hc'⟩
  · exact absurd h (by simp)

/-- C15 (order of the dispatch log), FULL: each entry of the dispatch log belongs to a node all of whose
    predecessors' jobs were dispatched *earlier* -/
theorem C15_dispatch_order {wf : Wf} {k : Option Nat} {sorted : List NodeId} (hw : WellFormed wf sorted)
    (sched : List (List Ev)) {st : St} (h : (runAsync wf k sorted sched).state? = some st)
    (l1 : List Ck) (c : Ck) (l2 : List Ck) (hsplit : st.futured = l1 ++ c :: l2) :
    ∃ n, c ∈ (st.ns.get n).cks ∧ ∀ p, p ∈ wf.preds n → ∀ c', c' ∈ (st.ns.get p).cks → c' ∈ l1 := by
  have := li_runAsync (logOrd_loopInv hw.topo) hw.topo (logOrd_init wf) sched (fun _ _ _ _ => trivial) h
  obtain ⟨n, _, _, h3, h4⟩ := this l1 c l2 hsplit
  exact ⟨n, h3, h4⟩

/-- C15 (at most once), FULL: no job is dispatched twice -/
theorem C15_at_most_once {wf : Wf} {k : Option Nat} {sorted : List NodeId} (hw : WellFormed wf sorted) {st : St}
    (hi : Instant wf k sorted st) : st.futured.Nodup :=
  (sinv_instant hw hi).futuredNodup

/-- ... and its body starts at most once: once started, a job never looks idle again, whatever happens later -/
theorem C15_body_starts_once {st st1 st2 st3 : St} (c : Ck) (h : applyEv st (.acquire c) = some st1)
    (hlater : WMono st1.w st2.w) : applyEv st2 (.acquire c) ≠ some st3 := by
  intro h2
  simp only [applyEv] at h h2
  split at h
  · cases h
    split at h2
    · rename_i hc2
      simp only [Bool.and_eq_true, beq_iff_eq] at hc2
      have := hlater.busy c (by simp [setW_same])
      exact this hc2.2
    · exact absurd h2 (by simp)
  · exact absurd h (by simp)

/-- C15 (precedence), FULL for the finer semantics in which jobs start, finish and fail *while* a poll is scanning -/
theorem C15_precedence_interleaved {wf : Wf} {k : Option Nat} {sorted : List NodeId} (hw : WellFormed wf sorted)
    {st : St} (hi : InstantI wf k sorted st) (c : Ck) (hc : st.w c ≠ .idle) :
    st.futured.Nodup ∧
    ∃ n, c ∈ (st.ns.get n).cks ∧ ∀ p, p ∈ wf.preds n → ∀ c', c' ∈ (st.ns.get p).cks → st.w c' = .ok := by
  have hs := sinv_instantI hw hi
  obtain ⟨n, hb, hu, hcn⟩ := hs.legit c (hs.touched c hc)
  exact ⟨hs.futuredNodup, n, hcn, fun p hp c' hc' => (hs.ninv.preds n hb hu p hp).2 c' hc'⟩

/-- what "later" means: environment moves and whole rounds only move the ground truth forward -/
theorem C15_later_moves {st st' : St} (es : List Ev) (h : applyEvs st es = some st') : WMono st.w st'.w :=
  applyEvs_wmono es h

theorem C15_later_round {wf : Wf} {k : Option Nat} {sorted : List NodeId} {st st' : St} {moves : List Ev}
    (h : (round wf k sorted st moves).state? = some st') : WMono st.w st'.w := round_wmono h

/-- `getRunnable`'s `break` is sound because `sorted_nodes` is a topological order (theorems of C37) -/
theorem C15_sorted_is_topological {wf : Wf} {sorted : List NodeId} (hw : WellFormed wf sorted) :
    sorted.Nodup ∧ ∀ l1 x l2, sorted = l1 ++ x :: l2 → ∀ p, p ∈ wf.preds x → p ∈ l1 :=
  ⟨hw.topo.nodup, hw.topo.before⟩

/-- C15 for the synchronous loop (debug worker), FULL: the execution log has no duplicates, every logged body
    succeeded, and each body ran only after all jobs of all predecessor nodes had run successfully.  This
    holds whether the loop ends normally or with the first raising body, for every set of failing bodies. -/
theorem C15_sync {wf : Wf} {k : Option Nat} {sorted : List NodeId} (hw : WellFormed wf sorted)
    (fail : Ck → Bool) (fuel : Nat) :
    let r := runSync wf k sorted fail fuel
    r.2.futured.Nodup ∧ (∀ c, c ∈ r.2.futured → r.2.w c = .ok) ∧
    ∀ l1 c l2, r.2.futured = l1 ++ c :: l2 →
      ∃ n, c ∈ (r.2.ns.get n).cks ∧ ∀ p, p ∈ wf.preds n → ∀ c', c' ∈ (r.2.ns.get p).cks → c' ∈ l1 := by
  intro r
  obtain ⟨a, b, c⟩ := syncLoop_spec hw.topo fail fuel (syncInv_doPoll hw.topo (syncInv_init wf)) r.1 r.2 rfl
  refine ⟨b, c, ?_⟩
  intro l1 x l2 hs
  obtain ⟨n, _, _, h3, h4⟩ := a l1 x l2 hs
  exact ⟨n, h3, h4⟩

/-! ### non-vacuity: a diamond with a split node, limit 2, an adversarial schedule -/

/-- nodes 0 → {1, 2} → 3; node 1 has two jobs; checksums 10, 11, 12, 20, 30 -/
def wfDiamond : Wf :=
  ⟨⟨[0, 1, 2, 3], [(0, 1), (0, 2), (1, 3), (2, 3)], [], none⟩,
   fun n _ => match n with | 0 => [10] | 1 => [11, 12] | 2 => [20] | _ => [30],
   fun c => c⟩

example : WellFormed wfDiamond [0, 1, 2, 3] := ⟨rfl, by decide, by decide⟩

def schedDiamond : List (List Ev) :=
  [[.acquire 10, .finishOk 10, .complete 10],
   [.acquire 12, .acquire 11, .finishOk 12, .complete 12],
   [.acquire 20, .finishOk 20, .finishOk 11, .complete 20],
   [.complete 11],
   [.acquire 30, .finishOk 30, .complete 30]]

/-- the schedule is enabled, ends the submission successfully and dispatches in the order 10, 11, 12, 20, 30 -/
example : (match runAsync wfDiamond (some 2) [0, 1, 2, 3] schedDiamond with
    | .done o st => some (o, st.futured)
    | _ => none) = some (Outcome.success, [10, 11, 12, 20, 30]) := by decide

example : (runSync wfDiamond (some 2) [0, 1, 2, 3] (fun _ => false) 20).1 = .success ∧
    (runSync wfDiamond (some 2) [0, 1, 2, 3] (fun _ => false) 20).2.futured = [10, 11, 12, 20, 30] := by decide

/-! ### why `get_runnable_tasks` returns the whole `queued` table

One node with three jobs (checksums 0, 1, 2), `max_concurrent = 2`.  The real loop hands the third job out at the
second poll.  A scan that returns only newly unblocked jobs hands out jobs 0 and 1, cuts job 2 off with `tasks[:2]`,
and never returns it again: the sequential loop has no task, the node is never done, and the loop spins — with the
fuel that provably suffices for the real loop (`C17_sync_terminates`: 2*3 + 2*1 + 3 = 11) and far beyond. -/

def wfThree : Wf := ⟨⟨[0], [], [], none⟩, fun _ _ => [0, 1, 2], fun c => c⟩

theorem C15_sync_hands_out_cut_jobs :
    ((runSync wfThree (some 2) [0] (fun _ => false) 11).1, (runSync wfThree (some 2) [0] (fun _ => false) 11).2.futured)
      = (SyncOutcome.success, [0, 1, 2]) := by decide

/-- WITNESS (documentation): the "newly runnable only" variant loses job 2 and does not terminate -/
theorem C15_new_only_loses_jobs :
    ((runSyncNewOnly wfThree (some 2) [0] (fun _ => false) 60).1,
     (runSyncNewOnly wfThree (some 2) [0] (fun _ => false) 60).2.futured,
     ((runSyncNewOnly wfThree (some 2) [0] (fun _ => false) 60).2.ns.get 0).queued)
      = (SyncOutcome.outOfFuel, [0, 1], [2]) := by decide

end PydraModel.Sched
