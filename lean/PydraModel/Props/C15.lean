import PydraModel.Props.C16
import PydraModel.Sched.Cached
import PydraModel.Sched.RerunSync
/-
C15 — Jobs start only after the jobs they consume have succeeded; every job is dispatched at most once.

Property theorems only.  Model: `Sched/Model.lean`.  Quantification: every workflow graph that `DiGraph.sorting`
can sort (any number of nodes, any number of jobs per node, job lists computed at `start()` from upstream values,
jobs may share a checksum), every limit `k`, every schedule of environment moves (lost jobs included), every
instant; and the synchronous loop of the debug worker with any set of failing bodies.
Dependence is at node granularity, as in `NodeExecution.get_runnable_tasks` (its live `if True:` branch waits for
*all* jobs of *all* predecessor nodes).
-/
namespace PydraModel.Sched
open PydraModel.Graph

/-- C15 (precedence), FULL: whenever anything has happened to a job on disk (its body has started, finished,
    failed or was lost), the job belongs to a node all of whose predecessor nodes have only successful jobs.
    Since `ok` is final, the predecessors had succeeded before the body started. -/
theorem C15_precedence {wf : Wf} {k : Option Nat} {sorted : List NodeId} (hw : WellFormed wf sorted) {st : St}
    (hi : Instant wf k sorted st) (c : Ck) (hc : st.w c ≠ .idle) :
    ∃ n, c ∈ (st.ns.get n).cks ∧ ∀ p, p ∈ wf.preds n → ∀ c', c' ∈ (st.ns.get p).cks → st.w c' = .ok := by
  have hs := sinv_instant hw hi
  obtain ⟨n, hb, hu, hcn⟩ := hs.legit c (hs.touched c hc)
  exact ⟨n, hcn, fun p hp c' hc' => (hs.ninv.preds n hb hu p hp).2 c' hc'⟩

/-- a body can start (`acquire`) only for a job that has been dispatched and whose predecessors all succeeded -/
theorem C15_start_enabled {wf : Wf} {k : Option Nat} {sorted : List NodeId} (hw : WellFormed wf sorted)
    {st st' : St} (hi : Instant wf k sorted st) (c : Ck) (h : applyEv st (.acquire c) = some st') :
    c ∈ st.futured ∧
    ∃ n, c ∈ (st.ns.get n).cks ∧ ∀ p, p ∈ wf.preds n → ∀ c', c' ∈ (st.ns.get p).cks → st.w c' = .ok := by
  have hs := sinv_instant hw hi
  simp only [applyEv] at h
  split at h
  · rename_i hc
    simp only [Bool.and_eq_true, List.contains_eq_mem, decide_eq_true_eq] at hc
    have hf := hs.futuresSub c hc.1
    obtain ⟨n, hb, hu, hcn⟩ := hs.legit c hf
    exact ⟨hf, n, hcn, fun p hp c' hc' => (hs.ninv.preds n hb hu p hp).2 c' hc'⟩
  · exact absurd h (by simp)

/-- C15 (order of the dispatch log), FULL: each entry of the dispatch log belongs to a node all of whose
    predecessors' jobs were dispatched *earlier* -/
theorem C15_dispatch_order {wf : Wf} {k : Option Nat} {sorted : List NodeId} (hw : WellFormed wf sorted)
    (sched : List (List Ev)) {st : St} (h : (runAsync wf k sorted sched).state? = some st)
    (l1 : List Ck) (c : Ck) (l2 : List Ck) (hsplit : st.futured = l1 ++ c :: l2) :
    ∃ n, c ∈ (st.ns.get n).cks ∧ ∀ p, p ∈ wf.preds n → ∀ c', c' ∈ (st.ns.get p).cks → c' ∈ l1 := by
  have := li_runAsync (logOrd_loopInv hw.topo) hw.topo (logOrd_init wf) sched (fun _ _ _ _ => trivial) h
  obtain ⟨n, _, _, h3, h4⟩ := this l1 c l2 hsplit
  exact ⟨n, h3, h4⟩

/-- C15 (at most once), FULL: no job is dispatched twice -/
theorem C15_at_most_once {wf : Wf} {k : Option Nat} {sorted : List NodeId} (hw : WellFormed wf sorted) {st : St}
    (hi : Instant wf k sorted st) : st.futured.Nodup :=
  (sinv_instant hw hi).futuredNodup

/-- ... and its body starts at most once: once started, a job never looks idle again, whatever happens later -/
theorem C15_body_starts_once {st st1 st2 st3 : St} (c : Ck) (h : applyEv st (.acquire c) = some st1)
    (hlater : WMono st1.w st2.w) : applyEv st2 (.acquire c) ≠ some st3 := by
  intro h2
  simp only [applyEv] at h h2
  split at h
  · cases h
    split at h2
    · rename_i hc2
      simp only [Bool.and_eq_true, beq_iff_eq] at hc2
      have := hlater.busy c (by simp [setW_same])
      exact this hc2.2
    · exact absurd h2 (by simp)
  · exact absurd h (by simp)

/-- C15 (precedence), FULL for the finer semantics in which jobs start, finish and fail *while* a poll is scanning -/
theorem C15_precedence_interleaved {wf : Wf} {k : Option Nat} {sorted : List NodeId} (hw : WellFormed wf sorted)
    {st : St} (hi : InstantI wf k sorted st) (c : Ck) (hc : st.w c ≠ .idle) :
    st.futured.Nodup ∧
    ∃ n, c ∈ (st.ns.get n).cks ∧ ∀ p, p ∈ wf.preds n → ∀ c', c' ∈ (st.ns.get p).cks → st.w c' = .ok := by
  have hs := sinv_instantI hw hi
  obtain ⟨n, hb, hu, hcn⟩ := hs.legit c (hs.touched c hc)
  exact ⟨hs.futuredNodup, n, hcn, fun p hp c' hc' => (hs.ninv.preds n hb hu p hp).2 c' hc'⟩

/-- what "later" means: environment moves and whole rounds only move the ground truth forward -/
theorem C15_later_moves {st st' : St} (es : List Ev) (h : applyEvs st es = some st') : WMono st.w st'.w :=
  applyEvs_wmono es h

theorem C15_later_round {wf : Wf} {k : Option Nat} {sorted : List NodeId} {st st' : St} {moves : List Ev}
    (h : (round wf k sorted st moves).state? = some st') : WMono st.w st'.w := round_wmono h

/-- `getRunnable`'s `break` is sound because `sorted_nodes` is a topological order (theorems of C37) -/
theorem C15_sorted_is_topological {wf : Wf} {sorted : List NodeId} (hw : WellFormed wf sorted) :
    sorted.Nodup ∧ ∀ l1 x l2, sorted = l1 ++ x :: l2 → ∀ p, p ∈ wf.preds x → p ∈ l1 :=
  ⟨hw.topo.nodup, hw.topo.before⟩

/-- C15 for the synchronous loop (debug worker), FULL: the execution log has no duplicates, every logged body
    succeeded, and each body ran only after all jobs of all predecessor nodes had run successfully.  This
    holds whether the loop ends normally or with the first raising body, for every set of failing bodies. -/
theorem C15_sync {wf : Wf} {k : Option Nat} {sorted : List NodeId} (hw : WellFormed wf sorted)
    (fail : Ck → Bool) (fuel : Nat) :
    let r := runSync wf k sorted fail fuel
    r.2.futured.Nodup ∧ (∀ c, c ∈ r.2.futured → r.2.w c = .ok) ∧
    ∀ l1 c l2, r.2.futured = l1 ++ c :: l2 →
      ∃ n, c ∈ (r.2.ns.get n).cks ∧ ∀ p, p ∈ wf.preds n → ∀ c', c' ∈ (r.2.ns.get p).cks → c' ∈ l1 := by
  intro r
  obtain ⟨a, b, c⟩ := syncLoop_spec hw.topo fail fuel (syncInv_doPoll hw.topo (syncInv_init wf)) r.1 r.2 rfl
  refine ⟨b, c, ?_⟩
  intro l1 x l2 hs
  obtain ⟨n, _, _, h3, h4⟩ := a l1 x l2 hs
  exact ⟨n, h3, h4⟩

/-! ### non-vacuity: a diamond with a split node, limit 2, an adversarial schedule -/

/-- nodes 0 → {1, 2} → 3; node 1 has two jobs; checksums 10, 11, 12, 20, 30 -/
def wfDiamond : Wf :=
  ⟨⟨[0, 1, 2, 3], [(0, 1), (0, 2), (1, 3), (2, 3)], [], none⟩,
   fun n _ => match n with | 0 => [10] | 1 => [11, 12] | 2 => [20] | _ => [30],
   fun c => c⟩

example : WellFormed wfDiamond [0, 1, 2, 3] := ⟨rfl, by decide, by decide⟩

def schedDiamond : List (List Ev) :=
  [[.acquire 10, .finishOk 10, .complete 10],
   [.acquire 12, .acquire 11, .finishOk 12, .complete 12],
   [.acquire 20, .finishOk 20, .finishOk 11, .complete 20],
   [.complete 11],
   [.acquire 30, .finishOk 30, .complete 30]]

/-- the schedule is enabled, ends the submission successfully and dispatches in the order 10, 11, 12, 20, 30 -/
example : (match runAsync wfDiamond (some 2) [0, 1, 2, 3] schedDiamond with
    | .done o st => some (o, st.futured)
    | _ => none) = some (Outcome.success, [10, 11, 12, 20, 30]) := by decide

example : (runSync wfDiamond (some 2) [0, 1, 2, 3] (fun _ => false) 20).1 = .success ∧
    (runSync wfDiamond (some 2) [0, 1, 2, 3] (fun _ => false) 20).2.futured = [10, 11, 12, 20, 30] := by decide

/-! ### why `get_runnable_tasks` returns the whole `queued` table

One node with three jobs (checksums 0, 1, 2), `max_concurrent = 2`.  The real loop hands the third job out at the
second poll.  A scan that returns only newly unblocked jobs hands out jobs 0 and 1, cuts job 2 off with `tasks[:2]`,
and never returns it again: the sequential loop has no task, the node is never done, and the loop spins — with the
fuel that provably suffices for the real loop (`C17_sync_terminates`: 2*3 + 2*1 + 3 = 11) and far beyond. -/

def wfThree : Wf := ⟨⟨[0], [], [], none⟩, fun _ _ => [0, 1, 2], fun c => c⟩

theorem C15_sync_hands_out_cut_jobs :
    ((runSync wfThree (some 2) [0] (fun _ => false) 11).1, (runSync wfThree (some 2) [0] (fun _ => false) 11).2.futured)
      = (SyncOutcome.success, [0, 1, 2]) := by decide

/-- WITNESS (documentation): the "newly runnable only" variant loses job 2 and does not terminate -/
theorem C15_new_only_loses_jobs :
    ((runSyncNewOnly wfThree (some 2) [0] (fun _ => false) 60).1,
     (runSyncNewOnly wfThree (some 2) [0] (fun _ => false) 60).2.futured,
     ((runSyncNewOnly wfThree (some 2) [0] (fun _ => false) 60).2.ns.get 0).queued)
      = (SyncOutcome.outOfFuel, [0, 1], [2]) := by decide

/-! ### submissions over pre-existing results: what the code guarantees

Without `rerun`, over a cache that holds successful results only (`Cached`), the loop is `Model.lean` started on that
cache (`Sched/Cached.lean`): cached jobs are never executed, and precedence holds in the form "whatever is dispatched
belongs to a node all of whose predecessors' jobs have their successful result on disk" at every instant.  With
`rerun`, or over errored results, see the D73 witnesses below; the limit holds in every case (`C16_rerun`). -/

/-- a cache of successful results (no locks of other submissions, no errored results) -/
def Cached (w0 : World) : Prop := ∀ c, w0 c = .idle ∨ w0 c = .ok

def InstantC (wf : Wf) (k : Option Nat) (sorted : List NodeId) (w0 : World) (st : St) : Prop :=
  ∃ sched st0 es, (runFrom wf k sorted (start wf k sorted w0) sched).state? = some st0 ∧ applyEvs st0 es = some st

/-- C15 over a populated cache, no `rerun`, FULL (all graphs, limits, schedules, instants, caches of successful results) -/
theorem C15_precedence_cached {wf : Wf} {k : Option Nat} {sorted : List NodeId} (hw : WellFormed wf sorted)
    {w0 : World} (h0 : Cached w0) {st : St} (hi : InstantC wf k sorted w0 st) :
    -- every job is dispatched at most once, a body executes only inside a pending future of a dispatched job
    st.futured.Nodup ∧ (∀ c, st.w c = .locked → c ∈ st.futures ∧ c ∈ st.futured) ∧
    -- whatever has been dispatched belongs to a node all of whose predecessor nodes have only successful jobs
    (∀ c, c ∈ st.futured →
      ∃ n, c ∈ (st.ns.get n).cks ∧ ∀ p, p ∈ wf.preds n → ∀ c', c' ∈ (st.ns.get p).cks → st.w c' = .ok) ∧
    -- a cached result is never replaced
    (∀ c, w0 c = .ok → st.w c = .ok) := by
  obtain ⟨sched, st0, es, hrun, hes⟩ := hi
  have hnl : NoLocks w0 := fun c => by rcases h0 c with h | h <;> rw [h] <;> simp
  have hc0 : CInv wf k st0 := cinv_runFrom hw.topo sched _ (fun _ h2 => cinv_start hw.topo hnl h2) st0 hrun
  have hc : CInv wf k st := cinv_applyEvs es hc0 hes
  have hm0 : WMono w0 st0.w :=
    runFrom_wmono sched _ w0 (fun st1 h1 => by rw [start_w h1]; exact WMono.refl _) st0 hrun
  have hm : WMono w0 st.w := hm0.trans (applyEvs_wmono es hes)
  refine ⟨hc.futuredNodup, fun c h => ⟨hc.lockedPending c h, hc.futuresSub c (hc.lockedPending c h)⟩, ?_,
    fun c h => hm.ok c h⟩
  intro c hcf
  obtain ⟨n, hb, hu, hcn⟩ := hc.legit c hcf
  exact ⟨n, hcn, fun p hp c' hc' => (hc.ninv.preds n hb hu p hp).2 c' hc'⟩

/-- C15 under `rerun=True`, FULL for the synchronous loop (debug worker) WITHOUT a `max_concurrent` limit: whatever the
    cache and the readonly caches hold (successful, errored, from any earlier values), whatever bodies fail now:
    the bodies executed in this submission (`began = ended`: one after the other) are ordered — each belongs to a
    started node all of whose predecessor nodes' jobs have ENDED EARLIER IN THIS SUBMISSION (`OrdR`) — and when the
    loop ends successfully every node is done, every job of every node was executed in this submission and the
    outputs are this submission's values (no old value survives).
    (`Sched/RerunSync.lean`: without a limit every job a poll hands out is executed before the next poll, so no poll
    reads a result this submission did not write.  With a limit, or an asynchronous worker: finding D73.) -/
theorem C15_rerun_sync_unlimited {wf : Wf} {sorted : List NodeId} (hw : WellFormed wf sorted) (cfg : RCfg)
    (hr : cfg.rerun = true) (w0 : World) (fail : Ck → Bool) (fuel : Nat) :
    (runSyncR wf none sorted cfg w0 fail fuel).2.began = (runSyncR wf none sorted cfg w0 fail fuel).2.ended ∧
    OrdR wf (runSyncR wf none sorted cfg w0 fail fuel).2 ∧
    ((runSyncR wf none sorted cfg w0 fail fuel).1 = .success →
      ∀ n, n ∈ wf.g.nodes →
        ((runSyncR wf none sorted cfg w0 fail fuel).2.st.ns.get n).isDone = true ∧
        (∀ c, c ∈ ((runSyncR wf none sorted cfg w0 fail fuel).2.st.ns.get n).cks →
          c ∈ (runSyncR wf none sorted cfg w0 fail fuel).2.ended ∧ (runSyncR wf none sorted cfg w0 fail fuel).2.st.w c = .ok) ∧
        outputsR wf cfg (runSyncR wf none sorted cfg w0 fail fuel).2 n =
          ((runSyncR wf none sorted cfg w0 fail fuel).2.st.ns.get n).cks.map wf.body) := by
  have h0 : RSInv wf cfg (doPollR wf none sorted cfg (RSt.init w0)) :=
    rsinv_doPollR hw.topo (rsinv_init wf cfg w0) (allE_init w0)
  obtain ⟨a, b, c⟩ := syncLoopR_spec hw.topo hr fail fuel h0
  have e : runSyncR wf none sorted cfg w0 fail fuel =
      syncLoopR wf none sorted cfg fail fuel (doPollR wf none sorted cfg (RSt.init w0)) := rfl
  rw [e]
  generalize syncLoopR wf none sorted cfg fail fuel (doPollR wf none sorted cfg (RSt.init w0)) = R at a b c ⊢
  refine ⟨b, a, ?_⟩
  intro hsucc n hn
  obtain ⟨hs, hall, hdone⟩ := c hsucc
  have hcks : ∀ x, x ∈ (R.2.st.ns.get n).cks → x ∈ R.2.ended := by
    intro x hx
    have hl := hs.ninv.loc n
    obtain ⟨hst, _, _, _⟩ := (isDone_iff _).mp (hdone n hn)
    have hb := blk_of_started hl hst
    cases hu : (R.2.st.ns.get n).unrunnable
    · obtain ⟨i, hi, hci⟩ := mem_cks_ckAt hx
      rw [← hci]
      exact hall n i (hl.cover hb hu i hi)
    · rw [(hl.unrun hu).2.2.2.2] at hx; simp at hx
  refine ⟨hdone n hn, fun x hx => ⟨hcks x hx, hs.fresh x (hcks x hx)⟩, ?_⟩
  unfold outputsR
  apply List.map_congr_left
  intro x hx
  show (if R.2.ended.contains x then wf.body x else cfg.oldv x) = wf.body x
  have : R.2.ended.contains x = true := by simp [hcks x hx]
  rw [this]; rfl

/-- the model of `Sched/Rerun.lean` without readonly results and with pure bodies reads the plain disk -/
theorem view_plain (cfg : RCfg) (h : ∀ c, cfg.ro c = .idle) (w : World) : view cfg w = w := by
  funext c
  unfold view
  rw [h c]
  cases w c <;> rfl

theorem diskWf_plain (wf : Wf) (cfg : RCfg) (h : cfg.oldv = wf.body) (ended : List Ck) : diskWf wf cfg ended = wf := by
  unfold diskWf
  cases wf with
  | mk g mk body =>
    simp only at h
    simp only [h, ite_self]

/-! ### submissions over pre-existing results (`Sched/Rerun.lean`): what the code does NOT guarantee (finding D73)

`a` = node 0 (checksum 10), `x` = node 1 (checksum 20), `b` = node 2 ← `x`, whose checksum is built from the value it
reads from `x` (30 + value).  A body executed in this submission returns checksum + 1000, a result left by the earlier
submission holds checksum + 500.  The cache holds successful results of all three jobs (`b`: 30 + 520 = 550). -/

def wfR : Wf := ⟨⟨[0, 1, 2], [(1, 2)], [], none⟩,
  fun n ins => match n with | 0 => [10] | 1 => [20] | _ => [30 + (ins.flatten.foldl (· + ·) 0)],
  fun c => c + 1000⟩

def cfgR (rerun : Bool) : RCfg := ⟨rerun, fun _ => .idle, fun c => c + 500⟩

/-- the same old results, found in a readonly cache -/
def cfgRo : RCfg := ⟨true, fun c => if c = 10 ∨ c = 20 ∨ c = 550 then .ok else .idle, fun c => c + 500⟩

def cacheR : World := fun c => if c = 10 ∨ c = 20 ∨ c = 550 then .ok else .idle

/-- `x` failed in the earlier submission (so `b` never ran) -/
def cacheE : World := fun c => if c = 10 then .ok else if c = 20 then .err else .idle

/-- D73 (i): `rerun=True` with `max_concurrent = 1`, synchronous loop.  The first poll returns `[a, x]`, cut to `[a]`;
    `x` stays queued, the next poll finds its OLD result and takes it as done: `x` is never re-executed, `b` is started
    from the old value (checksum 550) and the outputs mix the two submissions.  Without the limit every job is
    re-executed and `b` is built from the new value. -/
theorem C15_rerun_cut_job_keeps_old_result :
    (let r := runSyncR wfR (some 1) [0, 1, 2] (cfgR true) cacheR (fun _ => false) 20
     (r.1, r.2.began, [0, 1, 2].map (outputsR wfR (cfgR true) r.2))) = (.success, [10, 550], [[1010], [520], [1550]]) ∧
    (let r := runSyncR wfR none [0, 1, 2] (cfgR true) cacheR (fun _ => false) 20
     (r.1, r.2.began, [0, 1, 2].map (outputsR wfR (cfgR true) r.2))) = (.success, [10, 20, 1050], [[1010], [1020], [2050]]) := by
  decide

/-- D73 (i), errored first result: without `rerun` the failed job `x` would be retried by `Job.run`, but with
    `max_concurrent = 1` it is cut from the first poll, found errored at the next one and never executed: no body runs at
    all and `x` ends in the `errored` table.  Without the limit `x` is retried and `b` runs. -/
theorem C15_errored_result_not_retried :
    (let r := runSyncR wfR (some 1) [0, 1, 2] (cfgR false) cacheE (fun _ => false) 20
     (r.1, r.2.began, (r.2.st.ns.get 1).errored, (r.2.st.ns.get 2).unrunnable)) = (.success, [], [0], true) ∧
    (let r := runSyncR wfR none [0, 1, 2] (cfgR false) cacheE (fun _ => false) 20
     (r.1, r.2.began, (r.2.st.ns.get 1).errored, [0, 1, 2].map (outputsR wfR (cfgR false) r.2))) =
      (.success, [20, 1050], [], [[510], [1020], [2050]]) := by
  decide

/-- D73 (ii): `rerun=True`, no limit, asynchronous loop.  `a` and `x` are dispatched together; `a` completes while the
    body of `x` has not started yet, so the poll finds the old result of `x`, starts `b` from it (checksum 550), and `b`
    executes while `x` is being re-executed: `b` ends before `x` does. -/
theorem C15_rerun_stale_read_race :
    (match runAsyncR wfR none [0, 1, 2] (cfgR true) cacheR
        [[.acquire 10, .finishOk 10, .complete 10],
         [.acquire 20, .acquire 550, .finishOk 550, .finishOk 20, .complete 20, .complete 550]] with
     | .done o r => some (o, r.began, r.ended, [0, 1, 2].map (outputsR wfR (cfgR true) r))
     | _ => none) = some (.success, [10, 20, 550], [10, 550, 20], [[1010], [1020], [1550]]) := by
  decide

/-- D73 (ii) with `readonly_caches`: the old result of `x` stays visible WHILE `x` is executing (the re-execution only
    clears the `cache_root`), so the poll after `a` completes starts `b` from the old value although the body of `x` is
    already running. -/
theorem C15_rerun_readonly_stale_read :
    (match runAsyncR wfR none [0, 1, 2] cfgRo (fun _ => .idle)
        [[.acquire 10, .acquire 20, .finishOk 10, .complete 10],
         [.acquire 550, .finishOk 550, .finishOk 20, .complete 20, .complete 550]] with
     | .done o r => some (o, r.began, r.ended, [0, 1, 2].map (outputsR wfR cfgRo r))
     | _ => none) = some (.success, [10, 20, 550], [10, 550, 20], [[1010], [1020], [1550]]) := by
  decide

/-- D73 (ii), the crash: `a` = 0, `x` = 1, `y` = 2 ← `a`, `b` = 3 ← `x`, `y` (one job each, checksums 10, 20, 30, 40, all with
    an old successful result).  `a` completes while `x` has not started: `x` is taken as done from its old result.  Then
    the body of `x` starts (the old result is deleted) and `y` completes: `b` is started, but the result of `x` it has to
    read is gone and the new one is not there yet — `LazyField._get_value` raises and the submission ends. -/
theorem C15_rerun_lost_input :
    (match runAsyncR ⟨⟨[0, 1, 2, 3], [(0, 2), (1, 3), (2, 3)], [], none⟩, fun n _ => [10 * (n + 1)], fun c => c + 1000⟩
        none [0, 1, 2, 3] (cfgR true) (fun c => if c = 10 ∨ c = 20 ∨ c = 30 ∨ c = 40 then .ok else .idle)
        [[.acquire 10, .finishOk 10, .complete 10], [.acquire 20, .acquire 30, .finishOk 30, .complete 30]] with
     | .crash r => some (r.began, r.ended, (r.st.ns.get 1).successful, r.st.w 20)
     | _ => none) = some ([10, 20, 30], [10, 30], [0], Truth.locked) := by
  decide

end PydraModel.Sched
