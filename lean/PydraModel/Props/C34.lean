import PydraModel.Files.Lemmas
import PydraModel.Props.C33
/-
C34 — File inputs are staged according to their copy mode.

"File inputs are staged into the job directory according to their copy mode: a copy is independent of the original, a
link shows the original content, nested containers keep their shape and their non-file values, and a file object
appearing several times is staged once."

pydra's own part is: the per-field loop of `Job.inputs`, `copy_nested_files` (memo dict keyed by the FileSet's
`__eq__`/`__hash__` = class and paths; reduction of `supported_modes` by the mount checks), and the traversal
`apply_to_instances`.  How a file is copied, linked or left is `fileformats.FileSet.copy`, a parameter with `Contract`.

Findings recorded here (both from reading the code, both confirmed on the real tree by the harness):

* the id-keyed `cache` of `apply_to_instances` is dead: the recursive calls do not pass it on (`C34_idmemo_inert`);
  "staged once" is owed to the FileSet-keyed dict in `copy_nested_files` alone (`C34_memo`);
* D50: `Job.inputs` calls `copy_nested_files` once per field WITHOUT `clashes_to_avoid`, so each field gets a new clash
  set and a new memo: two fields holding files with the same name — or the very same file object — make the second
  `FileSet.copy` raise `FileExistsError` (`C34_witness_cross_field`).  The full statement is `C34_full_statement`;
  what is proved for all inputs is `C34_partial` (= everything the property says, whenever staging returns).
-/
namespace PydraModel.Files
open PydraModel.Mount (Str Table)

/-! ### reduction of the supported modes (pydra's own mount logic, on top of C38's lookup) -/

section Reduce
variable (get : Table → Str → Mount.Entry) (tbl : Table) (destDir : Path) (paths : List Path) (sup : Mode)

/-- **C34 supported-mode reduction, symlink.**  If any path of the file-set is on a CIFS mount, `symlink` is not among
    the supported modes handed to `FileSet.copy`. -/
theorem C34_supported_symlink (h : paths.any (fun p => Mount.onCifs get tbl p) = true) :
    (reduceSupported get tbl destDir paths sup).sym = false := by
  unfold reduceSupported
  simp only [h, if_true]
  generalize (paths.all fun p => Mount.onSameMount get tbl p destDir) = c2
  cases c2 <;> cases hs : sup.sym <;> cases hh : sup.hard <;> simp [Mode.sub, Mode.and, Mode.xor, Mode.symlink, Mode.hardlink, hs]

/-- **C34 supported-mode reduction, hardlink.**  If some path is not on the mount of the destination directory,
    `hardlink` is not among the supported modes. -/
theorem C34_supported_hardlink (h : paths.all (fun p => Mount.onSameMount get tbl p destDir) = false) :
    (reduceSupported get tbl destDir paths sup).hard = false := by
  unfold reduceSupported
  simp only [h]
  generalize (paths.any fun p => Mount.onCifs get tbl p) = c1
  cases c1 <;> cases hs : sup.sym <;> cases hh : sup.hard <;> simp [Mode.sub, Mode.and, Mode.xor, Mode.symlink, Mode.hardlink, hh]

/-- …and nothing else is touched: `leave` and `copy` survive; `symlink` survives unless a path is on CIFS; `hardlink`
    survives unless a path is on another mount. -/
theorem C34_supported_keeps :
    (reduceSupported get tbl destDir paths sup).leave = sup.leave
    ∧ (reduceSupported get tbl destDir paths sup).copy = sup.copy
    ∧ (paths.any (fun p => Mount.onCifs get tbl p) = false → (reduceSupported get tbl destDir paths sup).sym = sup.sym)
    ∧ (paths.all (fun p => Mount.onSameMount get tbl p destDir) = true →
        (reduceSupported get tbl destDir paths sup).hard = sup.hard) := by
  unfold reduceSupported
  generalize (paths.any fun p => Mount.onCifs get tbl p) = c1
  generalize (paths.all fun p => Mount.onSameMount get tbl p destDir) = c2
  cases c1 <;> cases c2 <;> cases hl : sup.leave <;> cases hs : sup.sym <;> cases hh : sup.hard <;> cases hc : sup.copy <;>
    simp [Mode.sub, Mode.and, Mode.xor, Mode.symlink, Mode.hardlink, hl, hs, hh, hc]

end Reduce

/-! ### the id-keyed cache of `apply_to_instances` -/

/-- **C34 id-memo is inert.**  `copy_nested_files` calls `apply_to_instances` without `cache`; nested calls are made
    without it as well (`applyList` passes `[]` by definition, mirroring the source).  So no lookup in an id-keyed cache
    ever hits, for any value: the traversal is the plain left-to-right tree traversal, whether or not object identities
    repeat or are reused.  (More generally a caller-supplied cache is consulted for the root object only.) -/
theorem C34_idmemo_inert {σ ε : Type} (f : σ → FileObj → Except ε (FileObj × σ)) (cache : IdCache) (s : σ)
    (i : Nat) (k : Kind) (cs : List Val) (h : ∀ r, (i, r) ∉ cache) :
    applyToInstances f cache s (.node i k cs) = applyToInstances f [] s (.node i k cs)
    ∧ applyToInstances f [] s (.node i k cs)
        = (match applyList f s cs with | .error e => .error e | .ok (cs', s') => .ok (.node 0 k cs', s')) := by
  refine ⟨applyToInstances_cache_miss f cache s _ ?_, ?_⟩
  · intro j r hjr
    show i ≠ j
    intro hij
    exact h r (hij ▸ hjr)
  · simp only [applyToInstances, List.lookup]
    cases applyList f s cs <;> rfl

/-! ### the loop of `Job.inputs` -/

section Stage
variable {P : Prim} {Copied : FileObj → FileObj → Op → Prop} (hP : Contract P Copied)
variable (get : Table → Str → Mount.Entry) (tbl : Table) (jobDir : Path) (sup : Mode)

/-- What holds for one field after staging: untouched when the value is falsy or the field's type holds no FileSet;
    otherwise the facts of one `copy_nested_files` call that started with an EMPTY clash set. -/
def StagedField (Copied : FileObj → FileObj → Op → Prop) (get : Table → Str → Mount.Entry) (tbl : Table) (jobDir : Path)
    (sup : Mode) (ex : List Path) (f : Field) (b : Str × Val) (m : List Entry) : Prop :=
  b.1 = f.name ∧
  ((f.truthy && f.typed) = false ∧ b.2 = f.value ∧ m = []
   ∨ (f.truthy && f.typed) = true ∧ ∃ st ex0, st.memo = m ∧ (∀ p ∈ ex, p ∈ ex0) ∧
       NestedSpec Copied (stageEnv get tbl jobDir sup f) [] ex0 f.value b.2 st)

include hP in
/-- **C34 partial (everything, whenever staging returns).**  For field lists and nested values of any size. -/
theorem C34_partial : ∀ (fields : List Field) (ex : List Path) (n : Nat) (r : Collected),
    stageInputs P get tbl jobDir sup fields ex n = .ok r →
    PerField (StagedField Copied get tbl jobDir sup ex) fields r.fields r.memos ∧ ∀ p ∈ ex, p ∈ r.ex
  | [], ex, n, r, h => by
    simp only [stageInputs, Except.ok.injEq] at h
    subst h
    exact ⟨by simp [PerField], fun _ h => h⟩
  | f :: fs, ex, n, r, h => by
    unfold stageInputs at h
    by_cases hc : (f.truthy && f.typed) = true
    · rw [if_pos hc] at h
      cases hn : copyNested P (stageEnv get tbl jobDir sup f) none ex n f.value with
      | error e => simp [hn] at h
      | ok q =>
        obtain ⟨v', st⟩ := q
        simp only [hn] at h
        cases hl : stageInputs P get tbl jobDir sup fs st.ex st.nextId with
        | error e => simp [hl] at h
        | ok r' =>
          simp only [hl, Except.ok.injEq] at h
          subst h
          have spec := copyNested_spec hP (stageEnv get tbl jobDir sup f) [] ex none n f.value v' st hn rfl
          obtain ⟨ih1, ih2⟩ := C34_partial fs st.ex st.nextId r' hl
          refine ⟨?_, fun p hp => ih2 p (spec.inv.subEx p hp)⟩
          simp only [PerField]
          refine ⟨⟨by simp, Or.inr ⟨hc, st, ex, rfl, fun _ h => h, spec⟩⟩, ?_⟩
          refine PerField.mono _ _ _ ?_ ih1
          rintro a b m _ _ ⟨h1, h2⟩
          refine ⟨h1, ?_⟩
          rcases h2 with h2 | ⟨h2, st', ex0, h3, h4, h5⟩
          · exact Or.inl h2
          · exact Or.inr ⟨h2, st', ex0, h3, fun p hp => h4 p (spec.inv.subEx p hp), h5⟩
    · have hc' : (f.truthy && f.typed) = false := by simpa using hc
      rw [if_neg hc] at h
      cases hl : stageInputs P get tbl jobDir sup fs ex n with
      | error e => simp [hl] at h
      | ok r' =>
        simp only [hl, Except.ok.injEq] at h
        subst h
        obtain ⟨ih1, ih2⟩ := C34_partial fs ex n r' hl
        refine ⟨?_, ih2⟩
        simp only [PerField]
        exact ⟨⟨by simp, Or.inl ⟨hc', rfl, rfl⟩⟩, ih1⟩

include hP in
/-- **C34 shape.**  Nested containers keep their shape and their non-file values; field names are kept. -/
theorem C34_shape (fields : List Field) (ex : List Path) (n : Nat) (r : Collected)
    (h : stageInputs P get tbl jobDir sup fields ex n = .ok r) :
    PerField (fun f b _ => b.1 = f.name ∧ shape b.2 = shape f.value) fields r.fields r.memos := by
  refine PerField.mono _ _ _ ?_ (C34_partial hP get tbl jobDir sup fields ex n r h).1
  rintro f b m _ _ ⟨h1, h2⟩
  refine ⟨h1, ?_⟩
  rcases h2 with ⟨_, h2, _⟩ | ⟨_, st, ex0, _, _, spec⟩
  · rw [h2]
  · exact Rel.shape_eq _ _ spec.rel

/-- The resolver depends on (class, paths) only: all occurrences of equal file objects get the same staged object. -/
theorem resolve_key (m : List Entry) (x y : FileObj) (h : x.key = y.key) (hxy : resolve m x ≠ x ∨ resolve m y ≠ y) :
    resolve m x = resolve m y := by
  unfold resolve at *
  rw [h] at *
  cases hf : m.find? (fun e => e.key == y.key) with
  | some e => rfl
  | none => simp [hf] at hxy

include hP in
/-- **C34 memo transparency / staged once.**  For a staged field the result is the plain tree map of the value under
    `resolve m` (so the FileSet-keyed memo changes nothing but the number of copies); `m` — the `FileSet.copy` calls
    actually made — has exactly one entry per distinct (class, paths) among the leaves, however often and wherever
    in the nesting a file object occurs; every occurrence gets that entry's result. -/
theorem C34_memo (fields : List Field) (ex : List Path) (n : Nat) (r : Collected)
    (h : stageInputs P get tbl jobDir sup fields ex n = .ok r) :
    PerField (fun f b m => (f.truthy && f.typed) = true →
        b.2 = mapVal (resolve m) f.value
        ∧ m.Pairwise (fun e e' => e.key ≠ e'.key)
        ∧ (∀ e ∈ m, e.src ∈ leaves f.value ∧ e.key = e.src.key)
        ∧ (∀ x ∈ leaves f.value, ∃ e ∈ m, e.key = x.key ∧ e.dst = resolve m x)) fields r.fields r.memos := by
  refine PerField.mono _ _ _ ?_ (C34_partial hP get tbl jobDir sup fields ex n r h).1
  rintro f b m _ _ ⟨_, h2⟩ hc
  rcases h2 with ⟨h2, _⟩ | ⟨_, st, ex0, rfl, _, spec⟩
  · rw [hc] at h2; cases h2
  · refine ⟨?_, spec.inv.nodup, fun e he => ⟨spec.src_leaf e he, (spec.inv.good e he).key⟩, ?_⟩
    · exact Rel.eq_map _ _ (fun x _ d hd => res_resolve spec.inv.nodup hd) spec.rel
    · intro x hx
      obtain ⟨d, _, e, he, hk, hd⟩ := Rel.leaf_image _ _ spec.rel x hx
      exact ⟨e, he, hk, res_resolve spec.inv.nodup ⟨e, he, hk, rfl⟩⟩

include hP in
/-- **C34 modes.**  For every `FileSet.copy` call made while staging a field:
    the operation is one the field's `copy_mode` asks for and the reduced `supported_modes` allow — hence never a symlink
    when a path is on CIFS, never a hard link when a path is on another mount, and a real copy when `copy_mode=copy`;
    "leave" hands the original object through; anything else creates paths inside the job directory that did not exist
    when staging began (so they are not the source paths if those existed), with the source's content and class. -/
theorem C34_mode (fields : List Field) (ex : List Path) (n : Nat) (r : Collected)
    (h : stageInputs P get tbl jobDir sup fields ex n = .ok r) :
    PerField (fun f _ m => ∀ e ∈ m,
        (f.mode.and (reduceSupported get tbl jobDir e.src.paths sup)).has e.op = true
        ∧ (e.src.paths.any (fun p => Mount.onCifs get tbl p) = true → e.op ≠ .sym)
        ∧ (e.src.paths.all (fun p => Mount.onSameMount get tbl p jobDir) = false → e.op ≠ .hard)
        ∧ (f.mode = Mode.copyOnly → e.op = .copy)
        ∧ (e.op = .leave → e.dst = e.src)
        ∧ (e.op ≠ .leave → ∀ p ∈ e.dst.paths, Under jobDir p ∧ p ∉ ex ∧ ((∀ q ∈ e.src.paths, q ∈ ex) → p ∉ e.src.paths))
        ∧ e.dst.content = e.src.content ∧ e.dst.cls = e.src.cls ∧ Copied e.src e.dst e.op) fields r.fields r.memos := by
  refine PerField.mono _ _ _ ?_ (C34_partial hP get tbl jobDir sup fields ex n r h).1
  rintro f b m _ _ ⟨_, h2⟩ e he
  rcases h2 with ⟨_, _, h2⟩ | ⟨_, st, ex0, rfl, hsub, spec⟩
  · rw [h2] at he; simp at he
  · have g := spec.inv.good e he
    have hal : (f.mode.and (reduceSupported get tbl jobDir e.src.paths sup)).has e.op = true := g.allowed
    refine ⟨hal, ?_, ?_, ?_, g.leave, ?_, g.content.1, g.content.2, g.copied⟩
    · intro hc hop
      have := C34_supported_symlink get tbl jobDir e.src.paths sup hc
      rw [hop] at hal
      simp [Mode.has, Mode.and, this] at hal
    · intro hc hop
      have := C34_supported_hardlink get tbl jobDir e.src.paths sup hc
      rw [hop] at hal
      simp [Mode.has, Mode.and, this] at hal
    · intro hm
      rw [hm] at hal
      cases hop : e.op <;> rw [hop] at hal <;> simp [Mode.has, Mode.and, Mode.copyOnly] at hal ⊢
    · intro hl p hp
      obtain ⟨a1, _, a3, _, _⟩ := g.fresh hl p hp
      exact ⟨a1, fun h0 => a3 (hsub p h0), fun hq hps => a3 (hsub p (hq p hps))⟩

/-- **C34 staging gate.**  `Job.inputs` stages a field iff `contains_type(FileSet, fld.type)`; that test is true iff
    SOME leaf of the declared type — at any position of a tuple, at any depth of lists, dict keys/values, unions and
    optionals — is a FileSet class.  (A check of the first type argument only would miss `tuple[int, File]`:
    see the example below.) -/
theorem C34_gate (f : Field) : f.typed = true ↔ ∃ n, n ∈ f.ty.fileLeaves := containsType_iff f.ty

include hP in
/-- **C34 every reachable file is staged per the copy mode.**  If the declared type of a field mentions a FileSet class
    anywhere and the value is truthy, then EVERY file leaf of the value, wherever it sits, is replaced by the result of a
    `FileSet.copy` call made for its (class, paths) with an operation among `copy_mode & reduced supported modes`; for
    `copy_mode=copy` that is a real copy inside the job directory (never the original object). -/
theorem C34_every_file_staged (fields : List Field) (ex : List Path) (n : Nat) (r : Collected)
    (h : stageInputs P get tbl jobDir sup fields ex n = .ok r) :
    PerField (fun f b m => (∃ n, n ∈ f.ty.fileLeaves) → f.truthy = true →
        b.2 = mapVal (resolve m) f.value ∧
        ∀ x ∈ leaves f.value, ∃ e ∈ m, e.key = x.key ∧ e.dst = resolve m x
          ∧ (f.mode.and (reduceSupported get tbl jobDir e.src.paths sup)).has e.op = true
          ∧ (f.mode = Mode.copyOnly → e.op = .copy ∧ ∀ p ∈ (resolve m x).paths, Under jobDir p ∧ p ∉ ex))
      fields r.fields r.memos := by
  have M := C34_memo hP get tbl jobDir sup fields ex n r h
  have D := C34_mode hP get tbl jobDir sup fields ex n r h
  have aux : ∀ (as : List Field) (bs : List (Str × Val)) (ms : List (List Entry)),
      PerField (fun f b m => (f.truthy && f.typed) = true →
        b.2 = mapVal (resolve m) f.value
        ∧ m.Pairwise (fun e e' => e.key ≠ e'.key)
        ∧ (∀ e ∈ m, e.src ∈ leaves f.value ∧ e.key = e.src.key)
        ∧ (∀ x ∈ leaves f.value, ∃ e ∈ m, e.key = x.key ∧ e.dst = resolve m x)) as bs ms →
      PerField (fun f _ m => ∀ e ∈ m,
        (f.mode.and (reduceSupported get tbl jobDir e.src.paths sup)).has e.op = true
        ∧ (e.src.paths.any (fun p => Mount.onCifs get tbl p) = true → e.op ≠ .sym)
        ∧ (e.src.paths.all (fun p => Mount.onSameMount get tbl p jobDir) = false → e.op ≠ .hard)
        ∧ (f.mode = Mode.copyOnly → e.op = .copy)
        ∧ (e.op = .leave → e.dst = e.src)
        ∧ (e.op ≠ .leave → ∀ p ∈ e.dst.paths, Under jobDir p ∧ p ∉ ex ∧ ((∀ q ∈ e.src.paths, q ∈ ex) → p ∉ e.src.paths))
        ∧ e.dst.content = e.src.content ∧ e.dst.cls = e.src.cls ∧ Copied e.src e.dst e.op) as bs ms →
      PerField (fun f b m => (∃ n, n ∈ f.ty.fileLeaves) → f.truthy = true →
        b.2 = mapVal (resolve m) f.value ∧
        ∀ x ∈ leaves f.value, ∃ e ∈ m, e.key = x.key ∧ e.dst = resolve m x
          ∧ (f.mode.and (reduceSupported get tbl jobDir e.src.paths sup)).has e.op = true
          ∧ (f.mode = Mode.copyOnly → e.op = .copy ∧ ∀ p ∈ (resolve m x).paths, Under jobDir p ∧ p ∉ ex)) as bs ms := by
    intro as
    induction as with
    | nil => intro bs ms h1 _; cases bs <;> cases ms <;> simp_all [PerField]
    | cons a as ih =>
      intro bs ms h1 h2
      cases bs with
      | nil => simp [PerField] at h1
      | cons b bs =>
        cases ms with
        | nil => simp [PerField] at h1
        | cons m ms =>
          simp only [PerField] at h1 h2 ⊢
          refine ⟨?_, ih bs ms h1.2 h2.2⟩
          intro hg ht
          have hc : (a.truthy && a.typed) = true := by
            rw [ht, (C34_gate a).mpr hg]; rfl
          obtain ⟨m1, _, _, m4⟩ := h1.1 hc
          refine ⟨m1, fun x hx => ?_⟩
          obtain ⟨e, he, hk, hd⟩ := m4 x hx
          obtain ⟨d1, _, _, d4, _, d6, _⟩ := h2.1 e he
          refine ⟨e, he, hk, hd, d1, fun hm => ?_⟩
          have hop := d4 hm
          refine ⟨hop, fun p hp => ?_⟩
          rw [← hd] at hp
          have := d6 (by rw [hop]; decide) p hp
          exact ⟨this.1, this.2.1⟩
  exact aux _ _ _ M D

end Stage

/-! ### D50: the clash set is per field -/

/-- FULL statement (what the property promises and the pinned tree does not deliver): with the counter-suffix primitive,
    a job directory in which nothing exists yet, single-path file-sets whose files exist, and for every file a copy
    mode that can be satisfied, staging returns (instead of raising). -/
def C34_full_statement : Prop :=
  ∀ (get : Table → Str → Mount.Entry) (tbl : Table) (jobDir : Path) (fields : List Field) (ex : List Path) (n : Nat),
    (∀ p ∈ ex, ¬ (jobDir ++ ['/']).isPrefixOf p = true) →
    (∀ f ∈ fields, ∀ x ∈ leaves f.value, x.paths.length = 1 ∧ (∀ p ∈ x.paths, p ∈ ex)
        ∧ chooseOp (selOf (stageEnv get tbl jobDir Mode.any f) x) ≠ none) →
    ∃ r, stageInputs copyOneRef get tbl jobDir Mode.any fields ex n = .ok r

private def wA : FileObj := ⟨1, "File".toList, ["/n1/f.txt".toList], 10⟩
private def wB : FileObj := ⟨2, "File".toList, ["/n2/f.txt".toList], 20⟩
private def wEx : List Path := ["/n1/f.txt".toList, "/n2/f.txt".toList]
private def wField (nm : String) (v : Val) : Field := ⟨nm.toList, .file "File".toList, true, Mode.copyOnly, 0, v⟩

/-- **Witness (D50).**  Two fields `x: File`, `y: File` with `copy_mode=copy`, holding `n1/f.txt` and `n2/f.txt`:
    the first is staged as `job/f.txt`; the second call starts with an empty clash set, finds `job/f.txt` existing and
    not in that set, and `FileSet.copy` raises.  The same happens when both fields hold the same object. -/
theorem C34_witness_cross_field :
    (match stageInputs copyOneRef Mount.getMountComp [] "/job".toList Mode.any
        [wField "x" (.file wA), wField "y" (.file wB)] wEx 0 with
      | .error e => String.ofList e | .ok _ => "ok") = "FileExistsError"
    ∧ (match stageInputs copyOneRef Mount.getMountComp [] "/job".toList Mode.any
        [wField "x" (.file wA), wField "y" (.file wA)] wEx 0 with
      | .error e => String.ofList e | .ok _ => "ok") = "FileExistsError" := by
  constructor <;> decide +kernel

/-- With ONE clash set handed from field to field (what `copyfile_workflow` does) the same two values are staged as
    `f.txt` and `f (1).txt`; inside one field (`y: list[File]`) the pinned code does that too. -/
theorem C34_witness_shared_set_ok :
    (match collectLoop copyOneRef (stageEnv Mount.getMountComp [] "/job".toList Mode.any (wField "x" (.atom [])))
        [("x".toList, .file wA), ("y".toList, .file wB)] [] wEx 0 with
      | .error _ => [] | .ok r => r.memos.flatten.map (fun e => e.dst.paths.map String.ofList))
      = [["/job/f.txt"], ["/job/f (1).txt"]]
    ∧ (match stageInputs copyOneRef Mount.getMountComp [] "/job".toList Mode.any
        [wField "y" (.node 5 .list [.file wA, .file wB, .file wA])] wEx 0 with
      | .error _ => [] | .ok r => r.memos.flatten.map (fun e => e.dst.paths.map String.ofList))
      = [["/job/f.txt"], ["/job/f (1).txt"]] := by
  constructor <;> decide +kernel

/-- The full statement fails on the pinned algorithm. -/
theorem C34_full_fails : ¬ C34_full_statement := by
  intro hfull
  have h := hfull Mount.getMountComp [] "/job".toList [wField "x" (.file wA), wField "y" (.file wB)] wEx 0
    (by decide +kernel) (by decide +kernel)
  obtain ⟨r, hr⟩ := h
  have hw := C34_witness_cross_field.1
  rw [hr] at hw
  simp at hw

/-- Non-vacuity of `C34_partial`, `C34_memo`, `C34_mode`: staging a nested value with a repeated object succeeds with
    the counter-suffix primitive (which meets the contract: `copyOneRef_contract`), under each basic copy mode. -/
example : ∀ md ∈ [Mode.copyOnly, Mode.hardlink, Mode.symlink, Mode.any],
    (match stageInputs copyOneRef Mount.getMountComp [] "/job".toList Mode.any
        [⟨"y".toList, .seq [.union [.atom "Any".toList, .file "FileSet".toList]] false, true, md, 0, .node 5 .list [.file wA, .node 6 .dict [.atom "'k'".toList, .file wB], .file wA]⟩,
         ⟨"n".toList, .atom "int".toList, true, md, 0, .atom "3".toList⟩] wEx 0 with
      | .error _ => false | .ok r => r.fields.length == 2) = true := by
  decide +kernel

/-- The gate on the shapes a first-argument-only check would miss, and on types that mention no file class. -/
example :
    containsType (.seq [.atom "int".toList, .file "File".toList] false) = true                                  -- tuple[int, File]
    ∧ containsType (.seq [.seq [.atom "str".toList, .file "File".toList] false] false) = true                   -- list[tuple[str, File]]
    ∧ containsType (.mapping (.atom "str".toList) (.union [.atom "None".toList, .seq [.file "File".toList] true])) = true
    ∧ containsType (.seq [.atom "Any".toList] false) = false                                                     -- list[Any]
    ∧ containsType (.atom "list".toList) = false := by decide

/-- Non-vacuity of the mount hypotheses: `/mnt/c` is a CIFS mount, the job directory is not under it. -/
example : (reduceSupported Mount.getMountComp [("/mnt/c".toList, "cifs".toList)] "/job".toList ["/mnt/c/f.txt".toList]
    Mode.any) = ⟨true, false, false, true⟩ := by decide +kernel

/-- …and a string-prefix sibling of the mount point (`/mnt/c2`) is not affected (component lookup, C38). -/
example : (reduceSupported Mount.getMountComp [("/mnt/c".toList, "cifs".toList)] "/job".toList ["/mnt/c2/f.txt".toList]
    Mode.any) = Mode.any := by decide +kernel

end PydraModel.Files
