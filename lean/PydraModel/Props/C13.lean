import PydraModel.JobProto.C13Run
import PydraModel.JobProto.C13Async
import PydraModel.JobProto.C35Run
import PydraModel.JobProto.C35Async
import PydraModel.JobProto.Bind
import PydraModel.JobProto.ShellExec
/-
C13 — Failures are reported and never cached as success (DESIGN §6 C13, engine JobProto §5.4).  FULL on the
current tree (D9, D60, D61 are repaired; their witnesses are kept as regression theorems).

* `C13_not_cached` / `_async`: from every initial world, a call that executes a body which raises (an `Exception`
  or a `BaseException` such as `SystemExit`): the exception propagates, the job directory afterwards holds a
  complete ERRORED result (never `complete ok`), `_error.pklz` and `_job.pklz` are written, and
* `C13_retry_executes`: the next submission without rerun enters the body again (it is not served the failure).
* `C13_reported`: `Task.__call__` reports the failure: the exception itself (debug worker / BaseException) or a
  RuntimeError carrying the RECORDED error — never "NOT RETRIEVED", never a success, never empty outputs.
* `C13_success_reported`: a submission whose body succeeds reports its outputs whatever was cached before,
  in particular right after a failed run in the same process (regression of D61).
* `C13_shell_rc` / `C13_shell_not_cached`: the shell executor's outcome as a function of the return code, with the test
  expression REGENERATED from `Native.execute`: for EVERY `rc ≠ 0` — negative ones (death by signal) included — the
  executor raises, hence the job directory holds an errored result and the next submission executes again.
* `C13_binding_*`: `PythonTask._run` + `_from_job`: decision theorem "binding succeeds iff the returned object is
  usable and provides every mandatory output" for any number of outputs (regression of D9).
Finite parts are evaluated by the kernel on the GENERATED skeletons (`JobProto/C13Run.lean`, `C13Async.lean`).
-/
namespace PydraModel.JobProto
open PydraModel.Gen.JobSkeleton

set_option maxRecDepth 100000

theorem C13_not_cached (w0 : World) (h0 : w0.core.Initial) (rerun prov base : Bool)
    (hex : Executes rerun w0.core) :
    FailureOK base w0 (exec jobRun ⟨rerun, prov, some base, auditStartChdir⟩ .none w0) :=
  failure_lift jobRun auditStartChdir CheckRun.failure w0 h0 rerun prov base hex

theorem C13_not_cached_async (w0 : World) (h0 : w0.core.Initial) (rerun prov base : Bool)
    (hex : Executes rerun w0.core) :
    FailureOK base w0 (exec jobRunAsync ⟨rerun, prov, some base, auditStartChdir⟩ .none w0) :=
  failure_lift jobRunAsync auditStartChdir CheckAsync.failure w0 h0 rerun prov base hex

/-- non-vacuity: the empty cache location executes, and so does a location holding an errored result -/
example : World.fresh.core.Initial ∧ Executes false World.fresh.core := by decide
example : Executes false { Core.fresh with dir := true, result := .complete ⟨true, false⟩ } := by decide

/-- after a failed call, the next submission (rerun or not; whatever its body does) enters the body again -/
theorem C13_retry_executes (w0 : World) (h0 : w0.core.Initial) (rerun prov base : Bool)
    (hex : Executes rerun w0.core) (env2 : Env) (h2 : env2.auditChdir = auditStartChdir) :
    let w1 := nextJob (exec jobRun ⟨rerun, prov, some base, auditStartChdir⟩ .none w0).1
    (exec jobRun env2 .none w1).1.execs = w1.execs + 1 := by
  obtain ⟨_, _, _, _, f5, _, _, f8⟩ := C13_not_cached w0 h0 rerun prov base hex
  intro w1
  obtain ⟨_, he, _⟩ := exec_base jobRun env2 .none w1
  obtain ⟨_, _, b3, _, _, b6, _⟩ :=
    CheckRun.hooks _ (initial_normC_mem w1.core f8) env2 (h2 ▸ mem_allEnvs env2)
  have hres : (normC w1.core).result = .complete ⟨true, false⟩ := f5
  have hng : (normC w1.core).result.isGood = false := by rw [hres]; rfl
  have hne : execsIn (exec jobRun env2 .none ⟨normC w1.core, []⟩).1.evs ≠ 0 := by
    intro h0'
    have := (b6.mp h0').2.1
    rw [hng] at this
    cases this
  simp only [World.execs]
  rw [he, execsIn_append]
  omega

/-- what the submitter reports for a failing body, from every initial world and whatever error file an earlier
    run left: the exception itself, or a RuntimeError with the recorded error -/
theorem C13_reported (w0 : World) (h0 : w0.core.Initial) (rerun prov base : Bool) (hex : Executes rerun w0.core)
    (raiseErrors inProcess : Bool) (errInit : FileSt) :
    (submit jobRun ⟨rerun, prov, some base, auditStartChdir⟩ .none raiseErrors inProcess errInit w0).2 =
      expectedFailureReport base raiseErrors := by
  rw [submit_report, report_lift]
  exact (CheckRun.failure _ (initial_normC_mem w0.core h0) rerun (bool_mem _) prov (bool_mem _) base (bool_mem _)
    hex).2 raiseErrors (bool_mem _) inProcess (bool_mem _) _ (fileSt_mem _)

theorem C13_reported_async (w0 : World) (h0 : w0.core.Initial) (rerun prov base : Bool)
    (hex : Executes rerun w0.core) (raiseErrors inProcess : Bool) (errInit : FileSt) :
    (submit jobRunAsync ⟨rerun, prov, some base, auditStartChdir⟩ .none raiseErrors inProcess errInit w0).2 =
      expectedFailureReport base raiseErrors := by
  rw [submit_report, report_lift]
  exact (CheckAsync.failure _ (initial_normC_mem w0.core h0) rerun (bool_mem _) prov (bool_mem _) base (bool_mem _)
    hex).2 raiseErrors (bool_mem _) inProcess (bool_mem _) _ (fileSt_mem _)

/-- a submission whose body succeeds reports the outputs, from every initial world (nothing cached, torn file,
    errored result, good result), rerun or not, in-process or via a worker process -/
theorem C13_success_reported (w0 : World) (h0 : w0.core.Initial) (rerun prov raiseErrors inProcess : Bool)
    (errInit : FileSt) :
    (submit jobRun ⟨rerun, prov, none, auditStartChdir⟩ .none raiseErrors inProcess errInit w0).2 = .outputs true := by
  rw [submit_report, report_lift]
  exact CheckRun.success _ (initial_normC_mem w0.core h0) rerun (bool_mem _) prov (bool_mem _)
    raiseErrors (bool_mem _) inProcess (bool_mem _) _ (fileSt_mem _)

theorem C13_success_reported_async (w0 : World) (h0 : w0.core.Initial) (rerun prov raiseErrors inProcess : Bool)
    (errInit : FileSt) :
    (submit jobRunAsync ⟨rerun, prov, none, auditStartChdir⟩ .none raiseErrors inProcess errInit w0).2 =
      .outputs true := by
  rw [submit_report, report_lift]
  exact CheckAsync.success _ (initial_normC_mem w0.core h0) rerun (bool_mem _) prov (bool_mem _)
    raiseErrors (bool_mem _) inProcess (bool_mem _) _ (fileSt_mem _)

/-- regression of D61 (fixed by 7c090a81): fail, then succeed, in the same process on the submitter's own job
    objects — the second submission reports its outputs, not the stale failure -/
theorem C13_regression_D61 :
    let w1 := nextJob (exec jobRun ⟨false, false, some false, auditStartChdir⟩ .none World.fresh).1
    (submit jobRun ⟨false, false, none, auditStartChdir⟩ .none true true .absent w1).2 = .outputs true := by
  decide +kernel

/-- regression of D60 (fixed by 4d7dacb4): a body raising a `BaseException` leaves an ERRORED result -/
theorem C13_regression_D60 :
    (exec jobRun ⟨false, false, some true, auditStartChdir⟩ .none World.fresh).1.core.result =
      .complete ⟨true, false⟩ := by
  decide +kernel

/-! ### Shell tasks: the return code of the command -/

/-- for every non-zero return code (any integer: exit statuses and `-N` = killed by signal `N`) the executor raises -/
theorem C13_shell_rc (rc : Int) (h : rc ≠ 0) : shellExecute Gen.ShellExec.nativeRcTest rc = .raised :=
  shellExecute_nonzero rc h

/-- … and so a shell task whose command ends with a non-zero return code is never cached as a success:
    `C13_not_cached` applies to it (from every initial world) -/
theorem C13_shell_not_cached (rc : Int) (h : rc ≠ 0) (w0 : World) (h0 : w0.core.Initial) (rerun prov : Bool)
    (hex : Executes rerun w0.core) :
    FailureOK false w0
      (exec jobRun ⟨rerun, prov, shellBody Gen.ShellExec.nativeRcTest rc, auditStartChdir⟩ .none w0) := by
  rw [shellBody_nonzero rc h]
  exact C13_not_cached w0 h0 rerun prov false hex

example : shellExecute Gen.ShellExec.nativeRcTest (-11) = .raised := C13_shell_rc (-11) (by decide)
example : shellExecute Gen.ShellExec.nativeRcTest 0 = .returned 0 := shellExecute_zero

/-! ### Return-value binding of python tasks -/

/-- any number of outputs, any returned object: binding succeeds iff the object is usable and provides every
    mandatory output -/
theorem C13_binding_full (ret : Bind.Ret) (outs : List Bind.Out) :
    Bind.isOk (Bind.bindReturn ret outs) = true ↔
      (Bind.usable ret outs = true ∧ ∀ o ∈ outs, o.mandatory = true → Bind.provides ret outs o = true) :=
  Bind.bind_ok_iff ret outs

/-- "a mandatory output not provided ⇒ error" -/
theorem C13_binding_missing (ret : Bind.Ret) (outs : List Bind.Out)
    (h : ∃ o ∈ outs, o.mandatory = true ∧ Bind.provides ret outs o = false) :
    Bind.isOk (Bind.bindReturn ret outs) = false :=
  Bind.missing_mandatory_is_error ret outs h

/-- the converse clause: when binding succeeds, every mandatory output is bound to a value that is not `NOTHING`
    (any number of outputs, any returned object) -/
theorem C13_binding_no_nothing (ret : Bind.Ret) (outs : List Bind.Out) (bs : List (Bind.Name × Bind.Val))
    (h : Bind.bindReturn ret outs = .ok bs) (o : Bind.Out) (ho : o ∈ outs) (hm : o.mandatory = true) :
    ∃ v, v ≠ .nothing ∧ (o.name, v) ∈ bs :=
  Bind.no_nothing_on_success ret outs bs h o ho hm

/-- regression of D9 (fixed by c0520c29): outputs `a`, `b` mandatory, the function returns `{"a": 1}` -/
theorem C13_binding_regression_D9 :
    Bind.bindReturn (.dict [0]) [⟨0, true⟩, ⟨1, true⟩] = .error .missingMandatory := rfl

example : Bind.bindReturn (.dict [0, 1]) [⟨0, true⟩, ⟨1, true⟩] = .ok [(0, .key 0), (1, .key 1)] := rfl
example : Bind.bindReturn (.dict [0]) [⟨0, true⟩, ⟨1, false⟩] = .ok [(0, .key 0), (1, .default)] := rfl
example : Bind.bindReturn (.tuple 2) [⟨0, true⟩, ⟨1, true⟩] = .ok [(0, .elem 0), (1, .elem 1)] := rfl
example : Bind.bindReturn (.tuple 3) [⟨0, true⟩, ⟨1, true⟩] = .error .wrongShape := rfl
example : Bind.bindReturn .none [⟨0, true⟩, ⟨1, true⟩] = .ok [(0, .pyNone), (1, .pyNone)] := rfl

end PydraModel.JobProto
