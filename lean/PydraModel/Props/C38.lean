import PydraModel.Mount.Lemmas
/-
C38 — Mount lookup compares whole path components.

Property theorems only (helper lemmas live in `Mount/Lemmas.lean`).
`getMountComp` is the algorithm with component comparison, `getMountStr` the one with `str.startswith`
(pinned commit, D22).  Which of the two the working tree runs is decided by the correspondence check.
-/
namespace PydraModel.Mount

/-- The property's reference: `r` is a longest table entry that is a component prefix of `path`,
    or the root default when no entry is. -/
def IsLongestCompPrefix (tbl : Table) (path : Str) (r : Entry) : Prop :=
  (r ∈ tbl ∧ comps r.1 <+: comps path ∧
     ∀ e ∈ tbl, comps e.1 <+: comps path → (comps e.1).length ≤ (comps r.1).length)
  ∨ (r = rootEntry ∧ ∀ e ∈ tbl, ¬ comps e.1 <+: comps path)

/-- What `parse_mount_table` guarantees about a table (proved below): longest string first, and the
    mount points are in canonical spelling (as `mount` prints them). -/
def TableOK (tbl : Table) : Prop :=
  tbl.Pairwise (fun a b => b.1.length ≤ a.1.length) ∧ ∀ e ∈ tbl, Normalized e.1

/-- FULL statement for the component-comparing lookup: for every table and every path, of any size. -/
theorem C38_comp_longest (tbl : Table) (path : Str) (h : TableOK tbl) :
    IsLongestCompPrefix tbl path (getMountComp tbl path) := by
  unfold getMountComp
  cases hf : tbl.find? (fun e => (comps e.1).isPrefixOf (comps path)) with
  | none =>
    right
    refine ⟨rfl, ?_⟩
    intro e he hp
    have := List.find?_eq_none.mp hf e he
    simp [List.isPrefixOf_iff_prefix] at this
    exact this hp
  | some r =>
    left
    obtain ⟨hm, hp, hmax⟩ := find?_maximal (fun e : Entry => e.1.length) _ tbl h.1 hf
    have hp' : comps r.1 <+: comps path := List.isPrefixOf_iff_prefix.mp hp
    refine ⟨hm, hp', ?_⟩
    intro e he hpe
    have hlen := hmax e he (List.isPrefixOf_iff_prefix.mpr hpe)
    -- both are prefixes of the same list, hence comparable
    rcases Nat.lt_or_ge (comps r.1).length (comps e.1).length with hlt | hge
    · exfalso
      have hre : comps r.1 <+: comps e.1 := List.prefix_of_prefix_length_le hp' hpe (Nat.le_of_lt hlt)
      have := render_lt_of_strict_prefix hre hlt (fun c hc => comps_ne_nil hc)
      rw [← h.2 r hm, ← h.2 e he] at this
      omega
    · exact hge

/-- Sibling directories sharing a string prefix are never confused: a returned non-default mount
    point is always a component prefix of the path. -/
theorem C38_comp_no_sibling (tbl : Table) (path : Str) :
    getMountComp tbl path = rootEntry ∨ comps (getMountComp tbl path).1 <+: comps path := by
  unfold getMountComp
  cases hf : tbl.find? (fun e => (comps e.1).isPrefixOf (comps path)) with
  | none => left; rfl
  | some r =>
    right
    have := List.find?_some hf
    exact List.isPrefixOf_iff_prefix.mp this

/-- The table handed to `get_mount` by `parse_mount_table` is sorted longest first, whatever prefix
    test the CIFS filter uses (so "first match" is "longest match"). -/
theorem C38_parse_sorted (under : Str → Str → Bool) (pairs : Table) :
    (parseTable under pairs).Pairwise (fun a b => b.1.length ≤ a.1.length) := by
  unfold parseTable
  exact List.Pairwise.filter _ (sortByLenDesc_sorted pairs)

theorem C38_parse_subset (under : Str → Str → Bool) (pairs : Table) :
    ∀ e ∈ parseTable under pairs, e ∈ pairs := by
  intro e he
  unfold parseTable at he
  exact (sortByLenDesc_mem pairs e).mp (List.mem_filter.mp he).1

/-- The `str.startswith` lookup agrees with the component lookup whenever no table entry is a
    string prefix of the path without being a component prefix (and vice versa). -/
theorem C38_str_partial (tbl : Table) (path : Str)
    (h : ∀ e ∈ tbl, e.1.isPrefixOf path = (comps e.1).isPrefixOf (comps path)) :
    getMountStr tbl path = getMountComp tbl path := by
  unfold getMountStr getMountComp
  have : tbl.find? (fun e => e.1.isPrefixOf path) = tbl.find? (fun e => (comps e.1).isPrefixOf (comps path)) := by
    induction tbl with
    | nil => rfl
    | cons x xs ih =>
      have hx := h x (by simp)
      simp only [List.find?_cons, hx]
      split
      · rfl
      · exact ih (fun e he => h e (by simp [he]))
  rw [this]

/-- Witness (D22): with `str.startswith`, `/data2/x` is attributed to the CIFS mount `/data`, which
    violates the reference; the component lookup answers the root default. -/
theorem C38_str_witness :
    getMountStr [("/data".toList, "cifs".toList)] "/data2/x".toList = ("/data".toList, "cifs".toList)
    ∧ ¬ IsLongestCompPrefix [("/data".toList, "cifs".toList)] "/data2/x".toList ("/data".toList, "cifs".toList)
    ∧ getMountComp [("/data".toList, "cifs".toList)] "/data2/x".toList = rootEntry := by
  refine ⟨by decide, ?_, by decide⟩
  intro h
  rcases h with ⟨_, hp, _⟩ | ⟨he, _⟩
  · have : (comps "/data".toList).isPrefixOf (comps "/data2/x".toList) = true := List.isPrefixOf_iff_prefix.mpr hp
    revert this; decide
  · revert he; decide

/-- Non-vacuity: a realistic two-level table meets `TableOK`, and the nested mount wins. -/
example : TableOK [("/data/sub".toList, "cifs".toList), ("/data".toList, "ext4".toList)] := by
  refine ⟨by decide, ?_⟩
  intro e he
  simp at he
  rcases he with rfl | rfl <;> (unfold Normalized; decide)

example : getMountComp [("/data/sub".toList, "cifs".toList), ("/data".toList, "ext4".toList)] "/data/sub/f".toList
    = ("/data/sub".toList, "cifs".toList) := by decide

end PydraModel.Mount
