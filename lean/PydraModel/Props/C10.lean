import PydraModel.JobProto.C10Checks
import PydraModel.JobProto.SmallBig
import PydraModel.JobProto.C10Init
/-
C10 — Concurrent submitters of one job share a single execution (DESIGN §6 C10, engine JobProto §5.4).

UNBOUNDED (any number of processes, any interleaving of single actions and process deaths, any programs):
* `C10_mutex`: programs that touch lock markers only through `with <lock>:` — at most one LIVE process is inside
  `with <job lock>:`, and a live process is inside exactly when the marker names it (`C10_marker`).
* `C10_access_locked`: programs satisfying the decidable syntactic predicate `LockDiscipline` — every write to the
  job directory and every load of the cached result is performed by a process inside `with <job lock>:`, hence
  (mutex) by the unique live holder.
* `C10_discipline`: `LockDiscipline Gen.jobRun ∧ LockDiscipline Gen.jobRunAsync`, by evaluation on the skeletons
  regenerated from the current source.
* `C10_once` / `_async`: EXACTLY ONCE for serialized calls — for any number of submitters in any order (no rerun,
  body succeeds, no crash), from any initial world: the body is entered exactly once (not at all if a complete
  good result was there) and every submitter returns the same complete good result.
* `C10_no_partial`: what a process loads is never a partial result (a file being written loads as "no result").
* `C10_small_big` (general, any skeleton, any action semantics): the small-step machine of the interleaving
  semantics, run by one process without interruption, computes exactly the big-step `Prog.run` that C12 / C13 /
  C35 and `C10_once` speak about.

* `C10_once_interleaved` (+`_async`): THE REDUCTION, mechanised (`JobProto/Reduction.lean`).  Any number of processes,
  ANY interleaving of single actions (result writes in two moves, no process deaths), no rerun, body succeeds, any
  legal initial result file: every submitter whose call has ended has returned the complete good result; whenever
  nobody holds the lock the job directory is in its initial state or in the target state, and in the target state —
  complete good result, body entered exactly once (never, if the good result was there from the start) — as soon as
  one submitter has ended.  Proof: actions outside the lock touch no shared state (`C10_mover`, from
  `LockDiscipline`), so every process's run is its solo (= big-step, `C10_small_big`) run from the settled world it
  finds at acquisition; an invariant with a prophecy ("run alone from here and you end well") is kept for the lock
  holder over the real world and for everybody else over every settled world they can still find; a finite check on
  the regenerated skeleton (`CheckC10.initGood_*`) starts it.  `C10_once` (serialized calls) is kept as a corollary-
  style companion.
-/
namespace PydraModel.JobProto
open PydraModel.Gen.JobSkeleton

set_option maxRecDepth 100000

/-- any programs `ps pid` without bare lock operations, any number of processes (every `Pid`), any schedule `ms`
    of steps and deaths: two live processes inside `with <job lock>:` are the same process -/
theorem C10_mutex (p : Prog) (hp : p.noBareLock = true) (envs : Pid → Env) (dir : Bool) (result : ResFile)
    (ms : List Move) (a b : Pid) :
    let g := grun (Global.init p envs dir result) ms
    (g.procs a).alive = true → (g.procs b).alive = true →
    (g.procs a).cfg.holdsJob = true → (g.procs b).cfg.holdsJob = true → a = b := by
  intro g ha hb hia hib
  exact mutex_of_inv g (mutexInv_run _ (mutexInv_init p hp envs dir result) ms) a b ha hb hia hib

theorem marker_of_inv (g : Global) (hI : MutexInv g) (a : Pid) (ha : (g.procs a).alive = true) :
    (g.procs a).cfg.holdsJob = true ↔ g.sh.jobLock = some a := by
  have h := hI.2 a ha
  have h1 := h.1
  simp only [Cfg.holdsJob, bne_iff_ne, ne_eq]
  constructor
  · intro hne; exact h.2.mp (by omega)
  · intro he hz
    have := h.2.mpr he
    rw [hz] at this
    cases this

/-- a live process is inside `with <job lock>:` exactly when the marker names it -/
theorem C10_marker (p : Prog) (hp : p.noBareLock = true) (envs : Pid → Env) (dir : Bool) (result : ResFile)
    (ms : List Move) (a : Pid) :
    let g := grun (Global.init p envs dir result) ms
    (g.procs a).alive = true → ((g.procs a).cfg.holdsJob = true ↔ g.sh.jobLock = some a) := by
  intro g ha
  exact marker_of_inv g (mutexInv_run _ (mutexInv_init p hp envs dir result) ms) a ha

/-- every access to the job directory happens inside the job lock -/
theorem C10_access_locked (p : Prog) (hp : LockDiscipline p) (envs : Pid → Env) (dir : Bool) (result : ResFile)
    (ms : List Move) (pid : Pid) (a : Act) :
    let g := grun (Global.init p envs dir result) ms
    nextAct g pid = some a → a.touchesDir = true →
      (g.procs pid).cfg.holdsJob = true ∧ ((g.procs pid).alive = true → g.sh.jobLock = some pid) := by
  intro g hn ha
  have hD := discInv_run _ (discInv_init p hp.2.1 envs dir result) ms
  have hh := access_inside_lock g hD pid a hn (by simp [Act.needsJobLock, ha])
  exact ⟨hh, fun hal => (C10_marker p hp.1 envs dir result ms pid hal).mp hh⟩

theorem C10_discipline : LockDiscipline jobRun ∧ LockDiscipline jobRunAsync :=
  ⟨CheckC10.discipline_run, CheckC10.discipline_async⟩

/-- the predicate is not trivially true: releasing before saving, or loading outside the lock, violates it -/
example : ¬ LockDiscipline (.seqs [.withLock .job (.seqs [.act .loadResult, .act .returnIfCachedOk, .act .clearDir]),
    .act .saveResult]) := by decide
example : ¬ LockDiscipline (.seqs [.act .loadResult, .withLock .job (.seqs [.act .returnIfCachedOk, .act .clearDir])]) := by
  decide
example : ¬ LockDiscipline (.withLock .job (.seqs [.act .clearDir, .act .loadResult, .act .returnIfCachedOk])) := by
  decide

/-- EXACTLY ONCE: any number of submitters (`envs`, at least one), in any order -/
theorem C10_once (envs : List Env) (hne : envs ≠ []) (hall : ∀ e ∈ envs, e.plain auditStartChdir) (w0 : World)
    (h0 : w0.core.Initial) :
    (serialRun jobRun envs w0).1.execs = w0.execs + (if w0.core.result.isGood && w0.core.dir then 0 else 1) ∧
    ∀ o ∈ (serialRun jobRun envs w0).2, o = .returned (some good) :=
  serial_once jobRun auditStartChdir CheckC10.callGood_run envs hne hall w0 h0

theorem C10_once_async (envs : List Env) (hne : envs ≠ []) (hall : ∀ e ∈ envs, e.plain auditStartChdir) (w0 : World)
    (h0 : w0.core.Initial) :
    (serialRun jobRunAsync envs w0).1.execs = w0.execs + (if w0.core.result.isGood && w0.core.dir then 0 else 1) ∧
    ∀ o ∈ (serialRun jobRunAsync envs w0).2, o = .returned (some good) :=
  serial_once jobRunAsync auditStartChdir CheckC10.callGood_async envs hne hall w0 h0

example : (⟨false, true, none, auditStartChdir⟩ : Env).plain auditStartChdir := ⟨rfl, rfl, rfl⟩

/-- THE MOVER FACT: an action that does not need the job lock (every action a `LockDiscipline` program performs
    outside it, by `C10_access_locked`) does the same in every world — to the process's local state only — leaves
    directory, result file and both markers untouched and enters no task body -/
theorem C10_mover (env : Env) (i : Nat) (a : Act) (ha : a.isFree = true) (F : Files) (jl sl : LockSt) (l : Local) :
    coreStep env .none i a (mkCore F jl sl l) = (mkCore F jl sl (locStep env i a l).1, (locStep env i a l).2) ∧
    execsIn (locStep env i a l).2.2 = 0 :=
  coreStep_free env i a ha F jl sl l

/-- EXACTLY ONCE FOR ARBITRARY INTERLEAVINGS of `Job.run`: `qs` is the sequence of the processes that move (any
    length, any process identifiers — any number of submitters), `envs` their flags (no rerun, body succeeds),
    `(d0, r0)` the initial directory / result file (any legal one: absent, torn, complete good, complete errored) -/
theorem C10_once_interleaved (envs : Pid → Env) (hpl : ∀ q, PlainEnv auditStartChdir (envs q)) (d0 : Bool) (r0 : ResFile)
    (hleg : r0.legal = true) (qs : List Pid) :
    (∀ q c, ((grunSteps (Global.init jobRun envs d0 r0) qs).procs q).ended = some c →
      c = .returning ∧ ((grunSteps (Global.init jobRun envs d0 r0) qs).procs q).loc.resVar = some ⟨false, true⟩) ∧
    ((grunSteps (Global.init jobRun envs d0 r0) qs).sh.jobLock = none →
      (files (grunSteps (Global.init jobRun envs d0 r0) qs), ex (grunSteps (Global.init jobRun envs d0 r0) qs)) = ((d0, r0), 0) ∨
      (files (grunSteps (Global.init jobRun envs d0 r0) qs), ex (grunSteps (Global.init jobRun envs d0 r0) qs)) = targetOf (d0, r0)) ∧
    ((grunSteps (Global.init jobRun envs d0 r0) qs).sh.jobLock = none →
      (∃ q, ((grunSteps (Global.init jobRun envs d0 r0) qs).procs q).ended.isSome = true) →
      (files (grunSteps (Global.init jobRun envs d0 r0) qs), ex (grunSteps (Global.init jobRun envs d0 r0) qs)) = targetOf (d0, r0)) ∧
    (∀ a b, ((grunSteps (Global.init jobRun envs d0 r0) qs).procs a).cfg.holdsJob = true →
      ((grunSteps (Global.init jobRun envs d0 r0) qs).procs b).cfg.holdsJob = true → a = b) :=
  once_interleaved jobRun CheckC10.discipline_run.1 CheckC10.discipline_run.2.1 auditStartChdir CheckC10.soloFuel
    CheckC10.initGood_run envs hpl d0 r0 hleg qs

theorem C10_once_interleaved_async (envs : Pid → Env) (hpl : ∀ q, PlainEnv auditStartChdir (envs q)) (d0 : Bool)
    (r0 : ResFile) (hleg : r0.legal = true) (qs : List Pid) :
    (∀ q c, ((grunSteps (Global.init jobRunAsync envs d0 r0) qs).procs q).ended = some c →
      c = .returning ∧ ((grunSteps (Global.init jobRunAsync envs d0 r0) qs).procs q).loc.resVar = some ⟨false, true⟩) ∧
    ((grunSteps (Global.init jobRunAsync envs d0 r0) qs).sh.jobLock = none →
      (∃ q, ((grunSteps (Global.init jobRunAsync envs d0 r0) qs).procs q).ended.isSome = true) →
      (files (grunSteps (Global.init jobRunAsync envs d0 r0) qs), ex (grunSteps (Global.init jobRunAsync envs d0 r0) qs)) =
        targetOf (d0, r0)) :=
  let h := once_interleaved jobRunAsync CheckC10.discipline_async.1 CheckC10.discipline_async.2.1 auditStartChdir
    CheckC10.soloFuel CheckC10.initGood_async envs hpl d0 r0 hleg qs
  ⟨h.1, h.2.2.1⟩

/-- non-vacuity: the target world of an empty cache location is "complete good result, body entered once"; of a
    location that already holds the good result, "entered never" -/
example : targetOf (false, .absent) = ((true, .complete ⟨false, true⟩), 1) := by decide
example : targetOf (true, .complete ⟨false, true⟩) = ((true, .complete ⟨false, true⟩), 0) := by decide
example : PlainEnv auditStartChdir ⟨false, true, none, auditStartChdir⟩ := ⟨rfl, rfl, rfl⟩

/-- the interleaving semantics restricted to one uninterrupted process IS the sequential semantics -/
theorem C10_small_big {σ : Type} (S : Sem σ) (p : Prog) (s : σ) (h : (p.run S 0 s).2.stops = false) :
    Reaches S (⟨.prog p 0, []⟩, s) (⟨.ctl (p.run S 0 s).2, []⟩, (p.run S 0 s).1) :=
  small_big_call S p s h

/-- a process never obtains a partial result: `Job.result()` yields a value only from a COMPLETE file (a file
    that another process is still writing, or that a crash has torn, loads as "no result") -/
theorem C10_no_partial (g : Global) (pid : Pid) (v : ResVal)
    (h : jobResult (viewCore g pid) = some v) (hje : ((g.procs pid).loc.jobErrored) = false) :
    g.sh.result = .complete v := by
  have hje' : (viewCore g pid).jobErrored = false := hje
  simp only [jobResult, hje', Bool.false_eq_true, if_false] at h
  split at h
  · have hr : (viewCore g pid).result = g.sh.result := rfl
    rw [hr] at h
    rcases hres : g.sh.result with _ | _ | v' <;> simp [hres, loadFile] at h
    exact congrArg _ h
  · cases h

/-- non-vacuity of the interleaving semantics: two processes, strictly alternating single moves, on the generated
    `Job.run`: both calls end by `return`, the body was entered once, the result file is complete and good -/
example :
    let g := grun (Global.init jobRun (fun _ => ⟨false, false, none, auditStartChdir⟩) false .absent)
      ((List.range 400).map fun n => Move.step (n % 2))
    (g.procs 0).ended = some .returning ∧ (g.procs 1).ended = some .returning ∧
    (g.procs 0).loc.resVar = some good ∧ (g.procs 1).loc.resVar = some good ∧
    g.sh.result = .complete good ∧ (g.sh.evs.filter fun e => e.2 == .bodyEntered).length = 1 ∧ g.sh.jobLock = none := by
  decide +kernel

end PydraModel.JobProto
