import PydraModel.Argv.WordsLemmas
import PydraModel.Argv.Model
/-
C24 — The displayed command line is a faithful rendering of the executed argv:
POSIX splitting of `Task.cmdline` gives back exactly the executed arguments.

`shlexSplit` is POSIX word splitting with quote removal (`shlex.split(posix=True)`), `cmdlineOf` the
rendering used by `ShellTask.cmdline` (single quotes iff the argument contains a space; the first
argument bare).  Property theorems only; lemmas in `Argv/QuoteLemmas.lean`.

FULL statement (NOT provable on the pinned tree — D15, see the witnesses): `C24_full_statement`.
-/
namespace PydraModel.Argv

def C24_full_statement : Prop :=
  ∀ argv : List Str, argv ≠ [] → shlexSplit (cmdlineOf argv) = .ok argv

/-- The property is satisfiable, for every argument vector of any length and content:
    the blank-joined `shlex.quote` rendering splits back to exactly the arguments. -/
theorem C24_reference_roundtrip (argv : List Str) : shlexSplit (joinSp (argv.map shQuote)) = .ok argv := by
  apply roundtrip_of_readable
  intro a _
  unfold shQuote
  split
  · rename_i h
    exact readable_bare a h.1 (fun c hc => quoteSafe_inert c (by simpa using List.all_eq_true.mp h.2 c hc))
  · exact readable_quoteAlways a

/-- … and so does the rendering that quotes every argument (`'…'` with `'"'"'` for an apostrophe). -/
theorem C24_reference_always_roundtrip (argv : List Str) :
    shlexSplit (joinSp (argv.map shQuoteAlways)) = .ok argv :=
  roundtrip_of_readable shQuoteAlways argv (fun a _ => readable_quoteAlways a)

/-- Which arguments `cmdline`'s space-only quoting renders faithfully: with a space, no apostrophe;
    without a space, non-empty and free of blanks, quotes and backslashes. -/
def CmdlineSafe (a : Str) : Prop :=
  if a.contains ' ' then ∀ c ∈ a, c ≠ '\'' else a ≠ [] ∧ ∀ c ∈ a, inertChar c = true

instance (a : Str) : Decidable (CmdlineSafe a) := by unfold CmdlineSafe; infer_instance

/-- PARTIAL (hypothesis: "only spaces need quoting"; missing: everything else, D15).
    For argument vectors of any length: if the executable word is non-empty and inert and every further
    argument is `CmdlineSafe`, splitting the displayed command line gives back exactly the argv. -/
theorem C24_cmdline_partial (exe : Str) (args : List Str)
    (h0 : exe ≠ [] ∧ ∀ c ∈ exe, inertChar c = true) (h : ∀ a ∈ args, CmdlineSafe a) :
    shlexSplit (cmdlineOf (exe :: args)) = .ok (exe :: args) := by
  have hr : ∀ a ∈ args, Readable (cmdlineArg a) a := by
    intro a ha
    have hs := h a ha
    unfold CmdlineSafe at hs
    unfold cmdlineArg
    split
    · rename_i hc; simp only [hc, if_true] at hs; exact readable_squoted a hs
    · rename_i hc; simp only [hc] at hs; exact readable_bare a hs.1 hs.2
  simp only [cmdlineOf, shlexSplit]
  rw [readable_bare exe h0.1 h0.2 _, lex_word_tail cmdlineArg args hr]
  simp

/-- PARTIAL, multi-word executables (list / tuple executable such as `['bash', '-c', 'echo hi']`): the model's
    `cmdlineOf` renders the WHOLE argv — executable words included — and only `argv[0]` is exempt from the
    quoting, as in the source.  For an executable of any number of words followed by any number of arguments:
    if the first word is non-empty and inert and every later executable word and every argument is
    `CmdlineSafe` (in particular: may contain plain spaces), splitting the displayed line gives back the argv. -/
theorem C24_cmdline_multiword_partial (w0 : Str) (exeRest args : List Str)
    (h0 : w0 ≠ [] ∧ ∀ c ∈ w0, inertChar c = true)
    (hw : ∀ a ∈ exeRest, CmdlineSafe a) (ha : ∀ a ∈ args, CmdlineSafe a) :
    shlexSplit (cmdlineOf ((w0 :: exeRest) ++ args)) = .ok ((w0 :: exeRest) ++ args) := by
  rw [List.cons_append]
  exact C24_cmdline_partial w0 (exeRest ++ args) h0 (fun a h => by
    rcases List.mem_append.mp h with h | h
    · exact hw a h
    · exact ha a h)

/-- the same through the model of `ShellTask.cmdline` itself: whatever argv `_command_args` returns for a
    definition with a multi-word executable, the displayed line is `cmdlineOf` of that whole argv -/
theorem C24_cmdline_is_whole_argv (exe : List Str) (bs : List Bound) (app : List Str) (argv : List Str)
    (h : commandArgs exe bs app = .ok argv) : cmdline exe bs app = .ok (cmdlineOf argv) := by
  simp [cmdline, h]

/-- documentation witness: a rendering that joins the first `n` argv entries (the executable words) bare and
    quotes only what follows (NOT the pinned code) is unfaithful as soon as an executable word has a space -/
def cmdlineExeBare (n : Nat) (argv : List Str) : Str :=
  joinSp (argv.take n) ++ (argv.drop n).flatMap (fun x => ' ' :: cmdlineArg x)

theorem C24_witness_exe_words_bare :
    shlexSplit (cmdlineOf ["bash".toList, "-c".toList, "echo hi".toList, "a b".toList])
      = .ok ["bash".toList, "-c".toList, "echo hi".toList, "a b".toList]
    ∧ shlexSplit (cmdlineExeBare 3 ["bash".toList, "-c".toList, "echo hi".toList, "a b".toList])
      = .ok ["bash".toList, "-c".toList, "echo".toList, "hi".toList, "a b".toList] := by
  refine ⟨by decide, by decide⟩

/-! ### witnesses (D15) -/

/-- a tab is not quoted: the argument falls apart -/
theorem C24_witness_tab :
    shlexSplit (cmdlineOf ["exe".toList, "a\tb".toList]) = .ok ["exe".toList, "a".toList, "b".toList] := by decide

/-- an empty argument disappears -/
theorem C24_witness_empty :
    shlexSplit (cmdlineOf ["exe".toList, [], "x".toList]) = .ok ["exe".toList, "x".toList] := by decide

/-- an apostrophe is not quoted: the displayed line is not even well-formed -/
theorem C24_witness_quote :
    shlexSplit (cmdlineOf ["exe".toList, "it's".toList]) = .error .noClosingQuote := by decide

/-- … also when the argument is wrapped because of a space -/
theorem C24_witness_quote_space :
    shlexSplit (cmdlineOf ["exe".toList, "it's ok".toList, "x".toList]) = .error .noClosingQuote := by decide

/-- a backslash is lost -/
theorem C24_witness_backslash :
    shlexSplit (cmdlineOf ["exe".toList, "a\\b".toList]) = .ok ["exe".toList, "ab".toList] := by decide

theorem C24_witness_not_full : ¬ C24_full_statement := by
  intro h
  have := h ["exe".toList, "a\tb".toList] (by decide)
  rw [C24_witness_tab] at this
  revert this; decide

/-! ### non-vacuity -/

example : CmdlineSafe "a b  c$*;".toList ∧ CmdlineSafe "$HOME;*".toList ∧ ¬ CmdlineSafe [] ∧ ¬ CmdlineSafe "it's ok".toList := by
  decide
example : shlexSplit (cmdlineOf ["exe".toList, "a b".toList, "-x".toList]) = .ok ["exe".toList, "a b".toList, "-x".toList] := by
  decide
example : CmdlineSafe "echo hi".toList ∧ CmdlineSafe "-c".toList := by decide
example : joinSp (["exe".toList, "it's".toList, [], "a\tb".toList].map shQuote) = "exe 'it'\"'\"'s' '' 'a\tb'".toList := by
  decide

end PydraModel.Argv
