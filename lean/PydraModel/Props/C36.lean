import PydraModel.JobProto.AuditLemmas
/-
C36 — Provenance records are complete and consistent.

Property theorems only.  Model: `JobProto/AuditTrace.lean` (`Audit.start_audit / audit_task / monitor /
finalize_audit` as called by `Job.run` / `Job.run_async`, one `Audit` copy per `Job` since the repair of D21).
An execution is any forest of executed jobs (workflow jobs with their node jobs, nested to any depth, any number
of siblings), with or without resource monitoring; `jobs res f n` lists the executed jobs in pre-order together
with the activity id each one draws.  `trace false` = the code as it is (own Audit object per job).
-/
namespace PydraModel.JobProto.Audit

/-- start records, in order, are exactly the executed jobs' activity ids (pre-order) -/
theorem C36_starts (res : Bool) (f : Forest) (n : Nat) (rg : Reg) :
    starts (emit false res f n rg).1 = (jobs res f n).map (·.1) := by
  induction f generalizing n rg with
  | nil => simp [emit, jobs, starts]
  | node i kids rest ihk ihr =>
    obtain ⟨rgk, h⟩ := emit_own_node res i kids rest n rg
    rw [h, starts_append, starts_block, ihk, ihr, jobs_node]
    simp

/-- end records are exactly the executed jobs' (activity id, errored flag of the result), each once -/
theorem C36_ends (res : Bool) (f : Forest) (n : Nat) (rg : Reg) :
    (ends (emit false res f n rg).1).Perm ((jobs res f n).map (fun p => (p.1, p.2.errored))) := by
  induction f generalizing n rg with
  | nil => simp [emit, jobs, ends]
  | node i kids rest ihk ihr =>
    obtain ⟨rgk, h⟩ := emit_own_node res i kids rest n rg
    rw [h, ends_append, ends_block, jobs_node]
    simp only [List.map_cons, List.map_append, List.append_assoc, List.singleton_append]
    refine List.Perm.trans List.perm_middle ?_
    exact List.Perm.cons _ (List.Perm.append (ihk _ _) (ihr _ _))

/-- C36, FULL statement (any nesting depth, any number of jobs, with or without resource monitoring):
    the executed jobs have pairwise different activity ids; every executed job has exactly one start record and
    exactly one end record under its id; no other id has any; and every end record carries the `errored` flag of
    the result of the job whose id it bears. -/
theorem C36_full (res : Bool) (f : Forest) (n : Nat) :
    let tr := trace false res f n
    let js := jobs res f n
    js.length = f.size ∧ (js.map (·.1)).Nodup
    ∧ (∀ a, (starts tr).count a = if a ∈ js.map (·.1) then 1 else 0)
    ∧ (∀ a, ((ends tr).map (·.1)).count a = if a ∈ js.map (·.1) then 1 else 0)
    ∧ (∀ a e, (a, e) ∈ ends tr → ∃ i, (a, i) ∈ js ∧ i.errored = e) := by
  have hnd := jobs_ids_nodup res f n
  have hs := C36_starts res f n ⟨0, 0, 0⟩
  have he := C36_ends res f n ⟨0, 0, 0⟩
  refine ⟨jobs_length res f n, hnd, ?_, ?_, ?_⟩
  · intro a
    show (starts (emit false res f n ⟨0, 0, 0⟩).1).count a = _
    rw [hs]
    exact hnd.count
  · intro a
    show ((ends (emit false res f n ⟨0, 0, 0⟩).1).map (·.1)).count a = _
    rw [(he.map (·.1)).count_eq a]
    simp only [List.map_map]
    exact hnd.count
  · intro a e hm
    have := (he.mem_iff (a := (a, e))).mp hm
    obtain ⟨p, hp, heq⟩ := List.mem_map.mp this
    injection heq with h1 h2
    exact ⟨p.2, by rw [← h1]; exact hp, h2⟩

/-- properly associated: each job's start record precedes its end record (and, by the closed form, the records
    of nested jobs lie between them) -/
theorem C36_bracket (res : Bool) (f : Forest) (n : Nat) (rg : Reg) :
    ∀ p ∈ jobs res f n, ∃ l1 l2 l3,
      (emit false res f n rg).1 = l1 ++ Msg.start p.1 :: l2 ++ Msg.end_ p.1 p.2.errored :: l3 := by
  induction f generalizing n rg with
  | nil => intro p hp; simp [jobs] at hp
  | node i kids rest ihk ihr =>
    intro p hp
    obtain ⟨rgk, h⟩ := emit_own_node res i kids rest n rg
    rw [h]
    rw [jobs_node] at hp
    simp only [List.mem_cons, List.mem_append] at hp
    rcases hp with rfl | hp | hp
    · refine ⟨[], (if i.sync then [Msg.task n i.label] else []) ++ (if res then [Msg.monStart (n + 2) n] else [])
          ++ (emit false res kids (n + pre res) rgk).1
          ++ (if res then [Msg.monEnd (n + 2) n, Msg.runtime (n + pre res + used res kids) n,
                Msg.generation (n + pre res + used res kids) (n + 2)] else []),
        (emit false res rest (n + pre res + used res kids + post res) rg).1, ?_⟩
      simp [block]
    · obtain ⟨l1, l2, l3, hk⟩ := ihk _ rgk p hp
      refine ⟨Msg.start n :: (if i.sync then [Msg.task n i.label] else [])
          ++ (if res then [Msg.monStart (n + 2) n] else []) ++ l1, l2,
        l3 ++ (if res then [Msg.monEnd (n + 2) n, Msg.runtime (n + pre res + used res kids) n,
                Msg.generation (n + pre res + used res kids) (n + 2)] else [])
          ++ [Msg.end_ n i.errored] ++ (emit false res rest (n + pre res + used res kids + post res) rg).1, ?_⟩
      simp [block, hk]
    · obtain ⟨l1, l2, l3, hr⟩ := ihr _ rg p hp
      refine ⟨block res i n (emit false res kids (n + pre res) rgk).1 (n + pre res + used res kids) ++ l1, l2, l3, ?_⟩
      simp [hr]

/-- the `audit_task` record of a synchronous job carries that job's own activity id and name -/
theorem C36_tasks (res : Bool) (f : Forest) (n : Nat) (rg : Reg) :
    tasks (emit false res f n rg).1
      = ((jobs res f n).filter (fun p => p.2.sync)).map (fun p => (p.1, p.2.label)) := by
  induction f generalizing n rg with
  | nil => simp [emit, jobs, tasks]
  | node i kids rest ihk ihr =>
    obtain ⟨rgk, h⟩ := emit_own_node res i kids rest n rg
    rw [h, tasks_append, tasks_block, ihk, ihr, jobs_node]
    cases hs : i.sync <;> simp [List.filter_cons, hs]

/-- with resource monitoring every executed job starts and ends exactly one monitor activity of its own -/
theorem C36_monitor (res : Bool) (f : Forest) (n : Nat) (rg : Reg) :
    monStarts (emit false res f n rg).1 = (if res then (jobs res f n).map (·.1) else [])
    ∧ (monEnds (emit false res f n rg).1).Perm (if res then (jobs res f n).map (·.1) else []) := by
  induction f generalizing n rg with
  | nil => cases res <;> simp [emit, jobs, monStarts, monEnds]
  | node i kids rest ihk ihr =>
    obtain ⟨rgk, h⟩ := emit_own_node res i kids rest n rg
    obtain ⟨k1, k2⟩ := ihk (n + pre res) rgk
    obtain ⟨r1, r2⟩ := ihr (n + pre res + used res kids + post res) rg
    rw [h, monStarts_append, monStarts_block, monEnds_append, monEnds_block, k1, r1, jobs_node]
    cases res with
    | false =>
      simp only [Bool.false_eq_true, if_false, List.append_nil] at k2 r2 ⊢
      exact ⟨trivial, by simpa using List.Perm.append k2 r2⟩
    | true =>
      simp only [if_true, List.map_cons, List.map_append] at k2 r2 ⊢
      refine ⟨by simp, ?_⟩
      simp only [List.append_assoc, List.singleton_append]
      refine List.Perm.trans List.perm_middle ?_
      exact List.Perm.cons _ (List.Perm.append k2 r2)

/-- C36 over the RECORD LOG, all activities (FULL; any nesting, with or without resource monitoring): reading the
    log without knowing which kind of activity a record belongs to — a record with `startedAtTime` opens the
    activity named by its `@id`, a record with `endedAtTime` closes the activity named by its `@id` — every activity
    id (job activities AND monitor activities) is opened at most once, every opened id has exactly one end record
    under that same id, and no end record bears an id that was never opened. -/
theorem C36_all_activities (res : Bool) (f : Forest) (n : Nat) :
    let tr := trace false res f n
    WellClosed tr
    ∧ (∀ id ∈ opened tr, (closed tr).count id = 1)
    ∧ (∀ id, id ∉ opened tr → (closed tr).count id = 0) := by
  have hnd := opened_nodup res f n ⟨0, 0, 0⟩
  have hp := closed_perm_opened res f n ⟨0, 0, 0⟩
  have hcount : ∀ id, (closed (trace false res f n)).count id = (opened (trace false res f n)).count id :=
    fun id => hp.count_eq id
  refine ⟨⟨hnd, hcount⟩, ?_, ?_⟩
  · intro id hid
    rw [hcount id, (show (opened (trace false res f n)).Nodup from hnd).count]
    simp [hid]
  · intro id hid
    rw [hcount id, (show (opened (trace false res f n)).Nodup from hnd).count]
    simp [hid]

/-- under ALL the opened activities are the jobs' activities and one monitor activity per job: twice as many
    opened ids as executed jobs (and as many without monitoring) -/
theorem C36_opened_count (res : Bool) (f : Forest) (n : Nat) (rg : Reg) :
    (opened (emit false res f n rg).1).length = (if res then 2 else 1) * f.size := by
  induction f generalizing n rg with
  | nil => simp [emit, opened, Forest.size]
  | node i kids rest ihk ihr =>
    obtain ⟨rgk, h⟩ := emit_own_node res i kids rest n rg
    rw [h, opened_append, opened_block]
    simp only [List.length_append, List.length_cons, ihk, ihr, Forest.size]
    cases res <;> simp <;> omega

/-- documentation: the log of ONE job under ALL in which the monitor's end record is filed under the JOB's
    activity id (an `_end_record` helper that ignores the id it is given): same number of records, but the job's
    activity has two end records and the monitor's activity none — not `WellClosed`; the model's log is. -/
theorem C36_witness_end_id :
    let good := trace false true (.node ⟨0, false, true⟩ .nil .nil) 0
    let bad := good.map (fun m => match m with | .monEnd _ a => Msg.monEnd a a | m => m)
    good.length = bad.length ∧ opened bad = [0, 2] ∧ closed bad = [0, 0] ∧ closed good = [2, 0]
    ∧ ¬ WellClosed bad := by
  refine ⟨by decide, by decide, by decide, by decide, ?_⟩
  intro h
  have := h.2 2
  revert this
  decide

/-! ### the repaired defect D21, kept as documentation -/

/-- one workflow job with one node job, debug worker, PROV -/
def wfOneNode : Forest := .node ⟨0, false, true⟩ (.node ⟨1, false, true⟩ .nil .nil) .nil

/-- SHARED-audit variant (the pinned commit: `self.audit = submitter.audit`): the workflow's activity (id 0) gets
    no end record and the node's activity (id 2) gets two — `C36_full` is false for that variant. -/
theorem C36_witness_shared :
    starts (trace true false wfOneNode 0) = [0, 2]
    ∧ ends (trace true false wfOneNode 0) = [(2, false), (2, false)]
    ∧ ¬ (∀ a, ((ends (trace true false wfOneNode 0)).map (·.1)).count a
            = if a ∈ (jobs false wfOneNode 0).map (·.1) then 1 else 0) := by
  refine ⟨by decide, by decide, ?_⟩
  intro h
  have := h 0
  revert this
  decide

/-- the same execution with one Audit object per job (the code as it is) -/
theorem C36_regression_own :
    starts (trace false false wfOneNode 0) = [0, 2]
    ∧ ends (trace false false wfOneNode 0) = [(2, false), (0, false)] := by
  decide

/-- a forest without nesting (every job's body starts no other job) -/
def Flat : Forest → Prop
  | .nil => True
  | .node _ kids rest => kids = .nil ∧ Flat rest

/-- partial statement for the shared variant: without nested execution sharing the object is harmless
    (single tasks; why the defect only showed with workflows under the debug worker) -/
theorem C36_shared_partial (res : Bool) (f : Forest) (hf : Flat f) (n : Nat) (rg rg' : Reg) :
    (emit true res f n rg).1 = (emit false res f n rg').1
    ∧ (emit true res f n rg).2.1 = (emit false res f n rg').2.1 := by
  induction f generalizing n rg rg' with
  | nil => simp [emit]
  | node i kids rest _ ihr =>
    obtain ⟨rfl, hrest⟩ := hf
    cases res with
    | false =>
      simp only [emit, Bool.false_eq_true, if_false, if_true, List.append_nil]
      obtain ⟨h1, h2⟩ := ihr hrest (n + 2) { rg with aid := n } rg'
      exact ⟨by rw [h1], h2⟩
    | true =>
      simp only [emit, Bool.false_eq_true, if_false, if_true, List.append_nil]
      obtain ⟨h1, h2⟩ := ihr hrest (n + 2 + 1 + 1) { rg with aid := n, mid := n + 2, eid := n + 2 + 1 } rg'
      exact ⟨by rw [h1], h2⟩

/-! ### Non-vacuity -/

/-- a nested execution (workflow → inner workflow → two nodes, then another node; the last node fails, so do
    its ancestors) instantiates `C36_full` non-trivially: five jobs, five different ids -/
example :
    let f : Forest := .node ⟨0, true, true⟩
        (.node ⟨1, false, true⟩ (.node ⟨2, false, true⟩ .nil (.node ⟨3, false, true⟩ .nil .nil))
          (.node ⟨4, true, true⟩ .nil .nil)) .nil
    f.size = 5 ∧ (jobs true f 0).map (·.1) = [0, 3, 6, 10, 15]
    ∧ ends (trace false true f 0) = [(6, false), (10, false), (3, false), (15, true), (0, true)] := by
  decide

example : Flat (.node ⟨0, false, true⟩ .nil (.node ⟨1, true, true⟩ .nil .nil)) := ⟨rfl, rfl, trivial⟩

end PydraModel.JobProto.Audit
