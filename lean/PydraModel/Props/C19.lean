import PydraModel.JobProto.HashCheckLemmas
import PydraModel.Gen.PickleState
/-
C19 — Task execution cannot silently alter its recorded inputs.

Property theorems only.  Model: `JobProto/HashCheck.lean` (`Job.checksum` memo, `Task._hash/_hashes/_hash_changes`,
`Job._check_for_hash_changes`, the error handling of `Submitter.__call__`, staging by copy mode).
The value type `V`, the hash function `hash : V → H`, the checksum combiner and the body's effect
`f : Name → V → V` are arbitrary; any number of fields.  `Nodup` of the field names is what attrs guarantees.
-/
namespace PydraModel.JobProto.HashCheck

section
variable {V H C : Type} [DecidableEq H] (hash : V → H) (combine : List (Name × H) → C)

/-- C19 (decision, FULL): after the body, `_check_for_hash_changes` raises iff some input's hash now differs
    from its hash at checksum time — whether the checksum had already been read before `run` or not. -/
theorem C19_detect (f : Name → V → V) (ins : List (Name × V)) (hn : (ins.map (·.1)).Nodup)
    (j : Job V H C) (hj : j = Job.fresh ins ∨ j = submitted hash combine ins) :
    (runJob hash combine true true j f).raised = true ↔ ∃ p ∈ ins, hash (f p.1 p.2) ≠ hash p.2 := by
  rw [runJob_memo hash combine true f ins hn j hj]
  simp only [Bool.true_and, Bool.not_eq_true']
  exact changedSpec_nonempty hash f ins

/-- … and the error names exactly the fields whose hash changed, in field order. -/
theorem C19_changed_exact (f : Name → V → V) (ins : List (Name × V)) (hn : (ins.map (·.1)).Nodup)
    (j : Job V H C) (hj : j = Job.fresh ins ∨ j = submitted hash combine ins) :
    (runJob hash combine true true j f).changed
      = ins.filterMap (fun p => if hash (f p.1 p.2) = hash p.2 then none else some p.1) := by
  rw [runJob_memo hash combine true f ins hn j hj]
  rfl

/-- C19 (identity, FULL): whatever the body does to the inputs, the result is saved under the checksum of the
    inputs as they were when the checksum was first read (the original inputs). -/
theorem C19_identity (check : Bool) (f : Name → V → V) (ins : List (Name × V)) (hn : (ins.map (·.1)).Nodup)
    (j : Job V H C) (hj : j = Job.fresh ins ∨ j = submitted hash combine ins) :
    (runJob hash combine true check j f).dir = combine (computeHashes hash ins) := by
  rw [runJob_memo hash combine check f ins hn j hj]

/-- a raised error means a value really changed; a changed value is reported unless the two values collide
    under the hash function (collision-extraction form: nothing is assumed about `hash`) -/
theorem C19_value_changed (f : Name → V → V) (ins : List (Name × V)) (hn : (ins.map (·.1)).Nodup) :
    ((runJob hash combine true true (Job.fresh ins : Job V H C) f).raised = true → ∃ p ∈ ins, f p.1 p.2 ≠ p.2)
    ∧ (∀ p ∈ ins, f p.1 p.2 ≠ p.2 →
        (runJob hash combine true true (Job.fresh ins : Job V H C) f).raised = true
        ∨ (hash (f p.1 p.2) = hash p.2 ∧ f p.1 p.2 ≠ p.2)) := by
  have hd := C19_detect hash combine f ins hn (Job.fresh ins) (Or.inl rfl)
  constructor
  · intro h
    obtain ⟨p, hp, hne⟩ := hd.mp h
    exact ⟨p, hp, fun he => hne (by rw [he])⟩
  · intro p hp hne
    by_cases hh : hash (f p.1 p.2) = hash p.2
    · exact Or.inr ⟨hh, hne⟩
    · exact Or.inl (hd.mpr ⟨p, hp, hh⟩)

/-- the code's check exempts no field: the skipping variant with an empty exemption is `runJob` itself -/
theorem C19_skip_none (memo check : Bool) (j : Job V H C) (f : Name → V → V) :
    runJobSkip hash combine (fun _ => false) memo check j f = runJob hash combine memo check j f := by
  have hfilt : ∀ l : List Name, l.filter (fun n => !(fun _ => false) n) = l := by
    intro l; induction l <;> simp_all
  unfold runJobSkip
  simp only [hfilt]
  rfl

/-- documentation: a check that exempts ANY set of fields (`skip`) stays silent whenever the body's changes are
    confined to exempted fields — whatever the reason for the exemption ("the value is hashable, so it cannot
    change") — while `C19_detect` (no exemption) reports them.  So all fields, of all kinds of value, must be
    re-hashed. -/
theorem C19_skip_misses (skip : Name → Bool) (f : Name → V → V) (ins : List (Name × V))
    (hn : (ins.map (·.1)).Nodup) (j : Job V H C) (hj : j = Job.fresh ins ∨ j = submitted hash combine ins)
    (hconf : ∀ p ∈ ins, hash (f p.1 p.2) ≠ hash p.2 → skip p.1 = true) :
    (runJobSkip hash combine skip true true j f).raised = false := by
  unfold runJobSkip
  rw [runJob_memo hash combine true f ins hn j hj]
  simp only [Bool.true_and, Bool.not_eq_false', List.isEmpty_iff, changedSpec]
  rw [List.filter_eq_nil_iff]
  intro n hnm
  obtain ⟨p, hp, hpn⟩ := List.mem_filterMap.mp hnm
  by_cases he : hash (f p.1 p.2) = hash p.2
  · simp [he] at hpn
  · simp only [he, if_false, Option.some.injEq] at hpn
    subst hpn
    simp [hconf p hp he]

/-- concrete witness: field 1 is exempted and the body changes exactly field 1 — the exempting check is silent,
    the real check raises and names field 1 -/
theorem C19_witness_skip :
    let ins : List (Name × Nat) := [(0, 1), (1, 2)]
    let f : Name → Nat → Nat := fun n v => if n = 1 then v + 10 else v
    (runJobSkip (fun v => v) (fun hs => hs) (fun n => n == 1) true true
        (Job.fresh ins : Job Nat Nat (List (Name × Nat))) f).raised = false
    ∧ (runJob (fun v => v) (fun hs => hs) true true (Job.fresh ins : Job Nat Nat (List (Name × Nat))) f).raised = true
    ∧ (runJob (fun v => v) (fun hs => hs) true true (Job.fresh ins : Job Nat Nat (List (Name × Nat))) f).changed = [1] := by
  decide

/-! ### the job in a worker process: reference hashes must be present at the time of the check -/

/-- C19 (pickling, FULL): `__setstate__ ∘ __getstate__` changes nothing the check depends on — neither the cached
    checksum nor the reference hashes inside the pickled task. -/
theorem C19_roundtrip_preserves (j : Job V H C) : pickleRT true j = j := rfl

/-- … so at the time of the check the reference hashes ARE there and are those of the original inputs — whether
    the job was dispatched with its checksum already computed (a workflow node, a state of a split task: the
    submitting process needs `job.checksum` to schedule it) or not (a stand-alone task under `cf`), pickled or not. -/
theorem C19_refs_present (f : Name → V → V) (ins : List (Name × V))
    (j : Job V H C) (hj : j = Job.fresh ins ∨ j = submitted hash combine ins) :
    refsAtCheck hash combine true (pickleRT true j) f = some (computeHashes hash ins) := by
  rcases hj with rfl | rfl <;> rfl

/-- … and the decision theorem holds in the worker process, for every way of dispatching the job. -/
theorem C19_detect_worker (f : Name → V → V) (ins : List (Name × V)) (hn : (ins.map (·.1)).Nodup)
    (j : Job V H C) (hj : j = Job.fresh ins ∨ j = submitted hash combine ins) :
    ((runJobWorker hash combine true true true j f).raised = true ↔ ∃ p ∈ ins, hash (f p.1 p.2) ≠ hash p.2)
    ∧ (runJobWorker hash combine true true true j f).dir = combine (computeHashes hash ins) := by
  unfold runJobWorker
  rw [C19_roundtrip_preserves]
  exact ⟨C19_detect hash combine f ins hn j hj, C19_identity hash combine true f ins hn j hj⟩

/-- documentation: a round trip that DROPS the reference hashes while the cached checksum survives (a
    `__setstate__` resetting `task._hashes`, with a `_hash_changes` that answers "no changes" when there are no
    references) silences the check for every job dispatched with its checksum already computed — whatever the body
    did — while the result still lands under the original checksum: a silent alteration. -/
theorem C19_drop_refs_silent (f : Name → V → V) (ins : List (Name × V)) :
    refsAtCheck hash combine true (pickleRT false (submitted hash combine ins : Job V H C)) f = none
    ∧ (runJobWorker hash combine false true true (submitted hash combine ins : Job V H C) f).raised = false
    ∧ (runJobWorker hash combine false true true (submitted hash combine ins : Job V H C) f).dir
        = combine (computeHashes hash ins) := by
  refine ⟨rfl, rfl, rfl⟩

/-- the same variant still detects changes of a job whose checksum was NOT yet computed when it was pickled (a
    stand-alone task under `cf`): reading the checksum in the worker rebuilds the references — which is why only
    workflow nodes and split tasks are affected. -/
theorem C19_drop_refs_fresh_detected (f : Name → V → V) (ins : List (Name × V)) (hn : (ins.map (·.1)).Nodup) :
    (runJobWorker hash combine false true true (Job.fresh ins : Job V H C) f).raised = true
      ↔ ∃ p ∈ ins, hash (f p.1 p.2) ≠ hash p.2 := by
  have : pickleRT false (Job.fresh ins : Job V H C) = Job.fresh ins := rfl
  unfold runJobWorker
  rw [this]
  exact C19_detect hash combine f ins hn _ (Or.inl rfl)

/-- concrete witness of `C19_drop_refs_silent`: field 1 is changed by the body of a workflow-node job -/
theorem C19_witness_drop_refs :
    let ins : List (Name × Nat) := [(0, 1), (1, 2)]
    let f : Name → Nat → Nat := fun n v => if n = 1 then v + 10 else v
    let j : Job Nat Nat (List (Name × Nat)) := submitted (fun v => v) (fun hs => hs) ins
    (runJobWorker (fun v => v) (fun hs => hs) false true true j f).raised = false
    ∧ (runJobWorker (fun v => v) (fun hs => hs) true true true j f).raised = true
    ∧ (runJobWorker (fun v => v) (fun hs => hs) true true true j f).changed = [1] := by
  decide

/-- reporting for a job that is a node of the submitted workflow / a state of a split task: a detected change makes
    the workflow job fail, which is raised or logged; nothing otherwise -/
theorem C19_reported_node (raiseErrors : Bool) (o : Outcome C) :
    (reportNode raiseErrors o ≠ .silent ↔ o.raised = true) := by
  unfold reportNode
  cases o.raised <;> cases raiseErrors <;> simp

/-- without the call (the mutation "skip the hash-change check") nothing is ever raised -/
theorem C19_no_check_silent (memo : Bool) (f : Name → V → V) (j : Job V H C) :
    (runJob hash combine memo false j f).raised = false := rfl

/-- C19 (reporting): through `Submitter.__call__` a detected change always reaches the caller — as the raised
    RuntimeError (debug worker / `raise_errors=True` / the submitter cannot find a result under its own view of
    the checksum) or as the submitter's error log record — and nothing is reported when nothing was detected. -/
theorem C19_reported [DecidableEq C] (raiseErrors same : Bool) (visible : Name → Bool) (ins : List (Name × V))
    (f : Name → V → V) (o : Outcome C) :
    (report hash combine raiseErrors same visible ins f o ≠ .silent ↔ o.raised = true)
    ∧ (raiseErrors = true → o.raised = true → report hash combine raiseErrors same visible ins f o = .raised) := by
  unfold report
  cases hr : o.raised with
  | false => simp
  | true =>
    simp only [Bool.not_true, Bool.false_eq_true, if_false, ne_eq, iff_true]
    constructor
    · split <;> split <;> simp
    · intro h _; simp [h]

end

/-! ### regenerated tie: what `Job.__getstate__` / `Job.__setstate__` do (extracted from the source on every run) -/

/-- `Job.__getstate__` keeps every attribute (so `_checksum` travels) and only replaces `task` by `cp.dumps(task)`;
    `Job.__setstate__` restores `task` by `cp.loads` and does NOTHING else (in particular it resets nothing inside
    the task); hence every attribute of the job comes back as it was. -/
theorem C19_pickle_tie :
    PydraModel.Gen.PickleState.Job.get = [.all, .enc "task"]
    ∧ PydraModel.Gen.PickleState.Job.set = [.dec "task", .all]
    ∧ ∀ (o : PydraModel.Pickle.Obj) (a : String),
        PydraModel.Pickle.roundTrip PydraModel.Gen.PickleState.Job o a = o a := by
  refine ⟨by decide, by decide, ?_⟩
  intro o a
  by_cases h : a = "task"
  · subst h
    simp [PydraModel.Pickle.roundTrip, PydraModel.Pickle.runSteps, PydraModel.Gen.PickleState.Job,
      PydraModel.Pickle.Step.run, PydraModel.Pickle.Step.on, PydraModel.Pickle.Prim.app]
  · simp [PydraModel.Pickle.roundTrip, PydraModel.Pickle.runSteps, PydraModel.Gen.PickleState.Job,
      PydraModel.Pickle.Step.run, PydraModel.Pickle.Step.on, h]

/-! ### staging by copy mode -/

/-- C19 (copy mode, as far as pydra owns it): when the body works on the staged value (shell tasks), mode
    `copy` leaves the original's content untouched whatever the body writes … -/
theorem C19_copy_mode (orig fresh : Nat) (hne : fresh ≠ orig) (fs : FS) (new : Nat) :
    writeThrough true .copy orig fresh fs new orig = fs orig := by
  simp [writeThrough, bodyTarget, stage, Ne.symm hne]

/-- … while the linking modes and `leave` (= `any`) expose the original: the write shows in it (and is then
    subject to `C19_detect`). -/
theorem C19_link_modes (m : CopyMode) (hm : m ≠ .copy) (orig fresh : Nat) (fs : FS) (new : Nat) :
    writeThrough true m orig fresh fs new orig = new := by
  cases m <;> simp_all [writeThrough, bodyTarget, stage]

/-- D63: a python task's function is called with the task's own attribute values (`asdict(self)`), never with
    the staged copies of `Job.inputs`; so even with `copy_mode = copy` the body's write lands in the original. -/
theorem C19_witness_python_copy :
    writeThrough false .copy 0 1 (fun _ => 5) 9 0 = 9 ∧ writeThrough true .copy 0 1 (fun _ => 5) 9 0 = 5 := by
  decide

/-! ### the memo is load-bearing; non-vacuity -/

/-- Without the `Job._checksum` memo a mutating body would move the result to another directory and the check
    (comparing against freshly recomputed `_hashes`) would stay silent. -/
theorem C19_memo_needed :
    let ins : List (Name × Nat) := [(0, 1), (1, 2)]
    let f : Name → Nat → Nat := fun n v => if n = 1 then v + 10 else v
    let o := runJob (fun v => v) (fun hs => hs) false true (Job.fresh ins : Job Nat Nat (List (Name × Nat))) f
    o.dir ≠ computeHashes (fun v => v) ins ∧ o.raised = false := by
  decide

/-- the hypotheses of `C19_detect` are satisfiable, and both outcomes occur -/
example :
    let ins : List (Name × Nat) := [(0, 1), (1, 2)]
    (ins.map (·.1)).Nodup
    ∧ (runJob (fun v => v % 7) (fun hs => hs) true true (Job.fresh ins : Job Nat Nat (List (Name × Nat)))
        (fun n v => if n = 1 then v + 10 else v)).raised = true
    ∧ (runJob (fun v => v % 7) (fun hs => hs) true true (Job.fresh ins : Job Nat Nat (List (Name × Nat)))
        (fun n v => if n = 1 then v + 7 else v)).raised = false     -- a collision of the toy hash
    ∧ (runJob (fun v => v % 7) (fun hs => hs) true true (Job.fresh ins : Job Nat Nat (List (Name × Nat)))
        (fun _ v => v)).raised = false := by
  decide

end PydraModel.JobProto.HashCheck
