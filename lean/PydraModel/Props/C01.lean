import PydraModel.StateAlg.Lemmas3
import PydraModel.StateAlg.OldKeys
/-
C01 — Split expands to exactly the outer/inner product of the split inputs.

Model: `statesInd` (= `State.prepare_states_ind`: `splitter2rpn`, the stack machine `State.splits` with its global `keys`,
`iter_splits`).  Reference: `Spec.expandInd`, nested loops over the n-ary splitter tree.
Property theorems only; helper lemmas are in `StateAlg/Lemmas1.lean`, `Lemmas2.lean`.
-/
namespace PydraModel.StateAlg
open Spec

/-- no empty list/tuple inside the splitter (those are not splitter expressions: `_ordering` raises IndexError) -/
def WellFormed (s : Spl) : Prop := s.wf = true

instance (s : Spl) : Decidable (WellFormed s) := by unfold WellFormed; infer_instance

/-- how a verdict of the reference reads as an outcome of `prepare_states`: rejection = the ValueError of `State.splits` -/
def ofSpec {β : Type} : Option β → Except Err β
  | some x => .ok x
  | none => .error .shape

/-- FULL (index level): for EVERY well-formed splitter tree — any number of fields, any nesting, any shapes/lengths — the
    states computed by the stack machine are exactly the reference's nested loops — same jobs, same order, same index for
    every field — and the machine raises the shape error exactly when the reference rejects.
    (Since the repair of D1 every processed term carries its own keys; no `KeysOK` side condition is left.) -/
theorem C01_refines_ind (env : ShapeEnv) (s : Spl) (hwf : WellFormed s) :
    statesInd env s = ofSpec (expandInd env s) := by
  obtain ⟨t, ht⟩ := normalize_of_wf s hwf
  have hspec : expandInd env s = (expandB (idxElems env) env t).map (·.rows) := by
    simp only [expandInd, jobs]
    rw [expand_norm _ _ s t ht]; rfl
  have hf := fields_normalize s t ht
  have hev := evalBin_spec env t
  unfold statesInd
  rw [toRPN_eq ht, splits_rpn, hspec]
  cases he : evalBin env t with
  | error e =>
    simp only [he] at hev
    obtain ⟨rfl, hn⟩ := hev
    simp [hn, ofSpec]
  | ok v =>
    simp only [he] at hev
    obtain ⟨hx, _⟩ := hev
    simp only [hx, Option.map_some, ofSpec, iterSplits]

/-- C01 at its stated quantifier (≤ 4 fields) is the special case; kept under its old name. -/
theorem C01_le4 (env : ShapeEnv) (s : Spl) (hwf : WellFormed s) (_h : s.fields.length ≤ 4) :
    statesInd env s = ofSpec (expandInd env s) :=
  C01_refines_ind env s hwf

/-- Rejection does not depend on the keys: for EVERY well-formed tree the machine fails iff the reference rejects, and the
    failure is the shape error ("inner splits over operands of different shape are rejected"). -/
theorem C01_reject_iff (env : ShapeEnv) (s : Spl) (hwf : WellFormed s) :
    (statesInd env s = .error .shape ↔ expandInd env s = none) ∧ (∀ e, statesInd env s = .error e → e = .shape) := by
  obtain ⟨t, ht⟩ := normalize_of_wf s hwf
  have hspec : expandInd env s = (expandB (idxElems env) env t).map (·.rows) := by
    simp only [expandInd, jobs]
    rw [expand_norm _ _ s t ht]; rfl
  have hev := evalBin_spec env t
  unfold statesInd
  rw [toRPN_eq ht, splits_rpn, hspec]
  cases he : evalBin env t with
  | error e =>
    simp only [he] at hev
    obtain ⟨rfl, hn⟩ := hev
    simp [hn]
  | ok v =>
    simp only [he] at hev
    simp [hev.1]

/-- An inner product of two operands of different shape is rejected (whatever else the tree contains is irrelevant here:
    the statement is about the node itself). -/
theorem C01_inner_mismatch (env : ShapeEnv) (a b : Spl) (ea eb : Exp Nat)
    (hwf : WellFormed (.inner [a, b]))
    (ha : expand (idxElems env) env a = some ea) (hb : expand (idxElems env) env b = some eb)
    (hne : ea.shape ≠ eb.shape) :
    statesInd env (.inner [a, b]) = .error .shape := by
  apply (C01_reject_iff env _ hwf).1.mpr
  simp only [expandInd, jobs, expand]
  rw [expandInner_cons2, expandInner_single]
  have ha' : expand (fun n => List.range (prod (env n))) env a = some ea := ha
  have hb' : expand (fun n => List.range (prod (env n))) env b = some eb := hb
  simp [ha', hb', zipO, Exp.zip, hne]

/-- "Empty splits give an empty list": if the reference does not reject and some split field has no element, there is
    no job — for every well-formed tree. -/
theorem C01_empty (env : ShapeEnv) (s : Spl) (hwf : WellFormed s) (n : Name) (hn : n ∈ s.fields)
    (h0 : prod (env n) = 0) (hok : (expandInd env s).isSome = true) :
    statesInd env s = .ok [] := by
  obtain ⟨t, ht⟩ := normalize_of_wf s hwf
  have hf := fields_normalize s t ht
  have hspec : expandInd env s = (expandB (idxElems env) env t).map (·.rows) := by
    simp only [expandInd, jobs]
    rw [expand_norm _ _ s t ht]; rfl
  have hev := evalBin_spec env t
  unfold statesInd
  rw [toRPN_eq ht, splits_rpn]
  cases he : evalBin env t with
  | error e =>
    simp only [he] at hev
    rw [hspec, hev.2] at hok
    simp at hok
  | ok v =>
    simp only [he] at hev
    have hrows := expandB_empty (idxElems env) env n (by simp [idxElems, h0]) t _ hev.1 (hf ▸ hn)
    simp only [List.map_eq_nil_iff] at hrows
    simp [iterSplits, hrows]

/-- "… and the unchanged value of every other field": the per-job task is the base task with exactly the fields of the
    job's `states_val` entry replaced (model of `_split_task` / `attrs.evolve`). -/
theorem C01_other_fields_unchanged {α : Type} (base vals : List (Name × α)) :
    (splitTask base vals).map (·.1) = base.map (·.1) ∧
    (∀ e ∈ base, dictGet? vals e.1 = none → e ∈ splitTask base vals) ∧
    (∀ e ∈ base, ∀ x, dictGet? vals e.1 = some x → (e.1, x) ∈ splitTask base vals) := by
  refine ⟨?_, ?_, ?_⟩
  · simp only [splitTask, List.map_map]
    apply List.map_congr_left
    intro e _
    simp only [Function.comp]
    cases dictGet? vals e.1 <;> rfl
  · intro e he hnone
    simp only [splitTask, List.mem_map]
    exact ⟨e, he, by simp [hnone]⟩
  · intro e he x hx
    simp only [splitTask, List.mem_map]
    exact ⟨e, he, by simp [hx]⟩

/-- every split field holds a value that is rectangular down to its container dimension
    (always true for plain lists with the default container dimension 1) -/
def Rectangular (venv : VEnv) (s : Spl) : Prop :=
  ∀ n ∈ s.fields, (dims? (venv n).2 (venv n).1).isSome = true

/-- all split fields are plain lists split along their outer dimension (C01's domain) -/
def FlatLists (venv : VEnv) (s : Spl) : Prop := ∀ n ∈ s.fields, (venv n).2 = 1

theorem rectangular_of_flat (venv : VEnv) (s : Spl) (h : FlatLists venv s) : Rectangular venv s := by
  intro n hn
  simp [h n hn, dims?]

/-- FULL (value level): `states_val` — the value every job receives for every split field — equals the reference's
    nested loops over the depth-`container_ndim` elements of the fields, for EVERY tree (any number of fields) and all rectangular
    values of any size. -/
theorem C01_refines (venv : VEnv) (s : Spl) (hwf : WellFormed s) (hr : Rectangular venv s) :
    statesVal venv s = ofSpec (expandVal venv s) := by
  obtain ⟨t, ht⟩ := normalize_of_wf s hwf
  have hf := fields_normalize s t ht
  let env := shapeEnv venv
  let L : Name → List Nested := fun n => flatten (venv n).2 (venv n).1
  let g : Name → Nat → Nested := fun k i => (L k).getD i (.leaf 0)
  have hind := C01_refines_ind env s hwf
  have hspecI : expandInd env s = (expandB (idxElems env) env t).map (·.rows) := by
    simp only [expandInd, jobs]
    rw [expand_norm _ _ s t ht]; rfl
  have hfield : ∀ n ∈ t.fields, (L n).length = prod (env n) ∧
      specShape (venv n).2 (venv n).1 = env n := by
    intro n hn
    have := hr n (hf ▸ hn)
    cases hd : dims? (venv n).2 (venv n).1 with
    | none => simp [hd] at this
    | some d =>
      obtain ⟨h1, h2⟩ := rect_shape _ _ d hd
      exact ⟨by simp only [L, env, shapeEnv, h1, h2], by simp only [specShape, hd, env, shapeEnv, h1]⟩
  have hspecV : expandVal venv s = ((expandB (idxElems env) env t).map (mapExp g)).map (·.rows) := by
    simp only [expandVal, jobs]
    rw [expand_norm _ _ s t ht, ← expandB_map]
    congr 1
    apply expandB_congr
    intro n hn
    obtain ⟨h1, h2⟩ := hfield n hn
    refine ⟨?_, h2⟩
    show leavesAt (venv n).2 (venv n).1 = List.map (g n) (idxElems env n)
    rw [← flatten_eq_leavesAt]
    show L n = List.map (fun i => (L n).getD i (.leaf 0)) (List.range (prod (env n)))
    rw [← h1, range_map_getD]
  unfold statesVal
  rw [hind, hspecI, hspecV]
  cases he : expandB (idxElems env) env t with
  | none => simp [ofSpec]
  | some e =>
    simp only [Option.map_some, ofSpec]
    rw [mapSplits_ok]
    · rfl
    · intro row hrow p hp
      obtain ⟨hp1, hp2⟩ := expandB_mem _ _ t e he row hrow p hp
      have := (hfield p.1 hp1).1
      simp only [idxElems, List.mem_range] at hp2
      show p.2 < (L p.1).length
      omega

/-- C01 as stated, and beyond: ANY number of fields, plain lists of ANY length: every job receives exactly the matching
    element of every split field, jobs in nested-loop order; rejected exactly when the reference rejects. -/
theorem C01_values (venv : VEnv) (s : Spl) (hwf : WellFormed s) (hflat : FlatLists venv s) :
    statesVal venv s = ofSpec (expandVal venv s) :=
  C01_refines venv s hwf (rectangular_of_flat venv s hflat)

/-- What the code did BEFORE the repair of D1 (documentation; `OldKeys.splits` is the old four-case machine with one global
    `keys` list): for `[[a,b],[c,[d,e]]]` the keys came out as `[c,a,b,d,e]` while the index tuples are in the order a..e.
    The repaired machine returns the fields in order, and the old witness is now a regression case of the theorem above. -/
def s5 : Spl := .outer [.outer [.fld 0, .fld 1], .outer [.fld 2, .outer [.fld 3, .fld 4]]]
def env5 : ShapeEnv := fun n => if n = 0 then [2] else [1]

theorem C01_witness_5 :
    OldKeys.splits env5 (toRPN s5) = .ok ([[0, 0, 0, 0, 0], [1, 0, 0, 0, 0]], [2, 0, 1, 3, 4]) ∧
    splits env5 (toRPN s5) = .ok ([[0, 0, 0, 0, 0], [1, 0, 0, 0, 0]], [0, 1, 2, 3, 4]) ∧
    statesInd env5 s5 = ofSpec (expandInd env5 s5) := by
  refine ⟨by decide, by decide, by decide⟩

/-- "… each job receives exactly the matching element": the value substituted into the per-job task is the indexed element
    WHATEVER it is (generic value type — it may be Python's `None`, `0`, `''`, `[]`: presence of the key decides). -/
theorem C01_substitutes_any_value {α : Type} (base vals : List (Name × α)) (e : Name × α) (he : e ∈ base) (x : α)
    (hx : dictGet? vals e.1 = some x) : (e.1, x) ∈ splitTask base vals := by
  simp only [splitTask, List.mem_map]
  exact ⟨e, he, by simp [hx]⟩

/-- Documentation witness: the variant `state_val = vals.get(key); if state_val is not None: …` loses a `None` element —
    the job keeps the base value (the whole un-split list) instead of receiving `None`; the code's `try/except KeyError`
    delivers it. -/
theorem C01_witness_not_none :
    splitTask [(0, some 7)] [(0, (none : Option Nat))] = [(0, none)] ∧
    splitTaskNotNone [(0, some 7)] [(0, (none : Option Nat))] = [(0, some 7)] := by
  decide

/-- Non-vacuity: a six-field tree mixing outer, inner, an n-ary node and a one-element tuple is well formed. -/
example : WellFormed (.outer [.fld 0, .outer [.fld 1, .outer [.inner [.fld 2, .inner [.fld 3]], .fld 4, .fld 5]]]) := by decide

end PydraModel.StateAlg
