import PydraModel.Argv.WordsLemmas
import PydraModel.Argv.CleanupSurvive
import PydraModel.Argv.LowerLemmas
import PydraModel.Argv.ParseLemmas
/-
C23 — Field values reach the command intact.

The code builds each field's contribution as one string and re-tokenises it with `split_cmd`
(`shlex.split` + stripping of a surrounding quote pair).  Property theorems only; the lemmas are in
`Argv/ShlexLemmas.lean`, `Argv/ShlexSurvive.lean`, `Argv/QuoteLemmas.lean`, `Argv/WordsLemmas.lean`.

FULL statement (kept visible, NOT provable on the pinned tree — D14, see the witnesses):
  every string value of a field with a plain argstr is an argument of its own.
-/
namespace PydraModel.Argv

/-- only characters `shlex` gives no meaning to (no blank, quote, backslash) -/
def Inert (e : Str) : Prop := ∀ c ∈ e, inertChar c = true

instance (e : Str) : Decidable (Inert e) := by unfold Inert; infer_instance

/-- a harmless argstr text: inert characters and blanks -/
def Harmless (s : Str) : Prop := ∀ c ∈ s, inertChar c = true ∨ isWs c = true

instance (s : Str) : Decidable (Harmless s) := by unfold Harmless; infer_instance

def C23_full_statement : Prop :=
  ∀ (env : Env) (f : Field) (a : Argstr) (e : Str), a.templated = false → Harmless (litText a.segs) →
    ∃ args, formatScalar env f a (.str e) = .ok args ∧ e ∈ args

/-- The transcription of `shlex.read_token` with token accumulator and `quoted` flag (what the
    driver also runs) computes the same function as the automaton used in all theorems. -/
theorem C23_shlex_transcription (s : Str) : shlexSplitRaw s = shlexSplit s := shlexSplitRaw_eq s

/-- PARTIAL (hypothesis: the value is non-empty and shlex-inert; missing: every other value, D14).
    Wherever the value is placed in the text handed to `split_cmd` — after any argstr, inside any
    template, between any separators, even after an unbalanced quote — if `split_cmd` accepts the text
    then the value is found verbatim inside one argument.  Unbounded in all three lengths. -/
theorem C23_inert_survives_partial (pre e post : Str) (hne : e ≠ []) (he : Inert e)
    (toks : List Str) (h : splitCmd (pre ++ (e ++ post)) = .ok toks) : ∃ t ∈ toks, e <:+: t :=
  splitCmd_inert_survives pre e post hne he toks h

/-- PARTIAL: with a plain (harmless) argstr a non-empty inert string value is an argument of its own,
    right after the argstr's words. -/
theorem C23_plain_own_argument_partial (env : Env) (f : Field) (a : Argstr) (e : Str)
    (hp : a.templated = false) (hl : Harmless (litText a.segs)) (hne : e ≠ []) (he : Inert e) :
    formatScalar env f a (.str e) = .ok (words (litText a.segs) ++ [e]) := by
  have htr : (Scalar.str e).truthy = true := by
    cases e with
    | nil => exact absurd rfl hne
    | cons c e => rfl
  simp only [formatScalar, hp, htr, if_true, Bool.false_eq_true, if_false, Scalar.render]
  rw [splitCmd_words]
  · rw [words_append_ws _ _ ' ' (by decide)]
    rw [words_solid e hne (fun c hc => ((inertChar_iff c).mp (he c hc)).1)]
  · intro c hc
    simp only [List.mem_append, List.mem_cons] at hc
    rcases hc with hc | rfl | hc
    · exact hl c hc
    · exact Or.inr (by decide)
    · exact Or.inl (he c hc)

/-- The same for a path value (`str(Path)`), which is always truthy. -/
theorem C23_plain_own_argument_path_partial (env : Env) (f : Field) (a : Argstr) (e : Str)
    (hp : a.templated = false) (hl : Harmless (litText a.segs)) (hne : e ≠ []) (he : Inert e) :
    formatScalar env f a (.path e) = .ok (words (litText a.segs) ++ [e]) := by
  simp only [formatScalar, hp, Scalar.truthy, if_true, Bool.false_eq_true, if_false, Scalar.render]
  rw [splitCmd_words]
  · rw [words_append_ws _ _ ' ' (by decide)]
    rw [words_solid e hne (fun c hc => ((inertChar_iff c).mp (he c hc)).1)]
  · intro c hc
    simp only [List.mem_append, List.mem_cons] at hc
    rcases hc with hc | rfl | hc
    · exact hl c hc
    · exact Or.inr (by decide)
    · exact Or.inl (he c hc)

/-- a value that `argstr_formatting`'s clean-up (`"[ "`, `" ]"`, `"[,"`, `",]"`, `strip()`) cannot touch -/
def CleanupProof (e : Str) : Prop :=
  (∀ c ∈ e, c ≠ '[' ∧ c ≠ ']' ∧ c ≠ ',' ∧ c ≠ ' ')
  ∧ (∀ c, e.head? = some c → pySpace c = false) ∧ (∀ c, e.getLast? = some c → pySpace c = false)

instance (e : Str) : Decidable (CleanupProof e) := by
  unfold CleanupProof
  refine @instDecidableAnd _ _ inferInstance (@instDecidableAnd _ _ ?_ ?_)
  · cases h : e.head? with
    | none => exact isTrue (fun c hc => by simp at hc)
    | some d =>
      by_cases hd : pySpace d = false
      · exact isTrue (fun c hc => by simp at hc; subst hc; exact hd)
      · exact isFalse (fun hh => hd (hh d rfl))
  · cases h : e.getLast? with
    | none => exact isTrue (fun c hc => by simp at hc)
    | some d =>
      by_cases hd : pySpace d = false
      · exact isTrue (fun c hc => by simp at hc; subst hc; exact hd)
      · exact isFalse (fun hh => hd (hh d rfl))

/-- PARTIAL, templated argstr (`--opt={name}`, `{name}`, `-x {name} {other}` …; hypothesis: the value is
    non-empty, shlex-inert and out of reach of the bracket clean-up / `strip()`; missing: all other values):
    whatever the rest of the template renders to, if the command can be built then the value is found
    verbatim inside one of the field's arguments. -/
theorem C23_templated_survives_partial (env : Env) (f : Field) (a : Argstr) (e : Str)
    (ht : a.templated = true) (hr : Seg.ref f.name ∈ a.segs)
    (hne : e ≠ []) (he : Inert e) (hc : CleanupProof e)
    (args : List Str) (h : formatScalar env f a (.str e) = .ok args) : ∃ t ∈ args, e <:+: t := by
  simp only [formatScalar, ht, if_true, Scalar.render, argstrFormatting] at h
  cases hx : renderSegs (env.set f.name e) a.segs with
  | error _ => simp [hx] at h
  | ok r =>
    simp only [hx, emap_ok] at h
    obtain ⟨p, q, hpq⟩ := renderSegs_contains env f.name e a.segs r hr hx
    obtain ⟨p', q', hcl⟩ := cleanup_survive p e q hne hc.1 hc.2.1 hc.2.2
    rw [hpq, hcl] at h
    exact splitCmd_inert_survives p' e q' hne he args h

/-! ### witnesses (D14): what happens to values that are not inert -/

def dashS : Argstr := ⟨"-s".toList, false, [.lit "-s".toList]⟩
def fldS : Field := ⟨"s".toList, false, false, some dashS, none, [' '], false⟩
def noEnv : Env := fun _ => none

/-- a blank splits the value into two arguments -/
theorem C23_witness_space :
    formatScalar noEnv fldS dashS (.str "x y".toList) = .ok ["-s".toList, "x".toList, "y".toList] := by decide

/-- an apostrophe makes the whole command construction fail (`ValueError: No closing quotation`) -/
theorem C23_witness_quote :
    formatScalar noEnv fldS dashS (.str "it's".toList) = .error .noClosingQuote := by decide

/-- a backslash is dropped -/
theorem C23_witness_backslash :
    formatScalar noEnv fldS dashS (.str "a\\b".toList) = .ok ["-s".toList, "ab".toList] := by decide

/-- quotes the caller wrote around a value are removed (by shlex, or by the quote-stripping regex) -/
theorem C23_witness_quoted :
    formatScalar noEnv fldS dashS (.str "\"'q'\"".toList) = .ok ["-s".toList, "q".toList] := by decide

/-- an empty value vanishes together with its flag -/
theorem C23_witness_empty : formatScalar noEnv fldS dashS (.str []) = .ok [] := by decide

/-- hence the full statement fails -/
theorem C23_witness_not_full : ¬ C23_full_statement := by
  intro h
  obtain ⟨args, h1, h2⟩ := h noEnv fldS dashS "x y".toList rfl (by decide)
  rw [C23_witness_space] at h1
  cases h1
  revert h2; decide

/-- in a templated argstr `strip()` also eats a trailing no-break space, which shlex would have kept -/
def eqS : Argstr := ⟨"--s={s}".toList, false, [.lit "--s=".toList, .ref "s".toList]⟩
theorem C23_witness_strip :
    formatScalar noEnv ⟨"s".toList, false, false, some eqS, none, [' '], false⟩ eqS (.str ['a', Char.ofNat 0xa0])
      = .ok ["--s=a".toList] := by decide

/-! ### the `...` repeat marker belongs to the argstr, never to a value

In the model, as in the pinned code, `...` is removed from the ARGSTR TEXT only (`removeDots` inside
`parseArgstr` = `fld.argstr.replace("...", "")`); `formatScalar` / `formatMany` never apply it to the text
they build.  Dots are shlex-inert, so the survival theorems above cover values with `...`; stated outright: -/

theorem dots_inert : Inert "...".toList := by decide

/-- PARTIAL (inert surroundings): a value with a literal `...` anywhere (start, middle, end, alone) under a
    plain argstr — also one that itself ends with the `...` marker — is an argument of its own, dots included. -/
theorem C23_value_dots_survive (env : Env) (f : Field) (raw : Str) (a : Argstr) (pre post : Str)
    (hparse : parseArgstr raw = .ok a) (hp : a.templated = false) (hl : Harmless (litText a.segs))
    (h1 : Inert pre) (h2 : Inert post) :
    formatScalar env f a (.str (pre ++ ("...".toList ++ post)))
      = .ok (words (litText a.segs) ++ [pre ++ ("...".toList ++ post)])
    ∧ unparse a.segs = removeDots raw := by
  refine ⟨?_, (parseArgstr_unparse hparse).2.2⟩
  apply C23_plain_own_argument_partial env f a _ hp hl (by simp)
  intro c hc
  simp only [List.mem_append] at hc
  rcases hc with hc | hc | hc
  · exact h1 c hc
  · exact dots_inert c hc
  · exact h2 c hc

/-- … and inside any templated argstr it is found verbatim in one argument -/
theorem C23_value_dots_survive_templated (env : Env) (f : Field) (a : Argstr) (pre post : Str)
    (ht : a.templated = true) (hr : Seg.ref f.name ∈ a.segs)
    (h1 : Inert pre) (h2 : Inert post) (hc : CleanupProof (pre ++ ("...".toList ++ post)))
    (args : List Str) (h : formatScalar env f a (.str (pre ++ ("...".toList ++ post))) = .ok args) :
    ∃ t ∈ args, (pre ++ ("...".toList ++ post)) <:+: t := by
  apply C23_templated_survives_partial env f a _ ht hr (by simp) _ hc args h
  intro c hc'
  simp only [List.mem_append] at hc'
  rcases hc' with hc' | hc' | hc'
  · exact h1 c hc'
  · exact dots_inert c hc'
  · exact h2 c hc'

/-- the variant that strips the marker from the BUILT argument string instead of the argstr text
    (NOT the pinned code; kept as documentation of what the theorem above excludes) -/
def formatPlainStripAfter (lit v : Str) : Except Err (List Str) := splitCmd (removeDots (lit ++ ' ' :: v))

def dashR : Argstr := ⟨"-r...".toList, true, [.lit "-r".toList]⟩
def fldR : Field := ⟨"r".toList, false, false, some dashR, none, [' '], false⟩

/-- the code keeps the dots of values (plain, path with a directory named `...`, repeated `-r...`, templated) … -/
theorem C23_witness_dots_kept :
    formatScalar noEnv fldS dashS (.str "Loading...".toList) = .ok ["-s".toList, "Loading...".toList]
    ∧ formatScalar noEnv fldS dashS (.path "/data/.../file.txt".toList) = .ok ["-s".toList, "/data/.../file.txt".toList]
    ∧ formatMany noEnv fldR dashR [.str "main...feature".toList, .str "....".toList]
        = .ok ["-r".toList, "main...feature".toList, "-r".toList, "....".toList]
    ∧ formatScalar noEnv ⟨"s".toList, false, false, some eqS, none, [' '], false⟩ eqS (.str "...".toList) = .ok ["--s=...".toList]
    ∧ parseArgstr "-r...".toList = .ok dashR := by
  refine ⟨by decide, by decide, by decide, by decide, by decide⟩

/-- … whereas stripping after the substitution would delete them -/
theorem C23_witness_strip_after :
    formatPlainStripAfter "-s".toList "Loading...".toList = .ok ["-s".toList, "Loading".toList]
    ∧ formatPlainStripAfter "-s".toList "main...feature".toList = .ok ["-s".toList, "mainfeature".toList]
    ∧ formatPlainStripAfter "-s".toList "/data/.../file.txt".toList = .ok ["-s".toList, "/data//file.txt".toList] := by
  refine ⟨by decide, by decide, by decide⟩

/-! ### brackets and braces in values (D43, D44) -/

/-- D43: in a templated argstr the bracket clean-up of `argstr_formatting` eats the comma of the VALUE -/
theorem C23_witness_bracket :
    formatScalar noEnv ⟨"s".toList, false, false, some eqS, none, [' '], false⟩ eqS (.str "a[,b".toList) = .ok ["--s=a[b".toList]
    ∧ formatScalar noEnv ⟨"s".toList, false, false, some eqS, none, [' '], false⟩ eqS (.str "x,]y".toList) = .ok ["--s=x]y".toList] := by
  refine ⟨by decide, by decide⟩

def fxEq : FieldX := ⟨⟨"s".toList, false, false, some eqS, none, [' '], false⟩, {}⟩
def fxT : FieldX := ⟨⟨"t".toList, false, false, none, none, [' '], false⟩, {}⟩
def noF : FormatterFn := fun _ _ => []
def strX (s : String) : ValueX := .v (.one (.str s.toList))

/-- D44: the value is substituted into the argstr text before `str.format` runs (extended model `runDefX`):
    a lone brace makes the command construction fail … -/
theorem C23_witness_brace_error :
    runDefX noF noEnv [] ["exe".toList] [fxEq] [strX "a{b"] [] = .error .reformat
    ∧ runDefX noF noEnv [] ["exe".toList] [fxEq] [strX "x}y"] [] = .error .reformat
    ∧ runDefX noF noEnv [] ["exe".toList] [fxEq] [strX "{}"] [] = .error .reformat := by
  refine ⟨by decide, by decide, by decide⟩

/-- … and `{t}` inside the value is replaced by the value of the field `t` (injection); an unknown name vanishes -/
theorem C23_witness_brace_injection :
    runDefX noF noEnv [] ["exe".toList] [fxEq, fxT] [strX "p{t}q", strX "TT"] [] = .ok ["exe".toList, "--s=pTTq".toList]
    ∧ runDefX noF noEnv [] ["exe".toList] [fxEq] [strX "{zz}"] [] = .ok ["exe".toList, "--s=".toList] := by
  refine ⟨by decide, by decide⟩

/-- FULL: a value text without braces is never re-interpreted (the argstr stays as parsed), so the theorems
    above about `formatScalar` speak about what the extended model runs -/
theorem C23_lowering_nobrace (a : Argstr) (name value : Str) (h : hasBrace value = false) :
    lowerArgstr a name value = .ok a := lowerArgstr_nobrace a name value h

/-! ### non-vacuity -/

example : CleanupProof "$HOME/*.txt;&|<>()#~é".toList := by decide
example : formatScalar noEnv ⟨"s".toList, false, false, some eqS, none, [' '], false⟩ eqS (.str "a;b".toList) = .ok ["--s=a;b".toList] := by
  decide

example : Inert "$HOME/*.txt;&|<>()#~é".toList ∧ "$HOME/*.txt;&|<>()#~é".toList ≠ [] := by decide
example : Harmless (litText dashS.segs) := by decide
example : formatScalar noEnv fldS dashS (.str "$HOME/*.txt".toList) = .ok ["-s".toList, "$HOME/*.txt".toList] := by decide
example : splitCmd ("--p=\"" ++ "a;b" ++ "\" tail").toList = .ok ["--p=a;b".toList, "tail".toList] := by decide

end PydraModel.Argv
