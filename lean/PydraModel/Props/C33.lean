import PydraModel.Files.Lemmas
import PydraModel.Files.LemmasRef
/-
C33 — Workflow output files are collected without clashes or loss.

"Files and directories returned as workflow outputs are copied or hard-linked into the workflow's cache directory
with their content preserved; distinct source files never map to the same destination even when their names coincide,
and nested output structures keep their shape."

Everything here is about pydra's own code — `copyfile_workflow`, `copy_nested_files`, `apply_to_instances` — for nested
values and field lists of ANY size, with `fileformats.FileSet.copy` abstracted as a primitive `P` satisfying `Contract`
(Files/Lemmas.lean; sampled against the real library by the harness on every run).  All statements are of the form
"if `copyfile_workflow` returns, then …" (a raising primitive makes it raise; `C33_progress_ref` shows that for the
counter-suffix primitive `FileExistsError` cannot come from a clash between outputs).

`r.memos` is ghost output of the model: for each field, the list of `FileSet.copy` calls made for it (source object,
returned object, operation).
-/
namespace PydraModel.Files
open PydraModel.Mount (Str Table)

section
variable {P : Prim} {Copied : FileObj → FileObj → Op → Prop} (hP : Contract P Copied)
variable (get : Table → Str → Mount.Entry) (tbl : Table) (wfDir : Path)

/-- `mode=hardlink_or_copy` masked with whatever is left of `supported_modes=any` after the mount checks always keeps
    `copy`, never contains `leave` or `symlink`: `copyfile_workflow` never leaves an output file where it is. -/
theorem wf_sel (x : FileObj) :
    (selOf (wfEnv get tbl wfDir) x).leave = false ∧ (selOf (wfEnv get tbl wfDir) x).sym = false
      ∧ (selOf (wfEnv get tbl wfDir) x).copy = true := by
  unfold selOf reduceSupported wfEnv
  simp only []
  generalize (x.paths.any fun p => Mount.onCifs get tbl p) = c1
  generalize (x.paths.all fun p => Mount.onSameMount get tbl p wfDir) = c2
  cases c1 <;> cases c2 <;> decide

include hP in
/-- Everything the loop guarantees, in one place (the theorems below are projections of it). -/
theorem wf_facts (fields : List (Str × Val)) (ex : List Path) (n : Nat) (r : Collected)
    (h : copyfileWorkflow P get tbl wfDir fields ex n = .ok r) :
    LoopFacts Copied (wfEnv get tbl wfDir) [] ex fields r :=
  collectLoop_spec hP (wfEnv get tbl wfDir) fields [] ex n r h

include hP in
/-- Every copy made by `copyfile_workflow` is a hard link or a full copy. -/
theorem wf_op (fields : List (Str × Val)) (ex : List Path) (n : Nat) (r : Collected)
    (h : copyfileWorkflow P get tbl wfDir fields ex n = .ok r) :
    PerField (fun _ _ m => ∀ e ∈ m, e.op = .hard ∨ e.op = .copy) fields r.fields r.memos := by
  refine PerField.mono _ _ _ ?_ (wf_facts hP get tbl wfDir fields ex n r h).per
  rintro a b m _ _ ⟨_, st, S0, ex0, rfl, spec⟩ e he
  have hal := (spec.inv.good e he).allowed
  obtain ⟨h1, h2, _⟩ := wf_sel get tbl wfDir e.src
  cases hop : e.op with
  | leave => rw [hop] at hal; simp [Mode.has, h1] at hal
  | sym => rw [hop] at hal; simp [Mode.has, h2] at hal
  | hard => exact Or.inl rfl
  | copy => exact Or.inr rfl

include hP in
/-- **C33 shape.**  Field by field: same field name, same nested structure, same non-file leaves
    (`shape` erases file leaves and object identities only). -/
theorem C33_shape (fields : List (Str × Val)) (ex : List Path) (n : Nat) (r : Collected)
    (h : copyfileWorkflow P get tbl wfDir fields ex n = .ok r) :
    PerField (fun a b _ => b.1 = a.1 ∧ shape b.2 = shape a.2) fields r.fields r.memos := by
  refine PerField.mono _ _ _ ?_ (wf_facts hP get tbl wfDir fields ex n r h).per
  rintro a b m _ _ ⟨hn, st, S0, ex0, _, spec⟩
  exact ⟨hn, Rel.shape_eq _ _ spec.rel⟩

include hP in
/-- **C33 refinement to a plain tree map.**  The collected value of a field is the field's value with every file leaf
    `x` replaced by `resolve m x` — the object returned by THE copy made in this field for `x`'s (class, paths) —
    so equal file objects come back as one identical object; the copies made for a field are exactly one per distinct
    (class, paths) among its leaves. -/
theorem C33_tree_map (fields : List (Str × Val)) (ex : List Path) (n : Nat) (r : Collected)
    (h : copyfileWorkflow P get tbl wfDir fields ex n = .ok r) :
    PerField (fun a b m => b.2 = mapVal (resolve m) a.2
        ∧ m.Pairwise (fun e e' => e.key ≠ e'.key)
        ∧ (∀ e ∈ m, e.src ∈ leaves a.2 ∧ e.key = e.src.key)
        ∧ (∀ x ∈ leaves a.2, ∃ e ∈ m, e.key = x.key ∧ e.dst = resolve m x)) fields r.fields r.memos := by
  refine PerField.mono _ _ _ ?_ (wf_facts hP get tbl wfDir fields ex n r h).per
  rintro a b m _ _ ⟨_, st, S0, ex0, rfl, spec⟩
  refine ⟨?_, spec.inv.nodup, fun e he => ⟨spec.src_leaf e he, (spec.inv.good e he).key⟩, ?_⟩
  · exact Rel.eq_map _ _ (fun x _ d hd => res_resolve spec.inv.nodup hd) spec.rel
  · intro x hx
    obtain ⟨d, _, e, he, hk, hd⟩ := Rel.leaf_image _ _ spec.rel x hx
    exact ⟨e, he, hk, res_resolve spec.inv.nodup ⟨e, he, hk, rfl⟩⟩

include hP in
/-- **C33 injectivity (all fields together).**  Taken over the whole `Outputs` object, in order, the copies have
    pairwise disjoint destination paths; every destination lies inside the workflow directory, did not exist before, was
    produced by a hard link or a copy, carries the source's content, and satisfies whatever else the primitive promises
    (`Copied`: name = stem, optional counter suffix, extension). -/
theorem C33_injective (fields : List (Str × Val)) (ex : List Path) (n : Nat) (r : Collected)
    (h : copyfileWorkflow P get tbl wfDir fields ex n = .ok r) :
    r.memos.flatten.Pairwise (fun a b => ∀ p ∈ a.dst.paths, p ∉ b.dst.paths)
    ∧ ∀ e ∈ r.memos.flatten, (e.op = .hard ∨ e.op = .copy) ∧ (∀ p ∈ e.dst.paths, Under wfDir p ∧ p ∉ ex)
        ∧ e.dst.content = e.src.content ∧ e.dst.cls = e.src.cls ∧ Copied e.src e.dst e.op := by
  have F := wf_facts hP get tbl wfDir fields ex n r h
  have hop := wf_op hP get tbl wfDir fields ex n r h
  -- per entry facts
  have key : ∀ m ∈ r.memos, ∀ e ∈ m, (e.op = .hard ∨ e.op = .copy)
      ∧ e.dst.content = e.src.content ∧ e.dst.cls = e.src.cls ∧ Copied e.src e.dst e.op := by
    have aux : ∀ (as bs : List (Str × Val)) (ms : List (List Entry)),
        PerField (fun _ _ m => ∀ e ∈ m, e.op = .hard ∨ e.op = .copy) as bs ms →
        PerField (fun a b m => b.1 = a.1 ∧ ∃ st S0 ex0, st.memo = m ∧
          NestedSpec Copied (wfEnv get tbl wfDir) S0 ex0 a.2 b.2 st) as bs ms →
        ∀ m ∈ ms, ∀ e ∈ m, (e.op = .hard ∨ e.op = .copy)
          ∧ e.dst.content = e.src.content ∧ e.dst.cls = e.src.cls ∧ Copied e.src e.dst e.op := by
      intro as
      induction as with
      | nil =>
        intro bs ms h1 _ m hm
        cases bs <;> cases ms <;> simp_all [PerField]
      | cons a as ih =>
        intro bs ms h1 h2 m hm
        cases bs with
        | nil => simp [PerField] at h1
        | cons b bs =>
          cases ms with
          | nil => simp [PerField] at h1
          | cons m0 ms =>
            simp only [PerField] at h1 h2
            rcases List.mem_cons.mp hm with rfl | hm
            · intro e he
              obtain ⟨_, st, S0, ex0, rfl, spec⟩ := h2.1
              have g := spec.inv.good e he
              exact ⟨h1.1 e he, g.content.1, g.content.2, g.copied⟩
            · exact ih bs ms h1.2 h2.2 m hm
    exact aux _ _ _ hop F.per
  have nl : ∀ m ∈ r.memos, ∀ e ∈ m, e.op ≠ .leave := by
    intro m hm e he hl
    rcases (key m hm e he).1 with h1 | h1 <;> rw [hl] at h1 <;> cases h1
  refine ⟨?_, ?_⟩
  · refine F.disj.imp_of_mem ?_
    intro a b ha hb hd
    obtain ⟨ma, hma, hea⟩ := List.mem_flatten.mp ha
    obtain ⟨mb, hmb, heb⟩ := List.mem_flatten.mp hb
    exact hd (nl ma hma a hea) (nl mb hmb b heb)
  · intro e he
    obtain ⟨m, hm, hem⟩ := List.mem_flatten.mp he
    obtain ⟨k1, k2, k3, k4⟩ := key m hm e hem
    refine ⟨k1, fun p hp => ?_, k2, k3, k4⟩
    obtain ⟨_, f2, _, f4⟩ := F.freshS m hm e hem (nl m hm e hem) p hp
    exact ⟨f4, f2⟩

include hP in
/-- **C33 threading of the ONE clash set.**  The set `clashes_to_avoid` that `copyfile_workflow` creates once and
    hands to every field's `copy_nested_files` call ends up holding exactly the destinations created for all fields:
    a later field's copy is made against everything earlier fields created (that is what makes `C33_injective` hold
    across fields — compare `C34_witness_cross_field`, where the set is per field). -/
theorem C33_shared_clash_set (fields : List (Str × Val)) (ex : List Path) (n : Nat) (r : Collected)
    (h : copyfileWorkflow P get tbl wfDir fields ex n = .ok r) :
    ∀ p, p ∈ r.clashes ↔ ∃ e ∈ r.memos.flatten, p ∈ e.dst.paths := by
  have F := wf_facts hP get tbl wfDir fields ex n r h
  have I := C33_injective hP get tbl wfDir fields ex n r h
  intro p
  constructor
  · intro hp
    rcases F.exactS p hp with h0 | ⟨m, hm, e, he, _, h2⟩
    · simp at h0
    · exact ⟨e, List.mem_flatten.mpr ⟨m, hm, he⟩, h2⟩
  · rintro ⟨e, he, hp⟩
    obtain ⟨m, hm, hem⟩ := List.mem_flatten.mp he
    have hnl : e.op ≠ .leave := by
      intro hl
      rcases (I.2 e he).1 with h1 | h1 <;> rw [hl] at h1 <;> cases h1
    exact (F.freshS m hm e hem hnl p hp).2.2.1

include hP in
/-- **C33 no loss, content preserved** (leaf level).  If file objects with equal (class, paths) in a field have equal
    content — they are the same files on disk — then every file leaf of every field comes back as a leaf with the same
    content whose paths all lie in the workflow directory. -/
theorem C33_no_loss (fields : List (Str × Val)) (ex : List Path) (n : Nat) (r : Collected)
    (h : copyfileWorkflow P get tbl wfDir fields ex n = .ok r)
    (hc : ∀ a ∈ fields, ∀ x ∈ leaves a.2, ∀ y ∈ leaves a.2, x.key = y.key → x.content = y.content) :
    PerField (fun a b m => ∀ x ∈ leaves a.2, resolve m x ∈ leaves b.2 ∧ (resolve m x).content = x.content
        ∧ ∀ p ∈ (resolve m x).paths, Under wfDir p) fields r.fields r.memos := by
  have F := wf_facts hP get tbl wfDir fields ex n r h
  have I := C33_injective hP get tbl wfDir fields ex n r h
  refine PerField.mono _ _ _ ?_ F.per
  rintro a b m ha hm ⟨_, st, S0, ex0, rfl, spec⟩ x hx
  obtain ⟨d, hd, e, he, hk, hed⟩ := Rel.leaf_image _ _ spec.rel x hx
  have hres : d = resolve st.memo x := res_resolve spec.inv.nodup ⟨e, he, hk, hed⟩
  have hflat : e ∈ r.memos.flatten := List.mem_flatten.mpr ⟨st.memo, hm, he⟩
  obtain ⟨_, i2, i3, _, _⟩ := I.2 e hflat
  refine ⟨hres ▸ hd, ?_, ?_⟩
  · rw [← hres, ← hed, i3]
    exact hc a ha e.src (spec.src_leaf e he) x hx (by rw [← (spec.inv.good e he).key, hk])
  · intro p hp
    rw [← hres, ← hed] at hp
    exact (i2 p hp).1

include hP in
/-- **C33 injectivity at leaf level.**  Two file leaves anywhere in the outputs — in different fields, or in one field
    with different (class, paths) — come back with disjoint destination paths. -/
theorem C33_leaf_injective (fields : List (Str × Val)) (ex : List Path) (n : Nat) (r : Collected)
    (h : copyfileWorkflow P get tbl wfDir fields ex n = .ok r)
    (i j : Nat) (a b : Str × Val) (mi mj : List Entry)
    (hi : fields[i]? = some a) (hj : fields[j]? = some b) (hmi : r.memos[i]? = some mi) (hmj : r.memos[j]? = some mj)
    (x y : FileObj) (hx : x ∈ leaves a.2) (hy : y ∈ leaves b.2) (hne : i ≠ j ∨ x.key ≠ y.key) :
    ∀ p ∈ (resolve mi x).paths, p ∉ (resolve mj y).paths := by
  have T := C33_tree_map hP get tbl wfDir fields ex n r h
  have I := (C33_injective hP get tbl wfDir fields ex n r h).1
  let R : Entry → Entry → Prop := fun a b => ∀ p ∈ a.dst.paths, p ∉ b.dst.paths
  have Rsym : ∀ a b, R a b → R b a := fun a b hab p hpb hpa => hab p hpa hpb
  obtain ⟨_, _, _, _, _, tx⟩ := PerField.get _ _ _ i a mi T hi hmi
  obtain ⟨_, _, _, _, _, ty⟩ := PerField.get _ _ _ j b mj T hj hmj
  obtain ⟨e, he, hek, hed⟩ := tx x hx
  obtain ⟨e', he', hek', hed'⟩ := ty y hy
  rw [← hed, ← hed']
  have hmi' := List.mem_of_getElem? hmi
  have hmj' := List.mem_of_getElem? hmj
  have hfl := List.pairwise_flatten.mp I
  by_cases hij : i = j
  · subst hij
    have : mi = mj := by rw [hmi] at hmj; exact Option.some.inj hmj
    subst this
    have hkne : x.key ≠ y.key := by
      rcases hne with h0 | h0
      · exact absurd rfl h0
      · exact h0
    have : e ≠ e' := fun heq => hkne (by rw [← hek, ← hek', heq])
    exact pairwise_sym_mem Rsym mi (hfl.1 mi hmi') e he e' he' this
  · have hlen_i : i < r.memos.length := (List.getElem?_eq_some_iff.mp hmi).1
    have hlen_j : j < r.memos.length := (List.getElem?_eq_some_iff.mp hmj).1
    have ei : r.memos[i] = mi := (List.getElem?_eq_some_iff.mp hmi).2
    have ej : r.memos[j] = mj := (List.getElem?_eq_some_iff.mp hmj).2
    have pw := List.pairwise_iff_getElem.mp hfl.2
    rcases Nat.lt_or_gt_of_ne hij with hlt | hgt
    · have := pw i j hlen_i hlen_j hlt
      rw [ei, ej] at this
      exact this e he e' he'
    · have := pw j i hlen_j hlen_i hgt
      rw [ei, ej] at this
      exact Rsym _ _ (this e' he' e he)

end

/-! ### non-vacuity: the counter-suffix primitive meets the contract -/

/-- Non-vacuity of every theorem above: the concrete counter-suffix primitive satisfies `Contract`. -/
theorem copyOneRef_contract : Contract copyOneRef (fun x d op => ∃ dd, CopiedRef dd x d op) where
  allowed := by
    intro a x r h
    rcases copyOneRef_ok a x r h with ⟨h1, _, _, _, h5⟩ | ⟨_, h2, _⟩
    · rw [h1]; exact h5
    · exact h2
  leave := by
    intro a x r h hl
    rcases copyOneRef_ok a x r h with ⟨_, h2, h3, h4, _⟩ | ⟨h1, _⟩
    · exact ⟨h2, h3, h4⟩
    · exact absurd hl h1
  fresh := by
    intro a x r h hl p hp
    rcases copyOneRef_ok a x r h with ⟨h1, _⟩ | ⟨_, _, c, hd, hfr, _, _⟩
    · exact absurd h1 hl
    · refine ⟨?_, hfr p hp⟩
      rw [hd] at hp
      simp only [List.mem_map] at hp
      obtain ⟨q, _, rfl⟩ := hp
      exact candidate_under _ _ _
  clashes := by
    intro a x r h hl p
    rcases copyOneRef_ok a x r h with ⟨h1, _⟩ | ⟨_, _, _, _, _, hS, _⟩
    · exact absurd h1 hl
    · rw [hS]; exact List.mem_append
  ex := by
    intro a x r h hl p
    rcases copyOneRef_ok a x r h with ⟨h1, _⟩ | ⟨_, _, _, _, _, _, hE⟩
    · exact absurd h1 hl
    · rw [hE]; exact List.mem_append
  content := by
    intro a x r h
    rcases copyOneRef_ok a x r h with ⟨_, h2, _⟩ | ⟨_, _, c, hd, _⟩
    · rw [h2]; exact ⟨rfl, rfl⟩
    · rw [hd]; exact ⟨rfl, rfl⟩
  copied := by
    intro a x r h
    refine ⟨a.destDir, ?_⟩
    rcases copyOneRef_ok a x r h with ⟨h1, h2, _⟩ | ⟨h1, _, c, hd, _⟩
    · exact Or.inl ⟨h1, h2⟩
    · exact Or.inr ⟨h1, c, by rw [hd]⟩

/-! ### progress -/

/-- **C33 progress (reference primitive).**  When nothing exists yet inside the workflow directory, `copyfile_workflow`
    with the counter-suffix primitive cannot fail with `FileExistsError`, nor with an unsatisfiable copy mode: names that
    coincide — within a value, across fields, with or without counters already in them — are always resolved.  (Contrast
    `C34_witness_cross_field`: with a clash set per field the very same inputs raise.) -/
theorem C33_progress_ref (get : Table → Str → Mount.Entry) (tbl : Table) (wfDir : Path) (fields : List (Str × Val))
    (ex : List Path) (n : Nat) (hfresh : ∀ p ∈ ex, ¬ Under wfDir p) (e : Err)
    (h : copyfileWorkflow copyOneRef get tbl wfDir fields ex n = .error e) :
    e = "ValueError".toList ∨ e = "model:unsupported-by-ref".toList ∨ e = "model:fuel".toList := by
  have hb := collectLoop_ref_err (wfEnv get tbl wfDir) fields [] ex n e (fun p hp hu => absurd hu (hfresh p hp)) h
  rcases hb with h1 | h1 | ⟨_, x, h2⟩ | h1
  · exact Or.inl h1
  · exact Or.inr (Or.inl h1)
  · -- an unsatisfiable mode cannot occur: `copy` is always selected (wf_sel)
    exfalso
    obtain ⟨_, _, hcopy⟩ := wf_sel get tbl wfDir x
    unfold chooseOp at h2
    simp only [hcopy, if_true] at h2
    split at h2 <;> (try split at h2) <;> (try split at h2) <;> simp at h2
  · exact Or.inr (Or.inr h1)


/-! ### independence of the declared type -/

/-- `copyfile_workflow` has no per-field test: the loop with a skip predicate that never fires IS the loop.  (All C33
    theorems quantify over field lists `List (Str × Val)`: name and value, no declared type.) -/
theorem C33_no_type_dependence (P : Prim) (env : Env) :
    ∀ (fields : List (Str × Val)) (S ex : List Path) (n : Nat),
      collectLoopSkip P env (fun _ => false) fields S ex n = collectLoop P env fields S ex n
  | [], S, ex, n => by simp [collectLoopSkip, collectLoop]
  | (name, v) :: fs, S, ex, n => by
    simp only [collectLoopSkip, collectLoop, Bool.false_eq_true, if_false]
    cases copyNested P env (some S) ex n v with
    | error e => rfl
    | ok q =>
      obtain ⟨v', st⟩ := q
      simp only [C33_no_type_dependence P env fs st.clashes st.ex st.nextId]

/-- **Witness: what skipping a field costs.**  Two fields holding files of two node directories; a loop that skips field
    `bundle` (say, because it is declared `list`) returns it untouched: its file still lies in the node directory, not in
    the workflow directory — the "collected into the workflow's cache directory" clause fails for it — while the real loop
    (`copyfileWorkflow`) brings both under `/wf`. -/
theorem C33_witness_skipped_field :
    let fields : List (Str × Val) :=
      [("out".toList, .file ⟨1, "File".toList, ["/n1/out.txt".toList], 10⟩),
       ("bundle".toList, .node 7 .list [.file ⟨2, "File".toList, ["/n2/out.txt".toList], 20⟩])]
    let ex : List Path := ["/n1/out.txt".toList, "/n2/out.txt".toList]
    let paths := fun (r : Except Err Collected) => match r with
      | .ok c => c.fields.map (fun f => (leaves f.2).map (fun x => x.paths.map String.ofList))
      | .error _ => []
    paths (collectLoopSkip copyOneRef (wfEnv Mount.getMountComp [] "/wf".toList) (fun f => f.1 == "bundle".toList) fields [] ex 100)
      = [[["/wf/out.txt"]], [["/n2/out.txt"]]]
    ∧ paths (copyfileWorkflow copyOneRef Mount.getMountComp [] "/wf".toList fields ex 100)
      = [[["/wf/out.txt"]], [["/wf/out (1).txt"]]] := by
  decide +kernel

/-! ### a concrete run (non-vacuity of the hypotheses `… = .ok r`, and of "names coincide") -/

private def fA : FileObj := ⟨1, "File".toList, ["/n1/out.txt".toList], 10⟩
private def fB : FileObj := ⟨2, "File".toList, ["/n2/out.txt".toList], 20⟩
private def fC : FileObj := ⟨3, "File".toList, ["/n3/g.txt".toList], 30⟩

/-- Three output fields; `out.txt` comes from two node directories and the object `fA` occurs three times (twice in
    field `a`, once in field `b`). -/
private def demoFields : List (Str × Val) :=
  [ ("a".toList, .node 7 .list [.file fA, .node 8 .tuple [.file fB, .atom "1".toList, .file fA]]),
    ("b".toList, .node 9 .dict [.atom "'k'".toList, .file fA, .atom "'n'".toList, .atom "None".toList]),
    ("c".toList, .file fC) ]

private def demoRun := copyfileWorkflow copyOneRef Mount.getMountComp [] "/wf".toList demoFields
  ["/n1/out.txt".toList, "/n2/out.txt".toList, "/n3/g.txt".toList] 100

/-- The run succeeds, and the destinations are `out.txt`, `out (1).txt` (field a), `out (2).txt` (field b: the memo is
    per call, the clash set is shared), `g.txt`. -/
example : (match demoRun with
    | .ok r => r.memos.flatten.map (fun e => e.dst.paths.map String.ofList)
    | .error _ => []) = [["/wf/out.txt"], ["/wf/out (1).txt"], ["/wf/out (2).txt"], ["/wf/g.txt"]] := by
  decide +kernel

example : (match demoRun with
    | .ok r => beqList (r.fields.map (fun f => shape f.2)) (demoFields.map (fun f => shape f.2))
    | .error _ => false) = true := by
  decide +kernel

end PydraModel.Files
