import PydraModel.WfCache.Lemmas
import PydraModel.Props.C03
/-
C30 — Workflow construction caching and repeated runs are transparent.

`runHist`  : the machine with `Workflow._constructed_cache` (three levels, exact and superset-of-lazy hits, `clear_cache`),
             the per-instance memo `WorkflowTask._constructed`, and the result store of a shared cache root.
`specHist` : the same operations without any cache — every construct / run calls the constructor on the task's current values.

FULL statement (`C30_full_statement`): for every history the observations coincide.  It is FALSE for the pinned tree:
  `C30_witness_stale`    (D19)  `w.construct(); w.x = 10; w()` runs the memoised graph built with the old `x`
  `C30_witness_closure`  (D28)  two classes with the same constructor source and different closure values share a cache entry
  `C30_witness_lazy_branch`     a constructor that branches on an input that was lazy leaks through the superset-of-lazy path
                                (why `LazyParametric` is a hypothesis; not a finding: such a constructor is outside the domain)
PROVED (`C30_partial`, histories of ANY length, any number of tasks, classes and values; constructor, hashes, execution and
view uninterpreted): if no input is assigned in place after the instance memoised its construction (`okHist`, decidable),
classes with equal hash have equal constructors (`ClosureFree`), the value hash separates the values (`HashInj`, C08) and
the constructor does not branch on lazy inputs (`LazyParametric`), then cached = uncached, observation by observation.

REPEATED RUNS OVER THE SAME OBJECTS.  The cache hands the same `Workflow` — the same node and `State` objects — to every task
with equal inputs, and every `Submitter` call re-applies `Workflow._create_graph` to them.  In the machine above `exec` is
a function of (graph, inputs); whether executing really leaves the graph as it was is a statement about the state machinery
(engine WfState, `Model.runTwice`):
  `C30_create_graph_idempotent_Simple_partial`   PROVED for every workflow of the class `Simple` (no combiner, no scalar
                          splitter, no shared origins; WfState/Simple.lean): the second run — graph pass over the state objects
                          the first run left behind, then all nodes — succeeds with exactly the first run's result.
  `C30_witness_rerun_partial_zip`  (D29)  outside the class: the first run succeeds, the second raises PydraStateError
  `C30_witness_rerun_name_clash`   (D39)  outside the class: the first run succeeds AND agrees with the reference, the second
                          raises AttributeError
  `C30_create_graph_not_idempotent`      hence the unrestricted statement is false for the pinned tree.
-/
namespace PydraModel.WfCache

variable (S : Sig)

/-- The memoised workflow of a task is indistinguishable from a fresh construction on the task's current values. -/
def MemoOK (t : TaskSt S) (wf : WfObj S) : Prop :=
  ∃ g, S.ctor t.cls (mask S Fld.all t.vals) = .ok g ∧
    S.view wf.graph wf.inputs = S.view g (mask S Fld.all t.vals) ∧
    S.exec wf.graph wf.inputs = S.exec g (mask S Fld.all t.vals)

/-- A stored result is what a fresh construction + run of some task with that checksum produces. -/
def StoreOK (key : S.HT × S.HV) (o : S.Out) : Prop :=
  ∃ (c : Nat) (vals : Fld → S.Val) (g : S.G),
    key = (S.typeHash c, S.valHash (restrict S Fld.all vals)) ∧ S.ctor c (mask S Fld.all vals) = .ok g ∧
    o = S.exec g (mask S Fld.all vals)

structure Inv (st : State S) (sst : SpecState S) (touched : List Nat) : Prop where
  len : st.tasks.length = sst.length
  corr : ∀ (i : Nat) (t : TaskSt S), st.tasks[i]? = some t → sst[i]? = some (t.cls, t.vals)
  cache : CacheInv S st.cache
  memo : ∀ (i : Nat) (t : TaskSt S) (wf : WfObj S), st.tasks[i]? = some t → t.memo = some wf → i ∈ touched ∧ MemoOK S t wf
  store : ∀ (key : S.HT × S.HV) (o : S.Out), (key, o) ∈ st.store → StoreOK S key o

theorem keysOf_nil : keysOf [] = Fld.all := by decide

theorem Inv.none {st : State S} {sst : SpecState S} {touched : List Nat} (h : Inv S st sst touched) (i : Nat)
    (hn : st.tasks[i]? = none) : sst[i]? = none := by
  rw [List.getElem?_eq_none_iff] at hn ⊢
  rw [← h.len]; exact hn

/-- `WorkflowTask.construct()` keeps the invariant and returns a workflow indistinguishable from a fresh construction. -/
theorem tconstruct_sound (hcf : ClosureFree S) (hinj : HashInj S) (hpar : LazyParametric S)
    (st : State S) (sst : SpecState S) (touched : List Nat) (hI : Inv S st sst touched)
    (i : Nat) (t : TaskSt S) (ht : st.tasks[i]? = some t) :
    Inv S (tconstruct S st i t).2 sst (i :: touched) ∧
    ResultOK S (tconstruct S st i t).1 t.cls Fld.all t.vals ∧
    (tconstruct S st i t).2.store = st.store := by
  unfold tconstruct
  cases hm : t.memo with
  | some wf =>
    simp only
    obtain ⟨_, g, hg, hv, he⟩ := hI.memo i t wf ht hm
    refine ⟨⟨hI.len, hI.corr, hI.cache, ?_, hI.store⟩, ?_, by first | rfl | trivial⟩
    · intro j t' wf' hj hm'
      obtain ⟨h1, h2⟩ := hI.memo j t' wf' hj hm'
      exact ⟨List.mem_cons_of_mem _ h1, h2⟩
    · unfold ResultOK; rw [hg]; exact ⟨wf, rfl, hv, he⟩
  | none =>
    simp only
    have hs := construct_sound S hcf hinj hpar st.cache hI.cache t.cls t.vals []
    rw [keysOf_nil] at hs
    obtain ⟨hc, hr⟩ := hs
    cases hres : construct S st.cache t.cls t.vals [] with
    | mk r cache' =>
      rw [hres] at hc hr
      simp only at hc hr
      cases r with
      | error e =>
        simp only
        refine ⟨⟨hI.len, hI.corr, hc, ?_, hI.store⟩, hr, by first | rfl | trivial⟩
        intro j t' wf' hj hm'
        obtain ⟨h1, h2⟩ := hI.memo j t' wf' hj hm'
        exact ⟨List.mem_cons_of_mem _ h1, h2⟩
      | ok wf =>
        simp only
        have hlt : i < st.tasks.length := by
          rcases Nat.lt_or_ge i st.tasks.length with h | h
          · exact h
          · rw [List.getElem?_eq_none_iff.mpr h] at ht; simp at ht
        refine ⟨⟨?_, ?_, hc, ?_, hI.store⟩, hr, by first | rfl | trivial⟩
        · simp [setTask, hI.len]
        · intro j t' hj
          simp only [setTask, List.getElem?_set] at hj
          by_cases hij : i = j
          · subst hij
            simp only [hlt, if_true, Option.some.injEq] at hj
            subst hj
            exact hI.corr i t ht
          · simp only [hij, if_false] at hj
            exact hI.corr j t' hj
        · intro j t' wf' hj hm'
          simp only [setTask, List.getElem?_set] at hj
          by_cases hij : i = j
          · subst hij
            simp only [hlt, if_true, Option.some.injEq] at hj
            subst hj
            simp only [Option.some.injEq] at hm'
            subst hm'
            refine ⟨List.mem_cons_self, ?_⟩
            unfold ResultOK at hr
            cases hct : S.ctor t.cls (mask S Fld.all t.vals) with
            | error e => rw [hct] at hr; simp at hr
            | ok g =>
              rw [hct] at hr
              obtain ⟨wf'', hw, hv, he⟩ := hr
              have : wf = wf'' := by simpa using hw
              subst this
              exact ⟨g, hct, hv, he⟩
          · simp only [hij, if_false] at hj
            obtain ⟨h1, h2⟩ := hI.memo j t' wf' hj hm'
            exact ⟨List.mem_cons_of_mem _ h1, h2⟩

/-- One operation: same observation, invariant kept. -/
theorem step_sound (hcf : ClosureFree S) (hinj : HashInj S) (hpar : LazyParametric S)
    (st : State S) (sst : SpecState S) (touched : List Nat) (hI : Inv S st sst touched) (op : Op S)
    (rest : List (Op S)) (hok : okHist S touched (op :: rest) = true) :
    ∃ touched', okHist S touched' rest = true ∧
      (step S st op).1 = (specStep S sst op).1 ∧ Inv S (step S st op).2 (specStep S sst op).2 touched' := by
  cases op with
  | construct i lazy =>
    refine ⟨touched, by simpa [okHist] using hok, ?_⟩
    simp only [step, specStep]
    cases ht : st.tasks[i]? with
    | none => rw [hI.none S i ht]; exact ⟨rfl, hI⟩
    | some t =>
      rw [hI.corr i t ht]
      simp only
      obtain ⟨hc, hr⟩ := construct_sound S hcf hinj hpar st.cache hI.cache t.cls t.vals lazy
      cases hres : construct S st.cache t.cls t.vals lazy with
      | mk r cache' =>
        rw [hres] at hc hr
        simp only at hc hr
        unfold ResultOK at hr
        cases hct : S.ctor t.cls (mask S (keysOf lazy) t.vals) with
        | error e =>
          rw [hct] at hr
          subst hr
          exact ⟨rfl, ⟨hI.len, hI.corr, hc, hI.memo, hI.store⟩⟩
        | ok g =>
          rw [hct] at hr
          obtain ⟨wf, hw, hv, _⟩ := hr
          subst hw
          simp only
          exact ⟨by rw [hv], ⟨hI.len, hI.corr, hc, hI.memo, hI.store⟩⟩
  | tconstruct i =>
    refine ⟨i :: touched, by simpa [okHist] using hok, ?_⟩
    simp only [step, specStep]
    cases ht : st.tasks[i]? with
    | none =>
      rw [hI.none S i ht]
      refine ⟨rfl, ⟨hI.len, hI.corr, hI.cache, ?_, hI.store⟩⟩
      intro j t' wf' hj hm'
      obtain ⟨h1, h2⟩ := hI.memo j t' wf' hj hm'
      exact ⟨List.mem_cons_of_mem _ h1, h2⟩
    | some t =>
      rw [hI.corr i t ht]
      simp only
      obtain ⟨hI', hr, _⟩ := tconstruct_sound S hcf hinj hpar st sst touched hI i t ht
      cases hres : tconstruct S st i t with
      | mk r st' =>
        rw [hres] at hI' hr
        simp only at hI' hr
        unfold ResultOK at hr
        cases hct : S.ctor t.cls (mask S Fld.all t.vals) with
        | error e => rw [hct] at hr; subst hr; exact ⟨rfl, hI'⟩
        | ok g =>
          rw [hct] at hr
          obtain ⟨wf, hw, hv, _⟩ := hr
          subst hw
          simp only
          exact ⟨by rw [hv], hI'⟩
  | run i shared =>
    refine ⟨i :: touched, by simpa [okHist] using hok, ?_⟩
    simp only [step, specStep]
    have hmono : ∀ {st' : State S}, Inv S st' sst touched → Inv S st' sst (i :: touched) := by
      intro st' h
      refine ⟨h.len, h.corr, h.cache, ?_, h.store⟩
      intro j t' wf' hj hm'
      obtain ⟨h1, h2⟩ := h.memo j t' wf' hj hm'
      exact ⟨List.mem_cons_of_mem _ h1, h2⟩
    cases ht : st.tasks[i]? with
    | none => rw [hI.none S i ht]; exact ⟨rfl, hmono hI⟩
    | some t =>
      rw [hI.corr i t ht]
      simp only
      cases hlk : (if shared = true then lookup st.store (S.typeHash t.cls, S.valHash (restrict S Fld.all t.vals)) else none) with
      | some o =>
        simp only
        -- a stored result: it is what a fresh run of this very task produces
        have hmem : ((S.typeHash t.cls, S.valHash (restrict S Fld.all t.vals)), o) ∈ st.store := by
          cases shared with
          | false => simp at hlk
          | true => simp only [if_true] at hlk; exact lookup_mem _ _ _ hlk
        obtain ⟨c', vals', g, hkey, hct, ho⟩ := hI.store _ _ hmem
        obtain ⟨hth, hvh⟩ := Prod.mk.inj hkey
        have hm : mask S Fld.all vals' = mask S Fld.all t.vals := mask_congr S (restrict_eq S (hinj _ _ hvh).symm)
        have hc : S.ctor t.cls (mask S Fld.all t.vals) = .ok g := by rw [← hm, hcf t.cls c' hth]; exact hct
        rw [hc]
        simp only
        exact ⟨by rw [ho, hm], hmono hI⟩
      | none =>
        simp only
        obtain ⟨hI', hr, hst⟩ := tconstruct_sound S hcf hinj hpar st sst touched hI i t ht
        cases hres : tconstruct S st i t with
        | mk r st' =>
          rw [hres] at hI' hr hst
          simp only at hI' hr hst
          unfold ResultOK at hr
          cases hct : S.ctor t.cls (mask S Fld.all t.vals) with
          | error e => rw [hct] at hr; subst hr; exact ⟨rfl, hI'⟩
          | ok g =>
            rw [hct] at hr
            obtain ⟨wf, hw, _, he⟩ := hr
            subst hw
            simp only
            refine ⟨by rw [he], ?_⟩
            cases shared with
            | false => exact hI'
            | true =>
              simp only [if_true]
              refine ⟨hI'.len, hI'.corr, hI'.cache, hI'.memo, ?_⟩
              intro key o hm
              rcases mem_insertAt _ _ _ _ hm with h | h
              · obtain ⟨rfl, rfl⟩ := Prod.mk.inj h
                exact ⟨t.cls, t.vals, g, rfl, hct, he⟩
              · exact hI'.store key o h
  | set i f v =>
    have hnt : i ∉ touched := by
      simp only [okHist, Bool.and_eq_true, Bool.not_eq_eq_eq_not, Bool.not_true] at hok
      intro hm
      have := List.contains_iff_mem.mpr hm
      rw [hok.1] at this; exact absurd this (by simp)
    refine ⟨touched, by simp only [okHist, Bool.and_eq_true] at hok; exact hok.2, ?_⟩
    simp only [step, specStep]
    cases ht : st.tasks[i]? with
    | none => rw [hI.none S i ht]; exact ⟨rfl, hI⟩
    | some t =>
      rw [hI.corr i t ht]
      simp only
      have hlt : i < st.tasks.length := by
        rcases Nat.lt_or_ge i st.tasks.length with h | h
        · exact h
        · rw [List.getElem?_eq_none_iff.mpr h] at ht; simp at ht
      have hmn : t.memo = none := by
        cases hm : t.memo with
        | none => rfl
        | some wf => exact absurd (hI.memo i t wf ht hm).1 hnt
      refine ⟨by first | rfl | trivial, ⟨?_, ?_, hI.cache, ?_, hI.store⟩⟩
      · simp [setTask, hI.len]
      · intro j t' hj
        simp only [setTask, List.getElem?_set] at hj
        by_cases hij : i = j
        · subst hij
          simp only [hlt, if_true, Option.some.injEq] at hj
          subst hj
          simp [List.getElem?_set, ← hI.len, hlt]
        · simp only [hij, if_false] at hj
          simp only [List.getElem?_set, hij, if_false]
          exact hI.corr j t' hj
      · intro j t' wf' hj hm'
        simp only [setTask, List.getElem?_set] at hj
        by_cases hij : i = j
        · subst hij
          simp only [hlt, if_true, Option.some.injEq] at hj
          subst hj
          simp [hmn] at hm'
        · simp only [hij, if_false] at hj
          exact hI.memo j t' wf' hj hm'
  | clear =>
    refine ⟨touched, by simpa [okHist] using hok, ?_⟩
    simp only [step, specStep]
    refine ⟨by first | rfl | trivial, ⟨hI.len, hI.corr, ?_, hI.memo, hI.store⟩⟩
    intro th l2 hm
    simp at hm

theorem hist_eq (hcf : ClosureFree S) (hinj : HashInj S) (hpar : LazyParametric S)
    (ops : List (Op S)) (st : State S) (sst : SpecState S) (touched : List Nat)
    (hI : Inv S st sst touched) (hok : okHist S touched ops = true) :
    runHist S st ops = specHist S sst ops := by
  induction ops generalizing st sst touched with
  | nil => rfl
  | cons op rest ih =>
    obtain ⟨touched', hok', hobs, hI'⟩ := step_sound S hcf hinj hpar st sst touched hI op rest hok
    simp only [runHist, specHist]
    rw [hobs, ih _ _ touched' hI' hok']

theorem inv_init (tasks : List (Nat × (Fld → S.Val))) : Inv S (init S tasks) tasks [] := by
  refine ⟨by simp [init], ?_, ?_, ?_, ?_⟩
  · intro i t ht
    simp only [init, List.getElem?_map] at ht
    cases h : tasks[i]? with
    | none => simp [h] at ht
    | some p =>
      obtain ⟨c, v⟩ := p
      simp only [h, Option.map_some, Option.some.injEq] at ht
      subst ht; rfl
  · intro th l2 hm; simp [init] at hm
  · intro i t wf ht hm
    simp only [init, List.getElem?_map] at ht
    cases h : tasks[i]? with
    | none => simp [h] at ht
    | some p =>
      simp only [h, Option.map_some, Option.some.injEq] at ht
      subst ht; simp at hm
  · intro key o hm; simp [init] at hm

/-- C30, PARTIAL: for histories of any length without in-place input change after the instance memoised its
    construction, with closure-free constructors, collision-free value hashing and constructors that do not branch on lazy
    inputs, the caching machine and the cache-less reference produce the same observation at every step. -/
theorem C30_partial (hcf : ClosureFree S) (hinj : HashInj S) (hpar : LazyParametric S)
    (tasks : List (Nat × (Fld → S.Val))) (ops : List (Op S)) (hok : okHist S [] ops = true) :
    runHist S (init S tasks) ops = specHist S tasks ops :=
  hist_eq S hcf hinj hpar ops _ _ [] (inv_init S tasks) hok

/-- The superset-of-lazy lemma on its own: whatever the (invariant-respecting) cache holds, `Workflow.construct` returns a
    workflow indistinguishable from the constructor applied to the requested non-lazy values. -/
theorem C30_superset (hcf : ClosureFree S) (hinj : HashInj S) (hpar : LazyParametric S)
    (cache : Cache S) (hinv : CacheInv S cache) (c : Nat) (vals : Fld → S.Val) (lazy : List Fld) :
    ResultOK S (construct S cache c vals lazy).1 c (keysOf lazy) vals :=
  (construct_sound S hcf hinj hpar cache hinv c vals lazy).2

/-- The FULL statement: no hypothesis on the history or on the constructor's hash.  NOT claimed (false, see witnesses). -/
def C30_full_statement : Prop :=
  ∀ (S : Sig) (tasks : List (Nat × (Fld → S.Val))) (ops : List (Op S)),
    HashInj S → LazyParametric S → runHist S (init S tasks) ops = specHist S tasks ops

/-! ### Witnesses and non-vacuity (a small concrete signature; kernel evaluation) -/

/-- A constructed "graph" in the witness signatures: the class' closure constant, a branch marker, and the inputs as
    the constructor saw them (`none` = lazy). -/
abbrev WG := Nat × Nat × List (Option Nat)

/-- Resolve the lazy inputs of a witness graph through the workflow's inputs (what running / viewing does). -/
def wResolve (g : WG) (inputs : Fld → Option Nat) : WG :=
  (g.1, g.2.1, List.zipWith (fun o f => match o with | some v => some v | none => inputs f) g.2.2 Fld.all)

/-- Signature A: every class has its own hash, the constructor records its inputs and does not branch on them. -/
@[reducible] def sigA : Sig :=
  { Val := Nat, G := WG, Out := WG, View := WG, E := Unit, HT := Nat, HV := List (Fld × Nat)
    ctor := fun c nl => .ok (c, 0, Fld.all.map nl)
    typeHash := id
    valHash := id
    exec := wResolve
    view := wResolve }

/-- Signature B: all classes share one hash (same constructor source), the constructor depends on the class (closure). -/
@[reducible] def sigB : Sig :=
  { Val := Nat, G := WG, Out := WG, View := WG, E := Unit, HT := Nat, HV := List (Fld × Nat)
    ctor := fun c nl => .ok (c, 0, Fld.all.map nl)
    typeHash := fun _ => 0
    valHash := id
    exec := wResolve
    view := wResolve }

/-- Signature C: the constructor branches on whether `b` is lazy (`if b:` with a LazyInField is truthy). -/
@[reducible] def sigC : Sig :=
  { Val := Nat, G := WG, Out := WG, View := WG, E := Unit, HT := Nat, HV := List (Fld × Nat)
    ctor := fun c nl => .ok (c, if (nl .b).isNone then 1 else 0, Fld.all.map nl)
    typeHash := id
    valHash := id
    exec := wResolve
    view := wResolve }

theorem sigA_closureFree : ClosureFree sigA := by
  intro c1 c2 h
  have : c1 = c2 := h
  rw [this]

theorem sigA_hashInj : HashInj sigA := fun _ _ h => h

/-- Resolving a graph built with the non-lazy keys `ks` through inputs that set the keys `keys ⊇ ks` gives the graph built
    with `keys`. -/
theorem wResolve_mask (c m : Nat) (ks keys : List Fld) (vals : Fld → Nat) (hsub : subsetOf ks keys = true) :
    wResolve (c, m, Fld.all.map (mask sigA ks vals)) (mask sigA keys vals) = (c, m, Fld.all.map (mask sigA keys vals)) := by
  have hs : ∀ f, f ∈ ks → f ∈ keys := by
    intro f hf
    unfold subsetOf at hsub
    rw [List.all_eq_true] at hsub
    exact List.contains_iff_mem.mp (hsub f hf)
  have e : ∀ f : Fld,
      (match mask sigA ks vals f with
        | some v => some v
        | none => mask sigA keys vals f) = mask sigA keys vals f := by
    intro f
    unfold mask
    by_cases h1 : f ∈ ks
    · have h2 := hs f h1
      simp [h1, h2]
    · by_cases h2 : f ∈ keys <;> simp [h1, h2]
  show (c, m, [_, _, _, _]) = (c, m, [_, _, _, _])
  have ex := e .x; have ey := e .y; have en := e .n; have eb := e .b
  exact congrArg (fun l => (c, m, l)) (by
    refine congr (congrArg List.cons ex) (congr (congrArg List.cons ey) (congr (congrArg List.cons en)
      (congr (congrArg List.cons eb) rfl))))

theorem sigA_lazyParametric : LazyParametric sigA := by
  intro c vals ks keys g' hsub hg
  have hg' : g' = (c, 0, Fld.all.map (mask sigA ks vals)) := (Except.ok.inj hg).symm
  subst hg'
  have h1 := wResolve_mask c 0 ks keys vals hsub
  have h2 := wResolve_mask c 0 keys keys vals (subsetOf_refl keys)
  exact ⟨(c, 0, Fld.all.map (mask sigA keys vals)), rfl, h1.trans h2.symm, h1.trans h2.symm⟩

private def v1 : Fld → Nat := fun _ => 1

/-- The D19 history: `w.construct(); w.x = 10; w()`. -/
def staleHist : List (Op sigA) := [.tconstruct 0, .set 0 .x 10, .run 0 false]

/-- WITNESS D19: after `w.construct(); w.x = 10`, the run uses the memoised graph built with `x = 1`; a fresh construction
    uses `x = 10`.  The history violates `okHist` (in-place change after construct) and nothing else. -/
theorem C30_witness_stale :
    (runHist sigA (init sigA [(0, v1)]) staleHist).getLast? = some (.out (0, 0, [some 1, some 1, some 1, some 1])) ∧
    (specHist sigA [(0, v1)] staleHist).getLast? = some (.out (0, 0, [some 10, some 1, some 1, some 1])) ∧
    okHist sigA [] staleHist = false :=
  ⟨rfl, rfl, rfl⟩

/-- The D28 history: two classes made by one factory (same source, different closure), same input values. -/
def closureHist : List (Op sigB) := [.run 0 false, .run 1 false]

/-- WITNESS D28: the second class is served the first class' constructed graph (closure constant 0 instead of 1),
    although the history satisfies `okHist`; what fails is `ClosureFree`. -/
theorem C30_witness_closure :
    (runHist sigB (init sigB [(0, v1), (1, v1)]) closureHist).getLast? = some (.out (0, 0, [some 1, some 1, some 1, some 1])) ∧
    (specHist sigB [(0, v1), (1, v1)] closureHist).getLast? = some (.out (1, 0, [some 1, some 1, some 1, some 1])) ∧
    okHist sigB [] closureHist = true ∧ ¬ ClosureFree sigB := by
  refine ⟨rfl, rfl, rfl, ?_⟩
  intro h
  have := congrFun (h 0 1 rfl) (fun _ => none)
  have h2 := Except.ok.inj this
  exact absurd (congrArg Prod.fst h2) (by decide)

/-- A constructor branching on a lazy input: `construct(lazy=[b])` then `construct()` — the superset-of-lazy path returns
    the graph of the lazy branch (marker 1), a fresh construction takes the other branch (marker 0). -/
def lazyBranchHist : List (Op sigC) := [.construct 0 [.b], .construct 0 []]

theorem C30_witness_lazy_branch :
    (runHist sigC (init sigC [(0, v1)]) lazyBranchHist).getLast? = some (.view (0, 1, [some 1, some 1, some 1, some 1])) ∧
    (specHist sigC [(0, v1)] lazyBranchHist).getLast? = some (.view (0, 0, [some 1, some 1, some 1, some 1])) ∧
    okHist sigC [] lazyBranchHist = true :=
  ⟨rfl, rfl, rfl⟩

theorem Obs.out_inj {S : Sig} {a b : S.Out} (h : (Obs.out a : Obs S) = Obs.out b) : a = b := by
  injection h

/-- The full statement is false: the D19 history is a counter-example in a signature that satisfies `HashInj` and
    `LazyParametric` (and even `ClosureFree`). -/
theorem C30_full_statement_false : ¬ C30_full_statement := by
  intro h
  have heq := h sigA [(0, v1)] staleHist sigA_hashInj sigA_lazyParametric
  have h1 := C30_witness_stale.1
  have h2 := C30_witness_stale.2.1
  rw [heq, h2] at h1
  have := Obs.out_inj (Option.some.inj h1)
  exact absurd this (by decide)

/-- Non-vacuity of `C30_partial`: signature A meets all three hypotheses, and this seven-step history (partially lazy
    construction, superset hit, assignment before any memo, repeated runs into the shared root, cache clearing) meets
    `okHist`; the theorem applies to it. -/
def goodHist : List (Op sigA) :=
  [.construct 0 [.x], .construct 0 [], .set 0 .x 5, .run 0 true, .run 0 true, .clear, .tconstruct 0, .run 1 true]

example : okHist sigA [] goodHist = true := by decide

example : runHist sigA (init sigA [(0, v1), (0, v1)]) goodHist = specHist sigA [(0, v1), (0, v1)] goodHist :=
  C30_partial sigA sigA_closureFree sigA_hashInj sigA_lazyParametric _ _ (by decide)

end PydraModel.WfCache

/-! ### repeated runs over the same node and state objects -/
namespace PydraModel.WfState
open Model

/-- **`_create_graph` + run is idempotent on the class `Simple` (PARTIAL).**  Running a constructed workflow of the class a
    second time over the same state objects gives exactly the first run's result (outputs, job counts, job outputs). -/
theorem C30_create_graph_idempotent_Simple_partial (w : Wf) (h : Simple.simple w = true) :
    ∃ m, Model.run w = .ok m ∧ ∃ r2, Model.runTwice w = .ok (m, r2) ∧ r2 = .ok m :=
  Simple.simple_rerun w h

/-- WITNESS (D29): first run fine (no job at the fan-in: the model's and the code's shared defect), second run
    PydraStateError from `_remove_repeated`: after the first run `N0`'s final splitter is empty, `_create_graph` drops it from
    `other_states`, and the fan-in's stored prev-state splitter still names `_N0`. -/
theorem C30_witness_rerun_partial_zip :
    rerunSummary rerunPartialZip = some (.ok [(0, 2), (1, 3), (2, 0)] [[]], .crash .pydraStateError) := by decide +kernel

/-- WITNESS (D39): the first run succeeds and agrees with the reference; the second run raises AttributeError. -/
theorem C30_witness_rerun_name_clash :
    rerunSummary rerunNameClash = some (.ok [(0, 2), (1, 1), (2, 1)] [[[], [], [], [], [], []]], .crash .attributeError) ∧
    specSummary rerunNameClash = .ok [(0, 2), (1, 1), (2, 1)] [[[], [], [], [], [], []]] := by decide +kernel

/-- The unrestricted statement "a second run over the same objects gives the first run's result" is false. -/
theorem C30_create_graph_not_idempotent :
    ¬ (∀ w : Wf, Class.wellFormed w = true → ∀ m r2, Model.runTwice w = .ok (m, r2) → r2 = .ok m) := by
  intro h
  have hw : Class.wellFormed rerunNameClash = true := by decide +kernel
  have hs := C30_witness_rerun_name_clash.1
  unfold rerunSummary at hs
  cases hr : Model.runTwice rerunNameClash with
  | error e => rw [hr] at hs; exact absurd hs (by simp)
  | ok p =>
    obtain ⟨m, r2⟩ := p
    rw [hr] at hs
    have h2 := h rerunNameClash hw m r2 hr
    subst h2
    simp only [Option.some.injEq, Prod.mk.injEq] at hs
    have := hs.1.symm.trans hs.2
    exact absurd this (by decide)

end PydraModel.WfState
